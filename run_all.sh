#!/bin/bash
# run every claimed check (quick by default) on /repo and summarise
tier=${1:-quick}
cd "$(dirname "$0")"
worst=0
for p in $(python3 -c "import json; print(' '.join(c['property_id'] for c in json.load(open('MANIFEST.json'))['checks']))"); do
  out=$(./check $p --tier $tier 2>&1); rc=$?
  echo "$p rc=$rc $(echo "$out" | grep -c '^KNOWN-FINDING') known | $(echo "$out" | tail -1)"
  echo "$out" | grep "^VIOLATION"
  [ $rc -gt $worst ] && worst=$rc
done
exit $worst
