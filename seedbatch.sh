#!/bin/bash
# usage: ./seedbatch.sh <suffix> P1 P2 ... — run seedtest for /tmp/seed/<P><suffix>/seed_out, three at a time; results in /tmp/seed/<P><suffix>.result
cd "$(dirname "$0")"; sfx=$1; shift
printf "%s\n" "$@" | xargs -P 3 -I{} sh -c "./seedtest.sh /tmp/seed/{}$sfx/seed_out {} > /tmp/seed/{}$sfx.result 2>&1"
