#!/bin/bash
# usage: ./merge_branch.sh <name>   (branch b-<name>, worktree /tmp/w/<name>)
set -u
n=$1
cd /verif || exit 2
git merge --no-edit b-$n 2>&1 | tail -3
git rm -q --cached lean/Rpft.lean lean/Rpft/Gen/Tables.lean lean/Driver.lean 2>/dev/null
python3 resolve_union.py lean/Driver.lean known_findings.jsonl lean/driver_ops.txt 2>/dev/null
( cd lean && python3 - <<'PY'
import os,re
names=[]
for f in sorted(os.listdir('Rpft/Drv')):
    if not f.endswith('.lean') or f=='Json.lean': continue
    n=f[:-5]; p='Rpft/Drv/'+f; s=open(p).read()
    if f"namespace Rpft.Drv.{n}D" not in s:
        if "namespace Rpft.Drv\n" in s:
            s=s.replace("namespace Rpft.Drv\n", f"namespace Rpft.Drv.{n}D\nopen Rpft.Drv\n",1)
            s=re.sub(r"\nend Rpft\.Drv\s*$", f"\nend Rpft.Drv.{n}D\n", s)
            open(p,'w').write(s)
    names.append(n)
PY
)
grep -n "<<<<<<<\|>>>>>>>" -r lean/Driver.lean known_findings.jsonl harness *.py *.md 2>/dev/null | head
python3 gen_root.py && ./setup.sh 2>&1 | grep -A8 "error" | head -30
git add -A && git commit -qm "Merge b-$n" && python3 gen_manifest.py && git add -A && git commit -qm "manifest after merging b-$n" -q
git worktree remove --force /tmp/w/$n 2>/dev/null; git branch -D b-$n | tail -1
