#!/usr/bin/env python3
"""rewrite the seeded-changes table of DESIGN.md (between the markers) from seeded/*/meta.json"""
import glob, json, os, re
rows = []
for d in sorted(glob.glob(os.path.join(os.path.dirname(os.path.abspath(__file__)), "seeded", "*"))):
    m = json.load(open(os.path.join(d, "meta.json")))
    det = m.get("detected_by", "")
    missed = "miss" in det.lower() or "strengthen" in det.lower() or "first only" in det.lower()
    outcome = ("missed at first → check strengthened → caught: " if missed else "caught: ") + det
    summ = " ".join(m.get("summary", "").split())
    rows.append(f"| `{os.path.basename(d)}` | {m.get('property')} | {summ[:230]}{'…' if len(summ) > 230 else ''} | {' '.join(outcome.split())[:300]} |")
table = "| seeded change | property | what it does | outcome (which check / stream detects it) |\n|---|---|---|---|\n" + "\n".join(rows)
p = os.path.join(os.path.dirname(os.path.abspath(__file__)), "DESIGN.md")
s = open(p).read()
a, b = "<!-- SEEDS-TABLE-BEGIN -->", "<!-- SEEDS-TABLE-END -->"
assert a in s and b in s
s = s[: s.index(a) + len(a)] + "\n" + table + "\n" + s[s.index(b):]
open(p, "w").write(s)

def between(s, a, b, body):
    assert a in s and b in s, a
    return s[: s.index(a) + len(a)] + "\n" + body + "\n" + s[s.index(b):]


recs = [json.loads(l) for l in open(os.path.join(os.path.dirname(p), "known_findings.jsonl")) if l.strip()]


def what(r):
    w = r.get("what") or r.get("pattern") or ""
    w = re.sub(r"^fixed: property=\S+ \S+ ", "", w)
    return " ".join(w.split())[:330]


seen = set()
fx = []
for r in recs:
    if r.get("status") == "fixed" and (r["id"], r["property"]) not in seen:
        seen.add((r["id"], r["property"]))
        fx.append(f"| {r['id']} | {r['property']} | {r.get('commit', '')} | {what(r)} |")
op = [f"| {r['id']} | {r['property']} | {' '.join((r.get('trigger') or '').split())[:200]} → {what(r)} |" for r in recs if r.get("status") == "open"]
s = open(p).read()
s = between(s, "<!-- FIXES-TABLE-BEGIN -->", "<!-- FIXES-TABLE-END -->", "| finding | property | commit | what failed |\n|---|---|---|---|\n" + "\n".join(fx))
s = between(s, "<!-- OPEN-TABLE-BEGIN -->", "<!-- OPEN-TABLE-END -->", "| finding | property | trigger → what fails |\n|---|---|---|\n" + "\n".join(op))
open(p, "w").write(s)
print(len(rows), "seeded changes;", len(fx), "fixed;", len(op), "open")
