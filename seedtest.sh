#!/bin/bash
# usage: ./seedtest.sh <dir-with-patch.diff+demo.py> <PROP> [tier] — confirm a seeded change and run the check against it (scratch copy of /repo HEAD)
d=$1; prop=$2; tier=${3:-quick}
w=/tmp/st_$$
git -C /repo worktree add -q --detach $w HEAD || exit 2
cd $w
echo "--- demo WITHOUT change:"; PYTHONPATH=$w/src /venv/bin/python $d/demo.py >/tmp/st_out_$$ 2>&1; echo "exit=$?"; tail -2 /tmp/st_out_$$
if ! git apply $d/patch.diff; then echo "PATCH DOES NOT APPLY to HEAD"; cd /; git -C /repo worktree remove --force $w; exit 3; fi
echo "--- tests WITH change:"; PYTHONPATH=$w/src /venv/bin/python -m pytest -q -p no:cacheprovider 2>&1 | tail -1
echo "--- demo WITH change:"; PYTHONPATH=$w/src /venv/bin/python $d/demo.py >/tmp/st_out_$$ 2>&1; echo "exit=$?"; tail -3 /tmp/st_out_$$
echo "--- check $prop ($tier) WITH change:"
mkdir -p /tmp/st_ev_$$
cd /verif && VERIF_EVIDENCE_DIR=/tmp/st_ev_$$ VERIF_REPLAY_DIR=/tmp/st_ev_$$ RPFT_REPO=$w ./check $prop --tier $tier 2>&1 | grep -v "^KNOWN" | tail -3
ls /tmp/st_ev_$$/${prop}_${tier}_*.json 2>/dev/null | head -1 | xargs -r python3 -c "
import json,sys
r=json.load(open(sys.argv[1])); print('REPLAY kind=',r.get('kind'),'|',str(r.get('what') or r.get('obligations_no_longer_checking'))[:300])"
cd /; git -C /repo worktree remove --force $w; rm -rf /tmp/st_out_$$ /tmp/st_ev_$$
