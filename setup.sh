#!/bin/bash
# MANIFEST.setup_cmd: regenerate tables from /repo and build model, proofs and driver (offline).
cd "$(dirname "$0")" || exit 2
export RPFT_REPO="${RPFT_REPO:-/repo}"
export PYTHONPATH="$RPFT_REPO/src:$(pwd)"
export PYTHONWARNINGS="ignore"
export PATH="/opt/veriftools/lean/bin:$PATH"
/venv/bin/python -m harness.extract_tables || exit 2
python3 gen_root.py || exit 2
cd lean && lake build Rpft rpft_driver
