#!/bin/bash
# usage: ./neutral_run.sh <repo-copy> [checks…] — run quick checks against a behaviour-preserving refactor; one line per check
cd "$(dirname "$0")"; r=$1; shift
ev=/tmp/nr_ev_$$; mkdir -p $ev
for p in ${@:-C01 C02 C03 C04 C05 C06 C07 C08 C09 C10 C11 C12 C13 C14 C15 C16 C17 C18 C19}; do
  out=$(VERIF_EVIDENCE_DIR=$ev VERIF_REPLAY_DIR=$ev RPFT_REPO=$r ./check $p --tier quick 2>&1); rc=$?
  echo "$p rc=$rc $(echo "$out" | grep '^VIOLATION' | head -n 1 | cut -c1-160)"
done
rm -rf $ev
