#!/usr/bin/env python3
"""Writes MANIFEST.json from the table below (kept in one place so it stays valid)."""
import json

import importlib
import os
import sys

sys.path.insert(0, os.path.dirname(os.path.abspath(__file__)))
CLAIMED = {}
for f in sorted(os.listdir("harness/props")):
    if f.startswith("c") and f.endswith(".py"):
        # read the MANIFEST dict without importing rpft: the dict is a pure literal
        import ast
        tree = ast.parse(open(os.path.join("harness/props", f)).read())
        for n in tree.body:
            if isinstance(n, ast.Assign) and any(isinstance(t, ast.Name) and t.id == "MANIFEST" for t in n.targets):
                v = n.value
                if isinstance(v, ast.Call):
                    CLAIMED[f[:-3].upper()] = {k.arg: ast.literal_eval(k.value) for k in v.keywords}
                else:
                    CLAIMED[f[:-3].upper()] = ast.literal_eval(v)

NOT_YET = {}

def main():
    props = [json.loads(l) for l in open("properties.jsonl")]
    checks = []
    na = []
    for p in props:
        pid = p["id"]
        if pid in CLAIMED:
            c = CLAIMED[pid]
            checks.append({
                "property_id": pid,
                "quick_cmd": f"./check {pid} --tier quick",
                "thorough_cmd": f"./check {pid} --tier thorough",
                "evidence_file": f"/verif/evidence/{pid}.json",
                "replay_cmd_template": f"./check {pid} --replay {{path}}",
                "engine": "lean4-model+correspondence",
                "level_claimed": {"category": "proof", "text": c["text"], "design_ref": c["ref"]},
                "level_note": c["note"],
                "technique": c["technique"],
            })
        else:
            na.append({"property_id": pid, "reason": NOT_YET.get(pid, "check not built yet in this round (design in DESIGN.md §5); not a claim that the technique cannot apply")})
    m = {
        "version": 1,
        "setup_cmd": "./setup.sh",
        "hooks": {
            "guard": "RPFT_VERIF",
            "enable": ("nothing to build: the checks switch the hook on themselves. harness/hook.py sets RPFT_VERIF=1 in the harness process and installs "
                       "rpft.parsers.creation.flowparser._verif_sink for the duration of ONE traced compile (compile_tie.trace_compile / trace_structure / "
                       "trace_index, flat_tie.trace_flat — the model/code ties of C01 and C03), then restores both; the guard is read at call time "
                       "(_verif_event: no sink or RPFT_VERIF != '1' -> returns at once). Every other run of the real code, the direct oracles included, "
                       "happens with the guard off. One hook: _verif_event(name, **data) called in the bodies of FlowParser._parse_row ('row'), "
                       "_parse_noop_row ('noop_row'), append_node_group ('append_group') and before each push / pop of the node-group stack in "
                       "_parse_block ('push', 'pop'); it passes references and returns nothing. A tree without the hook is traced by subclassing "
                       "FlowParser as before (fallback); harness/selftest_hook.py shows both tracers record identical events."),
            "baseline_off_cmd": "cd /repo && /venv/bin/python -m pytest -q -p no:cacheprovider",
            "source_commits": ["9909a2b"],
            "add_only": True,
        },
        "engines": [{
            "name": "lean4-model+correspondence",
            "path": "/verif/lean",
            "serves_properties": sorted(CLAIMED),
            "kind_free_text": "Lean 4 model + theorems (lake project, no Mathlib requirement), compiled line-protocol driver, Python differential harness driving the real rpft code in-process",
        }],
        "checks": checks,
        "not_applicable": na,
        "notes": ("See DESIGN.md (§0 'As built' first). Exit codes: 0 held, 1 VIOLATION (a line 'VIOLATION property=<id> replay=<path>'; "
                  "when only a proof obligation or the model/code correspondence broke and the search found no failing input the line ends with "
                  "'no-failing-input-found' and the replay names the theorems / correspondence that no longer check), 2 infrastructure failure. "
                  "Every check: (A) regenerate the T1 tables from /repo's working tree, lake build of the property's theorems + driver, forbidden-token "
                  "grep, #print axioms audit (subset of propext, Classical.choice, Quot.sound), leanchecker in the thorough tier; (B) tie of the Lean "
                  "model to the real code (differential runs / verified checkers on real output); (C) the property's own observable on the real code. "
                  "Open genuine defects are listed in known_findings.jsonl (status open -> 'KNOWN-FINDING:' lines, exit 0); repaired ones are "
                  "'fixed' with the /repo commit and suppress nothing. Environment: RPFT_REPO (tree under verification, default /repo), VERIF_SEED, "
                  "VERIF_EVIDENCE_DIR / VERIF_REPLAY_DIR (where evidence and replays go; default evidence/ and replays/). "
                  "seeded/<id>/ holds the confirmed breaking changes written by independent sub-agents (patch.diff, demo.py, meta.json with the detecting check)."),
    }
    json.dump(m, open("MANIFEST.json", "w"), indent=1)
    print(len(checks), "claimed;", len(na), "not claimed")

main()
