#!/usr/bin/env python3
"""Writes MANIFEST.json from the table below (kept in one place so it stays valid)."""
import json

CLAIMED = {
    "C08": dict(
        text="Proof: Lean theorems split_join / split_join_atom / no_sep_is_atom / list_has_sep / escape_inert / escape_single_pass over a hand model of CellParser for all strings and all two-level lists (unbounded); tied to the code by an exhaustive differential run (all strings ≤6/≤8 symbols over a 7-letter alphabet, all small nested lists, random long unicode strings) and by T1 constants regenerated from the source.",
        ref="§5 C08",
        note="Trusts: Lean kernel (axioms ⊆ propext/Quot.sound/Classical.choice, audited each run), the differential harness and Driver JSON codec, CPython str.strip/replace as modelled, Jinja2 for the escape-filter oracle. U+0001 excluded by hypothesis (known finding F-C08-a).",
        technique="Lean 4 proof (induction on strings; transparent-piece lemma) + exhaustive model/code correspondence",
    ),
}

NOT_YET = {}

def main():
    props = [json.loads(l) for l in open("properties.jsonl")]
    checks = []
    na = []
    for p in props:
        pid = p["id"]
        if pid in CLAIMED:
            c = CLAIMED[pid]
            checks.append({
                "property_id": pid,
                "quick_cmd": f"./check {pid} --tier quick",
                "thorough_cmd": f"./check {pid} --tier thorough",
                "evidence_file": f"/verif/evidence/{pid}.json",
                "replay_cmd_template": f"./check {pid} --replay {{path}}",
                "engine": "lean4-model+correspondence",
                "level_claimed": {"category": "proof", "text": c["text"], "design_ref": c["ref"]},
                "level_note": c["note"],
                "technique": c["technique"],
            })
        else:
            na.append({"property_id": pid, "reason": NOT_YET.get(pid, "check not built yet in this round (design in DESIGN.md §5); not a claim that the technique cannot apply")})
    m = {
        "version": 1,
        "setup_cmd": "./setup.sh",
        "hooks": {
            "guard": "RPFT_VERIF",
            "enable": "no hooks: every observable is reached through public API, logging handlers or subprocesses",
            "baseline_off_cmd": "cd /repo && /venv/bin/python -m pytest -q -p no:cacheprovider",
            "source_commits": [],
            "add_only": True,
        },
        "engines": [{
            "name": "lean4-model+correspondence",
            "path": "/verif/lean",
            "serves_properties": sorted(CLAIMED),
            "kind_free_text": "Lean 4 model + theorems (lake project, no Mathlib requirement), compiled line-protocol driver, Python differential harness driving the real rpft code in-process",
        }],
        "checks": checks,
        "not_applicable": na,
        "notes": "See DESIGN.md. Exit codes: 0 held, 1 VIOLATION, 2 infrastructure failure.",
    }
    json.dump(m, open("MANIFEST.json", "w"), indent=1)
    print(len(checks), "claimed;", len(na), "not claimed")

main()
