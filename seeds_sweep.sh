#!/bin/bash
# regression sweep: run the check of every kept seeded change against a scratch copy of /repo HEAD with the
# change applied; prints one line per seed: <id> <PROP> exit=<rc> <kind of replay>.  Usage: ./seeds_sweep.sh [pattern]
cd "$(dirname "$0")"
for d in seeded/*${1:-}*/; do
  n=$(basename $d); prop=$(python3 -c "import json,sys; print(json.load(open(sys.argv[1]))['property'])" $d/meta.json)
  w=/tmp/sw_$$; ev=/tmp/sw_ev_$$; rm -rf $ev; mkdir -p $ev
  git -C /repo worktree add -q --detach $w HEAD || exit 2
  if ! git -C $w apply $PWD/$d/patch.diff 2>/dev/null; then echo "$n $prop PATCH-DOES-NOT-APPLY"; git -C /repo worktree remove --force $w; continue; fi
  VERIF_EVIDENCE_DIR=$ev VERIF_REPLAY_DIR=$ev RPFT_REPO=$w ./check $prop --tier quick >/dev/null 2>&1; rc=$?
  kind=$(ls $ev/${prop}_quick_*.json 2>/dev/null | head -1 | xargs -r python3 -c "import json,sys; print(json.load(open(sys.argv[1])).get('kind'))")
  echo "$n $prop exit=$rc ${kind:-no-replay}"
  git -C /repo worktree remove --force $w; rm -rf $ev
done
