#!/usr/bin/env python3
"""Regenerates lean/Rpft.lean (root module importing every model/lemma/property file)."""
import os
root = os.path.join(os.path.dirname(os.path.abspath(__file__)), "lean")
mods = []
for d, _, fs in os.walk(os.path.join(root, "Rpft")):
    for f in fs:
        if f.endswith(".lean"):
            rel = os.path.relpath(os.path.join(d, f), root)[:-5].replace(os.sep, ".")
            mods.append(rel)
if "Rpft.Gen.Tables" not in mods:
    mods.append("Rpft.Gen.Tables")
text = "".join(f"import {m}\n" for m in sorted(mods))
p = os.path.join(root, "Rpft.lean")
if not os.path.exists(p) or open(p).read() != text:
    open(p, "w").write(text)
