#!/usr/bin/env python3
"""usage: seedkeep.py <seed_out dir> <seeded id> <caught_by text>  — store a confirmed seeded change under /verif/seeded/<id>/"""
import json, os, shutil, sys
src, sid, caught = sys.argv[1], sys.argv[2], sys.argv[3]
dst = f"/verif/seeded/{sid}"
os.makedirs(dst, exist_ok=True)
for f in ("patch.diff", "demo.py"):
    shutil.copy(os.path.join(src, f), os.path.join(dst, f))
meta = json.load(open(os.path.join(src, "meta.json")))
meta["confirmed"] = [
    "scratch worktree of /repo HEAD: demo.py exits 0 without the patch",
    "git apply patch.diff: existing suite 219 passed; demo.py exits non-zero",
]
meta["detected_by"] = caught
json.dump(meta, open(os.path.join(dst, "meta.json"), "w"), indent=1)
print("kept", dst)
