#!/usr/bin/env python3
"""Resolve git conflict markers by keeping both sides (for append-only registries)."""
import sys, re
for p in sys.argv[1:]:
    s = open(p).read()
    s = re.sub(r"<<<<<<< [^\n]*\n(.*?)=======\n(.*?)>>>>>>> [^\n]*\n", lambda m: m.group(1) + m.group(2), s, flags=re.S)
    open(p, "w").write(s)
