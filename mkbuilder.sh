#!/bin/bash
# usage: ./mkbuilder.sh <name>  — worktree /tmp/w/<name> on branch b-<name> with a warm Lean build
n=$1; mkdir -p /tmp/w
git -C /verif worktree add -q /tmp/w/$n -b b-$n || exit 2
cp -r /verif/lean/.lake /tmp/w/$n/lean/.lake
cp /verif/lean/lake-manifest.json /tmp/w/$n/lean/ 2>/dev/null
( cd /tmp/w/$n && ./setup.sh 2>&1 | tail -1 )
