/-
Line-protocol driver: one JSON object per input line (`{"op": …, …}`), one JSON answer
per output line (`{"r": …}` or `{"error": …}`).  Pure function of the line.
-/
import Rpft.Drv.Cell
import Rpft.Drv.Row
open Lean Rpft.Drv

def dispatch (j : Json) : Except String Json := do
  let opj ← j.getObjVal? "op"
  let op ← opj.getStr?
  if op.startsWith "cell." || op.startsWith "str." then handleCell op j
  else if op.startsWith "row." then handleRow op j
  else throw s!"unknown op {op}"

partial def loop (hin : IO.FS.Stream) (hout : IO.FS.Stream) : IO Unit := do
  let line ← hin.getLine
  if line.isEmpty then return ()
  let out := match Json.parse line with
    | .error e => Json.mkObj [("error", Json.str s!"json: {e}")]
    | .ok j => match dispatch j with
      | .ok r => Json.mkObj [("r", r)]
      | .error e => Json.mkObj [("error", Json.str e)]
  hout.putStrLn out.compress
  loop hin hout

def main : IO Unit := do
  let hin ← IO.getStdin
  let hout ← IO.getStdout
  loop hin hout
  hout.flush
