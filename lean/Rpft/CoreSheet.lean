/-
One source of rows for the two readings of a core flow sheet (C02): a parsed, instantiated row
`CRow` is what the compiler model reads (`Compile.Row`: `row_json` of harness/compile_tie.py) plus
the observable content the documentation assigns to the row's action (`reference_row` of
harness/gen/sheets.py).  `toEvent` feeds the compiler model, `toRRow` the reference interpretation,
exactly as the checks build their two inputs from one parsed row (cross-checked on every explored
sheet by the driver op `core.views`).  Core Lean only.
-/
import Rpft.Compile
import Rpft.RefFlow
namespace Rpft.CoreSheet
open Rpft

structure CRow where
  row : Compile.Row
  refAct : Option Str        -- `reference_row(row)["act"]`
  /-- a mark of the proofs, not an input (the rows the harness sends carry `false`; `annotate` sets
  it): the row is merged into the node of an earlier row with the same node name -/
  merged : Bool := false
  deriving Repr, DecidableEq

/-- `KIND.get(type, "action")` -/
def kindOf (t : Str) : RefFlow.Kind :=
  if t = "wait_for_response".toList then .wait
  else if t = "split_by_value".toList then .splitValue
  else if t = "split_by_group".toList then .splitGroup
  else if t = "split_random".toList then .splitRandom
  else if t = "start_new_flow".toList then .enterFlow
  else if t = "call_webhook".toList then .webhook
  else if t = "transfer_airtime".toList then .airtime
  else if t = "no_op".toList then .noOp
  else if t = "go_to".toList then .goTo
  else if t = "hard_exit".toList then .hardExit
  else if t = "loose_exit".toList then .looseExit
  else .action

/-- the operand the documentation assigns to a deciding row -/
def operandOf (r : Compile.Row) : Str :=
  if r.type = "start_new_flow".toList then "@child.run.status".toList
  else if r.type = "call_webhook".toList then "@results.".toList ++ r.resultKey.getD [] ++ ".category".toList
  else if r.type = "transfer_airtime".toList then "@results.".toList ++ r.resultKey.getD []
  else if r.type = "wait_for_response".toList then "@input.text".toList
  else if r.type = "split_by_value".toList then r.expression
  else if r.type = "split_by_group".toList then "@contact.groups".toList
  else []

def toRCond (c : Compile.Cond) : RefFlow.Cond := ⟨c.value, c.var, c.type, c.name⟩

def toREdge (e : Compile.Edge) : RefFlow.REdge := ⟨e.from_, toRCond e.cond⟩

def timeoutOf (r : Compile.Row) : Nat :=
  if r.type = "wait_for_response".toList then (Compile.parseNat? r.noResponse).getD 0 else 0

def toRRow (c : CRow) : RefFlow.RRow :=
  { rowId := c.row.rowId, kind := kindOf c.row.type, edges := c.row.edges.map toREdge, act := c.refAct,
    operand := operandOf c.row, saveName := c.row.saveName, timeout := timeoutOf c.row,
    dests := c.row.dests }

def toEvent (c : CRow) : Compile.Event := .row c.row

/-! ### the fragment -/

/-- row types the parser treats specially (everything else is an action row) -/
def specialTypes : List Str :=
  ["wait_for_response", "split_by_value", "split_by_group", "split_random", "start_new_flow",
   "call_webhook", "transfer_airtime", "no_op", "go_to", "hard_exit", "loose_exit",
   "insert_as_block"].map String.toList

/-- an action row that stands for itself: no given node identifier, the action the compiler attaches
is the one the documentation describes; it may carry a node name (then it has an action): rows with
the same node name are merged into one node (`mergeAt`) -/
def plainActionRow (c : CRow) : Bool :=
  !specialTypes.contains c.row.type && c.row.nodeUuid.isEmpty && (c.row.nodeName.isEmpty || c.row.action.isSome) &&
  decide (c.row.action = c.refAct)

/-- an action row with a node name -/
def isNamedAct (c : CRow) : Bool := !specialTypes.contains c.row.type && !c.row.nodeName.isEmpty

/-- row `j` is merged into an existing node: an action row whose node name an earlier action row
carries (the compiler adds its action to that node instead of creating a node) -/
def mergeAt (rows : List CRow) (j : Nat) : Bool :=
  match rows[j]? with
  | some c => isNamedAct c &&
      (rows.take j).any (fun c' => isNamedAct c' && decide (c'.row.nodeName = c.row.nodeName))
  | none => false

/-- the rows with the merged ones marked -/
def annotate (rows : List CRow) : List CRow :=
  rows.zipIdx.map (fun p => { p.1 with merged := mergeAt rows p.2 })

def switchTypes : List Str := ["wait_for_response", "split_by_value", "split_by_group"].map String.toList

/-- a deciding row (`wait_for_response`, `split_by_value`, `split_by_group`) that stands for itself;
such a row performs no action -/
def switchRow (c : CRow) : Bool :=
  switchTypes.contains c.row.type && c.row.nodeUuid.isEmpty && c.row.nodeName.isEmpty && c.refAct.isNone

/-- a `hard_exit` / `loose_exit` row: the paths its edges continue end there -/
def exitRow (c : CRow) : Bool :=
  (decide (c.row.type = "hard_exit".toList) || decide (c.row.type = "loose_exit".toList)) && c.row.nodeUuid.isEmpty

/-- a `go_to` row: its edges enter the named rows -/
def gotoRow (c : CRow) : Bool := decide (c.row.type = "go_to".toList) && c.row.nodeUuid.isEmpty

def fixedTypes : List Str := ["start_new_flow", "call_webhook", "transfer_airtime"].map String.toList

/-- a row with fixed outcomes (`start_new_flow`: Complete / Expired; `call_webhook`,
`transfer_airtime`: Success / Failure) that stands for itself; it performs its own action -/
def fixedRow (c : CRow) : Bool :=
  fixedTypes.contains c.row.type && c.row.nodeUuid.isEmpty && c.row.nodeName.isEmpty &&
  decide (c.refAct = some (c.row.ownAction.getD []))

/-- a `split_random` row that stands for itself; it performs no action -/
def randomRow (c : CRow) : Bool :=
  decide (c.row.type = "split_random".toList) && c.row.nodeUuid.isEmpty && c.row.nodeName.isEmpty &&
  c.refAct.isNone

/-- pass 1 of the FUSED reading of a sheet, one row: a merged row produces no node and no edge — it has
exactly one edge, unconditional, with an explicit `from` (or no row id), coming from a row that is
not merged and carries its node name (the first row of its chain, directly or through the row ids of
the merged rows before it); from now on its row id stands for that row.  Every other row: pass 1 of
the reference interpretation. -/
def pass1RowF (rows : List CRow) (st : RefFlow.P1) (k : Nat) (c : CRow) : Except RefFlow.WfErr RefFlow.P1 :=
  if c.merged && isNamedAct c then
    match Compile.dropTrivial c.row.edges with
    | [e] =>
      if e.cond.blank && (!e.from_.isEmpty || c.row.rowId.isEmpty) && c.row.action.isSome then
        match RefFlow.edgeSrc st k (toREdge e) with
        | .ok (some R) =>
          match rows[R]? with
          | some cR =>
            if isNamedAct cR && !cR.merged && decide (cR.row.nodeName = c.row.nodeName) then
              .ok { st with ids := if c.row.rowId.isEmpty then st.ids else (c.row.rowId, R) :: st.ids }
            else .error (.noPrev k)
          | none => .error (.noPrev k)
        | _ => .error (.noPrev k)
      else .error (.noPrev k)
    | _ => .error (.noPrev k)
  else RefFlow.pass1Row st k (toRRow c)

/-- the out-edges of the fused reading -/
def pass1F (rows : List CRow) : Except RefFlow.WfErr (List RefFlow.OutEdge) := do
  let st ← rows.zipIdx.foldlM (init := ({} : RefFlow.P1)) fun st (c, k) => pass1RowF rows st k c
  pure st.out.reverse

/-- a row of the fragment that produces a node -/
def nodeRowOk (c : CRow) : Bool := plainActionRow c || switchRow c || fixedRow c || randomRow c

def isNoop (c : CRow) : Bool := decide (c.row.type = "no_op".toList)

/-- a `no_op` row: a junction (it performs no action) -/
def noopRow (c : CRow) : Bool := isNoop c && c.row.nodeUuid.isEmpty && c.refAct.isNone

def rowOk (c : CRow) : Bool := nodeRowOk c || exitRow c || gotoRow c || noopRow c

def isNR (c : RefFlow.Cond) : Bool := RefFlow.lower c.value = "no response".toList

/-- the name of the bucket an edge leaving a `split_random` row stands for (empty: a new, unnamed
bucket) -/
def bucketName (c : RefFlow.Cond) : Str := if c.name.isEmpty then c.value else c.name

/-- bucket names the two readings generate themselves (`Bucket N` / `#n`) are not used explicitly -/
def bucketNameOk (nm : Str) : Bool :=
  nm.isEmpty || !(decide (nm.take 7 = "Bucket ".toList) || decide (nm.head? = some '#'))

/-- the edges leaving a row are read with one meaning only: a condition on an edge leaving an action
row is not the reserved "no response"; a condition on an edge leaving a `wait_for_response` row names
no variable (the operand stays the reply); a condition leaving a split row is not the reserved "no
response"; a bucket of a `split_random` row is not given one of the generated bucket names; the
edges leaving a fixed-outcome row are unrestricted (an outcome word that does not exist is an error
of the compiler) -/
def edgeOk (rows : List CRow) (e : RefFlow.OutEdge) : Bool :=
  match (rows[e.src]?).map (fun c => kindOf c.row.type) with
  | some .wait => e.cond.blank || e.cond.var.isEmpty
  | some .splitValue => e.cond.blank || !isNR e.cond
  | some .splitGroup => e.cond.blank || !isNR e.cond
  | some .splitRandom => bucketNameOk (bucketName e.cond)
  | some .enterFlow => true
  | some .webhook => true
  | some .airtime => true
  | some .action => e.cond.blank || !isNR e.cond
  | some .noOp => e.cond.blank || (!e.cond.var.isEmpty && !e.cond.value.isEmpty)
  | _ => e.cond.blank

/-- the test a conditional edge leaving a row of kind `k` stands for -/
def refTest (k : RefFlow.Kind) (c : RefFlow.Cond) : Str × List Str :=
  if k = .splitGroup then ("has_group".toList, [[], c.value]) else RefFlow.condTest c

/-- the conditional out-edges of a row of kind `k` that are tests -/
def testsOf (k : RefFlow.Kind) (es : List RefFlow.OutEdge) : List RefFlow.OutEdge :=
  (es.filter (fun e => !e.cond.blank)).filter (fun e => !(decide (k = .wait) && isNR e.cond))

/-- rows whose conditional out-edges are the tests of a switch (of the row's own router, of the router
the compiler puts behind an action row, of the router of a `no_op` row) -/
def testRow (c : CRow) : Bool :=
  switchTypes.contains c.row.type || decide (kindOf c.row.type = .action) || decide (kindOf c.row.type = .noOp)

/-- the tests leaving one row are pairwise different (DESIGN §5 C02: a repeated test would be read as
"same case, new destination" by the compiler and as a second, unreachable test by the rows) -/
def distinctTests (rows : List CRow) (out : List RefFlow.OutEdge) : Bool :=
  (List.range rows.length).all fun j =>
    match rows[j]? with
    | some c => !testRow c ||
      decide (((testsOf (kindOf c.row.type) (out.filter (·.src = j))).map
        (fun e => refTest (kindOf c.row.type) e.cond)).Nodup)
    | none => true

/-- the variable the conditional edges leaving an action row decide on (empty: the reply) -/
def implVar (es : List RefFlow.OutEdge) : Str :=
  (((es.filter (fun e => !e.cond.blank)).head?).map (·.cond.var)).getD []

/-- the conditional edges leaving one action row name the same variable (or none of them names one):
the router the compiler puts behind the row's node decides on the variable of the edge added last,
and waits for a reply iff the edge added first names none -/
def sameVars (rows : List CRow) (out : List RefFlow.OutEdge) : Bool :=
  (List.range rows.length).all fun j =>
    match rows[j]? with
    | some c => !(decide (kindOf c.row.type = .action) || decide (kindOf c.row.type = .noOp)) ||
      ((out.filter (·.src = j)).filter (fun e => !e.cond.blank)).all
        (fun e => decide (e.cond.var = implVar (out.filter (·.src = j))))
    | none => true

/-! #### category names -/

/-- `generate_category_name` on the list of the names in use: title-cased arguments joined by `_`,
`_alt` appended until free -/
def genName (names : List Str) (args : List (Option Str)) : Str :=
  let rec go (fuel : Nat) (n : Str) : Str :=
    match fuel with
    | 0 => n
    | f + 1 => if names.contains n then go f (n ++ "_alt".toList) else n
  go (names.length + 1) (Compile.joinUnderscore (args.map fun a => Compile.pyTitle (Compile.argStr a)))

/-- the arguments of the test a condition stands for -/
def argsOf (k : RefFlow.Kind) (c : RefFlow.Cond) : List (Option Str) :=
  if k = .splitGroup then [none, some c.value] else [some c.value]

/-- the categories a switch has before any test: the default one, and the timeout one -/
def baseNames (k : RefFlow.Kind) (tmo : Nat) : List Str :=
  "Other".toList :: (if k = .wait ∧ tmo ≠ 0 then ["No Response".toList] else [])

/-- the name of the category of a new test, given the names `tn` of the categories of the tests so far:
the explicit one, or a generated one -/
def catNameOf (k : RefFlow.Kind) (tmo : Nat) (tn : List Str) (c : RefFlow.Cond) : Str :=
  if c.name.isEmpty then genName (tn ++ baseNames k tmo) (argsOf k c) else c.name

/-- the names of the categories of the tests `ts`, in order, starting from `tn` -/
def namesFrom (k : RefFlow.Kind) (tmo : Nat) : List Str → List RefFlow.OutEdge → List Str
  | tn, [] => tn
  | tn, e :: ts => namesFrom k tmo (tn ++ [catNameOf k tmo tn e.cond]) ts

/-- an explicit category name is not in use when its test is added (a name in use would make the
compiler SHARE the category — the new test would redirect the other test's answer —, the
documentation describes separate answers) -/
def namesOk (k : RefFlow.Kind) (tmo : Nat) : List Str → List RefFlow.OutEdge → Bool
  | _, [] => true
  | tn, e :: ts =>
    (e.cond.name.isEmpty || !(tn ++ baseNames k tmo).contains e.cond.name) &&
    namesOk k tmo (tn ++ [catNameOf k tmo tn e.cond]) ts

def freshNames (rows : List CRow) (out : List RefFlow.OutEdge) : Bool :=
  (List.range rows.length).all fun j =>
    match rows[j]? with
    | some c => !testRow c ||
      namesOk (kindOf c.row.type) (timeoutOf c.row) [] (testsOf (kindOf c.row.type) (out.filter (·.src = j)))
    | none => true

/-! #### `no_op` rows

The compiler keeps a `no_op` row as a lazy junction: the edges INTO it are remembered, and take effect
when (and each time) an edge LEAVES it — forwarded to the target of an unconditional leaving edge, or
to the router node created at the first conditional leaving edge.  The documentation describes a node
without action.  The two agree under the conditions below. -/

def noopAt (rows : List CRow) (j : Nat) : Bool :=
  match rows[j]? with
  | some c => isNoop c
  | none => false

def tgtNoop (rows : List CRow) : RefFlow.Target → Bool
  | .row t => noopAt rows t
  | .exit => false

/-- the edges leaving one `no_op` row: conditional ones first (F-C02-b: a conditional edge after an
unconditional one makes the compiler lose the unconditional target); when there is no conditional
one, exactly one edge, into a row (the `no_op` row disappears: its sources lead there) -/
def noopShape (rows : List CRow) (out : List RefFlow.OutEdge) : Bool :=
  (List.range rows.length).all fun j =>
    !noopAt rows j ||
      (let L := out.filter (·.src = j)
       ((L.dropWhile (fun e => !e.cond.blank)).all (·.cond.blank)) &&
       ((L.filter (fun e => !e.cond.blank)).isEmpty →
          L.length ≤ 1 && L.all (fun e => match e.tgt with | .row _ => true | .exit => false)))

/-- one step of the schedule of the junctions, on the edges in the order of the sheet; the state: the
edges into `no_op` rows that have not been left yet -/
def schedStep (rows : List CRow) (pnd : List RefFlow.OutEdge) (e : RefFlow.OutEdge) : Option (List RefFlow.OutEdge) :=
  if tgtNoop rows e.tgt then
    -- an edge into a `no_op` row: remembered; not from a `no_op` row (no chains)
    if noopAt rows e.src then none else some (pnd ++ [e])
  else if noopAt rows e.src then
    -- an edge leaving a `no_op` row: the remembered edges into it take effect now, so they must be the
    -- oldest remembered edges of their sources
    let mine := pnd.filter (fun pe => decide (pe.tgt = .row e.src))
    if pnd.any (fun pe => mine.any (fun m => decide (m.src = pe.src)) && !decide (pe.tgt = .row e.src)) then none
    else some (pnd.filter (fun pe => !decide (pe.tgt = .row e.src)))
  else
    -- any other edge: its source has no remembered edge (it would take effect AFTER this one)
    if pnd.any (fun pe => decide (pe.src = e.src)) then none else some pnd

/-- every remembered edge takes effect, in the order the rows are written in -/
def noopSched (rows : List CRow) (out : List RefFlow.OutEdge) : Bool :=
  match out.foldlM (schedStep rows) [] with
  | some pnd => pnd.isEmpty
  | none => false

/-- the flow does not start at a `no_op` row -/
def firstOk (rows : List CRow) : Bool :=
  match rows.find? (fun c => (kindOf c.row.type).isNode) with
  | some c => !isNoop c
  | none => true

/-! #### rows merged into one node

`annotate` marks the rows the compiler merges into an existing node (`mergeAt`: an action row whose node
name an earlier action row carries).  The compiler is followed against the FUSED reading of the sheet
(`pass1F`: a merged row has no node and no edge, its row id stands for the first row of its chain); the
fused reading is tied to the reference reading by `chainsOk`. -/

/-- row `i` is merged and carries the node name `nm` -/
def mergedNamed (rows : List CRow) (nm : Str) (i : Nat) : Bool :=
  match rows[i]? with
  | some c => c.merged && isNamedAct c && decide (c.row.nodeName = nm)
  | none => false

/-- the rows of the node of row `R`, in order: the row itself, then the rows merged into its node -/
def membersOf (rows : List CRow) (R : Nat) : List Nat :=
  match rows[R]? with
  | some cR =>
    R :: (if isNamedAct cR then
            (List.range rows.length).filter (fun i => decide (R < i) && mergedNamed rows cR.row.nodeName i)
          else [])
  | none => [R]

/-- a row that has a node of its own in the fused reading -/
def ownsNode (c : CRow) : Bool := (kindOf c.row.type).isNode && !(c.merged && isNamedAct c)

/-- the target of an edge is a row with a node of its own (or the end of the path) -/
def tgtOwns (rows : List CRow) : RefFlow.Target → Bool
  | .row t => (match rows[t]? with | some c => ownsNode c | none => false)
  | .exit => true

/-- the reference reading (`outE`) and the fused reading (`outF`) of the chains of merged rows agree:
every row of a chain but the last is left by exactly one edge, unconditional, into the next row of the
chain (the rows say "then the next action": the merged node performs the actions in this order); the
out-edges of the LAST row of the chain are, in the fused reading, the out-edges of the chain's first row
(so the merged node is left as the last row is left); no edge of the fused reading enters a merged row
(entering one is F-C02-d) -/
def chainsOk (rows : List CRow) (outE outF : List RefFlow.OutEdge) : Bool :=
  outF.all (fun e => tgtOwns rows e.tgt) &&
  (List.range rows.length).all fun R =>
    match rows[R]? with
    | some cR =>
      !ownsNode cR ||
        (let ch := membersOf rows R
         (ch.zip ch.tail).all (fun p =>
            match outE.filter (·.src = p.1) with
            | [e] => decide (e.tgt = .row p.2) && e.cond.blank
            | _ => false) &&
         decide (outF.filter (·.src = R) =
           (outE.filter (·.src = ch.getLastD R)).map (fun e => { e with src := R })))
    | none => true

/-- the fragment of the universal theorem `Props.C02.C02_fragment`: all row types of a core sheet
except `insert_as_block`, rows standing for themselves (`rowOk`: no given node identifier, the action
as the documentation describes it; a node name on action rows only), any number of edges per row with
explicit `from` row ids, blank `from` or `start`, under the single-meaning conditions `edgeOk`,
`distinctTests`, `sameVars` and `freshNames`, for `no_op` rows `noopShape` (conditional leaving edges
first; otherwise one unconditional edge into a row), `noopSched` (the compiler's lazy re-connection of
the sources of a junction does not cross other edges of these sources) and `firstOk`, and for rows
merged into one node by their node name the fused reading exists (`pass1F`) and agrees with the
reference reading on the chains (`chainsOk`); the edge conditions are read off the edges the fused
reading resolves (without merged rows: those of the reference interpretation) -/
def inFragment (rows0 : List CRow) : Bool :=
  let rows := annotate rows0
  rows.all rowOk &&
  match RefFlow.pass1 (rows.map toRRow) with
  | .ok outE =>
    (match pass1F rows with
     | .ok out => out.all (edgeOk rows) && distinctTests rows out && sameVars rows out && freshNames rows out &&
         noopShape rows out && noopSched rows out && firstOk rows && chainsOk rows outE out
     | .error _ => false)
  | .error _ => true

end Rpft.CoreSheet
