/-
M9 — sheets and the three offline workbook formats (C14).

A sheet is a name, a header list and a grid of strings.  The XLSX and JSON byte formats
(openpyxl / json) are library code and are NOT modelled: for them the model starts where the
libraries hand a grid to Python.  The CSV byte format IS modelled (`Rpft/Csv.lean`: `csv.writer`,
text-mode line iteration, the `csv.reader` automaton, UTF-8) and composed here with tablib's record
loop (`exportCsv` / `loadCsv` at the end of this file).  The model follows, line by line,

* tablib `Dataset` bookkeeping that the readers go through (`width`, `_validate(row)`,
  `append`, the `headers` setter, `dict` getter `_package` and `dict` setter `_set_dict`),
* `XLSXSheetReader._sanitize`                       (rpft/parsers/sheets.py),
* `converters.to_json` / `JSONSheetReader.__init__`  (`table.dict` out, `table.dict = content` in),
* tablib's CSV `import_set` loop (blank records skipped, short rows padded),
* `omit_empty_rows` (rpft/parsers/sheets.py): what `load_csv` and `JSONSheetReader` do to the
  Dataset tablib built — rows whose cells are all `""` are deleted, as `_sanitize` does for XLSX.

`headers = []` stands for tablib's `headers = None` (the setter turns every empty collection
into `None`, so the two cannot be told apart on a `Dataset`).  Core Lean only.
-/
import Rpft.Str
import Rpft.Csv
import Rpft.JsonText
namespace Rpft.Sheets
open Rpft

/-! ### sheets -/

structure Sheet where
  name : Str
  headers : List Str
  rows : List (List Str)
deriving DecidableEq, Repr

abbrev Workbook := List Sheet

/-- `converters.create_sheet_reader`: which reader serves which `--format` (T1-checked against the
source on every run: `Props.C14.tables_agree`).  The first three are the offline formats C14
quantifies over; they are the three readers modelled below. -/
def formatReaders : List (Str × Str) :=
  [("csv".toList, "CSVSheetReader".toList), ("xlsx".toList, "XLSXSheetReader".toList),
   ("json".toList, "JSONSheetReader".toList), ("google_sheets".toList, "GoogleSheetReader".toList)]

inductive SErr
  | invalidDimensions   -- tablib.InvalidDimensions (row length ≠ Dataset.width)
  | noHeaders           -- `data.headers[-1]` on `None` (TypeError): the worksheet has no first row
  | allNoneHeaders      -- `data.headers[-1]` on `[]` (IndexError): every header cell was None
deriving DecidableEq, Repr

instance {ε α : Type} [DecidableEq ε] [DecidableEq α] : DecidableEq (Except ε α)
  | .ok a, .ok b => if h : a = b then isTrue (by rw [h]) else isFalse (by intro e; cases e; exact h rfl)
  | .error a, .error b => if h : a = b then isTrue (by rw [h]) else isFalse (by intro e; cases e; exact h rfl)
  | .ok _, .error _ => isFalse (by intro e; cases e)
  | .error _, .ok _ => isFalse (by intro e; cases e)

/-! ### `omit_empty_rows` -/

/-- `any(cell != "" for cell in row)`: the row has a cell that is not the empty string
(on text cells the same test as `_sanitize`'s `any(new_row)`). -/
def keepRow (r : List Str) : Bool := r.any (fun c => !c.isEmpty)

/-- `omit_empty_rows(table)` on the rows: `del table[index]` for every all-empty row
(done from the end, so the indices of the rows still to be looked at do not move). -/
def omitEmptyRows (rows : List (List Str)) : List (List Str) := rows.filter keepRow

/-- `omit_empty_rows(table)`: title and headers untouched -/
def Sheet.omitEmpty (s : Sheet) : Sheet := { s with rows := omitEmptyRows s.rows }

/-! ### tablib `Dataset` bookkeeping -/

/-- `Dataset.width`: length of the first data row, else of the headers, else 0. -/
def width {α β : Type} (headers : List α) (data : List (List β)) : Nat :=
  match data with
  | r :: _ => r.length
  | [] => headers.length

/-- `Dataset._validate(row)` without dynamic columns.  An EMPTY row is falsy, so Python falls
through to the whole-table branch `all(len(x) == self.width for x in self._data)`. -/
def validRow {α β : Type} (headers : List α) (data : List (List β)) (row : List β) : Bool :=
  if row.isEmpty then data.all (fun x => x.length == width headers data)
  else width headers data == 0 || row.length == width headers data

/-- `Dataset.append(row)` for each row in turn (`acc` = rows already in the Dataset). -/
def appendAll {α β : Type} (headers : List α) :
    List (List β) → List (List β) → Except SErr (List (List β))
  | [], acc => .ok acc
  | r :: rs, acc =>
    if validRow headers acc r then appendAll headers rs (acc ++ [r]) else .error .invalidDimensions

/-! ### XLSX: what tablib/openpyxl hand to `_sanitize`, and `_sanitize` itself -/

/-- a cell value as openpyxl returns it.  `other` carries the text Python's `str()` gives
(floats, datetimes, …: supplied by the harness, never interpreted by the model). -/
inductive XVal
  | none
  | str (s : Str)
  | int (i : Int)
  | bool (b : Bool)
  | other (shown : Str)
deriving DecidableEq, Repr

def natDigits (n : Nat) : Str := (Nat.toDigits 10 n)

/-- Python `str(i)` for an int -/
def pyStrInt (i : Int) : Str :=
  match i with
  | .ofNat n => natDigits n
  | .negSucc n => '-' :: natDigits (n + 1)

/-- `str(e) if e is not None else ""` -/
def cellStr : XVal → Str
  | .none => []
  | .str s => s
  | .int i => pyStrInt i
  | .bool true => "True".toList
  | .bool false => "False".toList
  | .other s => s

/-- the tablib `Dataset` for one worksheet: `headers = None` (no first row) or the first row's
cell values; `rows` the remaining rows (tablib keeps them rectangular). -/
structure XGrid where
  headers : Option (List (Option Str))
  rows : List (List XVal)
deriving DecidableEq, Repr

/-- result of `_sanitize`: header cells are NOT passed through `str()`, so a `None` that is not
trailing stays `None`. -/
structure XTable where
  headers : List (Option Str)
  rows : List (List Str)
deriving DecidableEq, Repr

/-- `while data.headers[-1] is None: data.headers.pop()` -/
def popTrailingNone (hs : List (Option Str)) : List (Option Str) :=
  (hs.reverse.dropWhile (fun h => h.isNone)).reverse

/-- the row loop of `_sanitize` -/
def sanitizeRows (hs : List (Option Str)) :
    List (List XVal) → List (List Str) → Except SErr (List (List Str))
  | [], acc => .ok acc
  | r :: rs, acc =>
    let vals := r.map cellStr
    let newRow := vals.take hs.length
    if newRow.any (fun c => !c.isEmpty) then
      (if validRow hs acc newRow then sanitizeRows hs rs (acc ++ [newRow])
       else .error .invalidDimensions)
    else sanitizeRows hs rs acc

/-- `XLSXSheetReader._sanitize(sheet)` -/
def xlsxSanitize (g : XGrid) : Except SErr XTable :=
  match g.headers with
  | none => .error .noHeaders
  | some hs0 =>
    let hs := popTrailingNone hs0
    if hs.isEmpty then .error .allNoneHeaders
    else match sanitizeRows hs g.rows [] with
      | .ok rows => .ok ⟨hs, rows⟩
      | .error e => .error e

/-- how a sheet of strings comes back from openpyxl: an empty cell is `None`. -/
def toXCell (c : Str) : XVal := if c.isEmpty then .none else .str c
def toXHeader (c : Str) : Option Str := if c.isEmpty then none else some c

def toXlsxGrid (s : Sheet) : XGrid :=
  ⟨some (s.headers.map toXHeader), s.rows.map (fun r => r.map toXCell)⟩

def XTable.ofSheet (s : Sheet) : XTable := ⟨s.headers.map some, s.rows⟩

/-- a sanitized table whose headers are all text, as a sheet (a `None` header that survives
`_sanitize` has no counterpart in the other formats: `none`). -/
def XTable.toSheet? (name : Str) (t : XTable) : Option Sheet :=
  if t.headers.all Option.isSome then some ⟨name, t.headers.filterMap id, t.rows⟩ else none

/-- feeding an already-sanitized table through `_sanitize` again -/
def XTable.toGrid (t : XTable) : XGrid := ⟨some t.headers, t.rows.map (fun r => r.map XVal.str)⟩

/-! ### JSON: `table.dict` out (`to_json`), `table.dict = content` in (`JSONSheetReader`) -/

/-- Python `d[k] = v` on an insertion-ordered dict -/
def odInsert (k v : Str) : List (Str × Str) → List (Str × Str)
  | [] => [(k, v)]
  | (k', v') :: t => if k' = k then (k, v) :: t else (k', v') :: odInsert k v t

/-- `dict(pairs)` -/
def odOfPairs (ps : List (Str × Str)) : List (Str × Str) :=
  ps.foldl (fun d kv => odInsert kv.1 kv.2 d) []

/-- the JSON value of one sheet: a list of objects (headers set) or a list of lists (no headers).
`[]` is `objs []`.  Cell values are strings (what the three readers produce). -/
inductive JContent
  | objs (rows : List (List (Str × Str)))
  | lists (rows : List (List Str))
deriving DecidableEq, Repr

/-- `Dataset._package()` = `table.dict` -/
def tableDict (headers : List Str) (rows : List (List Str)) : JContent :=
  if headers.isEmpty then (if rows.isEmpty then .objs [] else .lists rows)
  else .objs (rows.map (fun r => odOfPairs (headers.zip r)))

def toJson (s : Sheet) : JContent := tableDict s.headers s.rows

/-- `Dataset._set_dict(content)` on a fresh `Dataset` -/
def readJson (name : Str) (c : JContent) : Except SErr Sheet :=
  match c with
  | .objs [] => .ok ⟨name, [], []⟩                    -- `if not pickle: return`
  | .lists [] => .ok ⟨name, [], []⟩
  | .lists rows =>
    match appendAll ([] : List Str) rows [] with
    | .ok data => .ok ⟨name, [], data⟩
    | .error e => .error e
  | .objs (first :: rest) =>
    let hs := first.map Prod.fst                       -- `list(pickle[0].keys())`
    match appendAll hs ((first :: rest).map (fun r => r.map Prod.snd)) [] with
    | .ok data => .ok ⟨name, hs, data⟩
    | .error e => .error e

/-- `JSONSheetReader.__init__` for one sheet: `table.dict = content`, then `omit_empty_rows(table)` -/
def readJsonSheet (name : Str) (c : JContent) : Except SErr Sheet :=
  match readJson name c with
  | .ok s => .ok s.omitEmpty
  | .error e => .error e

/-! ### CSV: tablib's `import_set` loop over the records `csv.reader` yields -/

def padTo (n : Nat) (r : List Str) : List Str := r ++ List.replicate (n - r.length) []

def csvRows (hs : List Str) : List (List Str) → List (List Str) → Except SErr (List (List Str))
  | [], acc => .ok acc
  | r :: rs, acc =>
    if r.isEmpty then csvRows hs rs acc                 -- `elif row:` — a blank line is skipped
    else
      let r' := if r.length < width hs acc then padTo (width hs acc) r else r
      if validRow hs acc r' then csvRows hs rs (acc ++ [r']) else .error .invalidDimensions

/-- `records` = everything `csv.reader` yields, header record first -/
def readCsv (name : Str) (records : List (List Str)) : Except SErr Sheet :=
  match records with
  | [] => .ok ⟨name, [], []⟩
  | hs :: rest =>
    match csvRows hs rest [] with
    | .ok data => .ok ⟨name, hs, data⟩
    | .error e => .error e

/-- `load_csv` after the bytes: `omit_empty_rows(tablib.import_set(…))` -/
def readCsvSheet (name : Str) (records : List (List Str)) : Except SErr Sheet :=
  match readCsv name records with
  | .ok s => .ok s.omitEmpty
  | .error e => .error e

/-- the records of a sheet as the harness writes them with Python's `csv.writer` -/
def toCsvRecords (s : Sheet) : List (List Str) := s.headers :: s.rows

/-! ### CSV files: bytes ↔ sheet -/

/-- `Dataset._package(dicts=False)`: the header record is there only when the Dataset has headers -/
def packageRecords (s : Sheet) : List (List Str) :=
  if s.headers.isEmpty then s.rows else s.headers :: s.rows

/-- `sheet.table.export("csv")` (the text `sheets_to_csv` writes with `newline=""`, UTF-8) -/
def exportCsv (s : Sheet) : Str := Csv.writeCsv (packageRecords s)

def exportCsvBytes (s : Sheet) : ByteArray := Csv.encodeUtf8 (exportCsv s)

inductive LoadErr
  | csv (e : Csv.CsvErr)        -- `_csv.Error` / `UnicodeDecodeError` out of the reader
  | sheet (e : SErr)            -- tablib refused a record
deriving DecidableEq, Repr

/-- `omit_empty_rows(tablib.import_set(file, format="csv"))` on the decoded text of the file -/
def loadCsvText (name : Str) (text : Str) : Except LoadErr Sheet :=
  match Csv.parseCsv text with
  | .error e => .error (.csv e)
  | .ok records =>
    match readCsvSheet name records with
    | .ok s => .ok s
    | .error e => .error (.sheet e)

/-- `load_csv(path)`: `open(path, "r", encoding="utf-8", newline="")` + `tablib.import_set` +
`omit_empty_rows` -/
def loadCsv (name : Str) (bytes : ByteArray) : Except LoadErr Sheet :=
  match Csv.decodeUtf8 bytes with
  | none => .error (.csv .decode)
  | some text => loadCsvText name text

/-! ### JSON files: bytes ↔ workbook (`to_json` + `cli.convert` out, `load_json` + `JSONSheetReader` in) -/

section JsonFiles
open Rpft.JsonText

def jvsOfList : List JV → JVs
  | [] => .nil
  | x :: xs => .cons x (jvsOfList xs)

def jmsOfList : List (Str × JV) → JMs
  | [] => .nil
  | (k, v) :: ms => .cons k v (jmsOfList ms)

/-- a `table.dict` value as the JSON value `json.dumps` sees -/
def contentJV : JContent → JV
  | .objs rows => .arr (jvsOfList (rows.map (fun r => .obj (jmsOfList (r.map (fun kv => (kv.1, JV.str kv.2)))))))
  | .lists rows => .arr (jvsOfList (rows.map (fun r => .arr (jvsOfList (r.map JV.str)))))

/-- `to_json`: `book = {"meta": {"version": "0.1.0"}, "sheets": {name: sheet.table.dict …}}`
(the sheets of a reader are the values of a dict: their names are distinct) -/
def bookJV (w : Workbook) : JV :=
  .obj (.cons "meta".toList (.obj (.cons "version".toList (.str "0.1.0".toList) .nil))
    (.cons "sheets".toList (.obj (jmsOfList (w.map (fun s => (s.name, contentJV (toJson s)))))) .nil))

/-- `json.dumps(book, ensure_ascii=False, indent=2)` -/
def toJsonText (w : Workbook) : Str := dumps (bookJV w)

/-- `cli.convert`: `export.write(bytes(content, "utf-8"))` -/
def toJsonBytes (w : Workbook) : ByteArray := Csv.encodeUtf8 (toJsonText w)

def strCells : JVs → Option (List Str)
  | .nil => some []
  | .cons (.str s) xs => (strCells xs).map (s :: ·)
  | .cons _ _ => none

def strMembers : JMs → Option (List (Str × Str))
  | .nil => some []
  | .cons k (.str v) ms => (strMembers ms).map ((k, v) :: ·)
  | .cons _ _ _ => none

def listRows : JVs → Option (List (List Str))
  | .nil => some []
  | .cons (.arr a) xs =>
    match strCells a, listRows xs with
    | some r, some rs => some (r :: rs)
    | _, _ => none
  | .cons _ _ => none

def objRows : JVs → Option (List (List (Str × Str)))
  | .nil => some []
  | .cons (.obj m) xs =>
    match strMembers m, objRows xs with
    | some r, some rs => some (r :: rs)
    | _, _ => none
  | .cons _ _ => none

/-- the values `table.dict = content` is modelled for: a list of objects / of lists, text cells
(`Dataset._set_dict` looks at `pickle[0]` to choose) -/
def contentOf : JV → Option JContent
  | .arr .nil => some (.objs [])
  | .arr (.cons (.obj m) rest) => (objRows (.cons (.obj m) rest)).map JContent.objs
  | .arr (.cons (.arr a) rest) => (listRows (.cons (.arr a) rest)).map JContent.lists
  | _ => none

def jmLookup (k : Str) : JMs → Option JV
  | .nil => none
  | .cons k' v ms => if k' = k then some v else jmLookup k ms

inductive JsonLoadErr
  | decode                       -- UnicodeDecodeError
  | json (e : DErr)              -- json.JSONDecodeError (or a value outside the model)
  | shape                        -- no "sheets" object / a content that is not a list of text rows
  | sheet (e : SErr)             -- tablib refused a row
deriving DecidableEq, Repr

/-- `for name, content in data["sheets"].items(): table.dict = content; omit_empty_rows(table)` -/
def sheetsOfMembers : JMs → Except JsonLoadErr Workbook
  | .nil => .ok []
  | .cons name content rest =>
    match contentOf content with
    | none => .error .shape
    | some c =>
      match readJsonSheet name c with
      | .error e => .error (.sheet e)
      | .ok s =>
        match sheetsOfMembers rest with
        | .ok ss => .ok (s :: ss)
        | .error e => .error e

/-- text mode without `newline=`: CRLF and CR arrive as LF (`load_json` opens the file that way) -/
def universalNewlines (text : Str) : Str := replace1 '\r' ['\n'] (replace2 '\r' '\n' ['\n'] text)

def loadJsonText (text : Str) : Except JsonLoadErr Workbook :=
  match loads text with
  | .error e => .error (.json e)
  | .ok (.obj top) =>
    match jmLookup "sheets".toList top with
    | some (.obj sheets) => sheetsOfMembers sheets
    | _ => .error .shape
  | .ok _ => .error .shape

/-- `JSONSheetReader(filename)`: `load_json` (`open(path, "r", encoding="utf-8")` + `json.load`) and
the loop over `data["sheets"]` -/
def loadJson (bytes : ByteArray) : Except JsonLoadErr Workbook :=
  match Csv.decodeUtf8 bytes with
  | none => .error .decode
  | some text => loadJsonText (universalNewlines text)

end JsonFiles

end Rpft.Sheets
