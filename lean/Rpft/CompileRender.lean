/-
Rendering of the compiler model's nodes into the flow syntax of `Rpft/Flow.lean`
(`BaseNode.render`, `SwitchRouter.render`, `RandomRouter.render`, `Exit.render`).  The driver
prints exactly this structure.  Core Lean only.
-/
import Rpft.Compile
import Rpft.Flow
namespace Rpft.Compile
open Rpft

def renderExit (c : Cat) : Flow.Exit := { uuid := c.exitUid, dest := renderDest c.dest }

def renderCat (c : Cat) : Flow.Category := { uuid := c.uid, name := c.name, exitUuid := c.exitUid }

def renderCase (k : Case) : Flow.Case :=
  { uuid := k.uid, type := k.type, args := k.args.map (fun a => a.getD []), catUuid := k.catUid }

def renderRouter : RouterM → Flow.Router
  | .sw r =>
    .switch r.operand (r.cases.map renderCase) (r.allCats.map renderCat) r.dflt.uid
      (match r.wait, r.noResp with
       | some (n + 1), some nr => some (some (n + 1, nr.uid))
       | some _, _ => some none
       | none, _ => none)
      r.resultName
  | .rnd r => .random (r.cats.map renderCat) (match r.resultName with
      | some n => if n.isEmpty then none else some n
      | none => none)

def renderNode (n : NodeM) : Flow.Node :=
  { uuid := n.uid
    actions := n.actions.map fun (u, a) => { uuid := u, obs := a }
    router := n.router.map renderRouter
    exits := match n.router with
      | none => [{ uuid := n.dexitUid, dest := renderDest n.dexitDest }]
      | some (.sw r) => r.allCats.map renderExit
      | some (.rnd r) => r.cats.map renderExit }

def renderOut (o : Out) : Flow.Flow := { uuid := [], name := [], nodes := o.nodes.map renderNode }

end Rpft.Compile
