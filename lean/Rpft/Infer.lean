/-
M9 `Infer` — model of `rpft/parsers/common/model_inference.py` (all of it) and of
`get_field_name` (rowparser.py 108-113).  Core Lean only (compiled into the driver).

The model follows the code line by line and keeps its quirks:
* a header is split at its FIRST `.` *before* any annotation is read (so `x:float=1.5`
  becomes a complex field named `x:float=1` with sub-header `5`);
* the key of a complex field is the raw text before the dot (not stripped, annotations not
  removed), the key of a simple field is `get_field_name(header)`;
* `fields` is a Python dict: simple fields in header order first, complex fields appended in
  order of first occurrence, an existing key keeps its position when overwritten;
* integer keys ⇒ the whole group is a list; its element type is the type of the LAST integer
  key ("we just take one of them"), non-integer keys are dropped, the default is built by
  `dict_to_list` (holes are `None`, Python negative indexing, `IndexError`);
* `bool` default: everything except (case-insensitive) `false` is `True`, including ``.

Outside the closed set of DESIGN §5 C18 the model answers `Err.unsupported` ("not modelled",
skipped by the tie): type strings other than ``/str/int/float/bool/list/List[T]`, integer
literals with `_` or non-ASCII digits, float defaults that are not integer literals, field
names starting with `_` (pydantic drops them with a warning).
-/
import Rpft.Str
namespace Rpft.Infer
open Rpft

/-- default values (`None` appears as a hole of `dict_to_list`) -/
inductive Val where
  | none
  | str (s : Str)
  | int (i : Int)
  | float (i : Int)          -- `float(i)`: only integer-valued literals are modelled
  | bool (b : Bool)
  | list (vs : List Val)
  | record (fs : List (Str × Val))
  deriving Repr, Inhabited

inductive Ty where
  | str | int | float | bool
  | anyList                                   -- `list`
  | list (t : Ty)                             -- `List[t]`
  | model (fs : List (Str × Ty × Val))        -- created ParserModel: (name, type, default)
  deriving Repr, Inhabited

abbrev Field := Str × Ty × Val
abbrev Schema := List Field

inductive Err where
  | fuel | unsupported | valueError | indexError | shadow
  deriving DecidableEq, Repr

/-! ### structural equality (the nested inductives have no derived `DecidableEq`) -/

mutual
def Val.beq : Val → Val → Bool
  | .none, .none => true
  | .str a, .str b => a == b
  | .int a, .int b => a == b
  | .float a, .float b => a == b
  | .bool a, .bool b => a == b
  | .list a, .list b => Val.beqL a b
  | .record a, .record b => Val.beqR a b
  | _, _ => false
def Val.beqL : List Val → List Val → Bool
  | [], [] => true
  | a :: as, b :: bs => Val.beq a b && Val.beqL as bs
  | _, _ => false
def Val.beqR : List (Str × Val) → List (Str × Val) → Bool
  | [], [] => true
  | (k, a) :: as, (k', b) :: bs => k == k' && Val.beq a b && Val.beqR as bs
  | _, _ => false
end

mutual
def Ty.beq : Ty → Ty → Bool
  | .str, .str => true
  | .int, .int => true
  | .float, .float => true
  | .bool, .bool => true
  | .anyList, .anyList => true
  | .list a, .list b => Ty.beq a b
  | .model a, .model b => Ty.beqF a b
  | _, _ => false
def Ty.beqF : List (Str × Ty × Val) → List (Str × Ty × Val) → Bool
  | [], [] => true
  | (k, t, d) :: as, (k', t', d') :: bs => k == k' && Ty.beq t t' && Val.beq d d' && Ty.beqF as bs
  | _, _ => false
end

/-! ### Python string helpers -/

/-- `s.split(c, 1)` when `c in s` -/
def splitFirst (c : Char) : Str → Option (Str × Str)
  | [] => none
  | x :: s =>
    if x = c then some ([], s)
    else match splitFirst c s with
      | some (a, b) => some (x :: a, b)
      | none => none

/-- `s.split(c)[0]` -/
def takeUntil (c : Char) : Str → Str
  | [] => []
  | x :: s => if x = c then [] else x :: takeUntil c s

def sepField : Char := '.'
def sepType : Char := ':'
def sepDefault : Char := '='

/-- rowparser.py `get_field_name` -/
def getFieldName (h : Str) : Str := strip pyWs (takeUntil sepDefault (takeUntil sepType h))

def lowerAscii (c : Char) : Char :=
  if 65 ≤ c.toNat ∧ c.toNat ≤ 90 then Char.ofNat (c.toNat + 32) else c

/-- rowparser.py `str_to_bool` (no non-ASCII character lower-cases into a letter of `false`) -/
def strToBool (s : Str) : Bool := !(s.map lowerAscii == ['f', 'a', 'l', 's', 'e'])

def isDigit (c : Char) : Bool := 48 ≤ c.toNat && c.toNat ≤ 57

def valOf (s : Str) : Nat := s.foldl (fun a c => a * 10 + (c.toNat - 48)) 0

inductive IntParse where
  | ok (i : Int) | invalid | unmodelled
  deriving DecidableEq, Repr

/-- first code points of the non-ASCII runs `0..9` of Unicode decimal digits (what `int()`
accepts besides ASCII); tied to the running interpreter by T1 (`tables_agree`). -/
def uniDigitZeros : List Nat :=
  [1632, 1776, 1984, 2406, 2534, 2662, 2790, 2918, 3046, 3174, 3302, 3430, 3558, 3664, 3792,
   3872, 4160, 4240, 6112, 6160, 6470, 6608, 6784, 6800, 6992, 7088, 7232, 7248, 42528, 43216,
   43264, 43472, 43504, 43600, 44016, 65296, 66720, 68912, 69734, 69872, 69942, 70096, 70384,
   70736, 70864, 71248, 71360, 71472, 71904, 72016, 72784, 73040, 73120, 73552, 92768, 92864,
   93008, 120782, 120792, 120802, 120812, 120822, 123200, 123632, 124144, 125264, 130032]

def isUniDigit (c : Char) : Bool := uniDigitZeros.any (fun z => z ≤ c.toNat && c.toNat < z + 10)

/-- `int(s)` on a stripped string: optional sign, ASCII digits.  Digit strings with `_` or
non-ASCII decimal digits are not modelled (`unmodelled`); everything else is a `ValueError`. -/
def parseIntCore (s : Str) : IntParse :=
  let neg := s.head? == some '-'
  let body := if s.head? == some '+' || neg then s.tail else s
  if body ≠ [] ∧ body.all isDigit then
    (if neg then .ok (-(valOf body : Int)) else .ok (valOf body : Int))
  else if body ≠ [] ∧ body.all (fun c => isDigit c || c = '_' || isUniDigit c) then .unmodelled
  else .invalid

/-- Python `int(s)` (strips whitespace first) -/
def pyInt (s : Str) : IntParse := parseIntCore (strip pyWs s)

def digitChar (d : Nat) : Char := Char.ofNat (48 + d)

def natToStrAux : Nat → Nat → Str
  | 0, n => [digitChar (n % 10)]
  | f + 1, n => if n < 10 then [digitChar n] else natToStrAux f (n / 10) ++ [digitChar (n % 10)]

/-- `str(n)` for a natural number (fuel `n` is always enough) -/
def natToStr (n : Nat) : Str := natToStrAux n n

def intToStr (i : Int) : Str :=
  if i < 0 then '-' :: natToStr i.natAbs else natToStr i.natAbs

/-! ### model_inference.py -/

def sStr : Str := ['s', 't', 'r']
def sInt : Str := ['i', 'n', 't']
def sFloat : Str := ['f', 'l', 'o', 'a', 't']
def sBool : Str := ['b', 'o', 'o', 'l']
def sList : Str := ['l', 'i', 's', 't']
def sListOpen : Str := ['L', 'i', 's', 't', '[']

def stripPrefix : Str → Str → Option Str
  | [], s => some s
  | _ :: _, [] => none
  | p :: ps, c :: cs => if p = c then stripPrefix ps cs else none

/-- the closed set of type strings: str int float bool list List[T] -/
def parseTyFuel : Nat → Str → Option Ty
  | 0, _ => none
  | n + 1, s =>
    if s = sStr then some .str
    else if s = sInt then some .int
    else if s = sFloat then some .float
    else if s = sBool then some .bool
    else if s = sList then some .anyList
    else match stripPrefix sListOpen s with
      | some r =>
        if r.getLast? = some ']' then (parseTyFuel n r.dropLast).map Ty.list else none
      | none => none

/-- `type_from_string` -/
def typeFromString (s : Str) : Except Err Ty :=
  if s = [] then .ok .str
  else match parseTyFuel (s.length + 1) s with
    | some t => .ok t
    | none => .error .unsupported

/-- `get_value_for_type(type, value)` -/
def valueForType (t : Ty) (v : Option Str) : Except Err Val :=
  match t with
  | .anyList => .ok (.list [])
  | .list _ => .ok (.list [])
  | .model _ => .error .unsupported
  | .str => .ok (.str (v.getD []))
  | .bool =>
    match v with
    | none => .ok (.bool false)
    | some s => .ok (.bool (strToBool s))
  | .int =>
    match v with
    | none => .ok (.int 0)
    | some s =>
      match pyInt s with
      | .ok i => .ok (.int i)
      | .invalid => .error .valueError
      | .unmodelled => .error .unsupported
  | .float =>
    match v with
    | none => .ok (.float 0)
    | some s =>
      match pyInt s with
      | .ok i => .ok (.float i)
      | _ => .error .unsupported

/-- `infer_type`: the text between the first `:` and the next `=`, stripped -/
def inferType (h : Str) : Except Err Ty :=
  match splitFirst sepType h with
  | none => typeFromString []
  | some (_, suffix) => typeFromString (strip pyWs (takeUntil sepDefault suffix))

/-- `infer_default_value`: the text after the first `=` of the header, stripped -/
def inferDefaultValue (t : Ty) (h : Str) : Except Err Val :=
  match splitFirst sepDefault h with
  | none => valueForType t none
  | some (_, suffix) => valueForType t (some (strip pyWs suffix))

/-- `parse_header_annotations` -/
def parseHeaderAnnotations (h : Str) : Except Err (Ty × Val) := do
  let t ← inferType h
  let d ← inferDefaultValue t h
  pure (t, d)

/-- `d[k] = v` on an insertion-ordered dict -/
def dictSet {α : Type} : List (Str × α) → Str → α → List (Str × α)
  | [], k, v => [(k, v)]
  | (k', v') :: d, k, v => if k' = k then (k, v) :: d else (k', v') :: dictSet d k v

/-- `d[k].append(s)` on a `defaultdict(list)` -/
def dictAppendTo : List (Str × List Str) → Str → Str → List (Str × List Str)
  | [], k, s => [(k, [s])]
  | (k', l) :: d, k, s => if k' = k then (k', l ++ [s]) :: d else (k', l) :: dictAppendTo d k s

/-- first loop of `model_from_headers_rec` -/
def pass1 : List Str → List Field × List (Str × List Str) →
    Except Err (List Field × List (Str × List Str))
  | [], acc => .ok acc
  | h :: hs, (fields, cx) =>
    -- nesting is decided on the field NAME (`get_field_name(header)`), so a dot inside a
    -- default value does not split the header
    match (if (getFieldName h).contains sepField then splitFirst sepField h else none) with
    | some (field, sub) => pass1 hs (fields, dictAppendTo cx field sub)
    | none =>
      match parseHeaderAnnotations h with
      | .ok td => pass1 hs (dictSet fields (getFieldName h) td, cx)
      | .error e => .error e

/-- second loop: recursive models for the complex fields -/
def pass2 (rec : List Str → Except Err (Ty × Val)) :
    List (Str × List Str) → List Field → Except Err (List Field)
  | [], fields => .ok fields
  | (k, subs) :: cx, fields =>
    match rec subs with
    | .ok td => pass2 rec cx (dictSet fields k td)
    | .error e => .error e

/-- the `represents_integer` loop: `(int(field) - 1, type, default)` of the integer keys -/
def collectInts : List Field → Except Err (List (Int × Ty × Val))
  | [] => .ok []
  | (k, t, d) :: fs =>
    match pyInt k with
    | .unmodelled => .error .unsupported
    | .invalid => collectInts fs
    | .ok i =>
      match collectInts fs with
      | .ok r => .ok ((i - 1, t, d) :: r)
      | .error e => .error e

def maxKey : Int → List (Int × Ty × Val) → Int
  | m, [] => m
  | m, (k, _) :: r => maxKey (if m < k then k else m) r

/-- `out[k] = v` with Python list indexing -/
def pySet (out : List Val) (k : Int) (v : Val) : Except Err (List Val) :=
  let n : Int := out.length
  let idx := if 0 ≤ k then k else n + k
  if 0 ≤ idx ∧ idx < n then .ok (out.set idx.toNat v) else .error .indexError

def fillList : List (Int × Ty × Val) → List Val → Except Err (List Val)
  | [], out => .ok out
  | (k, _, d) :: r, out =>
    match pySet out k d with
    | .ok out' => fillList r out'
    | .error e => .error e

/-- `dict_to_list(list_default_values)` -/
def dictToList (ints : List (Int × Ty × Val)) : Except Err (List Val) :=
  match ints with
  | [] => .ok []
  | (k, _) :: r =>
    let mx := maxKey k r
    fillList ints (List.replicate (mx + 1).toNat Val.none)

/-- attributes of `ParserModel` that pydantic refuses as field names
(`validate_field_name`); tied to the source by T1 (`tables_agree`). -/
def shadowNames : List Str :=
  ["Config", "construct", "copy", "dict", "field_name_to_header_name", "from_orm",
   "header_name_to_field_name", "header_name_to_field_name_with_context", "json",
   "parse_file", "parse_obj", "parse_raw", "schema", "schema_json", "update_forward_refs",
   "validate"].map String.toList

def shadowCheck : List Field → Except Err Unit
  | [] => .ok ()
  | (k, _) :: fs => if shadowNames.contains k then .error .shadow else shadowCheck fs

/-- `create_model(**fields)`: a name starting with `_` is not modelled (pydantic drops it with
a warning, dunder names collide with `create_model`'s own parameters); a name that is an
attribute of `ParserModel` is a `NameError`. -/
def nameCheck (fs : List Field) : Except Err Unit :=
  if fs.any (fun f => f.1.head? == some '_') then .error .unsupported else shadowCheck fs

/-- `ParserModel()` of a created model: every field at its default -/
def defaultRecord (fs : List Field) : Val := .record (fs.map (fun f => (f.1, f.2.2)))

/-- list detection and `create_model` (the tail of `model_from_headers_rec`) -/
def finish (fields : List Field) : Except Err (Ty × Val) :=
  match collectInts fields with
  | .error e => .error e
  | .ok ints =>
    match ints.getLast? with
    | some (_, t, _) =>
      match dictToList ints with
      | .ok ds => .ok (.list t, .list ds)
      | .error e => .error e
    | none =>
      match nameCheck fields with
      | .ok _ => .ok (.model fields, defaultRecord fields)
      | .error e => .error e

/-- `model_from_headers_rec` (fuel = recursion depth; every level consumes a `.`) -/
def inferRec : Nat → List Str → Except Err (Ty × Val)
  | 0, _ => .error .fuel
  | fuel + 1, hs =>
    match pass1 hs ([], []) with
    | .error e => .error e
    | .ok (fields, cx) =>
      match pass2 (inferRec fuel) cx fields with
      | .error e => .error e
      | .ok fields' => finish fields'

def maxLen : List Str → Nat
  | [] => 0
  | h :: hs => max h.length (maxLen hs)

/-- `model_from_headers(name, headers)` — the type only.  The model's class name
(`name.title()…`) is not modelled (not observable in `row.dict()`). -/
def infer (hs : List Str) : Except Err Ty :=
  match inferRec (maxLen hs + 1) hs with
  | .ok (t, _) => .ok t
  | .error e => .error e

/-- contentindexparser.py 266-268: with a blank `data_model` the row model of a data sheet is
`model_from_headers(sheet_name, data_table.headers)` — the cells are not an argument. -/
def inferSheet (headers : List Str) (_cells : List (List Str)) : Except Err Ty := infer headers

/-- `infer hs` succeeded with (structurally) `t` -/
def inferIs (hs : List Str) (t : Ty) : Bool :=
  match infer hs with
  | .ok t' => Ty.beq t' t
  | .error _ => false

/-! ### the inverse used by the generators: schema → annotated headers -/

def renderTy : Ty → Str
  | .str => sStr
  | .int => sInt
  | .float => sFloat
  | .bool => sBool
  | .anyList => sList
  | .list t => sListOpen ++ renderTy t ++ [']']
  | .model _ => ['?']

/-- `:type` (nothing for `str`) -/
def annOf : Ty → Str
  | .str => []
  | t => sepType :: renderTy t

/-- the text after `=` (none for the type's own zero value, none for lists) -/
def dflX : Val → Option Str
  | .str s => if s = [] then none else some s
  | .int i => if i = 0 then none else some (intToStr i)
  | .float i => if i = 0 then none else some (intToStr i)
  | .bool b => if b then some ['T', 'r', 'u', 'e'] else none
  | _ => none

def dflStr : Option Str → Str
  | none => []
  | some D => sepDefault :: D

/-- `=default` -/
def dflOf (d : Val) : Str := dflStr (dflX d)

/-- a field written as ONE annotated header (basic types, `list`, `List[T]` with default `[]`) -/
def isSimple : Ty → Val → Bool
  | .model _, _ => false
  | .list _, .list (_ :: _) => false
  | _, _ => true

def elemsFrom (f : Val → List Str) : Nat → List Val → List Str
  | _, [] => []
  | i, d :: ds => (f d).map (fun s => natToStr i ++ s) ++ elemsFrom f (i + 1) ds

mutual
/-- the headers of one field, without its name: `[":int=5"]`, `[".a", ".b:int"]`, `[".1", ".2=x"]` -/
def renderTD : Ty → Val → List Str
  | .model fs, _ => (renderFs fs).map (fun s => sepField :: s)
  | .list t, .list (d :: ds) =>
    (elemsFrom (fun d => renderTD t d) 1 (d :: ds)).map (fun s => sepField :: s)
  | .list t, d => [annOf (.list t) ++ dflOf d]
  | .str, d => [annOf .str ++ dflOf d]
  | .int, d => [annOf .int ++ dflOf d]
  | .float, d => [annOf .float ++ dflOf d]
  | .bool, d => [annOf .bool ++ dflOf d]
  | .anyList, d => [annOf .anyList ++ dflOf d]
def renderFs : List (Str × Ty × Val) → List Str
  | [] => []
  | (n, t, d) :: fs => (renderTD t d).map (fun s => n ++ s) ++ renderFs fs
end

/-- annotated headers of a row model -/
def renderHeaders (sch : Schema) : List Str := renderFs sch

/-! ### the family of schemas the header syntax can express (DESIGN §5 C18 `InFamily`) -/

/-- types that can be written after `:` (no record inside) -/
def annTy : Ty → Bool
  | .model _ => false
  | .list t => annTy t
  | _ => true

/-- a field name as the header syntax can carry it -/
def nameOk (n : Str) : Bool :=
  !n.contains sepField && !n.contains sepType && !n.contains sepDefault &&
  strip pyWs n == n && !(n.head? == some '_') && !shadowNames.contains n

/-- a text default as the header syntax can carry it -/
def defStrOk (s : Str) : Bool :=
  !s.contains sepField && !s.contains sepType && strip pyWs s == s

/-- no complex field before a simple one (the code lists simple fields first) -/
def simpleFirst : List Bool → Bool
  | [] => true
  | true :: r => simpleFirst r
  | false :: r => r.all (fun b => !b)

def nodupStr : List Str → Bool
  | [] => true
  | a :: r => !r.contains a && nodupStr r

/-- conditions on the names / order of the fields of one record -/
def namesOk (fs : List Field) : Bool :=
  fs.all (fun f => nameOk f.1 && pyInt f.1 == .invalid) && nodupStr (fs.map (fun f => f.1)) &&
  simpleFirst (fs.map (fun f => isSimple f.2.1 f.2.2))

mutual
def famTD : Ty → Val → Bool
  | .str, .str s => defStrOk s
  | .int, .int _ => true
  | .float, .float _ => true
  | .bool, .bool _ => true
  | .anyList, .list [] => true
  | .list t, .list [] => annTy t
  | .list t, .list (d :: ds) =>
    (d :: ds).all (fun d => famTD t d) && simpleFirst ((d :: ds).map (fun d => isSimple t d))
  | .model fs, d => !fs.isEmpty && famFs fs && namesOk fs && Val.beq d (defaultRecord fs)
  | _, _ => false
def famFs : List (Str × Ty × Val) → Bool
  | [] => true
  | (_, t, d) :: fs => famTD t d && famFs fs
end

/-- the round trip of `infer_render`, as a computation -/
def roundtripB (sch : Schema) : Bool := inferIs (renderHeaders sch) (.model sch)

def inFamilyB (sch : Schema) : Bool := famFs sch && namesOk sch

/-- the schemas for which `infer (renderHeaders sch) = ok sch` (Props/C18 `infer_render`) -/
def InFamily (sch : Schema) : Prop := inFamilyB sch = true

instance (sch : Schema) : Decidable (InFamily sch) := inferInstanceAs (Decidable (_ = true))

/-! ### the same family with the fields in ANY order (Props/C18 `infer_order_insensitive`) -/

/-- conditions on the names of the fields of one record (no condition on their order) -/
def namesOkU (fs : List Field) : Bool :=
  fs.all (fun f => nameOk f.1 && pyInt f.1 == .invalid) && nodupStr (fs.map (fun f => f.1))

mutual
/-- `famTD` without `simpleFirst`: fields / list entries in any order -/
def wfTD : Ty → Val → Bool
  | .str, .str s => defStrOk s
  | .int, .int _ => true
  | .float, .float _ => true
  | .bool, .bool _ => true
  | .anyList, .list [] => true
  | .list t, .list [] => annTy t
  | .list t, .list (d :: ds) => (d :: ds).all (fun d => wfTD t d)
  | .model fs, d => !fs.isEmpty && wfFs fs && namesOkU fs && Val.beq d (defaultRecord fs)
  | _, _ => false
def wfFs : List (Str × Ty × Val) → Bool
  | [] => true
  | (_, t, d) :: fs => wfTD t d && wfFs fs
end

def inFamilyUB (sch : Schema) : Bool := wfFs sch && namesOkU sch

/-- the schemas the header syntax can express, fields in ANY order (`InFamily` is the subset
whose fields are in the order the code builds: simple fields first) -/
def InFamilyU (sch : Schema) : Prop := inFamilyUB sch = true

instance (sch : Schema) : Decidable (InFamilyU sch) := inferInstanceAs (Decidable (_ = true))

end Rpft.Infer
