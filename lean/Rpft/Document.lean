/-
M9 — model of `from_dict` / `render` of the RapidPro export schema
(containers.py 34-49, 67-112, 144-190, 306-345; nodes.py 55-144, 209-227, 266-270,
364-367, 428-434, 512-518, 604-610; routers.py 17-34, 69-70, 142-186, 265-330, 419-545;
actions.py 23-79 and every `render`; common.py 13-117; campaigns.py; triggers.py).

`DocD` is a typed AST of the export document.  Values the code only copies are opaque
(`Blob` = canonical JSON text); values it inspects are typed.  `load` follows `from_dict`
(building the object graph: categories hold their exit, switch routers hold
other / default / no-response categories separately), `render` follows `render`
(including `validate()` → `update_global_uuids()` → the group list rebuilt from the
name→uuid dictionary).  Where the real code would invent a UUID the model stops with
`Err.freshUuid` (outside the property's domain).  Core Lean only.
-/
import Rpft.Str
namespace Rpft.Document
open Rpft

/-- canonical JSON text of a value the code never looks into -/
abbrev Blob := Str
abbrev Obj := List (Str × Blob)

def jNull : Blob := "null".toList
def jEmptyObj : Blob := "{}".toList
def jEmptyArr : Blob := "[]".toList
def jMsg : Blob := "\"msg\"".toList
def jHardExit : Blob := "\"HARD_EXIT\"".toList
/-- what `ContactFieldReference.render` writes for a typed reference: the builtin `type`
(rendered here as the JSON string of its `repr`; the real value is not JSON at all) -/
def jTypeBuiltin : Blob := "\"<class 'type'>\"".toList
def jDefaultSite : Blob := "\"https://rapidpro.idems.international\"".toList
def jMatchF : Blob := "\"F\"".toList

/-- Python truthiness of a JSON value, on canonical text (the codec writes every zero
number as `0`). -/
def falsy (b : Blob) : Bool :=
  b == jNull || b == "false".toList || b == "0".toList || b == "\"\"".toList || b == jEmptyArr || b == jEmptyObj
def truthy (b : Blob) : Bool := !falsy b
def isNull (b : Blob) : Bool := b == jNull

inductive Err | freshUuid | unsupported | valueError | keyError | assertion | multipleUuids | undefinedFlow
  deriving DecidableEq, Repr

def mapE {α β : Type} (f : α → Except Err β) : List α → Except Err (List β)
  | [] => .ok []
  | a :: as =>
    match f a with
    | .error e => .error e
    | .ok b =>
      match mapE f as with
      | .error e => .error e
      | .ok bs => .ok (b :: bs)

/-! ### the document -/

structure GroupD where
  name : Str
  uuid : Str
  query : Option Blob := none
  status : Option Blob := none
  system : Option Blob := none
  count : Option Blob := none
  deriving DecidableEq, Repr

structure FlowRefD where
  name : Str
  uuid : Str
  deriving DecidableEq, Repr

structure ExitD where
  uuid : Str
  dest : Option Blob
  deriving DecidableEq, Repr

structure CategoryD where
  uuid : Str
  name : Str
  exitUuid : Str
  deriving DecidableEq, Repr

structure CaseD where
  uuid : Str
  type : Str
  arguments : List Str
  categoryUuid : Str
  deriving DecidableEq, Repr

structure TimeoutD where
  seconds : Nat
  categoryUuid : Str
  deriving DecidableEq, Repr

structure WaitD where
  type : Blob
  timeout : Option TimeoutD
  deriving DecidableEq, Repr

inductive RouterD
  | switch (operand : Blob) (cases : List CaseD) (cats : List CategoryD) (dflt : Str)
      (wait : Option WaitD) (resultName : Option Blob)
  | random (cats : List CategoryD) (resultName : Option Blob)
  deriving DecidableEq, Repr

structure TemplatingD where
  uuid : Str
  tName : Blob
  tUuid : Blob
  variables : Blob
  deriving DecidableEq, Repr

/-- the five contact properties of `SetContactPropertyAction` -/
def contactProps : List Str :=
  ["channel".toList, "language".toList, "name".toList, "status".toList, "timezone".toList]

inductive ActionD
  | sendMsg (uuid text : Blob) (attachments : List Blob) (quickReplies : Blob)
      (allUrns topic : Option Blob) (templating : Option TemplatingD)
  | setContactField (uuid fName fKey : Blob) (fType : Option Blob) (value : Blob)
  | setContactProperty (uuid : Blob) (prop : Str) (value : Blob)
  | addGroups (uuid : Blob) (groups : List GroupD)
  | removeGroups (uuid : Blob) (groups : List GroupD) (allGroups : Option Blob)
  | setRunResult (uuid name value : Blob) (category : Option Blob)
  | enterFlow (uuid : Blob) (flow : FlowRefD)
  | passThrough (type : Str) (fields : Obj)
  deriving DecidableEq, Repr

structure NodeD where
  uuid : Str
  actions : List ActionD
  router : Option RouterD
  exits : List ExitD
  deriving DecidableEq, Repr

structure FlowD where
  uuid : Str
  name : Str
  language : Blob
  type : Blob
  specVersion : Blob
  revision : Blob
  expire : Blob
  metadata : Blob
  localization : Blob
  nodes : List NodeD
  /-- `_ui.nodes` reduced to `uuid ↦ (left, top)`; `none` = no `_ui` / no `nodes` in it -/
  ui : Option (List (Str × Blob × Blob))
  deriving DecidableEq, Repr

structure EventD where
  uuid : Str
  offset : Blob
  unit : Blob
  eventType : Str
  deliveryHour : Blob
  message : Blob
  relLabel : Blob
  relKey : Blob
  startMode : Blob
  flow : Option FlowRefD
  baseLanguage : Option Blob
  deriving DecidableEq, Repr

structure CampaignD where
  uuid : Str
  name : Blob
  group : GroupD
  events : List EventD
  deriving DecidableEq, Repr

structure TriggerD where
  type : Str
  keyword : Option Blob
  keywords : Option (List Blob)
  channel : Blob
  matchType : Option Blob
  flow : FlowRefD
  groups : List GroupD
  excludeGroups : Option (List GroupD)
  deriving DecidableEq, Repr

structure DocD where
  campaigns : List CampaignD
  fields : Blob
  flows : List FlowD
  groups : List GroupD
  site : Blob
  triggers : List TriggerD
  version : Blob
  deriving DecidableEq, Repr

/-! ### the loaded object graph -/

/-- `RouterCategory`: holds its `Exit` object -/
structure CatC where
  uuid : Str
  name : Str
  exit : ExitD
  deriving DecidableEq, Repr

inductive RouterC
  | switch (operand : Blob) (resultName : Option Blob) (waitTimeout : Option Nat)
      (cases : List CaseD) (others : List CatC) (dflt : CatC) (noResp : Option CatC)
  | random (resultName : Option Blob) (cats : List CatC)
  deriving DecidableEq, Repr

structure NodeC where
  uuid : Str
  actions : List ActionD
  router : Option RouterC
  /-- `default_exit` of a node without router -/
  exit : Option ExitD
  uiPos : Option (Blob × Blob)
  deriving DecidableEq, Repr

structure FlowC where
  uuid : Str
  name : Str
  language : Blob
  type : Blob
  specVersion : Blob
  revision : Blob
  expire : Blob
  metadata : Blob
  localization : Blob
  nodes : List NodeC
  deriving DecidableEq, Repr

structure TriggerC where
  type : Str
  keywords : List Blob
  channel : Blob
  matchType : Blob
  flow : FlowRefD
  groups : List GroupD
  excludeGroups : List GroupD
  deriving DecidableEq, Repr

structure Container where
  campaigns : List CampaignD
  fields : Blob
  flows : List FlowC
  groups : List GroupD
  site : Blob
  triggers : List TriggerC
  version : Blob
  deriving DecidableEq, Repr

/-! ### load (`from_dict`) -/

/-- `uuid or generate_new_uuid()`: the model does not invent uuids -/
def needUuid (u : Str) : Except Err Unit := if u = [] then .error .freshUuid else .ok ()

/-- `Exit.from_dict` -/
def loadExit (e : ExitD) : Except Err ExitD :=
  if e.uuid = [] then .error .freshUuid else .ok e

/-- `RouterCategory.from_dict`: first exit with the category's `exit_uuid` -/
def loadCategory (exits : List ExitD) (c : CategoryD) : Except Err CatC :=
  match exits.find? (fun e => e.uuid == c.exitUuid) with
  | none => .error .valueError
  | some e =>
    if c.uuid = [] then .error .freshUuid
    else if 115 < c.name.length then .error .valueError
    else .ok { uuid := c.uuid, name := c.name, exit := e }

/-- router tests (`RouterCase.TEST_VALIDATIONS`) and those taking no argument
(`NO_ARGS_TESTS`); tied to the source by `Props.C05.tables_agree` -/
def routerTests : List Str :=
  ["all_words", "has_any_word", "has_beginning", "has_category", "has_date", "has_date_eq",
   "has_date_gt", "has_date_lt", "has_district", "has_email", "has_error", "has_group",
   "has_intent", "has_number", "has_number_between", "has_number_eq", "has_number_gt",
   "has_number_gte", "has_number_lt", "has_number_lte", "has_only_phrase", "has_only_text",
   "has_pattern", "has_phone", "has_phrase", "has_state", "has_text", "has_time",
   "has_top_intent", "has_ward"].map String.toList
def noArgTests : List Str :=
  ["has_date", "has_email", "has_error", "has_number", "has_state", "has_text", "has_time"].map
    String.toList

/-- `RouterCase.from_dict` / `__init__` -/
def loadCase (c : CaseD) : Except Err CaseD :=
  if c.uuid = [] then .error .freshUuid
  else if ¬ routerTests.contains c.type then .error .valueError
  else .ok { c with arguments := if noArgTests.contains c.type then [] else c.arguments }

def firstWith (u : Str) (cats : List CatC) : Option CatC := cats.find? (fun c => c.uuid == u)

/-- `SwitchRouter.from_dict` + `SwitchRouter.__init__` / `RandomRouter.from_dict` -/
def loadRouter (exits : List ExitD) : RouterD → Except Err RouterC
  | .random cats rn =>
    match mapE (loadCategory exits) cats with
    | .error e => .error e
    | .ok cs => .ok (.random rn cs)
  | .switch operand cases cats dflt wait rn =>
    match mapE (loadCategory exits) cats with
    | .error e => .error e
    | .ok cs =>
    match mapE loadCase cases with
    | .error e => .error e
    | .ok ks =>
    match firstWith dflt cs with
    | none => .error .valueError
    | some dc =>
      match wait with
      | none => .ok (.switch operand rn none ks (cs.filter (fun c => c.uuid != dflt)) dc none)
      | some w =>
        match w.timeout with
        | none => .ok (.switch operand rn (some 0) ks (cs.filter (fun c => c.uuid != dflt)) dc none)
        | some t =>
          match firstWith t.categoryUuid cs with
          | none => .error .valueError
          | some nr =>
            .ok (.switch operand rn (some t.seconds) ks
              (cs.filter (fun c => c.uuid != dflt && c.uuid != t.categoryUuid)) dc
              (if t.seconds = 0 then none else some nr))

/-- `Action.from_dict` and the `_assign_fields_from_dict` overrides: what they reject.
The loaded instance holds the same data as the dict, so the action is its own image. -/
def loadAction : ActionD → Except Err ActionD
  | .setContactField u n k t v =>
    -- `key or generate_field_key(name)`: key derivation is not modelled
    if falsy k then .error .unsupported else .ok (.setContactField u n k t v)
  | .setContactProperty u p v =>
    if contactProps.contains p then .ok (.setContactProperty u p v) else .error .assertion
  | .sendMsg u t a q au tp (some tm) =>
    if tm.uuid = [] then .error .freshUuid else .ok (.sendMsg u t a q au tp (some tm))
  | a => .ok a

def actionType : ActionD → Str
  | .sendMsg .. => "send_msg".toList
  | .setContactField .. => "set_contact_field".toList
  | .setContactProperty _ p _ => "set_contact_".toList ++ p
  | .addGroups .. => "add_contact_groups".toList
  | .removeGroups .. => "remove_contact_groups".toList
  | .setRunResult .. => "set_run_result".toList
  | .enterFlow .. => "enter_flow".toList
  | .passThrough t _ => t

def routerActionTypes : List Str :=
  ["enter_flow".toList, "call_webhook".toList, "transfer_airtime".toList]

/-- `BaseNode.from_dict` dispatch and the node classes' `from_dict` -/
def loadNode (n : NodeD) : Except Err NodeC :=
  if n.uuid = [] then .error .freshUuid else
  match mapE loadExit n.exits with
  | .error e => .error e
  | .ok exits =>
  match n.router with
  | none =>
    match exits with
    | [e] =>
      match mapE loadAction n.actions with
      | .error e => .error e
      | .ok as => .ok { uuid := n.uuid, actions := as, router := none, exit := some e, uiPos := none }
    | _ => .error .valueError
  | some (.random cats rn) =>
    -- RandomRouterNode.from_dict does not look at the actions
    match loadRouter exits (.random cats rn) with
    | .error e => .error e
    | .ok r => .ok { uuid := n.uuid, actions := [], router := some r, exit := none, uiPos := none }
  | some (.switch op cases cats dflt wait rn) =>
    match n.actions with
    | [] =>
      match loadRouter exits (.switch op cases cats dflt wait rn) with
      | .error e => .error e
      | .ok r => .ok { uuid := n.uuid, actions := [], router := some r, exit := none, uiPos := none }
    | a0 :: rest =>
      if ¬ routerActionTypes.contains (actionType a0) then .error .valueError else
      match loadRouter exits (.switch op cases cats dflt wait rn) with
      | .error e => .error e
      | .ok r =>
      match mapE loadAction (a0 :: rest) with
      | .error e => .error e
      | .ok as =>
        if rest ≠ [] then .error .valueError
        else .ok { uuid := n.uuid, actions := as, router := some r, exit := none, uiPos := none }

def lookupPos (u : Str) : List (Str × Blob × Blob) → Option (Blob × Blob)
  | [] => none
  | (k, p) :: rest => if k = u then some p else lookupPos u rest

/-- `FlowContainer.from_dict` (+ `add_ui_from_dict`) and `FlowContainer.__init__` -/
def loadFlow (f : FlowD) : Except Err FlowC :=
  if f.uuid = [] then .error .freshUuid else
  match mapE loadNode f.nodes with
  | .error e => .error e
  | .ok ns =>
    .ok {
      uuid := f.uuid, name := f.name, language := f.language, type := f.type,
      specVersion := f.specVersion, revision := f.revision, expire := f.expire,
      metadata := if falsy f.metadata then jEmptyObj else f.metadata,
      localization := if falsy f.localization then jEmptyObj else f.localization,
      nodes := match f.ui with
        | none => ns
        | some ui => ns.map (fun n => { n with uiPos := lookupPos n.uuid ui }) }

def strF : Str := "F".toList
def strM : Str := "M".toList
def strK : Str := "K".toList

/-- `CampaignEvent.from_dict` / `__init__` -/
def loadEvent (e : EventD) : Except Err EventD :=
  if e.uuid = [] then .error .freshUuid
  else if falsy e.relKey then .error .unsupported
  else if e.eventType = strM ∧ (isNull e.message ∨ (e.baseLanguage.getD jNull) == jNull) then .error .valueError
  else if e.eventType = strF ∧ e.flow = none then .error .unsupported
  else .ok e

/-- `Campaign.from_dict` -/
def loadCampaign (c : CampaignD) : Except Err CampaignD :=
  if c.uuid = [] then .error .freshUuid else
  match mapE loadEvent c.events with
  | .error e => .error e
  | .ok es => .ok { c with events := es }

/-- `self.match_type = match_type or None`; a keyword trigger without one gets `"F"` -/
def loadMatchType (ty : Str) (m : Option Blob) : Blob :=
  if falsy (m.getD jNull) then (if ty = strK then jMatchF else jNull) else m.getD jNull

/-- `if self.match_type: render_dict.update(...)` -/
def renderMatchType (b : Blob) : Option Blob := if falsy b then none else some b

/-- `not keywords or not keywords[0]` -/
def firstFalsy : List Blob → Bool
  | [] => true
  | k :: _ => falsy k

/-- `Trigger.from_dict` / `__init__` -/
def loadTrigger (t : TriggerD) : Except Err TriggerC :=
  match (match t.keywords with
    | some ks => some ks
    | none => match t.keyword with
      | none => none            -- `assert "keyword" in data_copy`
      | some k => some (if isNull k then [] else [k])) with
  | none => .error .assertion
  | some ks =>
    if t.type = strK ∧ firstFalsy ks = true then .error .valueError
    else
      .ok {
        type := t.type, keywords := ks,
        channel := if falsy t.channel then jNull else t.channel,
        matchType := loadMatchType t.type t.matchType,
        flow := t.flow, groups := t.groups, excludeGroups := t.excludeGroups.getD [] }

/-- `RapidProContainer.from_dict` -/
def load (d : DocD) : Except Err Container :=
  match mapE loadFlow d.flows with
  | .error e => .error e
  | .ok fs =>
  match mapE loadCampaign d.campaigns with
  | .error e => .error e
  | .ok cs =>
  match mapE loadTrigger d.triggers with
  | .error e => .error e
  | .ok ts =>
    .ok {
      campaigns := cs, fields := if falsy d.fields then jEmptyArr else d.fields, flows := fs,
      groups := d.groups, site := if falsy d.site then jDefaultSite else d.site,
      triggers := ts, version := d.version }

/-! ### the name → uuid dictionaries (`UUIDDict`) -/

abbrev UDict := List (Str × Str)

def dget (k : Str) : UDict → Option Str
  | [] => none
  | (k', v) :: rest => if k' = k then some v else dget k rest

def dset (k v : Str) : UDict → UDict
  | [] => [(k, v)]
  | (k', v') :: rest => if k' = k then (k', v) :: rest else (k', v') :: dset k v rest

/-- `UUIDDict._record_uuid` -/
def record (d : UDict) (ref : Str × Str) : Except Err UDict :=
  match dget ref.1 d with
  | some r =>
    if r ≠ [] then
      if ref.2 ≠ [] ∧ ref.2 ≠ r then .error .multipleUuids else .ok d
    else .ok (dset ref.1 ref.2 d)
  | none => .ok (dset ref.1 ref.2 d)

def recordAll : UDict → List (Str × Str) → Except Err UDict
  | d, [] => .ok d
  | d, r :: rs =>
    match record d r with
    | .error e => .error e
    | .ok d' => recordAll d' rs

def gref (g : GroupD) : Str × Str := (g.name, g.uuid)
def fref (f : FlowRefD) : Str × Str := (f.name, f.uuid)

def strHasGroup : Str := "has_group".toList

/-- group references of an action, in `record_global_uuids` order -/
def actionGroupRefs : ActionD → List (Str × Str)
  | .addGroups _ gs => gs.map gref
  | .removeGroups _ gs _ => gs.map gref
  | _ => []

def actionFlowRefs : ActionD → List (Str × Str)
  | .enterFlow _ f => [fref f]
  | _ => []

/-- `SwitchRouter.record_global_uuids`: `has_group` cases carry `[uuid, name]` -/
def caseGroupRefs (c : CaseD) : Except Err (List (Str × Str)) :=
  if c.type = strHasGroup then
    match c.arguments with
    | u :: n :: _ => .ok [(n, u)]
    | _ => .error .keyError
  else .ok []

def routerCases : RouterC → List CaseD
  | .switch _ _ _ ks _ _ _ => ks
  | .random .. => []

def nodeCasesC (n : NodeC) : List CaseD :=
  match n.router with
  | none => []
  | some r => routerCases r

def nodeGroupRefs (n : NodeC) : Except Err (List (Str × Str)) :=
  match mapE caseGroupRefs (nodeCasesC n) with
  | .error e => .error e
  | .ok rs => .ok ((n.actions.map actionGroupRefs).flatten ++ rs.flatten)

def nodeFlowRefs (n : NodeC) : List (Str × Str) := (n.actions.map actionFlowRefs).flatten

def eventFlowRefs (e : EventD) : List (Str × Str) :=
  match e.flow with
  | some f => [fref f]
  | none => []      -- the real code records `FlowReference(None, None)`: no visible effect

def triggerGroupRefs (t : TriggerC) : List (Str × Str) :=
  t.groups.map gref ++ t.excludeGroups.map gref

/-- every group reference of the container in `update_global_uuids` order -/
def allGroupRefs (c : Container) : Except Err (List (Str × Str)) :=
  match mapE nodeGroupRefs (c.flows.map (·.nodes)).flatten with
  | .error e => .error e
  | .ok rs =>
    .ok (c.groups.map gref ++ rs.flatten ++ c.campaigns.map (fun k => gref k.group)
      ++ (c.triggers.map triggerGroupRefs).flatten)

/-- flow references before the triggers -/
def preTriggerFlowRefs (c : Container) : List (Str × Str) :=
  c.flows.map (fun f => (f.name, f.uuid))
    ++ ((c.flows.map (·.nodes)).flatten.map nodeFlowRefs).flatten
    ++ ((c.campaigns.map (fun k => k.events.map eventFlowRefs)).flatten).flatten

/-- `Trigger.record_global_uuids(require_existing=True)` over the trigger list -/
def recordTriggers : UDict → List TriggerC → Except Err UDict
  | d, [] => .ok d
  | d, t :: ts =>
    match dget t.flow.name d with
    | none => .error .undefinedFlow
    | some _ =>
      match record d (fref t.flow) with
      | .error e => .error e
      | .ok d' => recordTriggers d' ts

/-- `generate_missing_uuids`: a falsy entry would get a fresh uuid — not modelled -/
def allGiven (d : UDict) : Bool := d.all (fun kv => kv.2 != [])

/-! ### assign -/

def assignGroup (gd : UDict) (g : GroupD) : GroupD := { g with uuid := (dget g.name gd).getD g.uuid }
def assignFlowRef (fd : UDict) (f : FlowRefD) : FlowRefD := { f with uuid := (dget f.name fd).getD f.uuid }

def assignAction (gd fd : UDict) : ActionD → ActionD
  | .addGroups u gs => .addGroups u (gs.map (assignGroup gd))
  | .removeGroups u gs ag => .removeGroups u (gs.map (assignGroup gd)) ag
  | .enterFlow u f => .enterFlow u (assignFlowRef fd f)
  | a => a

/-- `SwitchRouter.assign_global_uuids`: `arguments[0] = dict[arguments[1]]` -/
def assignCase (gd : UDict) (c : CaseD) : CaseD :=
  if c.type = strHasGroup then
    match c.arguments with
    | u :: n :: rest => { c with arguments := (dget n gd).getD u :: n :: rest }
    | _ => c
  else c

def assignRouter (gd : UDict) : RouterC → RouterC
  | .switch op rn wt ks os d nr => .switch op rn wt (ks.map (assignCase gd)) os d nr
  | r => r

def assignNode (gd fd : UDict) (n : NodeC) : NodeC :=
  { n with actions := n.actions.map (assignAction gd fd), router := n.router.map (assignRouter gd) }

def assignEvent (fd : UDict) (e : EventD) : EventD := { e with flow := e.flow.map (assignFlowRef fd) }

/-! ### render -/

/-- `Group.render`: attributes that are `None` are left out -/
def renderGroup (g : GroupD) : GroupD :=
  { g with query := g.query.filter (! isNull ·), status := g.status.filter (! isNull ·),
           system := g.system.filter (! isNull ·), count := g.count.filter (! isNull ·) }

/-- `Exit.render` -/
def renderExit (e : ExitD) : ExitD :=
  let d := e.dest.getD jNull
  { e with dest := some (if d = jHardExit then jNull else d) }

def renderCat (c : CatC) : CategoryD := { uuid := c.uuid, name := c.name, exitUuid := c.exit.uuid }

/-- `SwitchRouter.get_categories` / `RandomRouter.get_categories` -/
def routerCats : RouterC → List CatC
  | .switch _ _ _ _ os d nr => os ++ [d] ++ nr.toList
  | .random _ cs => cs

/-- `RouterCase.render` (re-validates; the type was checked on load) -/
def renderRouter : RouterC → RouterD
  | .switch op rn wt ks os d nr =>
    .switch op ks ((os ++ [d] ++ nr.toList).map renderCat) d.uuid
      (match wt with
        | none => none
        | some 0 => some { type := jMsg, timeout := none }
        | some (s + 1) => some { type := jMsg, timeout := some { seconds := s + 1, categoryUuid := (nr.map (·.uuid)).getD [] } })
      (rn.filter (! isNull ·))
  | .random rn cs => .random (cs.map renderCat) (rn.filter truthy)

/-- F-C05-a: `ContactFieldReference.render` (common.py) writes `render_dict["type"] = type`
— the builtin — instead of `self.type`.  Tied to the source by `tables_agree`
(`Gen.contactFieldTypeBug`): when the source is fixed, set this to `false` and delete
`render_load_needs_UntypedFields`. -/
def fieldTypeBug : Bool := false   -- F-C05-a fixed in /repo: `self.type` is rendered

/-- every `render` of actions.py -/
def renderAction : ActionD → ActionD
  | .sendMsg u t att q au tp tm => .sendMsg u t (att.filter truthy) q (au.filter truthy) (tp.filter truthy) tm
  | .setContactField u n k t v =>
    .setContactField u n k (if fieldTypeBug then (t.filter truthy).map (fun _ => jTypeBuiltin) else t.filter truthy) v
  | .removeGroups u gs ag => .removeGroups u (gs.map renderGroup) (ag.filter truthy)
  | .addGroups u gs => .addGroups u (gs.map renderGroup)
  | .setRunResult u n v c => .setRunResult u n v (c.filter truthy)
  | a => a

/-- `BaseNode.render`; exits of a router node are its categories' exits -/
def renderNode (n : NodeC) : NodeD :=
  { uuid := n.uuid,
    actions := n.actions.map renderAction,
    router := n.router.map renderRouter,
    exits := match n.router with
      | none => n.exit.toList.map renderExit
      | some r => (routerCats r).map (fun c => renderExit c.exit) }

/-- `FlowContainer.render` -/
def renderFlow (f : FlowC) : FlowD :=
  let ui := f.nodes.filterMap (fun n => n.uiPos.map (fun p => (n.uuid, p)))
  { uuid := f.uuid, name := f.name, language := f.language, type := f.type,
    specVersion := f.specVersion, revision := f.revision, expire := f.expire,
    metadata := f.metadata, localization := f.localization,
    nodes := f.nodes.map renderNode,
    ui := if ui = [] then none else some ui }

/-- `CampaignEvent.render` -/
def renderEvent (e : EventD) : EventD :=
  { e with flow := if e.eventType = strF then e.flow else none,
           baseLanguage := if e.eventType = strM then e.baseLanguage.filter truthy else none }

def renderCampaign (c : CampaignD) : CampaignD :=
  { c with group := renderGroup c.group, events := c.events.map renderEvent }

/-- `Trigger.render`: both keyword forms -/
def renderTrigger (t : TriggerC) : TriggerD :=
  { type := t.type,
    keyword := some (match t.keywords with | [] => jNull | k :: _ => k),
    keywords := some t.keywords,
    channel := t.channel,
    matchType := renderMatchType t.matchType,
    flow := t.flow,
    groups := t.groups.map renderGroup,
    excludeGroups := some (t.excludeGroups.map renderGroup) }

/-- `RapidProContainer.render` = `validate()` (record, generate, assign, rebuild the group
list) and the field-wise rendering -/
def render (c : Container) : Except Err DocD :=
  match allGroupRefs c with
  | .error e => .error e
  | .ok grefs =>
  match recordAll [] grefs with
  | .error e => .error e
  | .ok gd =>
  match recordAll [] (preTriggerFlowRefs c) with
  | .error e => .error e
  | .ok fd0 =>
  match recordTriggers fd0 c.triggers with
  | .error e => .error e
  | .ok fd =>
    if ¬ (allGiven gd && allGiven fd) then .error .freshUuid else
    let flows := c.flows.map (fun f => { f with nodes := f.nodes.map (assignNode gd fd) })
    let campaigns := c.campaigns.map (fun k =>
      { k with events := k.events.map (assignEvent fd), group := assignGroup gd k.group })
    let triggers := c.triggers.map (fun t =>
      { t with flow := assignFlowRef fd t.flow, groups := t.groups.map (assignGroup gd),
               excludeGroups := t.excludeGroups.map (assignGroup gd) })
    .ok {
      campaigns := campaigns.map renderCampaign,
      fields := c.fields,
      flows := flows.map renderFlow,
      groups := gd.map (fun kv => ({ name := kv.1, uuid := kv.2 } : GroupD)),
      site := c.site,
      triggers := triggers.map renderTrigger,
      version := c.version }

/-- the observable of the property: `RapidProContainer.from_dict(d).render()` -/
def roundtrip (d : DocD) : Except Err DocD :=
  match load d with
  | .error e => .error e
  | .ok c => render c

end Rpft.Document
