/-
The flow sheet's row model (flowrowmodel.py 6-185: `Condition`, `Webhook`,
`WhatsAppTemplating`, `Edge`, `FlowRowModel` with their header remaps) as a `Schema`,
and the structural descriptor that ties it to the source (`Props.C07.tables_agree_schema`
compares `Ty.descr flowRowTy` with the descriptor re-extracted from /repo on every run).
Core Lean only.
-/
import Rpft.Schema
import Rpft.Canon
namespace Rpft.Row
open Rpft

def sfield (n : String) (d : String := "") : Field := (n.toList, .str, some (.str d.toList))
def lfield (n : String) : Field := (n.toList, .list .str, some (.list []))
def afield (n : String) : Field := (n.toList, .anyList, some (.any []))
def pairsS (ps : List (String × String)) : List (Str × Str) :=
  ps.map fun (a, b) => (a.toList, b.toList)

def conditionFields : List Field :=
  [sfield "value", sfield "variable", sfield "type", sfield "name"]
def conditionTy : Ty := .model conditionFields [] []
def conditionDefault : Val :=
  .model [("value".toList, .str []), ("variable".toList, .str []), ("type".toList, .str []),
    ("name".toList, .str [])]

def webhookFields : List Field :=
  [sfield "url", sfield "method", afield "headers", sfield "body"]
def webhookTy : Ty := .model webhookFields [] []
def webhookDefault : Val :=
  .model [("url".toList, .str []), ("method".toList, .str []), ("headers".toList, .any []),
    ("body".toList, .str [])]

def waFields : List Field := [sfield "name", sfield "uuid", lfield "variables"]
def waTy : Ty := .model waFields [] []
def waDefault : Val :=
  .model [("name".toList, .str []), ("uuid".toList, .str []), ("variables".toList, .list [])]

def edgeFields : List Field :=
  [sfield "from_", ("condition".toList, conditionTy, some conditionDefault)]
def edgeTy : Ty :=
  .model edgeFields (pairsS [("from", "from_")]) (pairsS [("from_", "from")])

def flowRowFields : List Field :=
  [sfield "row_id",
   ("type".toList, .str, none),
   ("edges".toList, .list edgeTy, none),
   lfield "loop_variable",
   ("include_if".toList, .bool, some (.bool true)),
   sfield "mainarg_message_text", sfield "mainarg_value", lfield "mainarg_groups",
   sfield "mainarg_none", afield "mainarg_dict", lfield "mainarg_destination_row_ids",
   sfield "mainarg_flow_name", sfield "mainarg_expression", afield "mainarg_iterlist",
   ("wa_template".toList, waTy, some waDefault),
   ("webhook".toList, webhookTy, some webhookDefault),
   sfield "data_sheet", sfield "data_row_id", afield "template_arguments", lfield "choices",
   sfield "save_name", sfield "result_category", sfield "image", sfield "audio", sfield "video",
   lfield "attachments", sfield "urn_scheme", sfield "obj_name", sfield "obj_id",
   sfield "node_name", sfield "node_uuid", sfield "no_response", sfield "ui_type",
   lfield "ui_position"]

def flowF2H : List (Str × Str) := pairsS
  [("node_uuid", "_nodeId"), ("ui_type", "_ui_type"), ("ui_position", "_ui_position"),
   ("mainarg_message_text", "message_text"), ("mainarg_value", "message_text"),
   ("mainarg_groups", "message_text"), ("mainarg_none", "message_text"),
   ("mainarg_destination_row_ids", "message_text"), ("mainarg_flow_name", "message_text"),
   ("mainarg_expression", "message_text"), ("mainarg_dict", "message_text"),
   ("webhook.body", "message_text")]

def flowRowTy : Ty := .model flowRowFields [] flowF2H

def flowBasicHeaders : List (Str × Str) := pairsS
  [("from", "edges.*.from_"), ("condition", "edges.*.condition.value"),
   ("condition_value", "edges.*.condition.value"),
   ("condition_var", "edges.*.condition.variable"),
   ("condition_variable", "edges.*.condition.variable"),
   ("condition_type", "edges.*.condition.type"), ("condition_name", "edges.*.condition.name"),
   ("_nodeId", "node_uuid"), ("_ui_type", "ui_type"), ("_ui_position", "ui_position")]

def flowMainArg : List (Str × Str) := pairsS
  [("send_message", "mainarg_message_text"), ("save_value", "mainarg_value"),
   ("add_to_group", "mainarg_groups"), ("remove_from_group", "mainarg_groups"),
   ("save_flow_result", "mainarg_value"), ("wait_for_response", "mainarg_none"),
   ("add_contact_urn", "mainarg_value"), ("set_contact_channel", "mainarg_value"),
   ("set_contact_language", "mainarg_value"),
   ("set_contact_name", "mainarg_value"), ("set_contact_status", "mainarg_value"),
   ("set_contact_timezone", "mainarg_value"), ("split_random", "mainarg_none"),
   ("go_to", "mainarg_destination_row_ids"), ("call_webhook", "webhook.body"),
   ("transfer_airtime", "mainarg_dict"), ("start_new_flow", "mainarg_flow_name"),
   ("split_by_value", "mainarg_expression"), ("split_by_group", "mainarg_groups"),
   ("insert_as_block", "mainarg_flow_name"), ("begin_for", "mainarg_iterlist"),
   ("end_for", "mainarg_none"), ("begin_block", "mainarg_none"), ("end_block", "mainarg_none"),
   ("hard_exit", "mainarg_none"), ("loose_exit", "mainarg_none"), ("no_op", "mainarg_none")]

def flowRowSchema : Schema :=
  { top := flowRowTy, ctxBasic := flowBasicHeaders,
    ctxMain := some ("message_text".toList, "type".toList, flowMainArg) }

/-! ### structural descriptor (compared with the one extracted from the source) -/

def sepJoin (sep : Str) : List Str → Str
  | [] => []
  | [x] => x
  | x :: y :: r => x ++ sep ++ sepJoin sep (y :: r)

mutual
def PV.descr : PV → Str
  | .atom s => '"' :: s ++ ['"']
  | .list xs => '[' :: PV.descrs xs ++ [']']
def PV.descrs : List PV → Str
  | [] => []
  | [x] => PV.descr x
  | x :: y :: r => PV.descr x ++ ',' :: PV.descrs (y :: r)
end

mutual
def Val.descr : Val → Str
  | .str s => '"' :: s ++ ['"']
  | .int i => (toString i).toList
  | .float s => s
  | .bool b => if b then "True".toList else "False".toList
  | .any xs => '[' :: PV.descrs xs ++ [']']
  | .list xs => '[' :: Val.descrs xs ++ [']']
  | .model kvs => '{' :: Val.descrFields kvs ++ ['}']
def Val.descrs : List Val → Str
  | [] => []
  | [x] => Val.descr x
  | x :: y :: r => Val.descr x ++ ',' :: Val.descrs (y :: r)
def Val.descrFields : List (Str × Val) → Str
  | [] => []
  | [(k, x)] => k ++ '=' :: Val.descr x
  | (k, x) :: y :: r => k ++ '=' :: Val.descr x ++ ',' :: Val.descrFields (y :: r)
end

/-- remap pairs, SORTED by key: a remap table is a lookup (unique keys), its order in the source
carries no meaning — the T1 translator reads it off the behaviour of the remap function -/
def descrPairs (ps : List (Str × Str)) : Str :=
  sepJoin [','] ((Canon.sortP ps).map fun (a, b) => a ++ '>' :: b)

mutual
def Ty.descr : Ty → Str
  | .str => "str".toList
  | .int => "int".toList
  | .float => "float".toList
  | .bool => "bool".toList
  | .anyList => "list".toList
  | .list t => "List[".toList ++ Ty.descr t ++ [']']
  | .model fs h2f f2h =>
    "<".toList ++ Ty.descrFields fs ++ "|h2f:".toList ++ descrPairs h2f ++
      "|f2h:".toList ++ descrPairs f2h ++ ">".toList
def Ty.descrFields : List (Str × Ty × Option Val) → Str
  | [] => []
  | (n, t, d) :: rest =>
    n ++ ':' :: Ty.descr t ++ '=' ::
      (match d with | none => ['!'] | some v => Val.descr v) ++ ';' :: Ty.descrFields rest
end

end Rpft.Row
