/-
M5b — READING a flow sheet as a graph, the way the sheet compiler resolves it
(flowparser.py `_parse_row`, `_add_row_edge`, `_get_node_group_from_edge`, `_parse_goto_row`),
independent of the exporter:

* an edge cell `(from, condition)` on a node row `r` is an edge that LEAVES the row named in
  `from` (`row_id_to_nodegroup[edge.from_]`; `"start"` = no source) and ENTERS row `r`
  (`_add_row_edge(edge, new_node.uuid)`);
* on a `go_to` row (`mainarg_destination_row_ids` non-empty) it enters the row named there
  (`row_id_to_nodegroup[destination_row_id].entry_node()`): a single destination serves every edge
  of the row, several destinations are matched with the edges by position (`zip`);
* edges are resolved row by row, top to bottom, and inside a row in cell order — this is the order
  in which the compiler appends the cases of the source router (`add_exit`), i.e. the TEST ORDER.

Rows of one node: with `_nodeId` the compiler merges a row into the node of that name when the
row has exactly one edge, unconditional, coming from a row of that node (`existing_node`,
`predecessor_group.entry_node() == existing_node`); `groupRows` computes, for every node row, the
FIRST row of its node under this rule.  Without `_nodeId` (`--strip_uuids`) every row is its own
node (a chain of one-action nodes).

Polymorphic in the row-id type `I` (temp ids before the remapping, strings after it) and the
node-name type.  Core Lean only (compiled into the driver: op `export.graph`).
-/
import Rpft.Export
namespace Rpft.Export

/-- an edge of the sheet as the compiler resolves it: leaves row `src` (`none` = `"start"`), carries
`label`, enters row `dst` -/
structure SEdge (I : Type) where
  src : Option I
  label : Label
  dst : I
  deriving Repr, DecidableEq

/-- `_parse_goto_row`: `ids * len(edges) if len(ids) == 1 else ids` -/
def gotoTargets {I : Type} (nEdges : Nat) : List I → List I
  | [t] => List.replicate nEdges t
  | ts => ts

/-- the edges one row contributes.  Node row (`goto = []`): every edge enters this row.
`go_to` row: `zip(row.edges, destination_row_ids)`. -/
def readRow {I : Type} (id : I) (edges : List (Option I × Label)) (goto : List I) : List (SEdge I) :=
  match goto with
  | [] => edges.map (fun e => ⟨e.1, e.2, id⟩)
  | _ => (edges.zip (gotoTargets edges.length goto)).map (fun p => ⟨p.1.1, p.1.2, p.2⟩)

variable {U : Type}

/-- the edge cells of a temp-id row -/
def RowT.cells (r : RowT U) : List (Option (TempId U) × Label) := r.edges.map (fun e => (e.from_, e.label))

/-- the edge cells of a final row: `"start"` is no source -/
def RowS.cells (r : RowS) : List (Option Str × Label) :=
  r.edges.map (fun e => (if e.1 = startStr then none else some e.1, e.2))

/-- the graph of a sheet with temp ids, in the compiler's resolution order -/
def edgesOfT (rows : List (RowT U)) : List (SEdge (TempId U)) :=
  rows.flatMap (fun r => readRow r.id r.cells r.goto)

/-- the graph of a final sheet (readable or numbered ids), in the compiler's resolution order -/
def edgesOfS (rows : List RowS) : List (SEdge Str) :=
  rows.flatMap (fun r => readRow r.id r.cells r.goto)

/-- the edges that leave row `s`, in resolution order: the order in which the router that ends in
row `s` gets its cases back -/
def outOf {I : Type} [DecidableEq I] (s : I) (es : List (SEdge I)) : List (SEdge I) :=
  es.filter (fun e => decide (e.src = some s))

/-- the node rows (everything that is not a `go_to` row): id, `_nodeId`, `obj_id`, content -/
def nodeRowsT (rows : List (RowT U)) : List (TempId U × Option U × Option U × Payload) :=
  (rows.filter (fun r => r.goto.isEmpty)).map (fun r => (r.id, r.nodeId, r.objId, r.payload))

/-- … of a final sheet: id and content -/
def nodeRowsS (rows : List RowS) : List (Str × Payload) :=
  (rows.filter (fun r => r.goto.isEmpty)).map (fun r => (r.id, r.payload))

/-! ### node merging by `_nodeId` -/

/-- `dict.get` on an association list -/
def assocGet {κ β : Type} [DecidableEq κ] : List (κ × β) → κ → Option β
  | [], _ => none
  | (k', v) :: d, k => if k' = k then some v else assocGet d k

/-- the node a row joins, if any: the row has a node name, exactly one edge, unconditional, coming from
a row (`rep`) of the node registered under that name (`names`) -/
def joinTarget {I N : Type} [DecidableEq I] [DecidableEq N] (names : List (N × I)) (rep : List (I × I)) :
    Option N → List (Option I × Label) → Option I
  | some nm, [(some fr, lab)] =>
    if lab = blankLabel then
      match assocGet names nm, assocGet rep fr with
      | some first, some g => if g = first then some first else none
      | _, _ => none
    else none
  | _, _ => none

/-- One pass of `_parse_row` over the node rows: `names` = `node_name_to_node_map` (node name ↦
first row of the node), `rep` = row id ↦ first row of its node (`row_id_to_nodegroup`, newest first).
A row joins the node of its name iff it has exactly one edge, unconditional, coming from a row of
that node; otherwise it starts a node (and takes over the name). -/
def groupStep {I N : Type} [DecidableEq I] [DecidableEq N]
    (acc : List (N × I) × List (I × I)) (r : I × Option N × List (Option I × Label)) :
    List (N × I) × List (I × I) :=
  match joinTarget acc.1 acc.2 r.2.1 r.2.2 with
  | some first => (acc.1, (r.1, first) :: acc.2)
  | none =>
    match r.2.1 with
    | some nm => ((nm, r.1) :: acc.1, (r.1, r.1) :: acc.2)
    | none => (acc.1, (r.1, r.1) :: acc.2)

/-- row id ↦ first row of its node, for every node row of the sheet (in row order) -/
def groupRows {I N : Type} [DecidableEq I] [DecidableEq N]
    (rows : List (I × Option N × List (Option I × Label))) : List (I × I) :=
  (rows.foldl groupStep ([], [])).2.reverse

variable [DecidableEq U]

/-- the node (first row) of every node row of a temp-id sheet, by `_nodeId` -/
def groupsT (rows : List (RowT U)) : List (TempId U × TempId U) :=
  groupRows ((rows.filter (fun r => r.goto.isEmpty)).map (fun r => (r.id, r.nodeId, r.cells)))

/-- The NODE graph of a sheet: the row graph with both ends replaced by the first row of their node
(`g`), without the edges that enter a merged row (a merged row has exactly one edge: the one that
merged it). -/
def nodeEdges {I : Type} [DecidableEq I] (g : List (I × I)) (es : List (SEdge I)) : List (SEdge I) :=
  let rep := fun i => (assocGet g i).getD i
  (es.filter (fun e => decide (rep e.dst = e.dst))).map (fun e => ⟨e.src.map rep, e.label, e.dst⟩)

end Rpft.Export
