/-
M7 (bulk part) — `ContentIndexParser.parse_all_flows`, `_parse_flow`,
`map_template_arguments_to_context` (contentindexparser.py 424-559) as total functions.

Core Lean only (compiled into the driver).  The model follows the code line by line and
keeps its quirks:

* a Python `dict` / `OrderedDict` is an association list with `dictSet` (an existing key
  keeps its position and takes the new value, a new key is appended) and `dictGet`;
* `LOGGER.critical` is the error exit of the command line (`ShutdownHandler` → `sys.exit`);
  exceptions (`KeyError` of the registries) are errors as well: everything is in `Except Err`
  and the first error wins;
* warnings do not change the result; the one warning the property talks about
  ("Too many arguments provided to template") is the separate predicate `tooManyWarn`;
* values of data-row fields are opaque (`V`): strings, ints, lists, nested records — the
  model never looks inside;
* the template compiler (`FlowParser(...).parse`) is the abstract parameter
  `compile : template sheet name → flow name → context → Out`, a function of exactly the
  things `_parse_flow` hands to `FlowParser` (the tie checks that assumption on the real code:
  the deep copy in `SheetParser.__init__` is what makes it true).
-/
import Rpft.Str
namespace Rpft.Bulk
open Rpft

/-! ### Python dict -/

/-- `d[k] = v`: an existing key keeps its position, a new key goes last -/
def dictSet {α : Type} : List (Str × α) → Str → α → List (Str × α)
  | [], k, v => [(k, v)]
  | (k', v') :: t, k, v => if k' = k then (k, v) :: t else (k', v') :: dictSet t k v

/-- `d.get(k)` -/
def dictGet {α : Type} : List (Str × α) → Str → Option α
  | [], _ => none
  | (k', v') :: t, k => if k' = k then some v' else dictGet t k

/-- `list(d.keys())` -/
def keys {α : Type} (d : List (Str × α)) : List Str := d.map Prod.fst

/-! ### data -/

inductive Err
  | argDoublyDefined (name : Str)          -- CRITICAL `Template argument "…" doubly defined in context`
  | argMissing (name : Str)                -- CRITICAL `Required template argument "…" not provided`
  | sheetNotFound (name : Str)             -- KeyError in `self.data_sheets[name]`
  | rowNotFound (sheet id : Str)           -- KeyError in `.rows[row_id]`
  | templateNotFound (name : Str)          -- KeyError in `self.template_sheets[name]`
  | rowIdWithoutSheet                      -- CRITICAL `if data_row_id is provided, data_sheet must also be provided`
  deriving DecidableEq, Repr

/-- `TemplateArgument` (contentindexrowmodel.py) -/
structure ArgDef where
  name : Str
  type : Str := []
  default : Str := []
  deriving DecidableEq, Repr

/-- a data row: `dict(row_model_instance)` — field name → value, in field order -/
abbrev Row (V : Type) := List (Str × V)

/-- `DataSheet.rows`: `OrderedDict` row ID → row -/
abbrev DataSheet (V : Type) := List (Str × Row V)

/-- a value bound in the template context -/
inductive CVal (V : Type)
  | data (v : V)              -- a field of the data row
  | text (s : Str)            -- a template argument (or its default)
  | sheet (rows : DataSheet V) -- a `sheet` argument: the rows of the named data sheet
  deriving Repr

abbrev Ctx (V : Type) := List (Str × CVal V)

/-- `OrderedDict((row.ID, row) for row in data_rows)` (`_get_new_data_sheet`) -/
def ofRows {V : Type} (rows : List (Str × Row V)) : DataSheet V :=
  rows.foldl (fun d p => dictSet d p.1 p.2) []

/-- `dict(context)` for a data row -/
def rowCtx {V : Type} (r : Row V) : Ctx V := r.map (fun p => (p.1, CVal.data p.2))

def sheetTy : Str := "sheet".toList

/-! ### `map_template_arguments_to_context` -/

/-- `if len(args) > len(arg_defs): args = args[:len(arg_defs)]` -/
def truncArgs (defs : List ArgDef) (args : List Str) : List Str :=
  if args.length > defs.length then args.take defs.length else args

/-- the warning "Too many arguments provided to template": only for non-blank extras -/
def tooManyWarn (defs : List ArgDef) (args : List Str) : Bool :=
  decide (args.length > defs.length) && (args.drop defs.length).any (fun a => a ≠ [])

/-- `args + [""] * (len(arg_defs) - len(args))` -/
def padArgs (defs : List ArgDef) (args : List Str) : List Str :=
  args ++ List.replicate (defs.length - args.length) []

/-- `arg if arg != "" else arg_def.default_value` -/
def argValue (d : ArgDef) (a : Str) : Str := if a ≠ [] then a else d.default

/-- one iteration of the `for arg_def, arg in zip(...)` loop -/
def bindArg {V : Type} (sheets : List (Str × DataSheet V)) (ctx : Ctx V) (d : ArgDef) (a : Str) :
    Except Err (Ctx V) :=
  if (dictGet ctx d.name).isSome then .error (.argDoublyDefined d.name)
  else
    let v := argValue d a
    if v = [] then .error (.argMissing d.name)
    else if d.type = sheetTy then
      match dictGet sheets v with
      | none => .error (.sheetNotFound v)
      | some ds => .ok (dictSet ctx d.name (.sheet ds))
    else .ok (dictSet ctx d.name (.text v))

def mapArgsLoop {V : Type} (sheets : List (Str × DataSheet V)) :
    List (ArgDef × Str) → Ctx V → Except Err (Ctx V)
  | [], ctx => .ok ctx
  | (d, a) :: rest, ctx =>
    match bindArg sheets ctx d a with
    | .error e => .error e
    | .ok c => mapArgsLoop sheets rest c

def mapArgs {V : Type} (sheets : List (Str × DataSheet V)) (defs : List ArgDef) (args : List Str)
    (ctx : Ctx V) : Except Err (Ctx V) :=
  mapArgsLoop sheets (defs.zip (padArgs defs (truncArgs defs args))) ctx

/-! ### `_parse_flow` and `parse_all_flows` -/

/-- what the content index has registered when flows are parsed, plus the compiler -/
structure Env (V Out : Type) where
  sheets : List (Str × DataSheet V)          -- `self.data_sheets`
  templates : List (Str × List ArgDef)       -- `self.template_sheets` (the table lives in `compile`)
  compile : Str → Str → Ctx V → Out          -- template sheet name, flow name, context

/-- `" - ".join([base_name, data_row_id])` -/
def flowName (base id : Str) : Str := base ++ " - ".toList ++ id

/-- a `create_flow` row of the content index -/
structure FlowRow where
  sheetName : Str            -- `row.sheet_name[0]`
  newName : Str := []
  dataSheet : Str := []
  dataRowId : Str := []
  args : List Str := []
  deriving DecidableEq, Repr

/-- `new_name or sheet_name` -/
def baseName (sheetName newName : Str) : Str := if newName ≠ [] then newName else sheetName

/-- flow name and initial context (`_parse_flow`, first half) -/
def nameAndRow {V Out : Type} (env : Env V Out) (base dataSheet dataRowId : Str) :
    Except Err (Str × Ctx V) :=
  if dataSheet ≠ [] ∧ dataRowId ≠ [] then
    match dictGet env.sheets dataSheet with
    | none => .error (.sheetNotFound dataSheet)
    | some ds =>
      match dictGet ds dataRowId with
      | none => .error (.rowNotFound dataSheet dataRowId)
      | some row => .ok (flowName base dataRowId, rowCtx row)
  else .ok (base, [])   -- (a warning if exactly one of the two is given)

/-- `_parse_flow` -/
def parseFlow {V Out : Type} (env : Env V Out) (sheetName dataSheet dataRowId : Str)
    (args : List Str) (newName : Str) : Except Err (Str × Out) :=
  match nameAndRow env (baseName sheetName newName) dataSheet dataRowId with
  | .error e => .error e
  | .ok (name, ctx0) =>
    match dictGet env.templates sheetName with
    | none => .error (.templateNotFound sheetName)
    | some defs =>
      match mapArgs env.sheets defs args ctx0 with
      | .error e => .error e
      | .ok ctx => .ok (name, env.compile sheetName name ctx)

abbrev Flows (Out : Type) := List (Str × Out)

/-- `flows[flow.name] = flow` -/
def addFlow {Out : Type} (fl : Flows Out) (f : Str × Out) : Flows Out := dictSet fl f.1 f.2

/-- `for data_row_id in data_rows.keys(): …` -/
def bulkLoop {V Out : Type} (env : Env V Out) (r : FlowRow) : List Str → Flows Out → Except Err (Flows Out)
  | [], fl => .ok fl
  | i :: ids, fl =>
    match parseFlow env r.sheetName r.dataSheet i r.args r.newName with
    | .error e => .error e
    | .ok f => bulkLoop env r ids (addFlow fl f)

/-- the body of `for logging_prefix, row in self.flow_definition_rows` -/
def stepRow {V Out : Type} (env : Env V Out) (fl : Flows Out) (r : FlowRow) : Except Err (Flows Out) :=
  if r.dataSheet ≠ [] ∧ r.dataRowId = [] then
    match dictGet env.sheets r.dataSheet with
    | none => .error (.sheetNotFound r.dataSheet)
    | some ds => bulkLoop env r (keys ds) fl
  else if r.dataSheet = [] ∧ r.dataRowId ≠ [] then .error .rowIdWithoutSheet
  else
    match parseFlow env r.sheetName r.dataSheet r.dataRowId r.args r.newName with
    | .error e => .error e
    | .ok f => .ok (addFlow fl f)

def runRows {V Out : Type} (env : Env V Out) : List FlowRow → Flows Out → Except Err (Flows Out)
  | [], fl => .ok fl
  | r :: rs, fl =>
    match stepRow env fl r with
    | .error e => .error e
    | .ok fl' => runRows env rs fl'

/-- `parse_all_flows`: the flows handed to the container, in `flows.values()` order -/
def parseAllFlows {V Out : Type} (env : Env V Out) (rows : List FlowRow) : Except Err (Flows Out) :=
  runRows env rows []

/-- the single rows "naming each data row explicitly", in the given order -/
def singles (r : FlowRow) (ids : List Str) : List FlowRow :=
  ids.map (fun i => { r with dataRowId := i })

end Rpft.Bulk
