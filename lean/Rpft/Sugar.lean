/-
The block structure of `FlowParser._parse_block` (flowparser.py 381-433) and the desugaring
that C03 speaks of.  Row instantiation (templating + row parsing), the NodeGroup machinery
that consumes the events, and the template language are abstract parameters (`Iface`):
C03 is about what the parser DOES with loops, blocks and include_if, not about what a
template means.  Core Lean only.

Flat sheet ↔ tree: `_parse_block` matches `begin_*`/`end_*` rows while it runs; the tree
below is what it traverses when the sheet is well nested (ill-nested sheets are the error
branch, C15).  Context handling is functional here: since fix F-C03-c the parser restores
every variable a loop shadows, i.e. after `end_for` the context is the one before `begin_for`.
-/
import Rpft.Str
namespace Rpft.Sugar
open Rpft

/-- a sheet as the tree `_parse_block` traverses -/
inductive Item (Raw : Type) where
  | row (r : Raw)
  | forLoop (b : Raw) (body : List (Item Raw))
  | block (b : Raw) (body : List (Item Raw))

/-- what the parser hands to the NodeGroup machinery, in order -/
inductive Ev (Inst Hdr : Type) where
  | row (r : Inst)            -- `_parse_row(row)`
  | open_ (h : Hdr)           -- push a NodeGroup; the begin row's edges are read like a no_op's
  | close (h : Hdr)           -- pop it and append it under the begin row's id
  deriving DecidableEq, Repr

/-- abstract interface to everything C03 is not about -/
structure Iface (Raw Inst Ctx Val Hdr Err : Type) where
  /-- instantiate the cells of a raw row in a context and parse it (may fail) -/
  inst : Ctx → Raw → Except Err Inst
  includeIf : Inst → Bool
  /-- `loop_variable` of a begin_for row: `none` = missing (an error) -/
  loopVars : Inst → Option (Str × Option Str)
  iterList : Inst → List Val
  bind : Ctx → Str → Val → Ctx
  bindIdx : Ctx → Str → Nat → Ctx
  /-- the part of a begin row the NodeGroup machinery reads (row id, edges) -/
  hdr : Inst → Hdr
  noVarErr : Err
  /-- the raw row whose cells are the already-instantiated values of `i` -/
  lit : Inst → Raw
  /-- a begin_for row rewritten as a begin_block row (same id, same edges) -/
  asBlock : Inst → Inst

variable {Raw Inst Ctx Val Hdr Err : Type}

def sequence {α : Type} : List (Except Err α) → Except Err (List α)
  | [] => .ok []
  | x :: xs =>
    match x with
    | .error e => .error e
    | .ok a =>
      match sequence xs with
      | .error e => .error e
      | .ok as => .ok (a :: as)

/-- context of iteration `k` over element `x` -/
def iterCtx (I : Iface Raw Inst Ctx Val Hdr Err) (ctx : Ctx) (v : Str) (idx : Option Str)
    (x : Val) (k : Nat) : Ctx :=
  match idx with
  | none => I.bind ctx v x
  | some i => I.bindIdx (I.bind ctx v x) i k

mutual
/-- events the parser performs for one item in context `ctx` -/
def evItem (I : Iface Raw Inst Ctx Val Hdr Err) (ctx : Ctx) : Item Raw → Except Err (List (Ev Inst Hdr))
  | .row r =>
    match I.inst ctx r with
    | .error e => .error e
    | .ok i => .ok (if I.includeIf i then [.row i] else [])
  | .block b body =>
    match I.inst ctx b with
    | .error e => .error e
    | .ok i =>
      if I.includeIf i then
        match evItems I ctx body with
        | .error e => .error e
        | .ok es => .ok ([.open_ (I.hdr i)] ++ es ++ [.close (I.hdr i)])
      else .ok []        -- omitted: the contents are never instantiated
  | .forLoop b body =>
    match I.inst ctx b with
    | .error e => .error e
    | .ok i =>
      if I.includeIf i then
        match I.loopVars i with
        | none => .error I.noVarErr
        | some (v, idx) =>
          match sequence ((I.iterList i).zipIdx.map fun (x, k) =>
              evItems I (iterCtx I ctx v idx x k) body) with
          | .error e => .error e
          | .ok ess => .ok ([.open_ (I.hdr i)] ++ ess.flatten ++ [.close (I.hdr i)])
      else .ok []
def evItems (I : Iface Raw Inst Ctx Val Hdr Err) (ctx : Ctx) : List (Item Raw) → Except Err (List (Ev Inst Hdr))
  | [] => .ok []
  | it :: its =>
    match evItem I ctx it with
    | .error e => .error e
    | .ok a =>
      match evItems I ctx its with
      | .error e => .error e
      | .ok b => .ok (a ++ b)
end

mutual
/-- the desugared form: loops unrolled into blocks of literal rows, false include_if dropped -/
def dsItem (I : Iface Raw Inst Ctx Val Hdr Err) (ctx : Ctx) : Item Raw → Except Err (List (Item Raw))
  | .row r =>
    match I.inst ctx r with
    | .error e => .error e
    | .ok i => .ok (if I.includeIf i then [.row (I.lit i)] else [])
  | .block b body =>
    match I.inst ctx b with
    | .error e => .error e
    | .ok i =>
      if I.includeIf i then
        match dsItems I ctx body with
        | .error e => .error e
        | .ok bs => .ok [.block (I.lit i) bs]
      else .ok []
  | .forLoop b body =>
    match I.inst ctx b with
    | .error e => .error e
    | .ok i =>
      if I.includeIf i then
        match I.loopVars i with
        | none => .error I.noVarErr
        | some (v, idx) =>
          match sequence ((I.iterList i).zipIdx.map fun (x, k) =>
              dsItems I (iterCtx I ctx v idx x k) body) with
          | .error e => .error e
          | .ok bss => .ok [.block (I.lit (I.asBlock i)) bss.flatten]
      else .ok []
def dsItems (I : Iface Raw Inst Ctx Val Hdr Err) (ctx : Ctx) : List (Item Raw) → Except Err (List (Item Raw))
  | [] => .ok []
  | it :: its =>
    match dsItem I ctx it with
    | .error e => .error e
    | .ok a =>
      match dsItems I ctx its with
      | .error e => .error e
      | .ok b => .ok (a ++ b)
end

/-- laws the interface must satisfy for literal rows and rewritten begin rows -/
structure Laws (I : Iface Raw Inst Ctx Val Hdr Err) : Prop where
  inst_lit : ∀ ctx i, I.inst ctx (I.lit i) = .ok i
  hdr_asBlock : ∀ i, I.hdr (I.asBlock i) = I.hdr i
  include_asBlock : ∀ i, I.includeIf i = true → I.includeIf (I.asBlock i) = true

/-- no loop is left -/
def loopFree : Item Raw → Bool
  | .row _ => true
  | .forLoop _ _ => false
  | .block _ body => loopFreeL body
where loopFreeL : List (Item Raw) → Bool
  | [] => true
  | it :: its => loopFree it && loopFreeL its

end Rpft.Sugar
