/-
M1 — model of `rpft.parsers.common.cellparser.CellParser`
(cellparser.py: `escape_string` 23-29, `split_into_lists` 45-51, `cleanse` 53-64,
`split_by_separator` 66-89, `join_from_lists` 135-159).

Core Lean only (imported by the executable driver).  The constants (`|`, `;`, `\`,
and the shape of the unescape pattern) are checked against the source on every run by the table extractor
(`Rpft/Gen/Tables.lean`, theorem `Props.C08.tables_agree`).
-/
import Rpft.Str
namespace Rpft.Cell
open Rpft

def sep0 : Char := '|'
def sep1 : Char := ';'
def escC : Char := '\\'

/-- `CellParser.escape_string`: three sequential `str.replace` passes, as written. -/
def escapeString (s : Str) : Str :=
  replace1 sep1 [escC, sep1] (replace1 sep0 [escC, sep0] (replace1 escC [escC, escC] s))

/-- The single-pass encoder that `escape_string` is proved equal to. -/
def escChar (c : Char) : Str :=
  if c = escC ∨ c = sep0 ∨ c = sep1 then [escC, c] else [c]
def esc (s : Str) : Str := s.flatMap escChar

/-- Unescape part of `cleanse` (after `strip`): one left-to-right pass (`re.sub`): an escape
character followed by an escape character or a separator stands for that character; any
other character — including a lone or trailing escape character — is kept. -/
def unescape : Str → Str
  | [] => []
  | [c] => [c]
  | c :: d :: rest =>
    if c = escC ∧ (d = escC ∨ d = sep0 ∨ d = sep1) then d :: unescape rest
    else c :: unescape (d :: rest)

def cleanseStr (ws : Char → Bool) (s : Str) : Str := unescape (strip ws s)

def headCons (c : Char) : List Str → List Str
  | [] => [[c]]
  | p :: ps => (c :: p) :: ps

/-- The scan of `split_by_separator` as a two-state machine: `escaped = true` means the
previous character was an unconsumed escape character, which protects the current
character whatever it is. Pieces between unescaped separators; always non-empty. -/
def splitAux (sep : Char) : Bool → Str → List Str
  | _, [] => [[]]
  | true, c :: rest => headCons c (splitAux sep false rest)
  | false, c :: rest =>
    if c = escC then headCons c (splitAux sep true rest)
    else if c = sep then [] :: splitAux sep false rest
    else headCons c (splitAux sep false rest)

def splitRaw (sep : Char) (s : Str) : List Str := splitAux sep false s

/-- `split_by_separator`: a plain string if no separator was found, otherwise the
pieces, without the final empty piece when the last character is a separator. -/
def splitBySeparator (sep : Char) (s : Str) : Sum Str (List Str) :=
  let ps := splitRaw sep s
  if ps.length ≤ 1 then .inl s
  else if ps.getLast? = some [] then .inr ps.dropLast
  else .inr ps

/-- Two-level nested value: exactly what `split_into_lists` can return. -/
inductive Elem where
  | atom (s : Str)
  | list (xs : List Str)
  deriving Repr, DecidableEq

inductive Cell where
  | atom (s : Str)
  | list (es : List Elem)
  deriving Repr, DecidableEq

def elemOfSplit : Sum Str (List Str) → Elem
  | .inl t => .atom t
  | .inr xs => .list xs

def Elem.map (f : Str → Str) : Elem → Elem
  | .atom s => .atom (f s)
  | .list xs => .list (xs.map f)

def Cell.map (f : Str → Str) : Cell → Cell
  | .atom s => .atom (f s)
  | .list es => .list (es.map (Elem.map f))

/-- `split_into_lists` before `cleanse`. -/
def splitIntoListsRaw (s : Str) : Cell :=
  match splitBySeparator sep0 s with
  | .inl _ =>
    match splitBySeparator sep1 s with
    | .inl t => .atom t
    | .inr xs => .list (xs.map .atom)
  | .inr l1 => .list (l1.map fun p => elemOfSplit (splitBySeparator sep1 p))

/-- `split_into_lists`. -/
def splitIntoLists (ws : Char → Bool) (s : Str) : Cell :=
  (splitIntoListsRaw s).map (cleanseStr ws)

/-- `join_from_lists` at depth 1 (separator `;`). -/
def joinElem : Elem → Str
  | .atom s => escapeString s
  | .list [x] => escapeString x ++ [sep1]
  | .list xs => joinWith [sep1] (xs.map escapeString)

/-- `join_from_lists` at depth 0 (separator `|`). -/
def joinCell : Cell → Str
  | .atom s => escapeString s
  | .list [e] => joinElem e ++ [sep0]
  | .list es => joinWith [sep0] (es.map joinElem)

/-- Arbitrarily nested lists, for the error branch of `join_from_lists`. -/
inductive Nested where
  | str (s : Str)
  | list (xs : List Nested)
  deriving Repr

inductive JoinErr where
  | tooDeep
  deriving Repr, DecidableEq

mutual
/-- `join_from_lists(value, depth)`: depth ≥ 2 lists have no separator
(the code raises `IndexError` at depth 2 and `CellParserError` beyond — both "error"). -/
def joinNested (depth : Nat) : Nested → Except JoinErr Str
  | .str s => .ok (escapeString s)
  | .list xs =>
    match depth with
    | 0 => joinNestedList 0 sep0 xs
    | 1 => joinNestedList 1 sep1 xs
    | _ => .error .tooDeep
def joinNestedList (depth : Nat) (sep : Char) : List Nested → Except JoinErr Str
  | [] => .ok []
  | [x] => do let a ← joinNested (depth + 1) x; pure (a ++ [sep])
  | x :: y :: rest => do
    let a ← joinNested (depth + 1) x
    let b ← joinNestedTail depth sep (y :: rest)
    pure (a ++ [sep] ++ b)
/-- `sep.join` of two or more already started elements (no 1-element rule). -/
def joinNestedTail (depth : Nat) (sep : Char) : List Nested → Except JoinErr Str
  | [] => .ok []
  | [x] => joinNested (depth + 1) x
  | x :: y :: rest => do
    let a ← joinNested (depth + 1) x
    let b ← joinNestedTail depth sep (y :: rest)
    pure (a ++ [sep] ++ b)
end

end Rpft.Cell
