/-
M6 — global group / flow UUID bookkeeping of a RapidPro container
(rapidpro/models/containers.py `RapidProContainer.update_global_uuids / validate`, `UUIDDict`;
the `record_* / assign_*` hooks of actions.py, routers.py, common.py, campaigns.py,
triggers.py; the parse-time `record_group_uuid / record_flow_uuid` calls of flowparser.py).

Core Lean only (compiled into the driver).  Names `N` and ids `U` are abstract types with
decidable equality, so nothing can depend on their spelling.

`given : Option U` — `some u` is a *truthy* uuid; `none` stands for every falsy value the
code treats alike (`None`, `""`): `_record_uuid` tests `if recorded_uuid:` / `if uuid and …`,
`generate_missing_uuids` tests `if not v`.  The driver maps `null`/`""` to `none`.
-/
namespace Rpft.Uuid

inductive Kind
  | group | flow
  deriving DecidableEq, Repr, Inhabited

/-- where a (kind, name, uuid) reference sits -/
inductive Site
  /-- recorded before `update_global_uuids` runs: `obj_id` of a sheet row (flowparser.py
      546-551, 582-587) or `add_flow` (containers.py 50-52).  Not an object of the output. -/
  | pre (k : Kind)
  /-- entry of `container.groups` (replaced by `get_group_list()` in `validate`) -/
  | groupList
  /-- a flow of `container.flows`: records its own uuid, is never re-assigned -/
  | flowDef
  /-- group of an add/remove_contact_groups action, flow of an enter_flow action -/
  | action (k : Kind)
  /-- `has_group` case of a switch router: `arguments = [uuid, name]` -/
  | case
  /-- flow reference of a campaign event (`shown = false`: event type `M`, recorded and
      assigned but not rendered) -/
  | campEvent (shown : Bool)
  | campGroup
  /-- flow reference of a trigger; `require_existing=True` is checked here -/
  | trigFlow
  | trigGroup
  | trigExclude
  deriving DecidableEq, Repr, Inhabited

/-- the kind of reference a site holds (only parse-time records and actions have both) -/
def Site.kind : Site → Kind
  | .pre k | .action k => k
  | .groupList | .case | .campGroup | .trigGroup | .trigExclude => .group
  | .flowDef | .campEvent _ | .trigFlow => .flow

structure Occ (N U : Type) where
  name : N
  given : Option U
  site : Site
  deriving DecidableEq, Repr

def Occ.kind {N U : Type} (o : Occ N U) : Kind := o.site.kind

/-- sites whose uuid is overwritten by `assign_global_uuids` -/
def assignable : Site → Bool
  | .pre _ | .groupList | .flowDef => false
  | _ => true

/-- sites that are objects of the validated container (everything but parse-time records
    and the old `groups` list, which `validate` replaces) -/
def inOutput : Site → Bool
  | .pre _ | .groupList => false
  | _ => true

/-! ### `UUIDDict`: two insertion-ordered dicts name → uuid-or-None -/

abbrev Dict (N U : Type) := List (N × Option U)

variable {N U : Type} [DecidableEq N] [DecidableEq U]

/-- `d.get(name)`; outer `none` = key absent -/
def dget : Dict N U → N → Option (Option U)
  | [], _ => none
  | (k, v) :: t, n => if k = n then some v else dget t n

/-- `d[name] = v` (an existing key keeps its position) -/
def dset : Dict N U → N → Option U → Dict N U
  | [], n, v => [(n, v)]
  | (k, w) :: t, n, v => if k = n then (k, v) :: t else (k, w) :: dset t n v

def dkeys (d : Dict N U) : List N := d.map Prod.fst

inductive Err (N U : Type)
  /-- `ValueError("Group/Flow {name} has multiple uuids: {uuid} and {recorded_uuid}")` -/
  | conflict (k : Kind) (name : N) (new recorded : U)
  /-- `RapidProTriggerError("Trigger references undefined flow name …")` -/
  | triggerUnknownFlow (name : N)
  deriving DecidableEq, Repr

/-- `UUIDDict._record_uuid` (containers.py 325-333), line by line -/
def recordDict (k : Kind) (d : Dict N U) (n : N) (g : Option U) : Except (Err N U) (Dict N U) :=
  match dget d n with
  | some (some r) =>              -- `if recorded_uuid:`
    match g with
    | some u => if u ≠ r then .error (.conflict k n u r) else .ok d   -- `if uuid and uuid != recorded_uuid: raise`
    | none => .ok d
  | _ => .ok (dset d n g)         -- `else: uuid_dict[name] = uuid`  (absent key or falsy value)

structure St (N U : Type) where
  flows : Dict N U
  groups : Dict N U
  deriving DecidableEq, Repr

def St.empty : St N U := ⟨[], []⟩

def St.get (st : St N U) : Kind → Dict N U
  | .flow => st.flows
  | .group => st.groups

def St.put (st : St N U) : Kind → Dict N U → St N U
  | .flow, d => { st with flows := d }
  | .group, d => { st with groups := d }

/-- one `record_*` call; a trigger's flow is first checked with `contains_flow`
    (triggers.py 87-93: `require_existing`), i.e. against the *keys of `flow_dict`* -/
def recordOcc (st : St N U) (o : Occ N U) : Except (Err N U) (St N U) :=
  if o.site = .trigFlow ∧ (dget st.flows o.name).isNone then
    .error (.triggerUnknownFlow o.name)
  else
    match recordDict o.kind (st.get o.kind) o.name o.given with
    | .ok d => .ok (st.put o.kind d)
    | .error e => .error e

def recordAll : St N U → List (Occ N U) → Except (Err N U) (St N U)
  | st, [] => .ok st
  | st, o :: os =>
    match recordOcc st o with
    | .ok st' => recordAll st' os
    | .error e => .error e

/-- `generate_missing_uuids` on one dict; `fresh n` is the n-th invented id -/
def genDict (fresh : Nat → U) : Dict N U → Nat → Dict N U × Nat
  | [], n => ([], n)
  | (k, some u) :: t, n => let r := genDict fresh t n; ((k, some u) :: r.1, r.2)
  | (k, none) :: t, n => let r := genDict fresh t (n + 1); ((k, some (fresh n)) :: r.1, r.2)

/-- `generate_missing_uuids`: flows first, then groups -/
def generateMissing (fresh : Nat → U) (st : St N U) (n : Nat) : St N U × Nat :=
  let f := genDict fresh st.flows n
  let g := genDict fresh st.groups f.2
  (⟨f.1, g.1⟩, g.2)

/-- `get_group_uuid / get_flow_uuid` (total here: a missing key gives `none`) -/
def lookup (st : St N U) (k : Kind) (n : N) : Option U := (dget (st.get k) n).join

/-- `assign_uuid` on one occurrence -/
def assignOcc (st : St N U) (o : Occ N U) : Occ N U :=
  if assignable o.site then { o with given := lookup st o.kind o.name } else o

/-- `get_group_list()` -/
def groupList (st : St N U) : List (N × Option U) := st.groups

structure Out (N U : Type) where
  /-- the reference objects of the validated container, in visiting order, with their uuids -/
  occs : List (Occ N U)
  /-- the new `container.groups` -/
  groups : List (N × Option U)
  st : St N U
  next : Nat
  deriving DecidableEq, Repr

/-- `validate()` on the occurrence list `occs` (visiting order), starting from the
    container's `uuid_dict` state `st` and invention counter `next` -/
def runOccs (fresh : Nat → U) (st : St N U) (next : Nat) (occs : List (Occ N U)) :
    Except (Err N U) (Out N U) :=
  match recordAll st occs with
  | .error e => .error e
  | .ok st1 =>
    let r := generateMissing fresh st1 next
    .ok { occs := (occs.filter (fun o => inOutput o.site)).map (assignOcc r.1)
          groups := groupList r.1, st := r.1, next := r.2 }

/-- occurrence list of the container as it stands after a `validate()` (input of the next) -/
def reOccs (out : Out N U) : List (Occ N U) :=
  out.groups.map (fun p => ⟨p.1, p.2, .groupList⟩) ++ out.occs

/-! ### container shape and the visiting order of `update_global_uuids` -/

structure Ref (N U : Type) where
  name : N
  given : Option U
  deriving DecidableEq, Repr

/-- references of one node: action references in action order (a group action lists its
    groups in order), then the `has_group` cases of its router in case order
    (nodes.py 94-100, 229-235) -/
structure NodeRefs (N U : Type) where
  actions : List (Kind × Ref N U)
  cases : List (Ref N U)
  deriving Repr

structure FlowC (N U : Type) where
  name : N
  uuid : Option U
  nodes : List (NodeRefs N U)
  deriving Repr

structure EventC (N U : Type) where
  flow : Ref N U
  shown : Bool
  deriving Repr

structure CampaignC (N U : Type) where
  events : List (EventC N U)
  group : Ref N U
  deriving Repr

structure TriggerC (N U : Type) where
  flow : Ref N U
  groups : List (Ref N U)
  exclude : List (Ref N U)
  deriving Repr

structure Container (N U : Type) where
  groups : List (Ref N U)
  flows : List (FlowC N U)
  campaigns : List (CampaignC N U)
  triggers : List (TriggerC N U)
  deriving Repr

def nodeOccs (nd : NodeRefs N U) : List (Occ N U) :=
  nd.actions.map (fun a => ⟨a.2.name, a.2.given, .action a.1⟩) ++
  nd.cases.map (fun r => ⟨r.name, r.given, .case⟩)

def campaignOccs (c : CampaignC N U) : List (Occ N U) :=
  c.events.map (fun e => ⟨e.flow.name, e.flow.given, .campEvent e.shown⟩) ++
  [⟨c.group.name, c.group.given, .campGroup⟩]

def triggerOccs (t : TriggerC N U) : List (Occ N U) :=
  ⟨t.flow.name, t.flow.given, .trigFlow⟩ ::
  (t.groups.map (fun r => ⟨r.name, r.given, .trigGroup⟩) ++
   t.exclude.map (fun r => ⟨r.name, r.given, .trigExclude⟩))

/-- the order in which `update_global_uuids` (containers.py 67-87) records:
    groups list, flows, then per flow per node (actions, cases), campaigns (events, group),
    triggers (flow, groups, exclude groups).  The assign loops visit flows, campaigns,
    triggers in the same order. -/
def occsOf (c : Container N U) : List (Occ N U) :=
  c.groups.map (fun r => ⟨r.name, r.given, .groupList⟩) ++
  c.flows.map (fun f => ⟨f.name, f.uuid, .flowDef⟩) ++
  c.flows.flatMap (fun f => f.nodes.flatMap nodeOccs) ++
  c.campaigns.flatMap campaignOccs ++
  c.triggers.flatMap triggerOccs

/-- the container after `validate()`: every reference object re-assigned from the
    dictionary, flows keep their uuid, `groups` replaced by `get_group_list()` -/
def Ref.assign (st : St N U) (k : Kind) (r : Ref N U) : Ref N U :=
  { r with given := lookup st k r.name }

def Container.validated (st : St N U) (c : Container N U) : Container N U where
  groups := (groupList st).map (fun p => ⟨p.1, p.2⟩)
  flows := c.flows.map (fun f => { f with nodes := f.nodes.map (fun nd =>
    { actions := nd.actions.map (fun a => (a.1, a.2.assign st a.1))
      cases := nd.cases.map (fun r => r.assign st .group) }) })
  campaigns := c.campaigns.map (fun cp =>
    { events := cp.events.map (fun e => { e with flow := e.flow.assign st .flow })
      group := cp.group.assign st .group })
  triggers := c.triggers.map (fun t =>
    { flow := t.flow.assign st .flow
      groups := t.groups.map (fun r => r.assign st .group)
      exclude := t.exclude.map (fun r => r.assign st .group) })

/-- what happened to `uuid_dict`s before `validate()`: a direct `_record_uuid` on the
    container's own dictionary (`obj_id` of a top-level sheet row, `add_flow`), or the records
    of the rows of one `insert_as_block`: ContentIndexParser.get_node_group parses the
    block against a fresh `RapidProContainer()` that is thrown away — its records can only
    fail (conflict inside the block), never inform the real container. -/
inductive PreItem (N U : Type)
  | own (o : Occ N U)
  | scratch (os : List (Occ N U))
  deriving Repr

def recordPre : St N U → List (PreItem N U) → Except (Err N U) (St N U)
  | st, [] => .ok st
  | st, .own o :: t =>
    match recordOcc st o with
    | .ok st' => recordPre st' t
    | .error e => .error e
  | st, .scratch os :: t =>
    match recordAll (St.empty : St N U) os with
    | .ok _ => recordPre st t
    | .error e => .error e

/-- building the container (parse-time records `pre`, from an empty dictionary) and then
    `validate()` -/
def run (fresh : Nat → U) (pre : List (PreItem N U)) (c : Container N U) :
    Except (Err N U) (Out N U) :=
  match recordPre St.empty pre with
  | .error e => .error e
  | .ok st => runOccs fresh st 0 (occsOf c)

/-! ### a container that GROWS between two validations

`validate()` / `render()` may be called on a container, more content added through the public
API (`add_flow`, `FlowContainer.add_node`, `BaseNode.add_action`, `SwitchRouterNode.add_choice`,
`Campaign.add_event`, `add_campaign`, `add_trigger`) and the container validated again.  Nothing
is cached between two calls of `update_global_uuids`: it walks the object graph as it stands.
The objects that were there at the previous validation carry what `assign_global_uuids` gave
them (the dictionary's value), the added ones what they were constructed with; `container.groups`
is the group list the previous validation left; `uuid_dict` keeps its state, `add_flow` records
on it at once.

`kept u = true` marks the ids standing for "this object was validated before" in the description
of the grown container (a marker, never a uuid of the code). -/

/-- the uuid a reference object of the grown container carries when validation starts -/
def Ref.settle (kept : U → Bool) (st : St N U) (k : Kind) (r : Ref N U) : Ref N U :=
  match r.given with
  | some u => if kept u then r.assign st k else r
  | none => r

/-- the grown container as it stands when `validate()` is called again: `groups` is what the
    previous validation left, flows keep their own uuid, every reference marked `kept` carries
    the uuid assigned from the dictionary `prev.st` -/
def Container.settle (kept : U → Bool) (prev : Out N U) (c : Container N U) : Container N U where
  groups := prev.groups.map (fun p => ⟨p.1, p.2⟩)
  flows := c.flows.map (fun f => { f with nodes := f.nodes.map (fun nd =>
    { actions := nd.actions.map (fun a => (a.1, a.2.settle kept prev.st a.1))
      cases := nd.cases.map (fun r => r.settle kept prev.st .group) }) })
  campaigns := c.campaigns.map (fun cp =>
    { events := cp.events.map (fun e => { e with flow := e.flow.settle kept prev.st .flow })
      group := cp.group.settle kept prev.st .group })
  triggers := c.triggers.map (fun t =>
    { flow := t.flow.settle kept prev.st .flow
      groups := t.groups.map (fun r => r.settle kept prev.st .group)
      exclude := t.exclude.map (fun r => r.settle kept prev.st .group) })

/-- one more stage of a history: the records made while adding (`add_flow`) on the dictionary
    left by the previous validation, then `validate()` on the grown container -/
def runStage (fresh : Nat → U) (kept : U → Bool) (prev : Out N U) (pre : List (PreItem N U))
    (c : Container N U) : Except (Err N U) (Out N U) :=
  match recordPre prev.st pre with
  | .error e => .error e
  | .ok st => runOccs fresh st prev.next (occsOf (c.settle kept prev))

/-- The call sequences of the source that `occsOf`, `recordOcc`, `runOccs` transcribe
    (T1 regenerates them from /repo on every run; `Props/C06.lean` `tables_agree`). -/
def srcUpdateSteps : List String :=
  ["uuid_dict.record_group_uuid(groups.name,groups.uuid)",
   "uuid_dict.record_flow_uuid(flows.name,flows.uuid)",
   "flows.record_global_uuids", "campaigns.record_global_uuids",
   "triggers.record_global_uuids require_existing=True",
   "uuid_dict.generate_missing_uuids",
   "flows.assign_global_uuids", "campaigns.assign_global_uuids", "triggers.assign_global_uuids"]
def srcValidateSteps : List String := ["uuid_dict.get_group_list"]
def srcFlowRecord : List String := ["nodes.record_global_uuids"]
def srcNodeRecord : List String :=
  ["actions.record_global_uuids", "|", "super().record_global_uuids", "router.record_global_uuids"]
def srcCampaignRecord : List String := ["events.record_global_uuids", "group.record_uuid"]
def srcCampaignAssign : List String := ["events.assign_global_uuids", "group.assign_uuid"]
def srcEventRecord : List String := ["flow.record_uuid"]
def srcTriggerRecord : List String :=
  ["uuid_dict.contains_flow(flow.name)", "flow.record_uuid", "groups.record_uuid",
   "exclude_groups.record_uuid"]
def srcTriggerAssign : List String :=
  ["flow.assign_uuid", "groups.assign_uuid", "exclude_groups.assign_uuid"]
def srcGroupActionRecord : List String := ["groups.record_uuid"]
def srcEnterFlowRecord : List String := ["flow.record_uuid"]
def srcSwitchRecord : List String :=
  ["uuid_dict.record_group_uuid(case.arguments[1],case.arguments[0])"]
def srcSwitchAssign : List String := ["uuid_dict.get_group_uuid(case.arguments[1])"]
def srcHookedClasses : List String := ["EnterFlowAction", "GenericGroupAction", "SwitchRouter"]

/-! ### parse-time records of sheet rows (flowparser.py 546-551, 582-587) -/

inductive RowRef (N U : Type)
  /-- `add_to_group` / `remove_from_group` / `split_by_group` row: `mainarg_groups[0]`, `obj_id` -/
  | groupRow (name : N) (objId : Option U)
  /-- `start_new_flow` row: `mainarg_flow_name`, `obj_id` -/
  | startFlow (name : N) (objId : Option U)
  deriving Repr

/-- `if … and row.obj_id: record_group_uuid(…)` / `if row.obj_id: record_flow_uuid(…)` -/
def preOfRow : RowRef N U → List (Occ N U)
  | .groupRow n (some u) => [⟨n, some u, .pre .group⟩]
  | .startFlow n (some u) => [⟨n, some u, .pre .flow⟩]
  | _ => []

end Rpft.Uuid
