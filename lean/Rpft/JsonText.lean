/-
M9c — JSON string literals (C14): how `json.dumps(book, ensure_ascii=False, indent=2)`
(`converters.to_json`) writes a Python `str`, and how `json.load` (`load_json`) reads a string
literal back.

Anchors (CPython 3.12; the C accelerators are the ones in use and are what is followed):
* writer: `json.encoder.encode_basestring` (`ESCAPE` / `ESCAPE_DCT`): `\\`, `"`, `\b \f \n \r \t`
  get their two-character escape, every other character below U+0020 becomes `\u00xx` (lower-case
  hex), everything else — DEL, U+2028, non-ASCII, astral — is written raw.
* reader: `scanstring_unicode` of `Modules/_json.c` with `strict=True`: raw control characters are
  refused, the eight simple escapes (`\/` included), `\uXXXX` with exactly four hex digits of either
  case AND at least one more character after them, surrogate pairs joined when the lookahead
  `end + 6 < len` sees a second `\u` (a second escape with bad hex is an error even then).
  A lone surrogate is a valid Python `str` element but not a `Char`: the model answers
  `loneSurrogate` there (never produced by the writer, skipped by the tie).
Only string literals are modelled; the document structure (objects, arrays, indentation,
whitespace) stays library code.  Checked against the real `json` module on every run
(`harness/props/c14.py`, streams `json_*`).  Core Lean only.
-/
import Rpft.Str
namespace Rpft.JsonText
open Rpft

/-! ### writer -/
def hexDigit (n : Nat) : Char := if n < 10 then Char.ofNat (48 + n) else Char.ofNat (87 + n)

/-- `ESCAPE_DCT` of json.encoder (ensure_ascii=False) -/
def escapeChar (c : Char) : Str :=
  if c = '\\' then ['\\', '\\']
  else if c = '"' then ['\\', '"']
  else if c = '\x08' then ['\\', 'b']
  else if c = '\x0c' then ['\\', 'f']
  else if c = '\n' then ['\\', 'n']
  else if c = '\r' then ['\\', 'r']
  else if c = '\t' then ['\\', 't']
  else if c.toNat < 0x20 then ['\\', 'u', '0', '0', hexDigit (c.toNat / 16), hexDigit (c.toNat % 16)]
  else [c]

def encodeString (s : Str) : Str := '"' :: (s.flatMap escapeChar ++ ['"'])

inductive JErr
  | unterminated | controlChar | invalidEscape | invalidUnicodeEscape
  | loneSurrogate     -- the real decoder returns a str with a lone surrogate: not a `Char`
deriving DecidableEq, Repr

def hexVal (c : Char) : Option Nat :=
  if '0' ≤ c ∧ c ≤ '9' then some (c.toNat - 48)
  else if 'a' ≤ c ∧ c ≤ 'f' then some (c.toNat - 87)
  else if 'A' ≤ c ∧ c ≤ 'F' then some (c.toNat - 55)
  else none

def hex4 (a b c d : Char) : Option Nat :=
  match hexVal a, hexVal b, hexVal c, hexVal d with
  | some a, some b, some c, some d => some (((a * 16 + b) * 16 + c) * 16 + d)
  | _, _, _, _ => none

def simpleEscape (e : Char) : Option Char :=
  if e = '"' then some '"' else if e = '\\' then some '\\' else if e = '/' then some '/'
  else if e = 'b' then some '\x08' else if e = 'f' then some '\x0c' else if e = 'n' then some '\n'
  else if e = 'r' then some '\r' else if e = 't' then some '\t' else none

def isHigh (v : Nat) : Bool := 0xD800 ≤ v && v ≤ 0xDBFF
def isLow (v : Nat) : Bool := 0xDC00 ≤ v && v ≤ 0xDFFF

/-- the surrogate-pair lookahead `end + 6 < len && buf[next] == '\\' && buf[next+1] == 'u'`:
the four hex digits of the second escape and the text after them -/
def pairAhead (t : Str) : Option (Char × Char × Char × Char × Str) :=
  match t with
  | b1 :: u1 :: a2 :: b2 :: c2 :: d2 :: x :: t3 =>
    if b1 = '\\' ∧ u1 = 'u' then some (a2, b2, c2, d2, x :: t3) else none
  | _ => none

/-- `scanstring_unicode` (strict=True) of `_json.c` on the text after the opening quote; `acc` is
the decoded text so far, reversed.  `fuel`: one unit per character (`scanStr` supplies enough). -/
def scanString : Nat → Str → Str → Except JErr (Str × Str)
  | 0, _, _ => .error .unterminated
  | _ + 1, [], _ => .error .unterminated
  | fuel + 1, c :: t, acc =>
    if c = '"' then .ok (acc.reverse, t)
    else if c = '\\' then
      match t with
      | [] => .error .unterminated
      | e :: t1 =>
        if e = 'u' then
          match t1 with
          | a :: b :: c4 :: d :: t2 =>
            if t2.isEmpty then .error .invalidUnicodeEscape            -- `end >= len`
            else
              match hex4 a b c4 d with
              | none => .error .invalidUnicodeEscape
              | some v =>
                if isHigh v then
                  match pairAhead t2 with
                  | some (a2, b2, c2, d2, t3) =>
                    match hex4 a2 b2 c2 d2 with
                    | none => .error .invalidUnicodeEscape
                    | some v2 =>
                      if isLow v2 then
                        scanString fuel t3 (Char.ofNat (0x10000 + (v - 0xD800) * 0x400 + (v2 - 0xDC00)) :: acc)
                      else .error .loneSurrogate
                  | none => .error .loneSurrogate
                else if isLow v then .error .loneSurrogate
                else scanString fuel t2 (Char.ofNat v :: acc)
          | _ => .error .invalidUnicodeEscape
        else
          match simpleEscape e with
          | some ch => scanString fuel t1 (ch :: acc)
          | none => .error .invalidEscape
    else if c.toNat ≤ 0x1f then .error .controlChar
    else scanString fuel t (c :: acc)

/-- a JSON string literal at the head of `text`: `(decoded, rest)` -/
def scanStr (text : Str) : Except JErr (Str × Str) :=
  match text with
  | '"' :: t => scanString (t.length + 1) t []
  | _ => .error .unterminated

/-! ### documents: `json.dumps(book, ensure_ascii=False, indent=2)` and `json.loads`

Values are strings, arrays and objects (what a workbook needs); numbers, `true`, `false`, `null`,
`NaN` … make the model answer `unsupported` (the tie skips them).  An object is the list of its
members in order (a Python dict).  The mutual inductive (instead of `List`) keeps every function
structurally recursive and kernel-reducible.

* writer: `_make_iterencode` with `indent=2`: `[]` / `{}` for empty containers, otherwise one
  element per line indented by two spaces per level, `,` at the line end, `": "` after a key.
* reader: `scan_once_unicode`, `_parse_object_unicode`, `_parse_array_unicode` of `_json.c`
  (whitespace = space, tab, LF, CR is skipped around every token; a later duplicate key replaces
  the value of the earlier one in place: `PyDict_SetItem`), `JSONDecoder.decode` (leading /
  trailing whitespace, "Extra data"), `json.loads` (a leading U+FEFF is refused).
  `fuel` makes the mutual recursion structural: two units per character are always enough; the
  interpreter's recursion limit (≈1000 nested containers) is NOT modelled.
-/

mutual
inductive JV
  | str (s : Str)
  | arr (xs : JVs)
  | obj (ms : JMs)
inductive JVs
  | nil
  | cons (x : JV) (xs : JVs)
inductive JMs
  | nil
  | cons (k : Str) (v : JV) (ms : JMs)
end

deriving instance DecidableEq for JV, JVs, JMs
deriving instance Repr for JV, JVs, JMs

def nl (lvl : Nat) : Str := '\n' :: List.replicate (2 * lvl) ' '

mutual
def dumpValue (lvl : Nat) : JV → Str
  | .str s => encodeString s
  | .arr .nil => ['[', ']']
  | .arr xs => '[' :: (nl (lvl + 1) ++ dumpElems (lvl + 1) xs ++ nl lvl ++ [']'])
  | .obj .nil => ['{', '}']
  | .obj ms => '{' :: (nl (lvl + 1) ++ dumpMembers (lvl + 1) ms ++ nl lvl ++ ['}'])
def dumpElems (lvl : Nat) : JVs → Str
  | .nil => []
  | .cons x .nil => dumpValue lvl x
  | .cons x xs => dumpValue lvl x ++ ',' :: (nl lvl ++ dumpElems lvl xs)
def dumpMembers (lvl : Nat) : JMs → Str
  | .nil => []
  | .cons k v .nil => encodeString k ++ ':' :: ' ' :: dumpValue lvl v
  | .cons k v ms => encodeString k ++ ':' :: ' ' :: (dumpValue lvl v ++ ',' :: (nl lvl ++ dumpMembers lvl ms))
end

/-! reader -/

inductive DErr
  | str (e : JErr)            -- from the string scanner
  | expectingValue | expectingPropertyName | expectingColon | expectingComma | extraData | bom
  | unsupported               -- numbers / true / false / null / NaN: outside the model
  | fuel
deriving DecidableEq, Repr

/-- `WHITESPACE = [ \t\n\r]*` -/
def isWs (c : Char) : Bool := c == ' ' || c == '\t' || c == '\n' || c == '\r'
def skipWs (s : Str) : Str := s.dropWhile isWs

/-- `dict[k] = v` on the pairs collected so far (insertion-ordered dict) -/
def jmInsert (k : Str) (v : JV) : JMs → JMs
  | .nil => .cons k v .nil
  | .cons k' v' ms => if k' = k then .cons k v ms else .cons k' v' (jmInsert k v ms)

def jvsSnoc : JVs → JV → JVs
  | .nil, v => .cons v .nil
  | .cons x xs, v => .cons x (jvsSnoc xs v)

/-- first characters of values the model does not cover (`scan_once_unicode`'s other cases) -/
def otherValueStart (c : Char) : Bool :=
  c == 'n' || c == 't' || c == 'f' || c == 'N' || c == 'I' || c == '-' || ('0' ≤ c && c ≤ '9')

mutual
/-- `scan_once_unicode` -/
def parseValue : Nat → Str → Except DErr (JV × Str)
  | 0, _ => .error .fuel
  | _ + 1, [] => .error .expectingValue
  | f + 1, c :: t =>
    if c = '"' then
      match scanString (t.length + 1) t [] with
      | .ok (v, r) => .ok (.str v, r)
      | .error e => .error (.str e)
    else if c = '{' then
      match skipWs t with
      | [] => .error .expectingPropertyName
      | c2 :: t2 =>
        if c2 = '}' then .ok (.obj .nil, t2)
        else parseMembers f (c2 :: t2) .nil
    else if c = '[' then
      match skipWs t with
      | [] => .error .expectingValue
      | c2 :: t2 =>
        if c2 = ']' then .ok (.arr .nil, t2)
        else parseElems f (c2 :: t2) .nil
    else if otherValueStart c then .error .unsupported
    else .error .expectingValue
/-- the member loop of `_parse_object_unicode`; `s` is at the key -/
def parseMembers : Nat → Str → JMs → Except DErr (JV × Str)
  | 0, _, _ => .error .fuel
  | f + 1, s, acc =>
    match s with
    | [] => .error .expectingPropertyName
    | q :: s1 =>
      if q ≠ '"' then .error .expectingPropertyName
      else
        match scanString (s1.length + 1) s1 [] with
        | .error e => .error (.str e)
        | .ok (k, r) =>
          match skipWs r with
          | [] => .error .expectingColon
          | c :: r1 =>
            if c ≠ ':' then .error .expectingColon
            else
              match parseValue f (skipWs r1) with
              | .error e => .error e
              | .ok (v, r2) =>
                match skipWs r2 with
                | [] => .error .expectingComma
                | c2 :: r3 =>
                  if c2 = '}' then .ok (.obj (jmInsert k v acc), r3)
                  else if c2 = ',' then parseMembers f (skipWs r3) (jmInsert k v acc)
                  else .error .expectingComma
/-- the element loop of `_parse_array_unicode`; `s` is at the value -/
def parseElems : Nat → Str → JVs → Except DErr (JV × Str)
  | 0, _, _ => .error .fuel
  | f + 1, s, acc =>
    match parseValue f s with
    | .error e => .error e
    | .ok (v, r) =>
      match skipWs r with
      | [] => .error .expectingComma
      | c :: r1 =>
        if c = ']' then .ok (.arr (jvsSnoc acc v), r1)
        else if c = ',' then parseElems f (skipWs r1) (jvsSnoc acc v)
        else .error .expectingComma
end

/-- `json.loads(text)` (`JSONDecoder.decode`): optional whitespace, one value, optional whitespace -/
def loads (text : Str) : Except DErr JV :=
  match text with
  | '﻿' :: _ => .error .bom
  | _ =>
    match parseValue (2 * text.length + 2) (skipWs text) with
    | .error e => .error e
    | .ok (v, r) => if (skipWs r).isEmpty then .ok v else .error .extraData

def dumps (v : JV) : Str := dumpValue 0 v

end Rpft.JsonText
