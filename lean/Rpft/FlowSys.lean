/-
The flow LTS as an instance of `Bisim.Sys`, and the trace of a flow: what a contact
observes for an arbitrary stream of answers.  Core Lean only.
-/
import Rpft.Flow
import Rpft.Bisim
namespace Rpft.Flow
open Rpft.Bisim

def flowSys (lvl : ObsLevel) (f : Flow) : Sys St Obs :=
  { obs := obsAt lvl f, arity := arityAt f, next := nextAt f }

/-- the first `n` observations of a contact running flow `f` when the environment (replies,
field and group values, random draws, sub-flow / webhook outcomes — under ANY
interpretation of the tests) answers the k-th decision with `env k` -/
def trace (lvl : ObsLevel) (f : Flow) (env : Nat → Nat) (n : Nat) : List Obs :=
  run (flowSys lvl f) (start f) env n

/-- the certificate check used on every pair of flows -/
def certOk (lvl : ObsLevel) (a b : Flow) (R : List (St × St)) : Bool :=
  validCert (flowSys lvl a) (flowSys lvl b) R (start a) (start b)

end Rpft.Flow
