/-
The FLAT machine of `FlowParser._parse_block` (flowparser.py 381-457) over
`SheetParser` (sheetparser.py): an iterator over the input rows, bookmarks by depth, a mutable
context.  `Rpft/Sugar.lean` gives the meaning of a sheet as a TREE (`Item`, `evItems`); the real
parser never builds that tree: it reads a flat row list, re-reads a loop body once per element by
jumping back to a bookmark, consumes excluded blocks with `omit_content=True` (rows are still
read — without templating — and begin/end rows still matched) and matches `begin_*`/`end_*` rows
while it runs.  This file follows that code line by line (`parseBlock`, `runFlat`) and gives the
structural parser flat rows → tree (`parseAll`, `parseTree`: the Lean version of the harness'
`tree_of_rows`) together with the tree reading that the flat machine is proved equal to
(`evF`/`evP`, Props/C03_Flat.lean).

Quirks of the code that are kept:
* `parse_next_row(omit_templating=omit_content)`: under `omit_content` the row is parsed from the
  RAW cells (`context=None`), so its type is the raw type cell (`kind`) and a raw parse may fail
  (`scanFail`: e.g. an unknown type — `row_type_to_main_arg[row["type"]]`); otherwise the row is
  instantiated in the current context and its type is the instantiated row's (`kindI`).
* end rows are instantiated like any other row (they may fail) — in every iteration of a loop.
* `_is_end_of_block` is `Cli.isEndOfBlock` (C15): end of sheet inside a block = `unterminated`,
  a terminator of the other kind (or any terminator at root level) = `wrongTerminator`.
* `remove_from_context` is `dict.pop` (KeyError when the name is gone: a loop whose index
  variable has the name of its loop variable), the bookmark operations are dict operations keyed
  by `str(depth)`.
Core Lean only.
-/
import Rpft.Sugar
import Rpft.Cli
namespace Rpft.SugarFlat
open Rpft Rpft.Sugar
open Rpft.Cli (RowType BlockType Fault isEndOfBlock)

/-- `row.type` as far as `_parse_block` looks at it (`other` = every ordinary row type) -/
abbrev RowKind := Cli.RowType

/-- the interface of `Sugar.lean` plus what the flat machine reads in addition: the type of a row
(raw / instantiated), failure of an untemplated parse, and the context as a dictionary.
`S` = what a context stores (a list element or an index). -/
structure FIface (Raw Inst Ctx Val Hdr Err S : Type) extends Iface Raw Inst Ctx Val Hdr Err where
  /-- the RAW type cell, classified (`parse_row(input_row, None).type`) -/
  kind : Raw → RowKind
  /-- `parse_row(input_row, None)` raises -/
  scanFail : Raw → Option Err
  /-- `row.type` of the instantiated row -/
  kindI : Inst → RowKind
  /-- `name in context` / `context[name]` -/
  get : Ctx → Str → Option S
  /-- `add_to_context` (`context[key] = value`) -/
  put : Ctx → Str → S → Ctx
  /-- `context.pop(key)` for a key that is present -/
  del : Ctx → Str → Ctx
  ofVal : Val → S
  ofIdx : Nat → S

variable {Raw Inst Ctx Val Hdr Err S : Type}

/-- why a run stops without a result -/
inductive Stop (Err : Type) where
  /-- the model's fuel ran out (never: `runFlat` gives enough, Props.C03.parseBlock_fuel) -/
  | fuel
  /-- `self.bookmarks[name]` KeyError (never: bookmarks are set by the enclosing loop) -/
  | noBookmark
  /-- `self.context.pop(key)` KeyError -/
  | keyError (k : Str)
  /-- `LOGGER.critical` of `_is_end_of_block` -/
  | fault (f : Fault)
  /-- everything the interface reports: templating / row parsing / missing loop variable -/
  | err (e : Err)
  deriving DecidableEq, Repr

abbrev Res (Err α : Type) := Except (Stop Err) α

/-- the mutable state of `SheetParser` + the events handed to the NodeGroup machinery so far -/
structure St (Raw Inst Ctx Hdr : Type) where
  /-- `self.iterator`: the rows not yet read -/
  pos : List Raw
  /-- `self.bookmarks`: `str(depth)` ↦ a copy of the iterator -/
  marks : List (Nat × List Raw)
  /-- `self.context` -/
  ctx : Ctx
  evs : List (Ev Inst Hdr)

/-! ### bookmarks (`create_bookmark` / `go_to_bookmark` / `remove_bookmark`) -/

def getMark (d : Nat) : List (Nat × List Raw) → Option (List Raw)
  | [] => none
  | (k, p) :: m => if k = d then some p else getMark d m

def delMark (d : Nat) : List (Nat × List Raw) → List (Nat × List Raw)
  | [] => []
  | (k, p) :: m => if k = d then delMark d m else (k, p) :: delMark d m

def setMark (d : Nat) (p : List Raw) (m : List (Nat × List Raw)) : List (Nat × List Raw) :=
  (d, p) :: delMark d m

/-! ### the context at `begin_for` … `end_for` -/

/-- `add_to_context(iteration_variable, entry)`; `if index_variable: add_to_context(index_variable, i)` -/
def bindVars (I : FIface Raw Inst Ctx Val Hdr Err S) (c : Ctx) (v : Str) (idx : Option Str)
    (x : Val) (k : Nat) : Ctx :=
  match idx with
  | none => I.put c v (I.ofVal x)
  | some i => I.put (I.put c v (I.ofVal x)) i (I.ofIdx k)

/-- `remove_from_context(key)` = `self.context.pop(key)` -/
def popCtx (I : FIface Raw Inst Ctx Val Hdr Err S) (c : Ctx) (k : Str) : Res Err Ctx :=
  match I.get c k with
  | some _ => .ok (I.del c k)
  | none => .error (.keyError k)

/-- `for name, value in shadowed.items(): add_to_context(name, value)` for one name; `c0` is the
context at `begin_for` (where `shadowed` was computed) -/
def restoreVar (I : FIface Raw Inst Ctx Val Hdr Err S) (c0 : Ctx) (name : Str) (c : Ctx) : Ctx :=
  match I.get c0 name with
  | some a => I.put c name a
  | none => c

/-- the context operations after the last iteration of a loop over a non-empty list: remove the
loop variable, remove the index variable, put back what they shadowed -/
def endLoopCtx (I : FIface Raw Inst Ctx Val Hdr Err S) (c0 : Ctx) (v : Str) (idx : Option Str)
    (c : Ctx) : Res Err Ctx :=
  match popCtx I c v with
  | .error e => .error e
  | .ok c1 =>
    match idx with
    | none => .ok (restoreVar I c0 v c1)
    | some i =>
      match popCtx I c1 i with
      | .error e => .error e
      | .ok c2 => .ok (restoreVar I c0 i (restoreVar I c0 v c2))

/-- `for i, entry in enumerate(row.mainarg_iterlist): go_to_bookmark; add_to_context …;
_parse_block(depth + 1, "for")` — `body` is that recursive call -/
def iterate (I : FIface Raw Inst Ctx Val Hdr Err S) (depth : Nat) (v : Str) (idx : Option Str)
    (body : St Raw Inst Ctx Hdr → Res Err (St Raw Inst Ctx Hdr)) :
    List (Val × Nat) → St Raw Inst Ctx Hdr → Res Err (St Raw Inst Ctx Hdr)
  | [], s => .ok s
  | (x, k) :: xs, s =>
    match getMark depth s.marks with
    | none => .error .noBookmark
    | some p =>
      match body { s with pos := p, ctx := bindVars I s.ctx v idx x k } with
      | .error e => .error e
      | .ok s' => iterate I depth v idx body xs s'

/-- the `begin_for` branch of `_parse_block` (row included, content not omitted); `s` is the state
after the begin row was read; `body` / `skip` are the recursive calls
`_parse_block(depth + 1, "for")` / `_parse_block(depth + 1, "for", omit_content=True)` -/
def beginFor (I : FIface Raw Inst Ctx Val Hdr Err S) (depth : Nat) (i : Inst)
    (body skip : St Raw Inst Ctx Hdr → Res Err (St Raw Inst Ctx Hdr))
    (s : St Raw Inst Ctx Hdr) : Res Err (St Raw Inst Ctx Hdr) :=
  match I.loopVars i with
  | none => .error (.err I.noVarErr)
  | some (v, idx) =>
    -- create_bookmark; `shadowed` is read off the context here (kept as `s.ctx`); push the group
    let s1 : St Raw Inst Ctx Hdr :=
      { s with marks := setMark depth s.pos s.marks, evs := s.evs ++ [.open_ (I.hdr i)] }
    match iterate I depth v idx body (I.iterList i).zipIdx s1 with
    | .error e => .error e
    | .ok s2 =>
      match (if (I.iterList i).isEmpty then skip s2 else .ok s2) with
      | .error e => .error e
      | .ok s3 =>
        -- pop the group and append it
        let evs := s3.evs ++ [.close (I.hdr i)]
        match (if (I.iterList i).isEmpty then .ok s3.ctx else endLoopCtx I s.ctx v idx s3.ctx) with
        | .error e => .error e
        | .ok c =>
          -- remove_bookmark
          match getMark depth s3.marks with
          | none => .error .noBookmark
          | some _ => .ok { s3 with ctx := c, evs := evs, marks := delMark depth s3.marks }

/-- the branch `if omit_content or not row.include_if:` — only nested begin rows matter -/
def skipTurn (k : RowKind) (skipFor skipBlock : St Raw Inst Ctx Hdr → Res Err (St Raw Inst Ctx Hdr))
    (s : St Raw Inst Ctx Hdr) : Res Err (St Raw Inst Ctx Hdr) :=
  match k with
  | .beginFor => skipFor s
  | .beginBlock => skipBlock s
  | _ => .ok s

/-- `_parse_block(depth, block_type, omit_content)`.  One unit of fuel per turn of the `while`
loop and per nesting level; the iterations of a loop all run on the same fuel, so
`rows + 1` is always enough, whatever the lists are. -/
def parseBlock (I : FIface Raw Inst Ctx Val Hdr Err S) :
    Nat → Nat → BlockType → Bool → St Raw Inst Ctx Hdr → Res Err (St Raw Inst Ctx Hdr)
  | 0, _, _, _, _ => .error .fuel
  | fuel + 1, depth, bt, om, s =>
    -- parse_next_row
    match s.pos with
    | [] =>
      match isEndOfBlock bt none with
      | .error f => .error (.fault f)
      | .ok _ => .ok s
    | r :: rest =>
      let s1 : St Raw Inst Ctx Hdr := { s with pos := rest }
      if om then
        match I.scanFail r with
        | some e => .error (.err e)
        | none =>
          match isEndOfBlock bt (some (I.kind r)) with
          | .error f => .error (.fault f)
          | .ok true => .ok s1
          | .ok false =>
            match skipTurn (I.kind r) (parseBlock I fuel (depth + 1) .for_ true)
                (parseBlock I fuel (depth + 1) .block true) s1 with
            | .error e => .error e
            | .ok s2 => parseBlock I fuel depth bt om s2
      else
        match I.inst s.ctx r with
        | .error e => .error (.err e)
        | .ok i =>
          match isEndOfBlock bt (some (I.kindI i)) with
          | .error f => .error (.fault f)
          | .ok true => .ok s1
          | .ok false =>
            match (if I.includeIf i then
                (match I.kindI i with
                 | .beginFor =>
                   beginFor I depth i (parseBlock I fuel (depth + 1) .for_ false)
                     (parseBlock I fuel (depth + 1) .for_ true) s1
                 | .beginBlock =>
                   match parseBlock I fuel (depth + 1) .block false
                       { s1 with evs := s1.evs ++ [.open_ (I.hdr i)] } with
                   | .error e => .error e
                   | .ok s2 => .ok { s2 with evs := s2.evs ++ [.close (I.hdr i)] }
                 | _ => .ok { s1 with evs := s1.evs ++ [.row i] })
              else
                skipTurn (I.kindI i) (parseBlock I fuel (depth + 1) .for_ true)
                  (parseBlock I fuel (depth + 1) .block true) s1) with
            | .error e => .error e
            | .ok s2 => parseBlock I fuel depth bt om s2

/-- `FlowParser._parse_block()` on a fresh `SheetParser`: the events performed and the context
left behind -/
def runFlat (I : FIface Raw Inst Ctx Val Hdr Err S) (ctx : Ctx) (rows : List Raw) :
    Res Err (List (Ev Inst Hdr) × Ctx) :=
  match parseBlock I (rows.length + 1) 0 .root false ⟨rows, [], ctx, []⟩ with
  | .error e => .error e
  | .ok s => .ok (s.evs, s.ctx)

/-! ## flat rows → tree -/

/-- `Sugar.Item` with the end rows kept (the flat machine reads them) -/
inductive FItem (Raw : Type) where
  | row (r : Raw)
  | forLoop (b : Raw) (body : List (FItem Raw)) (e : Raw)
  | block (b : Raw) (body : List (FItem Raw)) (e : Raw)

mutual
def FItem.erase : FItem Raw → Item Raw
  | .row r => .row r
  | .forLoop b body _ => .forLoop b (eraseL body)
  | .block b body _ => .block b (eraseL body)
def eraseL : List (FItem Raw) → List (Item Raw)
  | [] => []
  | it :: its => it.erase :: eraseL its
end

mutual
def flattenF : FItem Raw → List Raw
  | .row r => [r]
  | .forLoop b body e => b :: (flattenFL body ++ [e])
  | .block b body e => b :: (flattenFL body ++ [e])
def flattenFL : List (FItem Raw) → List Raw
  | [] => []
  | it :: its => flattenF it ++ flattenFL its
end

mutual
/-- a tree with end rows from a `Sugar.Item` tree: `ef` / `eb` are the end rows to write -/
def unerase (ef eb : Raw) : Item Raw → FItem Raw
  | .row r => .row r
  | .forLoop b body => .forLoop b (uneraseL ef eb body) ef
  | .block b body => .block b (uneraseL ef eb body) eb
def uneraseL (ef eb : Raw) : List (Item Raw) → List (FItem Raw)
  | [] => []
  | it :: its => unerase ef eb it :: uneraseL ef eb its
end

/-- the flat sheet of a `Sugar.Item` tree -/
def flatten (ef eb : Raw) (its : List (Item Raw)) : List Raw := flattenFL (uneraseL ef eb its)

/-- what the scan of a whole sheet yields: the rows up to the first structural fault, as a tree.
`done`: well nested; `fault its f rest`: well-nested items, then the fault `f` is detected at this
level — at the end of the sheet (`rest = []`) or at the row `rest.head`; `open_ its isFor b inner`:
well-nested items, then a begin row whose block is never properly closed. -/
inductive PTree (Raw : Type) where
  | done (its : List (FItem Raw))
  | fault (its : List (FItem Raw)) (f : Fault) (rest : List Raw)
  | open_ (its : List (FItem Raw)) (isFor : Bool) (b : Raw) (inner : PTree Raw)

def PTree.fault? : PTree Raw → Option Fault
  | .done _ => none
  | .fault _ f _ => some f
  | .open_ _ _ _ t => t.fault?

def flattenP : PTree Raw → List Raw
  | .done its => flattenFL its
  | .fault its _ rest => flattenFL its ++ rest
  | .open_ its _ b inner => flattenFL its ++ b :: flattenP inner

/-- an active (not yet closed) block during the scan: its begin row and the items before it at
the enclosing level, last first -/
structure Frame (Raw : Type) where
  isFor : Bool
  b : Raw
  before : List (FItem Raw)

def frameBt : List (Frame Raw) → BlockType
  | [] => .root
  | f :: _ => if f.isFor then .for_ else .block

def wrap : List (Frame Raw) → PTree Raw → PTree Raw
  | [], t => t
  | f :: st, t => wrap st (.open_ f.before.reverse f.isFor f.b t)

/-- one pass over the rows with the stack of open blocks (`cur`: items of the innermost open
block so far, last first) -/
def build (kind : Raw → RowKind) : List (Frame Raw) → List (FItem Raw) → List Raw → PTree Raw
  | st, cur, [] =>
    match st with
    | [] => .done cur.reverse
    | _ :: _ => wrap st (.fault cur.reverse .unterminated [])
  | st, cur, r :: rs =>
    match isEndOfBlock (frameBt st) (some (kind r)) with
    | .error f => wrap st (.fault cur.reverse f (r :: rs))
    | .ok true =>
      match st with
      | fr :: st' =>
        build kind st'
          ((if fr.isFor then FItem.forLoop fr.b cur.reverse r else FItem.block fr.b cur.reverse r)
            :: fr.before) rs
      | [] => .done []   -- unreachable: no row ends the root block
    | .ok false =>
      match kind r with
      | .beginFor => build kind (⟨true, r, cur⟩ :: st) [] rs
      | .beginBlock => build kind (⟨false, r, cur⟩ :: st) [] rs
      | _ => build kind st (.row r :: cur) rs

def parseAll (kind : Raw → RowKind) (rows : List Raw) : PTree Raw := build kind [] [] rows

/-- the Lean version of the harness' `tree_of_rows`: the tree of a well-nested sheet, the first
structural fault of an ill-nested one -/
def parseTree (kind : Raw → RowKind) (rows : List Raw) : Except Fault (List (FItem Raw)) :=
  match parseAll kind rows with
  | .done its => .ok its
  | .fault _ f _ => .error f
  | .open_ _ _ _ t => .error (t.fault?.getD .unterminated)

/-! ## the tree reading of the flat machine -/

/-- first row of a list whose untemplated parse raises -/
def firstFail (I : FIface Raw Inst Ctx Val Hdr Err S) : List Raw → Option Err
  | [] => none
  | r :: rs =>
    match I.scanFail r with
    | some e => some e
    | none => firstFail I rs

/-- a block that is consumed with `omit_content=True`: every row is parsed untemplated, in order -/
def skipRows (I : FIface Raw Inst Ctx Val Hdr Err S) (rows : List Raw) (es : List (Ev Inst Hdr)) :
    Except Err (List (Ev Inst Hdr)) :=
  match firstFail I rows with
  | some x => .error x
  | none => .ok es

/-- the end row of a block whose content is evaluated is instantiated like any other row -/
def thenEnd (I : FIface Raw Inst Ctx Val Hdr Err S) (ctx : Ctx) (e : Raw) :
    Except Err (List (Ev Inst Hdr)) → Except Err (List (Ev Inst Hdr))
  | .error x => .error x
  | .ok es =>
    match I.inst ctx e with
    | .error x => .error x
    | .ok _ => .ok es

/-- the `begin_for` branch read on the tree: `skipped` = the rows consumed untemplated when the
list is empty, `iter c` = one pass over the body (and the end row) in context `c` -/
def evLoop (I : FIface Raw Inst Ctx Val Hdr Err S) (ctx : Ctx) (i : Inst) (skipped : List Raw)
    (iter : Ctx → Except Err (List (Ev Inst Hdr))) : Except Err (List (Ev Inst Hdr)) :=
  match I.loopVars i with
  | none => .error I.noVarErr
  | some (v, idx) =>
    if (I.iterList i).isEmpty then skipRows I skipped [.open_ (I.hdr i), .close (I.hdr i)]
    else
      match sequence ((I.iterList i).zipIdx.map fun (x, k) =>
          iter (iterCtx I.toIface ctx v idx x k)) with
      | .error x => .error x
      | .ok ess => .ok ([.open_ (I.hdr i)] ++ ess.flatten ++ [.close (I.hdr i)])

mutual
/-- `Sugar.evItem` with what the flat machine does in addition: end rows are instantiated,
omitted content is parsed untemplated -/
def evF (I : FIface Raw Inst Ctx Val Hdr Err S) (ctx : Ctx) : FItem Raw → Except Err (List (Ev Inst Hdr))
  | .row r =>
    match I.inst ctx r with
    | .error x => .error x
    | .ok i => .ok (if I.includeIf i then [.row i] else [])
  | .block b body e =>
    match I.inst ctx b with
    | .error x => .error x
    | .ok i =>
      if I.includeIf i then
        match thenEnd I ctx e (evFs I ctx body) with
        | .error x => .error x
        | .ok es => .ok ([.open_ (I.hdr i)] ++ es ++ [.close (I.hdr i)])
      else skipRows I (flattenFL body ++ [e]) []
  | .forLoop b body e =>
    match I.inst ctx b with
    | .error x => .error x
    | .ok i =>
      if I.includeIf i then
        evLoop I ctx i (flattenFL body ++ [e]) (fun c => thenEnd I c e (evFs I c body))
      else skipRows I (flattenFL body ++ [e]) []
def evFs (I : FIface Raw Inst Ctx Val Hdr Err S) (ctx : Ctx) : List (FItem Raw) → Except Err (List (Ev Inst Hdr))
  | [] => .ok []
  | it :: its =>
    match evF I ctx it with
    | .error x => .error x
    | .ok a =>
      match evFs I ctx its with
      | .error x => .error x
      | .ok b => .ok (a ++ b)
end

/-- an ill-nested remainder that is reached with `omit_content=True`: rows are parsed untemplated
in order until the fault -/
def skipP (I : FIface Raw Inst Ctx Val Hdr Err S) : PTree Raw → Stop Err
  | .done _ => .fault .unterminated
  | .fault its f rest =>
    match firstFail I (flattenFL its ++ rest.take 1) with
    | some x => .err x
    | none => .fault f
  | .open_ its _ b inner =>
    match firstFail I (flattenFL its ++ [b]) with
    | some x => .err x
    | none => skipP I inner

/-- the outcome of the parser on a whole sheet, read off the scan tree: the events of a
well-nested sheet; on an ill-nested sheet the FIRST thing that goes wrong — a row before the fault
that cannot be instantiated (open loops are in their first iteration), or the fault itself -/
def evP (I : FIface Raw Inst Ctx Val Hdr Err S) (ctx : Ctx) : PTree Raw → Res Err (List (Ev Inst Hdr))
  | .done its =>
    match evFs I ctx its with
    | .error x => .error (.err x)
    | .ok es => .ok es
  | .fault its f rest =>
    match evFs I ctx its with
    | .error x => .error (.err x)
    | .ok _ =>
      match rest with
      | [] => .error (.fault f)
      | r :: _ =>
        match I.inst ctx r with
        | .error x => .error (.err x)
        | .ok _ => .error (.fault f)
  | .open_ its isFor b inner =>
    match evFs I ctx its with
    | .error x => .error (.err x)
    | .ok _ =>
      match I.inst ctx b with
      | .error x => .error (.err x)
      | .ok i =>
        if I.includeIf i then
          if isFor then
            match I.loopVars i with
            | none => .error (.err I.noVarErr)
            | some (v, idx) =>
              match I.iterList i with
              | [] => .error (skipP I inner)
              | x :: _ => evP I (iterCtx I.toIface ctx v idx x 0) inner
          else evP I ctx inner
        else .error (skipP I inner)

/-- an outcome of the tree model (`Sugar.evItems`) as an outcome of the flat machine that leaves
context `ctx` -/
def withCtx (ctx : Ctx) : Except Err (List (Ev Inst Hdr)) → Res Err (List (Ev Inst Hdr) × Ctx)
  | .error e => .error (.err e)
  | .ok es => .ok (es, ctx)

/-! ## laws -/

/-- what the proof of "flat machine = tree reading" needs of the interface -/
structure FlatLaws (I : FIface Raw Inst Ctx Val Hdr Err S) : Prop where
  /-- a row's kind is not templated: an instantiated row has the type of its raw row -/
  kind_inst : ∀ ctx r i, I.inst ctx r = .ok i → I.kindI i = I.kind r
  /-- loop variable and index variable are different names -/
  vars_ne : ∀ i v idx, I.loopVars i = some (v, some idx) → v ≠ idx
  /-- `bind` / `bindIdx` of `Sugar.lean` are `add_to_context` -/
  bind_eq : ∀ c v x, I.bind c v x = I.put c v (I.ofVal x)
  bindIdx_eq : ∀ c v k, I.bindIdx c v k = I.put c v (I.ofIdx k)
  /-- the context is a dictionary (equality of contexts = equality of dicts) -/
  put_put : ∀ c k a b, I.put (I.put c k a) k b = I.put c k b
  put_comm : ∀ c k k' a b, k ≠ k' → I.put (I.put c k a) k' b = I.put (I.put c k' b) k a
  get_put : ∀ c k a, I.get (I.put c k a) k = some a
  get_put_ne : ∀ c k k' a, k ≠ k' → I.get (I.put c k a) k' = I.get c k'
  del_put : ∀ c k a, I.del (I.put c k a) k = I.del c k
  del_put_ne : ∀ c k k' a, k ≠ k' → I.del (I.put c k a) k' = I.put (I.del c k') k a
  del_absent : ∀ c k, I.get c k = none → I.del c k = c
  put_del : ∀ c k a, I.get c k = some a → I.put (I.del c k) k a = c

/-- what separates the tree reading of the flat machine (`evF`) from `Sugar.evItems` on a sheet:
rows that the tree reading never looks at are read by the real parser.  A sheet is quiet when
every row parses without templating (true when its type cells are known types) and its end rows
instantiate in every context (true of end rows whose other cells are blank). -/
def Quiet (I : FIface Raw Inst Ctx Val Hdr Err S) (rows : List Raw) : Prop :=
  ∀ r ∈ rows, I.scanFail r = none ∧
    ((I.kind r = .endFor ∨ I.kind r = .endBlock) → ∀ ctx, ∃ i, I.inst ctx r = .ok i)

end Rpft.SugarFlat
