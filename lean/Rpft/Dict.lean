/-
M7 (shared) — Python `dict` / `OrderedDict` as an association list in insertion order.

`set` is `d[k] = v` (an existing key keeps its position, a new key goes to the end),
`get` is `d.get(k)`, `pop` is `d.pop(k, None)`, `update` is `d.update(items)`,
`ofList` is `OrderedDict(items)` / `dict(items)`.  Invariant of every value built with
these from `[]`: keys pairwise distinct (`Lemmas/Dict.lean`).  Core Lean only.
-/
namespace Rpft

abbrev Dict (κ : Type) (β : Type) := List (κ × β)

namespace Dict
variable {κ β : Type} [DecidableEq κ]

/-- `d[k] = v` -/
def set : Dict κ β → κ → β → Dict κ β
  | [], k, v => [(k, v)]
  | (k', v') :: d, k, v => if k' = k then (k, v) :: d else (k', v') :: set d k v

/-- `d.get(k)` -/
def get : Dict κ β → κ → Option β
  | [], _ => none
  | (k', v') :: d, k => if k' = k then some v' else get d k

/-- `k in d` -/
def has (d : Dict κ β) (k : κ) : Bool := (get d k).isSome

/-- `d.pop(k, None)` (the returned value is not used by the modelled code) -/
def pop : Dict κ β → κ → Dict κ β
  | [], _ => []
  | (k', v') :: d, k => if k' = k then d else (k', v') :: pop d k

/-- `d.update(items)` -/
def update (d : Dict κ β) (items : List (κ × β)) : Dict κ β :=
  items.foldl (fun acc kv => set acc kv.1 kv.2) d

/-- `OrderedDict(items)` -/
def ofList (items : List (κ × β)) : Dict κ β := update [] items

/-- `list(d.keys())` -/
def keys (d : Dict κ β) : List κ := d.map (·.1)

end Dict
end Rpft
