/-
Domains of the C07 / C09 statements as decidable predicates (mirrored in
harness/rowlib.py `representable`, `admissible`): which row values are representable in
cells, which target-header sets are admissible for a schema.  Core Lean only.
-/
import Rpft.RowUnparse
namespace Rpft.Row
open Rpft

/-- trimmed and template free -/
def strOk (s : Str) : Bool :=
  strip pyWs s == s && !s.contains '{'

def floatOk (s : Str) : Bool := pyFloatOk s && strOk s

/-- entries of an untyped list: non-blank strings or non-empty lists of such (two levels) -/
def pvOk : PV → Bool
  | .atom s => strOk s && !s.isEmpty
  | .list xs => !xs.isEmpty && xs.all fun
    | .atom s => strOk s && !s.isEmpty
    | .list _ => false

def allDefault (fs : List Field) (kvs : List (Str × Val)) : Bool :=
  fs.all fun f => match alookup f.1 kvs with
    | some x => isDefault f.2.2 x
    | none => false

/-- a non-default field value must leave a cell from which it can be read back -/
def fieldOk (deep : Bool) : Ty → Val → Bool
  | .str, .str s => !(deep && s.isEmpty)      -- blank last element of its key/value pair
  | .anyList, .any xs => !xs.isEmpty
  | .list _, .list xs => !xs.isEmpty
  | .model fs _ _, .model kvs => !allDefault fs kvs
  | _, _ => true

mutual
/-- `Representable`: strings trimmed / template free; inside lists no
blank string, no empty list, no all-default record; an empty list, an all-default record
and (inside sub-records) a blank string must be the field's default; record values list
exactly the fields of their type. -/
def reprOk (inList : Bool) : Ty → Val → Bool
  | .str, .str s => strOk s && !(inList && s.isEmpty)
  | .int, .int _ => true
  | .bool, .bool _ => true
  | .float, .float s => floatOk s
  | .anyList, .any xs => !(inList && xs.isEmpty) && xs.all pvOk
  | .list t, .list xs => !(inList && xs.isEmpty) && xs.all (reprOk true t)
  | .model fs _ _, .model kvs =>
    decide (kvs.map Prod.fst = fs.map (·.1)) && !(inList && allDefault fs kvs) &&
      reprFields true fs kvs
  | _, _ => false
def reprFields (deep : Bool) : List (Str × Ty × Option Val) → List (Str × Val) → Bool
  | [], _ => true
  | (n, t, d) :: rest, kvs =>
    (match alookup n kvs with
      | none => false
      | some x => isDefault d x || (fieldOk deep t x && reprOk false t x)) &&
    reprFields deep rest kvs
end

/-- `Representable sch v` for a row value -/
def Representable (top : Ty) (v : Val) : Bool :=
  match top, v with
  | .model fs _ _, .model kvs =>
    decide (kvs.map Prod.fst = fs.map (·.1)) && reprFields false fs kvs
  | _, _ => false

mutual
/-- nesting depth of `to_nested_list` (records pack as key/value pairs: two levels) -/
def packDepth : Ty → Nat
  | .str | .int | .float | .bool => 0
  | .anyList => 2
  | .list t => 1 + packDepth t
  | .model fs _ _ => 2 + packDepthFields fs
def packDepthFields : List (Str × Ty × Option Val) → Nat
  | [] => 0
  | (_, t, _) :: rest => max (packDepth t) (packDepthFields rest)
end

def isBasicTy : Ty → Bool
  | .str | .int | .float | .bool => true
  | _ => false

mutual
/-- static walk of `unparse_row_recurse` over the schema (index 1 stands for every list
index): every position that is packed into one cell — by a target header, or because its
field is remapped — has nesting depth ≤ 2 -/
def admTy (targets : List Str) : Ty → Str → Bool
  | ty, pfx =>
    if isBasicTy ty then true
    else if matchesHeaders pfx targets then packDepth ty ≤ 2
    else match ty with
      | .list t => admTy targets t (pfx ++ ".1".toList)
      | .model fs _ f2h => admFields targets f2h pfx fs
      | _ => true
def admFields (targets : List Str) (f2h : List (Str × Str)) (pfx : Str) :
    List (Str × Ty × Option Val) → Bool
  | [] => true
  | (n, t, _) :: rest =>
    (if remap f2h n = n then admTy targets t (pfx ++ '.' :: n) else decide (packDepth t ≤ 2)) &&
    admFields targets f2h pfx rest
end

def isAtom : PV → Bool
  | .atom _ => true
  | .list _ => false

def allIdx (f : Val → Str → Bool) (pfx : Str) : Nat → List Val → Bool
  | _, [] => true
  | i, x :: xs => f x (idxPrefix pfx i) && allIdx f pfx (i + 1) xs

mutual
/-- `AnySpreadOk`: every untyped list that the layout spreads (no target header on it or
above it) holds plain strings only — an untyped list holding lists must be packed
(finding F-C04-d) -/
def anyDeep (lay : Layout) : Ty → Val → Str → Bool
  | ty, v, pfx =>
    if matchesHeaders pfx lay.targets then true
    else match ty, v with
      | .anyList, .any xs => xs.all isAtom
      | .list t, .list xs => allIdx (anyDeep lay t) pfx 1 xs
      | .model fs _ f2h, .model kvs => anyDeepFields lay f2h pfx kvs fs
      | _, _ => true
def anyDeepFields (lay : Layout) (f2h : List (Str × Str)) (pfx : Str) (kvs : List (Str × Val)) :
    List (Str × Ty × Option Val) → Bool
  | [] => true
  | (n, t, d) :: rest =>
    (match alookup n kvs with
      | none => true
      | some x =>
        if remap f2h n = n then (isDefault d x || anyDeep lay t x (pfx ++ '.' :: n)) else true) &&
    anyDeepFields lay f2h pfx kvs rest
end

/-- `AnySpreadOk sch lay v` -/
def AnySpreadOk (sch : Schema) (lay : Layout) (v : Val) : Bool := anyDeep lay sch.top v []

/-- `Admissible sch lay`: nothing excluded, packed positions within the two-level limit -/
def Admissible (sch : Schema) (lay : Layout) : Bool :=
  lay.excluded.isEmpty && admTy lay.targets sch.top []

/-! ### the general family (C07 `parse_unparse`) -/

/-- a character that may occur in a header segment -/
def okChar (c : Char) : Bool :=
  c != '.' && c != ':' && c != '=' && c != '*' && !pyWs c && c != '{'

/-- a header segment: non-empty, no `.`, `:`, `=`, `*`, `{`, no whitespace -/
def simpleName (n : Str) : Bool := !n.isEmpty && n.all okChar

/-- the side conditions on the remap dictionaries of a (nested) record type: field names and
their headers are header segments; `header_name_to_field_name` undoes
`field_name_to_header_name` on every field; distinct fields have distinct names and
distinct headers -/
def remapOk (fs : List Field) (h2f f2h : List (Str × Str)) : Bool :=
  fs.all (fun f => simpleName f.1 && simpleName (remap f2h f.1) &&
    decide (remap h2f (remap f2h f.1) = f.1)) &&
  decide ((fs.map (·.1)).Nodup) && decide ((fs.map fun f => remap f2h f.1).Nodup)

mutual
/-- the schema family of the general round-trip theorem: ANY nesting of basic types, untyped
lists, typed lists and records whose remap dictionaries satisfy `remapOk` -/
def goodTy : Ty → Bool
  | .str | .int | .float | .bool | .anyList => true
  | .list t => goodTy t
  | .model fs h2f f2h => remapOk fs h2f f2h && goodFields fs
def goodFields : List (Str × Ty × Option Val) → Bool
  | [] => true
  | (_, t, _) :: rest => goodTy t && goodFields rest
end

/-- the types that fit into ONE cell (two-level limit of the cell syntax): basic values, lists
of basic values, lists of lists of basic values, untyped lists, records of basic fields
(key/value pairs keyed by FIELD name, so `header_name_to_field_name` must leave the field
names alone) -/
def packTy : Ty → Bool
  | .str | .int | .float | .bool | .anyList => true
  | .list (.list u) => isBasicTy u
  | .list t => isBasicTy t
  | .model fs h2f _ => fs.all (fun f => isBasicTy f.2.1 && decide (remap h2f f.1 = f.1))

mutual
/-- `LayoutOk`, along the walk of `unparse_row_recurse` over the VALUE (so with the real
list indices): every position that is written as one cell — matched by a target header, or
because its field is remapped — has a type that fits one cell; an untyped list that is
spread holds plain strings only (finding F-C04-d) -/
def layOk (lay : Layout) : Ty → Val → Str → Bool
  | ty, v, pfx =>
    if isBasicTy ty then true
    else if matchesHeaders pfx lay.targets then packTy ty
    else match ty, v with
      | .anyList, .any xs => xs.all isAtom
      | .list t, .list xs => allIdx (layOk lay t) pfx 1 xs
      | .model fs _ f2h, .model kvs => layOkFields lay f2h pfx kvs fs
      | _, _ => true
def layOkFields (lay : Layout) (f2h : List (Str × Str)) (pfx : Str) (kvs : List (Str × Val)) :
    List (Str × Ty × Option Val) → Bool
  | [] => true
  | (n, t, d) :: rest =>
    (match alookup n kvs with
      | none => true
      | some x =>
        isDefault d x ||
          (if remap f2h n = n then layOk lay t x (pfx ++ '.' :: n) else packTy t)) &&
    layOkFields lay f2h pfx kvs rest
end

/-- first segment of a dotted header -/
def headSeg (k : Str) : Str := k.takeWhile (· ≠ '.')

/-- a field together with its value -/
abbrev SPair := Field × Val
def nonDefault (p : SPair) : Bool := !isDefault p.1.2.2 p.2

/-- the header segment a field is written under (`field_name_to_header_name`) -/
def hdr (f2h : List (Str × Str)) (p : SPair) : Str := remap f2h p.1.1

/-- the headers `header_name_to_field_name_with_context` may rewrite -/
def ctxKeys (sch : Schema) : List Str :=
  sch.ctxBasic.map Prod.fst ++ (match sch.ctxMain with
    | some (h, _, _) => [h]
    | none => [])

/-- the row model itself: field names are distinct header segments, field types in the family -/
def goodTop : Ty → Bool
  | .model fs _ _ =>
    fs.all (fun f => simpleName f.1) && decide ((fs.map (·.1)).Nodup) && goodFields fs
  | _ => false

/-- `RemapConsistent sch lay v` — the top-level header remaps lead back to the fields, for the
fields of `v` that are written (non-default): their headers are distinct header segments; a
field written under its own name is not touched by the context remap (and
`header_name_to_field_name` keeps it); a field written under a remapped header `m` is found
again: `header_name_to_field_name_with_context(m, row)` is a header segment that
`header_name_to_field_name` sends to the field (flow rows: `message_text` ↦ the main argument
selected by the row's `type` cell). -/
def RemapConsistent (sch : Schema) (lay : Layout) (v : Val) : Bool :=
  match sch.top, v with
  | .model fs h2f f2h, .model kvs =>
    let nd := (fs.zip (kvs.map Prod.snd)).filter nonDefault
    match unparseRec lay sch.top v [] [] with
    | .error _ => false
    | .ok cells =>
      decide ((nd.map (hdr f2h)).Nodup) &&
      nd.all fun p =>
        let m := remap f2h p.1.1
        simpleName m &&
        (if m = p.1.1 then
          decide (remap h2f p.1.1 = p.1.1) && (ctxKeys sch).all (fun k => headSeg k != p.1.1)
        else match ctxRemap sch cells m with
          | .ok pn => simpleName pn && decide (remap h2f pn = p.1.1)
          | .error _ => false)
  | _, _ => false

/-- `LayoutOk sch lay v`: nothing excluded, and `layOk` from the root -/
def LayoutOk (sch : Schema) (lay : Layout) (v : Val) : Bool :=
  lay.excluded.isEmpty && layOk lay sch.top v []

end Rpft.Row
