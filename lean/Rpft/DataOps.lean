/-
M7 `DataOps` — data-sheet operations of the content index
(contentindexparser.py: `_process_data_sheet` 196-241, `_get_data_sheet` 243-247,
`_get_new_data_sheet` 249-276, `_data_sheets_concat` 278-295, `_data_sheets_filter` 297-313,
`_data_sheets_sort` 315-334, `data_sheets_to_dict` 364-376, `DataSheet.to_dict` 38-42).

A data row is `(ID, payload)`: the payload is the index of the row's full content in the
harness's table of distinct contents, so two rows are "the same content" iff their payloads
are equal.  Python's expression language is outside the model: the harness evaluates the
`operation.expression` of a row itself (`eval(expr, {}, dict(row))`) and ships the result
per payload (`FKey` for filter, `Key` for sort).  `DataSheet.rows` is an `OrderedDict`
ID → row = `Dict Str Payload`.  Core Lean only.
-/
import Rpft.Str
import Rpft.Dict
namespace Rpft.DataOps
open Rpft

/-- value of a sort expression: Python `int` (incl. `bool`) or `str` -/
inductive Key
  | int (i : Int)
  | str (s : Str)
deriving DecidableEq, Repr

/-- Python `a <= b` on `str`: lexicographic by code point -/
def strLe : Str → Str → Bool
  | [], _ => true
  | _ :: _, [] => false
  | a :: as, b :: bs =>
    if a.toNat < b.toNat then true else if b.toNat < a.toNat then false else strLe as bs

/-- `not (b < a)` as used by `sorted`.  Mixed `int`/`str` raises `TypeError` in Python; the
generators never mix them inside one operation (ints are put first to keep `le` total). -/
def Key.le : Key → Key → Bool
  | .int a, .int b => decide (a ≤ b)
  | .str a, .str b => strLe a b
  | .int _, .str _ => true
  | .str _, .int _ => false

/-- what `eval(expression) is True` can be for one row -/
inductive FKey
  | isTrue      -- the value is the object `True`
  | other       -- anything else (False, truthy non-bool, …): row dropped
  | nameError   -- NameError / SyntaxError: CRITICAL logged, row dropped
deriving DecidableEq, Repr

abbrev Payload := Nat
abbrev Row := Str × Payload
/-- `DataSheet.rows` -/
abbrev Sheet := Dict Str Payload

inductive Err
  | sheetNotFound (n : Str)   -- ParserError("Sheet not found")
  | unbound                   -- UnboundLocalError (`data_sheet` / `new_row_data` never assigned)
  | index                     -- IndexError (`sheet_names[0]` of an empty list)
deriving DecidableEq, Repr

inductive OpKind
  | none                                               -- operation.type == ""
  | concat
  | filter (p : Payload → FKey)
  | sort (k : Payload → Option Key) (desc : Bool)      -- `none` = the expression raises NameError
  | unknown

/-- the `operation.type` strings `_process_data_sheet` dispatches on (T1: tied to the source) -/
def opTypeNames : List Str := ["concat".toList, "filter".toList, "sort".toList]
/-- the types for which only the first sheet name is used -/
def singleSourceTypes : List Str := ["filter".toList, "sort".toList]
/-- `operation.order.lower() == "descending"` -/
def descendingWord : Str := "descending".toList

/-- `str.lower()` on ASCII (the harness only ships ASCII order words) -/
def lowerAscii (s : Str) : Str :=
  s.map (fun c => if 65 ≤ c.toNat ∧ c.toNat ≤ 90 then Char.ofNat (c.toNat + 32) else c)

def isDescending (order : Str) : Bool := lowerAscii order == descendingWord

/-- dispatch of `_process_data_sheet` on `operation.type` -/
def kindOfName (name : Str) (p : Payload → FKey) (k : Payload → Option Key) (order : Str) : OpKind :=
  if name = [] then .none
  else if name = "concat".toList then .concat
  else if name = "filter".toList then .filter p
  else if name = "sort".toList then .sort k (isDescending order)
  else .unknown

/-- one `data_sheet` row of the content index -/
structure Op where
  sources : List Str      -- row.sheet_name
  newName : Str           -- row.new_name ("" = not given)
  kind : OpKind

/-- the sheets the reader can deliver (`_get_sheet_or_die(name).table`), as parsed row lists
(duplicate IDs possible); `none` = no workbook has the sheet -/
abbrev Env := Str → Option (List Row)

structure St where
  data : Dict Str Sheet := []     -- self.data_sheets
  crit : Nat := 0                 -- number of LOGGER.critical records so far

/-- `_get_new_data_sheet`: `OrderedDict((row.ID, row) for row in data_rows)`; NOT registered -/
def getNew (env : Env) (n : Str) : Except Err Sheet :=
  match env n with
  | none => throw (.sheetNotFound n)
  | some rows => pure (Dict.ofList rows)

/-- `_get_data_sheet`: registered → the registered object, else parse fresh -/
def getDataSheet (env : Env) (st : St) (n : Str) : Except Err Sheet :=
  match st.data.get n with
  | some s => pure s
  | none => getNew env n

/-- `all_data_rows = OrderedDict(); for s in sheets: all_data_rows.update(s.rows)` -/
def concatSheets (ss : List Sheet) : Sheet := ss.foldl Dict.update []

def dataSheetsConcat (env : Env) (st : St) (names : List Str) : Except Err Sheet := do
  let ss ← names.mapM (getDataSheet env st)
  pure (concatSheets ss)

/-- `for row_id, row in rows.items(): if eval(...) is True: new[row_id] = row` -/
def filterSheet (p : Payload → FKey) (s : Sheet) : Sheet :=
  s.foldl (fun acc r => if p r.2 = .isTrue then Dict.set acc r.1 r.2 else acc) []

def filterCrit (p : Payload → FKey) (s : Sheet) : Nat :=
  (s.filter (fun r => p r.2 = .nameError)).length

/-- comparison used by `sorted(items, key=…, reverse=desc)`: `reverse=True` is the stable sort
for the reversed order (CPython reverses, sorts, reverses), ties keep input order. -/
def sortLe (k : Payload → Key) (desc : Bool) (a b : Row) : Bool :=
  if desc then (k b.2).le (k a.2) else (k a.2).le (k b.2)

/-- `OrderedDict(sorted(rows.items(), key=…, reverse=…))` -/
def sortSheet (k : Payload → Key) (desc : Bool) (s : Sheet) : Sheet :=
  Dict.ofList (s.mergeSort (sortLe k desc))

def firstSource (op : Op) : Except Err Str :=
  match op.sources with
  | [] => throw .index
  | n :: _ => pure n

/-- the sheet computed by `_process_data_sheet` and the number of CRITICAL records logged on
the way (an operation without `new_name` is one) -/
def opResult (env : Env) (st : St) (op : Op) : Except Err (Nat × Sheet) :=
  let critNew := if op.newName = [] then 1 else 0
  match op.kind with
  | .none => do
      let s ← dataSheetsConcat env st op.sources
      pure (0, s)
  | .concat => do
      let s ← dataSheetsConcat env st op.sources
      pure (critNew, s)
  | .filter p => do
      let n ← firstSource op
      let s ← getDataSheet env st n
      pure (critNew + filterCrit p s, filterSheet p s)
  | .sort k desc => do
      let n ← firstSource op
      let s ← getDataSheet env st n
      if s.all (fun r => (k r.2).isSome) then
        pure (critNew, sortSheet (fun p => (k p).getD (.int 0)) desc s)
      else throw .unbound
  | .unknown => throw .unbound

/-- `new_name = row.new_name or sheet_names[0]` -/
def targetName (op : Op) : Except Err Str :=
  if op.newName ≠ [] then pure op.newName else firstSource op

/-- `_process_data_sheet` (with the `len(sheet_name) >= 1` check of the caller) -/
def processDataSheet (env : Env) (st : St) (op : Op) : Except Err St := do
  let crit0 := if op.sources = [] then 1 else 0
  let (c, sheet) ← opResult env st op
  let newName ← targetName op
  pure { data := st.data.set newName sheet, crit := st.crit + crit0 + c }

/-- the `data_sheet` rows of an index, top to bottom; `Except` = the exception that aborts
the constructor -/
def runOps (env : Env) : St → List Op → Except Err St
  | st, [] => pure st
  | st, op :: ops => do
    let st' ← processDataSheet env st op
    runOps env st' ops

/-- states after every step (for the tie), stopping at the first exception -/
def traceOps (env : Env) : St → List Op → List (Except Err St)
  | _, [] => []
  | st, op :: ops =>
    match processDataSheet env st op with
    | .ok st' => .ok st' :: traceOps env st' ops
    | .error e => [.error e]

/-- `data_sheets_to_dict()["sheets"]`: per registered name, in registration order, the rows
(`content.dict()` = payload) in sheet order -/
def dataSheetsToDict (st : St) : List (Str × List Payload) :=
  st.data.map (fun ns => (ns.1, ns.2.map (·.2)))

end Rpft.DataOps
