/-
The reference interpretation of a core flow sheet (C02): NOT a model of the compiler but the
statement of C02 made executable.  One position per node-producing row; the out-edges of a
row are the `(condition, target)` pairs of the edges whose `from` resolves to it, in order of
appearance; blank condition = default branch (last one wins); conditions on an action row
introduce a decision after the action; `go_to` enters the named row; `no_op` adds no step;
`hard_exit` / `loose_exit` end the path.  Core Lean only.
-/
import Rpft.Flow
namespace Rpft.RefFlow
open Rpft Rpft.Flow

structure Cond where
  value : Str
  var : Str
  type : Str
  name : Str
  deriving Repr, DecidableEq

def Cond.blank (c : Cond) : Bool :=
  c.value.isEmpty && c.var.isEmpty && c.type.isEmpty && c.name.isEmpty

structure REdge where
  from_ : Str
  cond : Cond
  deriving Repr, DecidableEq

inductive Kind where
  | action | wait | splitValue | splitGroup | splitRandom | enterFlow | webhook | airtime
  | noOp | goTo | hardExit | looseExit
  deriving Repr, DecidableEq

def Kind.isNode : Kind → Bool
  | .goTo | .hardExit | .looseExit => false
  | _ => true

structure RRow where
  rowId : Str
  kind : Kind
  edges : List REdge
  act : Option Str      -- observable content of the row's action (harness reference table)
  operand : Str         -- decision operand of split / wait / sub-flow / webhook / airtime rows
  saveName : Str
  timeout : Nat         -- `no_response` seconds of a wait row (0 = none)
  dests : List Str      -- `go_to` destinations
  deriving Repr, DecidableEq

inductive Target where
  | row (k : Nat)
  | exit
  deriving Repr, DecidableEq

structure OutEdge where
  src : Nat
  cond : Cond
  tgt : Target
  deriving Repr, DecidableEq

inductive WfErr where
  | unknownFrom (row : Nat) (id : Str)
  | unknownDest (row : Nat) (id : Str)
  | gotoArity (row : Nat)
  | noPrev (row : Nat)
  deriving Repr, DecidableEq

structure P1 where
  prev : Option Nat := none
  ids : List (Str × Nat) := []     -- row_id ↦ row index, later rows first
  out : List OutEdge := []          -- reversed
  deriving Repr

def lookupId (ids : List (Str × Nat)) (id : Str) : Option Nat :=
  (ids.find? (·.1 = id)).map (·.2)

/-- source of an edge: `none` = no edge (from `start`) -/
def edgeSrc (st : P1) (k : Nat) (e : REdge) : Except WfErr (Option Nat) :=
  if e.from_ = "start".toList then .ok none
  else if e.from_.isEmpty then
    match st.prev with
    | some p => .ok (some p)
    | none => .ok none       -- nothing precedes: the compiler finds no group and adds no edge
  else match lookupId st.ids e.from_ with
    | some s => .ok (some s)
    | none => .error (.unknownFrom k e.from_)

def addEdges (st : P1) (k : Nat) (es : List (REdge × Target)) : Except WfErr P1 :=
  es.foldlM (init := st) fun st (e, t) => do
    match ← edgeSrc st k e with
    | none => pure st
    | some s => pure { st with out := { src := s, cond := e.cond, tgt := t } :: st.out }

def isTrivial (e : REdge) : Bool := e.from_.isEmpty && e.cond.blank

/-- pass 1: one row.  Trivial edges (blank `from`, no condition) after the first carry no
information (padding cells) and are omitted for every row type. -/
def pass1Row (st : P1) (k : Nat) (r : RRow) : Except WfErr P1 := do
  let es := (r.edges.zipIdx.filter fun (e, i) => i = 0 || !isTrivial e).map (·.1)
  match r.kind with
  | .hardExit | .looseExit => addEdges st k (es.map fun e => (e, Target.exit))
  | .goTo =>
    let ds := if r.dests.length = 1 then List.replicate es.length (r.dests.headD []) else r.dests
    if ds.length ≠ es.length then throw (.gotoArity k)
    let tgts ← ds.mapM fun d => match lookupId st.ids d with
      | some t => pure (Target.row t)
      | none => throw (WfErr.unknownDest k d)
    addEdges st k (es.zip tgts)
  | _ =>
    let st ← addEdges st k (es.map fun e => (e, Target.row k))
    pure { st with prev := some k, ids := if r.rowId.isEmpty then st.ids else (r.rowId, k) :: st.ids }

def pass1 (rows : List RRow) : Except WfErr (List OutEdge) := do
  let st ← rows.zipIdx.foldlM (init := ({} : P1)) fun st (r, k) => pass1Row st k r
  pure st.out.reverse

/-! ### pass 2: one node per node-producing row -/

def natStr (n : Nat) : Str := (toString n).toList

def nodeId (k : Nat) : Id := natStr k
def subId (k : Nat) (tag : String) (i : Nat) : Id := natStr k ++ tag.toList ++ natStr i

def tgtDest : Target → Option Id
  | .row k => some (nodeId k)
  | .exit => none

def lower (s : Str) : Str := s.map Char.toLower

/-- destination of the last edge satisfying `p` -/
def lastTgt (es : List OutEdge) (p : OutEdge → Bool) : Option Id :=
  match (es.filter p).getLast? with
  | some e => tgtDest e.tgt
  | none => none

/-- a switch router from ordered tests `(type, args, dest)` plus default (and timeout) branch;
identifiers are positional -/
def mkSwitch (k : Nat) (operand : Str) (tests : List (Str × List Str × Option Id))
    (dflt : Option Id) (wait : Option (Option (Nat × Option Id))) (rn : Option Str) :
    Router × List Exit :=
  let n := tests.length
  let cats := tests.zipIdx.map fun (_, i) =>
    ({ uuid := subId k "c" i, name := [], exitUuid := subId k "e" i } : Category)
  let exits := tests.zipIdx.map fun ((_, _, d), i) => ({ uuid := subId k "e" i, dest := d } : Exit)
  let cases := tests.zipIdx.map fun ((t, a, _), i) =>
    ({ uuid := subId k "k" i, type := t, args := a, catUuid := subId k "c" i } : Case)
  let dcat : Category := { uuid := subId k "c" n, name := [], exitUuid := subId k "e" n }
  let dexit : Exit := { uuid := subId k "e" n, dest := dflt }
  match wait with
  | some (some (secs, td)) =>
    let tcat : Category := { uuid := subId k "c" (n + 1), name := [], exitUuid := subId k "e" (n + 1) }
    let texit : Exit := { uuid := subId k "e" (n + 1), dest := td }
    (.switch operand cases (cats ++ [dcat, tcat]) dcat.uuid (some (some (secs, tcat.uuid))) rn,
      exits ++ [dexit, texit])
  | some none => (.switch operand cases (cats ++ [dcat]) dcat.uuid (some none) rn, exits ++ [dexit])
  | none => (.switch operand cases (cats ++ [dcat]) dcat.uuid none rn, exits ++ [dexit])

/-- the tests that take no argument (`RouterCase.NO_ARGS_TESTS`; tied to the source by
`Props.C02.tables_agree`): the condition cell of such an edge carries no test argument -/
def noArgsTests : List Str :=
  ["has_date", "has_email", "has_error", "has_number", "has_state", "has_text", "has_time"].map String.toList

def condTest (c : Cond) : Str × List Str :=
  let ty := if c.type.isEmpty then "has_any_word".toList else c.type
  (ty, if noArgsTests.contains ty then [] else [c.value])

/-- variable named by the conditional edges of a non-split row (`none`: they name none) -/
def condVar (conds : List OutEdge) : Option Str :=
  (conds.find? (fun e => !e.cond.var.isEmpty)).map (·.cond.var)

def mkNode (k : Nat) (r : RRow) (out : List OutEdge) : Node :=
  let uncond := out.filter (·.cond.blank)
  let conds := out.filter (fun e => !e.cond.blank)
  let dflt := lastTgt uncond (fun _ => true)
  let actions : List Action := match r.act with
    | some a => [{ uuid := subId k "a" 0, obs := a }]
    | none => []
  let plain : Node :=
    { uuid := nodeId k, actions := actions, router := none,
      exits := [{ uuid := subId k "e" 0, dest := dflt }] }
  let withRouter (p : Router × List Exit) : Node :=
    { uuid := nodeId k, actions := actions, router := some p.1, exits := p.2 }
  match r.kind with
  | .action =>
    if conds.isEmpty then plain
    else
      let tests := conds.map fun e => ((condTest e.cond).1, (condTest e.cond).2, tgtDest e.tgt)
      match condVar conds with
      | some v => withRouter (mkSwitch k v tests dflt none none)
      | none => withRouter (mkSwitch k "@input.text".toList tests dflt (some none) none)
  | .noOp =>
    if conds.isEmpty then plain
    else
      let tests := conds.map fun e => ((condTest e.cond).1, (condTest e.cond).2, tgtDest e.tgt)
      withRouter (mkSwitch k ((condVar conds).getD []) tests dflt none none)
  | .wait =>
    let isNR := fun (e : OutEdge) => lower e.cond.value = "no response".toList
    let tests := (conds.filter (fun e => !isNR e)).map fun e =>
      ((condTest e.cond).1, (condTest e.cond).2, tgtDest e.tgt)
    let wait := if r.timeout = 0 then some none else some (some (r.timeout, lastTgt conds isNR))
    withRouter (mkSwitch k r.operand tests dflt wait (some r.saveName))
  | .splitValue =>
    let tests := conds.map fun e => ((condTest e.cond).1, (condTest e.cond).2, tgtDest e.tgt)
    withRouter (mkSwitch k r.operand tests dflt none (some r.saveName))
  | .splitGroup =>
    -- the group uuid argument is not observed (`testArgs`): a placeholder stands for it
    let tests := conds.map fun e => ("has_group".toList, [[], e.cond.value], tgtDest e.tgt)
    withRouter (mkSwitch k r.operand tests dflt none (some r.saveName))
  | .splitRandom =>
    -- every leaving edge is a bucket; same name = same bucket, last destination wins
    let nameOf := fun (e : OutEdge) => if e.cond.name.isEmpty then e.cond.value else e.cond.name
    let step := fun (acc : List (Str × Option Id) × Nat) (e : OutEdge) =>
      let nm := nameOf e
      if nm.isEmpty then (acc.1 ++ [("#".toList ++ natStr acc.2, tgtDest e.tgt)], acc.2 + 1)
      else if acc.1.any (·.1 = nm) then
        (acc.1.map (fun (p : Str × Option Id) => if p.1 = nm then (p.1, tgtDest e.tgt) else p), acc.2)
      else (acc.1 ++ [(nm, tgtDest e.tgt)], acc.2)
    let buckets := (out.foldl step ([], 0)).1
    let cats := buckets.zipIdx.map fun (_, i) =>
      ({ uuid := subId k "c" i, name := [], exitUuid := subId k "e" i } : Category)
    let exits := buckets.zipIdx.map fun ((_, d), i) => ({ uuid := subId k "e" i, dest := d } : Exit)
    { uuid := nodeId k, actions := actions,
      router := some (.random cats (if r.saveName.isEmpty then none else some r.saveName)),
      exits := exits }
  | .enterFlow =>
    let isC := fun (e : OutEdge) =>
      lower e.cond.value = "complete".toList || lower e.cond.value = "completed".toList
    let isX := fun (e : OutEdge) => lower e.cond.value = "expired".toList
    let cd := lastTgt out isC
    let xd := lastTgt out isX
    -- two tests (completed / expired); the expired test selects the default category
    let r0 := mkSwitch k r.operand
      [("has_only_text".toList, ["completed".toList], cd)] xd none none
    match r0.1 with
    | .switch o cases cats d w rn =>
      let xcase : Case := { uuid := subId k "k" 1, type := "has_only_text".toList,
                            args := ["expired".toList], catUuid := d }
      withRouter (.switch o (cases ++ [xcase]) cats d w rn, r0.2)
    | other => withRouter (other, r0.2)
  | .webhook =>
    let sd := lastTgt out (fun e => lower e.cond.value = "success".toList)
    let fd := lastTgt out (fun e => e.cond.blank || lower e.cond.value = "failure".toList)
    withRouter (mkSwitch k r.operand [("has_only_text".toList, ["Success".toList], sd)] fd none none)
  | .airtime =>
    let sd := lastTgt out (fun e => lower e.cond.value = "success".toList)
    let fd := lastTgt out (fun e => e.cond.blank || lower e.cond.value = "failure".toList)
    withRouter (mkSwitch k r.operand [("has_category".toList, ["Success".toList], sd)] fd none none)
  | _ => plain

/-- the reference flow of a sheet -/
def refFlow (rows : List RRow) : Except WfErr Flow := do
  let out ← pass1 rows
  let nodes := rows.zipIdx.filterMap fun (r, k) =>
    if r.kind.isNode then some (mkNode k r (out.filter (·.src = k))) else none
  pure { uuid := "ref".toList, name := "ref".toList, nodes := nodes }

end Rpft.RefFlow
