/-
M8 — model of the cell templating step
(`rpft.parsers.common.cellparser.CellParser.parse_as_string` / `parse`, cellparser.py 91-139;
the `omit_templating` path of `SheetParser.parse_next_row`, sheetparser.py 41-49).

A mini template language that the harness generators emit in Jinja syntax (`Tmpl.show`),
its evaluation under the two `undefined` policies of Jinja (`strict` = `StrictUndefined`,
what the repo configures; `lenient` = Jinja's default `Undefined`, what it configured before
the fix), and the wrapper around it (strip, the `context is None` / no-`{` shortcut, native
`{@ … @}` detection, the nested-`{@` check, the `isinstance(result, Undefined)` check).

Jinja itself (lexer/parser/evaluator on this fragment) is modelled, not verified: the tie of
C16 compares `render` with the real environments on every generated case.  Core Lean only.
-/
import Rpft.Cell
namespace Rpft.Template
open Rpft Rpft.Cell

/-- what an undefined reference does: `strict` = `jinja2.StrictUndefined`, `lenient` =
`jinja2.Undefined` (the default) -/
inductive Policy where
  | strict | lenient
  deriving DecidableEq, Repr

/-- context values: strings, lists, records (dicts / row models) -/
inductive Val where
  | str (s : Str)
  | list (xs : List Val)
  | record (fs : List (Str × Val))
  deriving Repr

abbrev Ctx := List (Str × Val)

/-- one step of a reference: `.name`, `['name']`, or `[i]` -/
inductive Seg where
  | fld (n : Str)      -- `.n`
  | key (n : Str)      -- `['n']`
  | idx (i : Nat)      -- `[i]`
  deriving DecidableEq, Repr

/-- a reference: root name and attribute / item steps (`row.items[2].name`) -/
structure Path where
  root : Str
  segs : List Seg
  deriving DecidableEq, Repr

/-- `environment.getattr` / `getitem` on the value classes of the fragment: a record has its
fields, a list its elements, a string its characters; everything else is missing. -/
def Val.get : Val → Seg → Option Val
  | .record fs, .fld n => fs.lookup n
  | .record fs, .key n => fs.lookup n
  | .list xs, .idx i => xs[i]?
  | .str s, .idx i => (s[i]?).map fun c => .str [c]
  | _, _ => none

/-- result of walking a reference: a value, an `Undefined` object (the LAST step was
missing), or an immediate failure (a step was taken ON an undefined object — raises under
both policies). -/
inductive Res where
  | val (v : Val)
  | undef
  | broken
  deriving Repr

def Res.step : Res → Seg → Res
  | .val v, s => match v.get s with
    | some w => .val w
    | none => .undef
  | _, _ => .broken

def resolveFrom (r : Res) (segs : List Seg) : Res := segs.foldl Res.step r

def rootRes (ctx : Ctx) (x : Str) : Res :=
  match ctx.lookup x with
  | some v => .val v
  | none => .undef

def resolve (ctx : Ctx) (p : Path) : Res := resolveFrom (rootRes ctx p.root) p.segs

/-- the context defines the reference -/
def Defined (ctx : Ctx) (p : Path) : Prop := ∃ v, resolve ctx p = .val v

def definedB (ctx : Ctx) (p : Path) : Bool :=
  match resolve ctx p with
  | .val _ => true
  | _ => false

theorem definedB_iff (ctx : Ctx) (p : Path) : definedB ctx p = true ↔ Defined ctx p := by
  unfold definedB Defined
  cases h : resolve ctx p <;> simp

instance (ctx : Ctx) (p : Path) : Decidable (Defined ctx p) :=
  decidable_of_iff _ (definedB_iff ctx p)

/-! ### printing values (`str(value)` of Python on the fragment) -/

mutual
/-- `repr(value)` — exact for strings without quotes, backslashes and non-printable
characters (the generators' alphabet; the driver refuses other strings inside containers) -/
def Val.repr : Val → Str
  | .str s => '\'' :: s ++ ['\'']
  | .list xs => '[' :: reprList xs ++ [']']
  | .record fs => '{' :: reprFields fs ++ ['}']
def reprList : List Val → Str
  | [] => []
  | [v] => v.repr
  | v :: w :: r => v.repr ++ ", ".toList ++ reprList (w :: r)
def reprFields : List (Str × Val) → Str
  | [] => []
  | [(k, v)] => '\'' :: k ++ "': ".toList ++ v.repr
  | (k, v) :: w :: r => '\'' :: k ++ "': ".toList ++ v.repr ++ ", ".toList ++ reprFields (w :: r)
end

/-- `str(value)`: what `{{ x }}` prints -/
def Val.show : Val → Str
  | .str s => s
  | v => v.repr

/-- what `{% for v in x %}` iterates over: elements of a list, characters of a string, keys
of a record -/
def Val.items : Val → List Val
  | .list xs => xs
  | .str s => s.map fun c => .str [c]
  | .record fs => fs.map fun kv => .str kv.1

/-! ### templates -/

/-- text templates (`Environment`, delimiters `{{ }}` / `{% %}`) -/
inductive Tmpl where
  | lit (s : Str)
  | var (p : Path)                       -- `{{ p }}`
  | escVar (p : Path)                    -- `{{ p|escape }}`
  | seq (a b : Tmpl)
  | forJoin (v : Str) (p : Path) (body : Tmpl)   -- `{% for v in p %}body{% endfor %}`
  | ifEq (p : Path) (c : Str) (body : Tmpl)      -- `{% if p == 'c' %}body{% endif %}`
  deriving Repr

/-- a cell as Jinja reads it in the environment the wrapper selects -/
inductive Src where
  | text (t : Tmpl)
  | nat (padL : Str) (p : Path) (padR : Str)     -- `{@ p @}`: returns the VALUE
  | nat2 (p q : Path)                            -- `{@p@}{@q@}`: rejected by the wrapper
  deriving Repr

inductive Err where
  | undefined (p : Path)     -- jinja2.UndefinedError
  | filterType (p : Path)    -- `|escape` applied to a non-string (AttributeError: no `replace`)
  | nestedNative             -- 'Cell may not contain nested "{@" templates.'
  deriving DecidableEq, Repr

deriving instance DecidableEq for Except

/-- what the caller gets: text, a native Python value, or — silently — an `Undefined` object -/
inductive Out where
  | text (s : Str)
  | value (v : Val)
  | undefinedObject
  deriving Repr

/-- `"".join(f(e) for e in xs)`, stopping at the first error -/
def joinM (f : Val → Except Err Str) : List Val → Except Err Str
  | [] => .ok []
  | e :: es =>
    match f e with
    | .error x => .error x
    | .ok a =>
      match joinM f es with
      | .error x => .error x
      | .ok b => .ok (a ++ b)

/-- Jinja's evaluation of a text template under an `undefined` policy. -/
def renderT (pol : Policy) : Ctx → Tmpl → Except Err Str
  | _, .lit s => .ok s
  | ctx, .var p =>
    match resolve ctx p, pol with
    | .val v, _ => .ok v.show
    | .undef, .lenient => .ok []            -- `str(Undefined)` = ""
    | _, _ => .error (.undefined p)
  | ctx, .escVar p =>
    match resolve ctx p with
    | .val (.str s) => .ok (escapeString s)
    | .val _ => .error (.filterType p)
    | _ => .error (.undefined p)            -- `Undefined.replace` raises under both policies
  | ctx, .seq a b =>
    match renderT pol ctx a with
    | .error x => .error x
    | .ok x =>
      match renderT pol ctx b with
      | .error y => .error y
      | .ok y => .ok (x ++ y)
  | ctx, .forJoin v p body =>
    match resolve ctx p, pol with
    | .val xs, _ => joinM (fun e => renderT pol ((v, e) :: ctx) body) xs.items
    | .undef, .lenient => .ok []            -- iterating `Undefined` yields nothing
    | _, _ => .error (.undefined p)
  | ctx, .ifEq p c body =>
    match resolve ctx p, pol with
    | .val (.str s), _ => if s = c then renderT pol ctx body else .ok []
    | .val _, _ => .ok []
    | .undef, .lenient => .ok []            -- `Undefined == 'c'` is False
    | _, _ => .error (.undefined p)

/-- the three ingredients of the repo's configuration (T1: `Gen.jinjaPolicy`,
`Gen.jinjaNativePolicy`, `Gen.nativeUndefinedCheck`) -/
structure Conf where
  textPol : Policy
  natPol : Policy
  natCheck : Bool
  deriving DecidableEq, Repr

def Conf.repo : Conf := ⟨.strict, .strict, true⟩
/-- the configuration before the fix (Jinja defaults, no check) -/
def Conf.defaults : Conf := ⟨.lenient, .lenient, false⟩

/-- `env.from_string(stripped).render(context)` followed by the
`isinstance(result, Undefined)` check of `parse_as_string`. -/
def renderSrc (cf : Conf) (ctx : Ctx) : Src → Except Err Out
  | .text t =>
    match renderT cf.textPol ctx t with
    | .ok s => .ok (.text s)
    | .error e => .error e
  | .nat _ p _ =>
    match resolve ctx p with
    | .val v => .ok (.value v)
    | .undef =>
      -- the native environment hands back the undefined object itself; only
      -- `str(StrictUndefined)` raises
      if cf.natPol = .strict ∧ cf.natCheck = true then .error (.undefined p)
      else .ok .undefinedObject
    | .broken => .error (.undefined p)
  | .nat2 _ _ => .error .nestedNative

/-! ### references -/

/-- every reference written in the template -/
def refs : Tmpl → List Path
  | .lit _ => []
  | .var p => [p]
  | .escVar p => [p]
  | .seq a b => refs a ++ refs b
  | .forJoin _ p body => p :: refs body
  | .ifEq p _ body => p :: refs body

def Src.refs : Src → List Path
  | .text t => Template.refs t
  | .nat _ p _ => [p]
  | .nat2 p q => [p, q]

/-- how a reference is used -/
inductive Use where
  | print | esc | iter | cmp
  deriving DecidableEq, Repr

/-- `Reached ctx t c p k`: evaluating `t` in `ctx` evaluates the reference `p` in the
(possibly extended) context `c`, using it as `k`.  References inside an `if` whose condition
is false, or inside a `for` over nothing, are not reached. -/
inductive Reached : Ctx → Tmpl → Ctx → Path → Use → Prop where
  | var {ctx p} : Reached ctx (.var p) ctx p .print
  | esc {ctx p} : Reached ctx (.escVar p) ctx p .esc
  | seqL {ctx a b c p k} : Reached ctx a c p k → Reached ctx (.seq a b) c p k
  | seqR {ctx a b c p k} : Reached ctx b c p k → Reached ctx (.seq a b) c p k
  | forHead {ctx v p body} : Reached ctx (.forJoin v p body) ctx p .iter
  | forBody {ctx v p body xs e c q k} :
      resolve ctx p = .val xs → e ∈ xs.items → Reached ((v, e) :: ctx) body c q k →
      Reached ctx (.forJoin v p body) c q k
  | ifHead {ctx p s body} : Reached ctx (.ifEq p s body) ctx p .cmp
  | ifBody {ctx p s body c q k} :
      resolve ctx p = .val (.str s) → Reached ctx body c q k →
      Reached ctx (.ifEq p s body) c q k

/-- the reference can be used this way: it is defined, and `|escape` gets a string -/
def Usable (c : Ctx) (p : Path) (k : Use) : Prop :=
  ∃ v, resolve c p = .val v ∧ (k = .esc → ∃ s, v = .str s)

/-- the template with every reference replaced by its value — no policy involved -/
def subst : Ctx → Tmpl → Str
  | _, .lit s => s
  | ctx, .var p =>
    match resolve ctx p with
    | .val v => v.show
    | _ => []
  | ctx, .escVar p =>
    match resolve ctx p with
    | .val (.str s) => escapeString s
    | _ => []
  | ctx, .seq a b => subst ctx a ++ subst ctx b
  | ctx, .forJoin v p body =>
    match resolve ctx p with
    | .val xs => xs.items.flatMap fun e => subst ((v, e) :: ctx) body
    | _ => []
  | ctx, .ifEq p c body =>
    match resolve ctx p with
    | .val (.str s) => if s = c then subst ctx body else []
    | _ => []

/-! ### concrete syntax (what the generators write into the cell) -/

/-- delimiters and literals (T1: `Props.C16.tables_agree` ties them to the source) -/
def varStart : Str := "{{".toList
def varEnd : Str := "}}".toList
def natStart : Str := "{@".toList
def natEnd : Str := "@}".toList
def blockStart : Str := "{%".toList
def blockEnd : Str := "%}".toList
def escapeFilter : Str := "escape".toList
def shortcutChar : Char := '{'
def nestedOffset : Nat := 2

def Seg.show : Seg → Str
  | .fld n => '.' :: n
  | .key n => "['".toList ++ n ++ "']".toList
  | .idx i => '[' :: (Nat.repr i).toList ++ [']']

def Path.show (p : Path) : Str := p.root ++ p.segs.flatMap Seg.show

def Tmpl.show : Tmpl → Str
  | .lit s => s
  | .var p => varStart ++ p.show ++ varEnd
  | .escVar p => varStart ++ p.show ++ '|' :: escapeFilter ++ varEnd
  | .seq a b => a.show ++ b.show
  | .forJoin v p body =>
    blockStart ++ " for ".toList ++ v ++ " in ".toList ++ p.show ++ ' ' :: blockEnd ++ body.show ++
      blockStart ++ " endfor ".toList ++ blockEnd
  | .ifEq p c body =>
    blockStart ++ " if ".toList ++ p.show ++ " == '".toList ++ c ++ "' ".toList ++ blockEnd ++ body.show ++
      blockStart ++ " endif ".toList ++ blockEnd

def Src.show : Src → Str
  | .text t => t.show
  | .nat l p r => natStart ++ l ++ p.show ++ r ++ natEnd
  | .nat2 p q => natStart ++ p.show ++ natEnd ++ natStart ++ q.show ++ natEnd

/-! ### the wrapper: `parse_as_string` and `parse` -/

/-- `pat in s` -/
def containsSub (pat : Str) : Str → Bool
  | [] => pat.isEmpty
  | c :: s => pat.isPrefixOf (c :: s) || containsSub pat s

/-- the wrapper selects the native environment -/
def isNativeCell (stripped : Str) : Bool :=
  natStart.isPrefixOf stripped && natEnd.isSuffixOf stripped

/-- `parse_as_string(value, context)` (for `value` not `None`).  `ctx? = none` is
`context=None`, i.e. `omit_templating`.  `ast` is Jinja's reading of the stripped text in the
selected environment (the driver checks `ast.show = strip value`). -/
def parseAsString (cf : Conf) (ctx? : Option Ctx) (value : Str) (ast : Src) : Except Err Out :=
  let stripped := strip pyWs value
  match ctx? with
  | none => .ok (.text stripped)
  | some ctx =>
    if ctx.isEmpty && !stripped.contains shortcutChar then .ok (.text stripped)
    else if isNativeCell stripped then
      if containsSub natStart (stripped.drop nestedOffset) then .error .nestedNative
      else renderSrc cf ctx ast
    else renderSrc cf ctx ast

/-- result of `parse`: a split cell, or the native object unprocessed -/
inductive Parsed where
  | cell (c : Cell)
  | value (v : Val)
  | undefinedObject
  deriving Repr

/-- `parse(value, context)`: text results go through `split_into_lists`, native objects are
returned as they are. -/
def parse (cf : Conf) (ctx? : Option Ctx) (value : Str) (ast : Src) : Except Err Parsed :=
  match parseAsString cf ctx? value ast with
  | .error e => .error e
  | .ok (.text s) => .ok (.cell (splitIntoLists pyWs s))
  | .ok (.value v) => .ok (.value v)
  | .ok .undefinedObject => .ok .undefinedObject

/-! ### rows: `SheetParser.parse_next_row(omit_templating)` -/

/-- a row = its cells (raw text with Jinja's reading); `omitT = true` passes `context=None` -/
def parseRow (cf : Conf) (omitT : Bool) (ctx : Ctx) (cells : List (Str × Src)) :
    List (Except Err Out) :=
  cells.map fun c => parseAsString cf (if omitT then none else some ctx) c.1 c.2

end Rpft.Template
