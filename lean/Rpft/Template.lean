/-
M8 — model of the cell templating step
(`rpft.parsers.common.cellparser.CellParser.parse_as_string` / `parse`, cellparser.py 91-139;
the `omit_templating` path of `SheetParser.parse_next_row`, sheetparser.py 41-49).

A mini template language that the harness generators emit in Jinja syntax (`Tmpl.show`),
its evaluation under the `undefined` policies of Jinja (`strict` = the repo's subclass of
`StrictUndefined` whose `repr()` fails too; `strictShallow` = plain `StrictUndefined`, what the
repo configured before the fix of F-C16-c: `str()` fails, `repr()` does not; `lenient` = Jinja's
default `Undefined`, what it configured before the fix of F-C16-a), and the wrapper around it
(strip, the `context is None` / no-`{` shortcut, native `{@ … @}` detection, the nested-`{@`
check, the search of the native result for an `Undefined` object — at top level only before
the fix of F-C16-c, through nested lists / tuples / dicts after it).

Expressions (`Expr`): references, `p|default('d')`, and list / tuple / dict literals and
`dict(k=…)` calls over them, nested to any depth; printed by `{{ e }}`, concatenated by
`{{ e ~ f }}`, returned by `{@ e @}`.  An undefined reference stored in a container is an
`Undefined` OBJECT inside the Python value (`PVal.undef`): nothing fails until it is printed
(`repr`) or found by the wrapper's search.  Dict literals of the fragment have distinct keys
(the driver refuses others: Python keeps the last value of a repeated key).

Jinja itself (lexer/parser/evaluator on this fragment) is modelled, not verified: the tie of
C16 compares `render` with the real environments on every generated case.  Core Lean only.
-/
import Rpft.Cell
namespace Rpft.Template
open Rpft Rpft.Cell

/-- what an undefined reference does: `strict` = the repo's `StrictUndefined` subclass (`str()`
AND `repr()` raise), `strictShallow` = `jinja2.StrictUndefined` (`str()` raises, `repr()` is
`'Undefined'`), `lenient` = `jinja2.Undefined` (the default) -/
inductive Policy where
  | strict | strictShallow | lenient
  deriving DecidableEq, Repr

/-- context values: strings, lists, records (dicts / row models) -/
inductive Val where
  | str (s : Str)
  | list (xs : List Val)
  | record (fs : List (Str × Val))
  deriving Repr

abbrev Ctx := List (Str × Val)

/-- one step of a reference: `.name`, `['name']`, or `[i]` -/
inductive Seg where
  | fld (n : Str)      -- `.n`
  | key (n : Str)      -- `['n']`
  | idx (i : Nat)      -- `[i]`
  deriving DecidableEq, Repr

/-- a reference: root name and attribute / item steps (`row.items[2].name`) -/
structure Path where
  root : Str
  segs : List Seg
  deriving DecidableEq, Repr

/-- `environment.getattr` / `getitem` on the value classes of the fragment: a record has its
fields, a list its elements, a string its characters; everything else is missing. -/
def Val.get : Val → Seg → Option Val
  | .record fs, .fld n => fs.lookup n
  | .record fs, .key n => fs.lookup n
  | .list xs, .idx i => xs[i]?
  | .str s, .idx i => (s[i]?).map fun c => .str [c]
  | _, _ => none

/-- result of walking a reference: a value, an `Undefined` object (the LAST step was
missing), or an immediate failure (a step was taken ON an undefined object — raises under
both policies). -/
inductive Res where
  | val (v : Val)
  | undef
  | broken
  deriving Repr

def Res.step : Res → Seg → Res
  | .val v, s => match v.get s with
    | some w => .val w
    | none => .undef
  | _, _ => .broken

def resolveFrom (r : Res) (segs : List Seg) : Res := segs.foldl Res.step r

def rootRes (ctx : Ctx) (x : Str) : Res :=
  match ctx.lookup x with
  | some v => .val v
  | none => .undef

def resolve (ctx : Ctx) (p : Path) : Res := resolveFrom (rootRes ctx p.root) p.segs

/-- the context defines the reference -/
def Defined (ctx : Ctx) (p : Path) : Prop := ∃ v, resolve ctx p = .val v

def definedB (ctx : Ctx) (p : Path) : Bool :=
  match resolve ctx p with
  | .val _ => true
  | _ => false

theorem definedB_iff (ctx : Ctx) (p : Path) : definedB ctx p = true ↔ Defined ctx p := by
  unfold definedB Defined
  cases h : resolve ctx p <;> simp

instance (ctx : Ctx) (p : Path) : Decidable (Defined ctx p) :=
  decidable_of_iff _ (definedB_iff ctx p)

/-! ### printing values (`str(value)` of Python on the fragment) -/

mutual
/-- `repr(value)` — exact for strings without quotes, backslashes and non-printable
characters (the generators' alphabet; the driver refuses other strings inside containers) -/
def Val.repr : Val → Str
  | .str s => '\'' :: s ++ ['\'']
  | .list xs => '[' :: reprList xs ++ [']']
  | .record fs => '{' :: reprFields fs ++ ['}']
def reprList : List Val → Str
  | [] => []
  | [v] => v.repr
  | v :: w :: r => v.repr ++ ", ".toList ++ reprList (w :: r)
def reprFields : List (Str × Val) → Str
  | [] => []
  | [(k, v)] => '\'' :: k ++ "': ".toList ++ v.repr
  | (k, v) :: w :: r => '\'' :: k ++ "': ".toList ++ v.repr ++ ", ".toList ++ reprFields (w :: r)
end

/-- `str(value)`: what `{{ x }}` prints -/
def Val.show : Val → Str
  | .str s => s
  | v => v.repr

/-- what `{% for v in x %}` iterates over: elements of a list, characters of a string, keys
of a record -/
def Val.items : Val → List Val
  | .list xs => xs
  | .str s => s.map fun c => .str [c]
  | .record fs => fs.map fun kv => .str kv.1


inductive Err where
  | undefined (p : Path)     -- jinja2.UndefinedError
  | filterType (p : Path)    -- `|escape` applied to a non-string (AttributeError: no `replace`)
  | nestedNative             -- 'Cell may not contain nested "{@" templates.'
  | noElement                -- a consumer made an `Undefined` of its own: `[]|first`, `[a][5]`, `{'k': a}[0]`
  | badOperand               -- a consumer applied to a number (`TypeError`)
  deriving DecidableEq, Repr

deriving instance DecidableEq for Except

/-! ### expressions: references inside list / tuple / dict literals -/

inductive CKind where
  | list | tuple | dict | dictCall
  deriving DecidableEq, Repr

/-- expressions of the fragment.  `coll k items`: `[e, …]`, `(e, …)`, `{'k': e, …}`,
`dict(k=e, …)`; the keys are used by the two dict forms only. -/
inductive Expr where
  | ref (p : Path)
  | dflt (x : Str) (d : Str)                        -- `x|default('d')` (a bare name)
  | coll (k : CKind) (items : List (Str × Expr))
  deriving Repr

/-- Python values an expression evaluates to: a context value, an `Undefined` OBJECT (made,
not yet used), or a fresh container of such -/
inductive PVal where
  | val (v : Val)
  | undef (p : Path)
  | coll (k : CKind) (items : List (Str × PVal))
  | num (n : Nat)                                    -- what `|length` returns
  deriving Repr

/-- the Python type a literal builds (`dict(…)` builds a dict) -/
def CKind.norm : CKind → CKind
  | .dictCall => .dict
  | k => k

mutual
/-- evaluation of an expression: nothing fails here except a step taken ON an undefined object
(`nope.x`); an undefined name is an object, the `default` filter replaces exactly that object -/
def evalE (ctx : Ctx) : Expr → Except Err PVal
  | .ref p =>
    match resolve ctx p with
    | .val v => .ok (.val v)
    | .undef => .ok (.undef p)
    | .broken => .error (.undefined p)
  | .dflt x d =>
    match ctx.lookup x with
    | some v => .ok (.val v)
    | none => .ok (.val (.str d))
  | .coll k items =>
    match evalItems ctx items with
    | .ok pvs => .ok (.coll k.norm pvs)
    | .error x => .error x
def evalItems (ctx : Ctx) : List (Str × Expr) → Except Err (List (Str × PVal))
  | [] => .ok []
  | (k, e) :: rest =>
    match evalE ctx e with
    | .error x => .error x
    | .ok pv =>
      match evalItems ctx rest with
      | .error x => .error x
      | .ok pvs => .ok ((k, pv) :: pvs)
end

def sepStr : Str := ", ".toList
/-- `repr()` of Jinja's `Undefined` / `StrictUndefined` -/
def undefinedWord : Str := "Undefined".toList

/-- one element of a printed container -/
def itemRepr (k : CKind) (key body : Str) : Str :=
  match k with
  | .dict | .dictCall => '\'' :: key ++ "': ".toList ++ body
  | _ => body

/-- brackets of a printed container (a one-element tuple has its comma) -/
def wrapRepr (k : CKind) (n : Nat) (body : Str) : Str :=
  match k with
  | .list => '[' :: body ++ [']']
  | .tuple => if n = 1 then '(' :: body ++ ",)".toList else '(' :: body ++ [')']
  | _ => '{' :: body ++ ['}']

mutual
/-- `repr(value)` under a policy: the `Undefined` object inside a container raises (`strict`)
or prints as the word `Undefined` (`strictShallow`, `lenient`) -/
def PVal.repr (pol : Policy) : PVal → Except Err Str
  | .val v => .ok v.repr
  | .undef p => if pol = .strict then .error (.undefined p) else .ok undefinedWord
  | .num n => .ok (Nat.repr n).toList
  | .coll k items =>
    match reprItems pol k items with
    | .ok s => .ok (wrapRepr k items.length s)
    | .error x => .error x
def reprItems (pol : Policy) (k : CKind) : List (Str × PVal) → Except Err Str
  | [] => .ok []
  | (key, pv) :: rest =>
    match PVal.repr pol pv with
    | .error x => .error x
    | .ok s =>
      match reprItems pol k rest with
      | .error x => .error x
      | .ok r => .ok (itemRepr k key s ++ (if rest.isEmpty then [] else sepStr ++ r))
end

mutual
/-- the same print without a policy (the word `Undefined` for the object) -/
def PVal.reprL : PVal → Str
  | .val v => v.repr
  | .undef _ => undefinedWord
  | .num n => (Nat.repr n).toList
  | .coll k items => wrapRepr k items.length (reprItemsL k items)
def reprItemsL (k : CKind) : List (Str × PVal) → Str
  | [] => []
  | (key, pv) :: rest => itemRepr k key pv.reprL ++ (if rest.isEmpty then [] else sepStr ++ reprItemsL k rest)
end

/-- `str(value)`: what `{{ e }}` prints, what `~` concatenates -/
def PVal.str (pol : Policy) : PVal → Except Err Str
  | .val v => .ok v.show
  | .undef p => if pol = .lenient then .ok [] else .error (.undefined p)
  | pv => pv.repr pol

def PVal.strL : PVal → Str
  | .val v => v.show
  | .undef _ => []
  | pv => pv.reprL

mutual
/-- the wrapper's search of a native result: the first `Undefined` object, through nested
lists / tuples / dict values -/
def PVal.findUndef : PVal → Option Path
  | .val _ => none
  | .undef p => some p
  | .num _ => none
  | .coll _ items => findUndefItems items
def findUndefItems : List (Str × PVal) → Option Path
  | [] => none
  | (_, pv) :: rest =>
    match pv.findUndef with
    | some p => some p
    | none => findUndefItems rest
end

/-- the search before the fix of F-C16-c: the result itself only -/
def PVal.topUndef : PVal → Option Path
  | .undef p => some p
  | _ => none

/-- `p` is written in `e` in a position whose value is kept (not consumed by `default`) -/
inductive Stored : Expr → Path → Prop where
  | ref {p} : Stored (.ref p) p
  | coll {k items kv p} : kv ∈ items → Stored kv.2 p → Stored (.coll k items) p

/-- the value holds the `Undefined` object made for `p` -/
inductive PVal.Holds : PVal → Path → Prop where
  | undef {p} : PVal.Holds (.undef p) p
  | coll {k items kv p} : kv ∈ items → PVal.Holds kv.2 p → PVal.Holds (.coll k items) p


/-! ### consumers: `|length`, `|first`, `|last`, `e[i]`, `|join('sep')` over container expressions

What Jinja + the repo's `ReportingUndefined` do (probed on the real `CellParser`, tied on every
generated case): evaluation makes `Undefined` OBJECTS and stores them; `|length` COUNTS them
(`{{ [nope]|length }}` = `1`), `|first` / `|last` / `[i]` SELECT one element (selecting the
undefined object and printing it fails — it is used; selecting a defined neighbour does not:
`{{ [a, nope]|first }}` = `A`), `|join` calls `str()` on EVERY element (fails as soon as one
element is or holds an undefined object); a consumer applied to the undefined object itself
(`nope|length`) fails at once.  A dict is consumed through its KEYS (`{'k': nope}|first` = `k`).
Only the repo's policy (`strict`) is modelled for the consumers.

Outside the fragment (eager errors here, lazily made `Undefined` objects in Jinja — the driver
reports them, the generators stay away): `first` / `last` of an empty sequence, an index out of
range or into a dict (`noElement`); a consumer applied to a number (`badOperand`). -/

inductive CExpr where
  | ref (p : Path)
  | dflt (x : Str) (d : Str)
  | coll (k : CKind) (items : List (Str × CExpr))
  | len (e : CExpr)                  -- `e|length`
  | first (e : CExpr)                -- `e|first`
  | last (e : CExpr)                 -- `e|last`
  | index (e : CExpr) (i : Nat)      -- `e[i]`
  | join (sep : Str) (e : CExpr)     -- `e|join('sep')`
  deriving Repr

mutual
/-- the consumer-free fragment sits inside -/
def Expr.toC : Expr → CExpr
  | .ref p => .ref p
  | .dflt x d => .dflt x d
  | .coll k items => .coll k (itemsToC items)
def itemsToC : List (Str × Expr) → List (Str × CExpr)
  | [] => []
  | (k, e) :: rest => (k, e.toC) :: itemsToC rest
end

def PVal.isDict : PVal → Bool
  | .val (.record _) => true
  | .coll .dict _ => true
  | .coll .dictCall _ => true
  | _ => false

/-- `iter(value)`: the sequence a consumer sees -/
def PVal.elems : PVal → Except Err (List PVal)
  | .val (.str s) => .ok (s.map fun c => .val (.str [c]))
  | .val (.list xs) => .ok (xs.map .val)
  | .val (.record fs) => .ok (fs.map fun kv => .val (.str kv.1))
  | .undef p => .error (.undefined p)
  | .num _ => .error .badOperand
  | .coll k items =>
    match k with
    | .dict | .dictCall => .ok (items.map fun kv => .val (.str kv.1))
    | _ => .ok (items.map Prod.snd)

def PVal.len (pv : PVal) : Except Err PVal :=
  match pv.elems with
  | .error x => .error x
  | .ok xs => .ok (.num xs.length)

def PVal.first (pv : PVal) : Except Err PVal :=
  match pv.elems with
  | .error x => .error x
  | .ok xs => match xs.head? with
    | some x => .ok x
    | none => .error .noElement

def PVal.last (pv : PVal) : Except Err PVal :=
  match pv.elems with
  | .error x => .error x
  | .ok xs => match xs.getLast? with
    | some x => .ok x
    | none => .error .noElement

def PVal.index (pv : PVal) (i : Nat) : Except Err PVal :=
  match pv.elems with
  | .error x => .error x
  | .ok xs => if pv.isDict then .error .noElement else
    match xs[i]? with
    | some x => .ok x
    | none => .error .noElement

/-- `sep.join(str(x) for x in xs)`, stopping at the first `str()` that fails -/
def joinStrs (sep : Str) : List PVal → Except Err Str
  | [] => .ok []
  | x :: rest =>
    match x.str .strict with
    | .error e => .error e
    | .ok s =>
      match joinStrs sep rest with
      | .error e => .error e
      | .ok r => .ok (s ++ (if rest.isEmpty then [] else sep ++ r))

def PVal.join (sep : Str) (pv : PVal) : Except Err PVal :=
  match pv.elems with
  | .error x => .error x
  | .ok xs => match joinStrs sep xs with
    | .error x => .error x
    | .ok s => .ok (.val (.str s))

mutual
def evalC (ctx : Ctx) : CExpr → Except Err PVal
  | .ref p =>
    match resolve ctx p with
    | .val v => .ok (.val v)
    | .undef => .ok (.undef p)
    | .broken => .error (.undefined p)
  | .dflt x d =>
    match ctx.lookup x with
    | some v => .ok (.val v)
    | none => .ok (.val (.str d))
  | .coll k items =>
    match evalCItems ctx items with
    | .ok pvs => .ok (.coll k.norm pvs)
    | .error x => .error x
  | .len e => match evalC ctx e with
    | .error x => .error x
    | .ok pv => pv.len
  | .first e => match evalC ctx e with
    | .error x => .error x
    | .ok pv => pv.first
  | .last e => match evalC ctx e with
    | .error x => .error x
    | .ok pv => pv.last
  | .index e i => match evalC ctx e with
    | .error x => .error x
    | .ok pv => pv.index i
  | .join sep e => match evalC ctx e with
    | .error x => .error x
    | .ok pv => pv.join sep
def evalCItems (ctx : Ctx) : List (Str × CExpr) → Except Err (List (Str × PVal))
  | [] => .ok []
  | (k, e) :: rest =>
    match evalC ctx e with
    | .error x => .error x
    | .ok pv =>
      match evalCItems ctx rest with
      | .error x => .error x
      | .ok pvs => .ok ((k, pv) :: pvs)
end

/-- `{{ e }}` / `{{ e ~ f }}` over consumer expressions: both operands are evaluated, then
`str()` of each, left to right -/
def renderC (pol : Policy) (ctx : Ctx) (e : CExpr) : Option CExpr → Except Err Str
  | none =>
    match evalC ctx e with
    | .error x => .error x
    | .ok pv => pv.str pol
  | some f =>
    match evalC ctx e with
    | .error x => .error x
    | .ok a =>
      match evalC ctx f with
      | .error x => .error x
      | .ok b =>
        match a.str pol with
        | .error x => .error x
        | .ok x =>
          match b.str pol with
          | .error y => .error y
          | .ok y => .ok (x ++ y)

mutual
/-- references written bare (not under `|default`) -/
def CExpr.bareRefs : CExpr → List Path
  | .ref p => [p]
  | .dflt _ _ => []
  | .coll _ items => bareRefsItems items
  | .len e => e.bareRefs
  | .first e => e.bareRefs
  | .last e => e.bareRefs
  | .index e _ => e.bareRefs
  | .join _ e => e.bareRefs
def bareRefsItems : List (Str × CExpr) → List Path
  | [] => []
  | (_, e) :: rest => e.bareRefs ++ bareRefsItems rest
end

/-- the expression NAMES an undefined reference -/
def NamesUndef (ctx : Ctx) (e : CExpr) : Bool := e.bareRefs.any fun p => !definedB ctx p

/-- **`UsedUndef ctx e`**: an undefined reference of `e` is USED — a consumer (or a further
step) is applied to the undefined object itself, `|join` prints it, or the value that `e` hands
to the printer / the caller still holds it.  `NamesUndef ctx e ∧ ¬ UsedUndef ctx e` is the
trigger of F-C16-d: every undefined object was counted, dropped or selected away. -/
def UsedUndef (ctx : Ctx) (e : CExpr) : Bool :=
  match evalC ctx e with
  | .error (.undefined _) => true
  | .error _ => false
  | .ok pv => pv.findUndef.isSome

/-- a consumer left the fragment (`noElement` / `badOperand`) -/
def OffFragment (ctx : Ctx) (e : CExpr) : Bool :=
  match evalC ctx e with
  | .error (.undefined _) => false
  | .error _ => true
  | .ok _ => false

/-! ### templates -/

/-- text templates (`Environment`, delimiters `{{ }}` / `{% %}`) -/
inductive Tmpl where
  | lit (s : Str)
  | var (p : Path)                       -- `{{ p }}`
  | escVar (p : Path)                    -- `{{ p|escape }}`
  | seq (a b : Tmpl)
  | forJoin (v : Str) (p : Path) (body : Tmpl)   -- `{% for v in p %}body{% endfor %}`
  | ifEq (p : Path) (c : Str) (body : Tmpl)      -- `{% if p == 'c' %}body{% endif %}`
  | expr (e : Expr) (cat : Option Expr)          -- `{{ e }}` / `{{ e ~ f }}`
  deriving Repr

/-- a cell as Jinja reads it in the environment the wrapper selects -/
inductive Src where
  | text (t : Tmpl)
  | nat (padL : Str) (p : Path) (padR : Str)     -- `{@ p @}`: returns the VALUE
  | nat2 (p q : Path)                            -- `{@p@}{@q@}`: rejected by the wrapper
  | natE (padL : Str) (e : Expr) (padR : Str)    -- `{@ e @}`: returns the Python value
  | textC (e : CExpr) (cat : Option CExpr)       -- `{{ e }}` / `{{ e ~ f }}` with consumers
  | natC (padL : Str) (e : CExpr) (padR : Str)   -- `{@ e @}` with consumers
  deriving Repr

/-- what the caller gets: text, a native Python value, or — silently — an `Undefined` object -/
inductive Out where
  | text (s : Str)
  | value (v : Val)
  | undefinedObject
  | pvalue (v : PVal)          -- a native value built by the template (no `Undefined` inside)
  | holdsUndefined             -- silently: a container with an `Undefined` object inside
  deriving Repr

/-- `"".join(f(e) for e in xs)`, stopping at the first error -/
def joinM (f : Val → Except Err Str) : List Val → Except Err Str
  | [] => .ok []
  | e :: es =>
    match f e with
    | .error x => .error x
    | .ok a =>
      match joinM f es with
      | .error x => .error x
      | .ok b => .ok (a ++ b)

/-- Jinja's evaluation of a text template under an `undefined` policy. -/
def renderT (pol : Policy) : Ctx → Tmpl → Except Err Str
  | _, .lit s => .ok s
  | ctx, .var p =>
    match resolve ctx p, pol with
    | .val v, _ => .ok v.show
    | .undef, .lenient => .ok []            -- `str(Undefined)` = ""
    | _, _ => .error (.undefined p)
  | ctx, .escVar p =>
    match resolve ctx p with
    | .val (.str s) => .ok (escapeString s)
    | .val _ => .error (.filterType p)
    | _ => .error (.undefined p)            -- `Undefined.replace` raises under both policies
  | ctx, .seq a b =>
    match renderT pol ctx a with
    | .error x => .error x
    | .ok x =>
      match renderT pol ctx b with
      | .error y => .error y
      | .ok y => .ok (x ++ y)
  | ctx, .forJoin v p body =>
    match resolve ctx p, pol with
    | .val xs, _ => joinM (fun e => renderT pol ((v, e) :: ctx) body) xs.items
    | .undef, .lenient => .ok []            -- iterating `Undefined` yields nothing
    | _, _ => .error (.undefined p)
  | ctx, .ifEq p c body =>
    match resolve ctx p, pol with
    | .val (.str s), _ => if s = c then renderT pol ctx body else .ok []
    | .val _, _ => .ok []
    | .undef, .lenient => .ok []            -- `Undefined == 'c'` is False
    | _, _ => .error (.undefined p)
  | ctx, .expr e none =>
    match evalE ctx e with
    | .error x => .error x
    | .ok pv => pv.str pol
  | ctx, .expr e (some f) =>
    -- both operands are evaluated, then `str()` of each, left to right
    match evalE ctx e with
    | .error x => .error x
    | .ok a =>
      match evalE ctx f with
      | .error x => .error x
      | .ok b =>
        match a.str pol with
        | .error x => .error x
        | .ok x =>
          match b.str pol with
          | .error y => .error y
          | .ok y => .ok (x ++ y)

/-- the ingredients of the repo's configuration (T1: `Gen.jinjaPolicy`,
`Gen.jinjaNativePolicy`, `Gen.nativeUndefinedCheck`) -/
structure Conf where
  textPol : Policy
  natPol : Policy
  natCheck : Bool
  /-- the check of the native result looks inside lists / tuples / dicts
  (T1: `Gen.nativeUndefinedDeepCheck`) -/
  natDeep : Bool
  deriving DecidableEq, Repr

def Conf.repo : Conf := ⟨.strict, .strict, true, true⟩
/-- the configuration before the fix of F-C16-c (plain `StrictUndefined`, top-level check) -/
def Conf.shallow : Conf := ⟨.strictShallow, .strictShallow, true, false⟩
/-- the configuration before the fix of F-C16-a (Jinja defaults, no check) -/
def Conf.defaults : Conf := ⟨.lenient, .lenient, false, false⟩

/-- what the wrapper's check of a native result finds -/
def Conf.search (cf : Conf) (pv : PVal) : Option Path :=
  if cf.natCheck then (if cf.natDeep then pv.findUndef else pv.topUndef) else none

/-- a native result as the caller sees it -/
def PVal.out (pv : PVal) : Out :=
  match pv with
  | .undef _ => .undefinedObject
  | _ => if pv.findUndef.isSome then .holdsUndefined else .pvalue pv

/-- `env.from_string(stripped).render(context)` followed by the
`isinstance(result, Undefined)` check of `parse_as_string`. -/
def renderSrc (cf : Conf) (ctx : Ctx) : Src → Except Err Out
  | .text t =>
    match renderT cf.textPol ctx t with
    | .ok s => .ok (.text s)
    | .error e => .error e
  | .nat _ p _ =>
    match resolve ctx p with
    | .val v => .ok (.value v)
    | .undef =>
      -- the native environment hands back the undefined object itself; only
      -- `str(StrictUndefined)` raises
      if cf.natPol ≠ .lenient ∧ cf.natCheck = true then .error (.undefined p)
      else .ok .undefinedObject
    | .broken => .error (.undefined p)
  | .nat2 _ _ => .error .nestedNative
  | .natE _ e _ =>
    match evalE ctx e with
    | .error x => .error x
    | .ok pv =>
      match cf.search pv with
      | some p =>
        -- `str(undefined)`: raises unless the environment is lenient
        if cf.natPol = .lenient then .ok pv.out else .error (.undefined p)
      | none => .ok pv.out
  | .textC e cat =>
    match renderC cf.textPol ctx e cat with
    | .ok s => .ok (.text s)
    | .error e => .error e
  | .natC _ e _ =>
    match evalC ctx e with
    | .error x => .error x
    | .ok pv =>
      match cf.search pv with
      | some p => if cf.natPol = .lenient then .ok pv.out else .error (.undefined p)
      | none => .ok pv.out

/-! ### references -/

mutual
def Expr.refs : Expr → List Path
  | .ref p => [p]
  | .dflt x _ => [⟨x, []⟩]
  | .coll _ items => itemsRefs items
def itemsRefs : List (Str × Expr) → List Path
  | [] => []
  | (_, e) :: rest => e.refs ++ itemsRefs rest
end

/-- every reference written in the template -/
def refs : Tmpl → List Path
  | .lit _ => []
  | .var p => [p]
  | .escVar p => [p]
  | .seq a b => refs a ++ refs b
  | .forJoin _ p body => p :: refs body
  | .ifEq p _ body => p :: refs body
  | .expr e none => e.refs
  | .expr e (some f) => e.refs ++ f.refs

def Src.refs : Src → List Path
  | .text t => Template.refs t
  | .nat _ p _ => [p]
  | .nat2 p q => [p, q]
  | .natE _ e _ => e.refs
  | .textC e none => e.bareRefs
  | .textC e (some f) => e.bareRefs ++ f.bareRefs
  | .natC _ e _ => e.bareRefs

/-- how a reference is used -/
inductive Use where
  | print | esc | iter | cmp | store
  deriving DecidableEq, Repr

/-- `Reached ctx t c p k`: evaluating `t` in `ctx` evaluates the reference `p` in the
(possibly extended) context `c`, using it as `k`.  References inside an `if` whose condition
is false, or inside a `for` over nothing, are not reached. -/
inductive Reached : Ctx → Tmpl → Ctx → Path → Use → Prop where
  | var {ctx p} : Reached ctx (.var p) ctx p .print
  | esc {ctx p} : Reached ctx (.escVar p) ctx p .esc
  | seqL {ctx a b c p k} : Reached ctx a c p k → Reached ctx (.seq a b) c p k
  | seqR {ctx a b c p k} : Reached ctx b c p k → Reached ctx (.seq a b) c p k
  | forHead {ctx v p body} : Reached ctx (.forJoin v p body) ctx p .iter
  | forBody {ctx v p body xs e c q k} :
      resolve ctx p = .val xs → e ∈ xs.items → Reached ((v, e) :: ctx) body c q k →
      Reached ctx (.forJoin v p body) c q k
  | ifHead {ctx p s body} : Reached ctx (.ifEq p s body) ctx p .cmp
  | ifBody {ctx p s body c q k} :
      resolve ctx p = .val (.str s) → Reached ctx body c q k →
      Reached ctx (.ifEq p s body) c q k
  | exprL {ctx e f p} : Stored e p → Reached ctx (.expr e f) ctx p .store
  | exprR {ctx e f p} : Stored f p → Reached ctx (.expr e (some f)) ctx p .store

/-- the reference can be used this way: it is defined, and `|escape` gets a string -/
def Usable (c : Ctx) (p : Path) (k : Use) : Prop :=
  ∃ v, resolve c p = .val v ∧ (k = .esc → ∃ s, v = .str s)

/-- the template with every reference replaced by its value — no policy involved -/
def subst : Ctx → Tmpl → Str
  | _, .lit s => s
  | ctx, .var p =>
    match resolve ctx p with
    | .val v => v.show
    | _ => []
  | ctx, .escVar p =>
    match resolve ctx p with
    | .val (.str s) => escapeString s
    | _ => []
  | ctx, .seq a b => subst ctx a ++ subst ctx b
  | ctx, .forJoin v p body =>
    match resolve ctx p with
    | .val xs => xs.items.flatMap fun e => subst ((v, e) :: ctx) body
    | _ => []
  | ctx, .ifEq p c body =>
    match resolve ctx p with
    | .val (.str s) => if s = c then subst ctx body else []
    | _ => []
  | ctx, .expr e none =>
    match evalE ctx e with
    | .ok pv => pv.strL
    | _ => []
  | ctx, .expr e (some f) =>
    match evalE ctx e, evalE ctx f with
    | .ok a, .ok b => a.strL ++ b.strL
    | _, _ => []

/-! ### concrete syntax (what the generators write into the cell) -/

/-- delimiters and literals (T1: `Props.C16.tables_agree` ties them to the source) -/
def varStart : Str := "{{".toList
def varEnd : Str := "}}".toList
def natStart : Str := "{@".toList
def natEnd : Str := "@}".toList
def blockStart : Str := "{%".toList
def blockEnd : Str := "%}".toList
def escapeFilter : Str := "escape".toList
def shortcutChar : Char := '{'
def nestedOffset : Nat := 2

def Seg.show : Seg → Str
  | .fld n => '.' :: n
  | .key n => "['".toList ++ n ++ "']".toList
  | .idx i => '[' :: (Nat.repr i).toList ++ [']']

def Path.show (p : Path) : Str := p.root ++ p.segs.flatMap Seg.show

def defaultFilter : Str := "default".toList

mutual
def Expr.show : Expr → Str
  | .ref p => p.show
  | .dflt x d => x ++ '|' :: defaultFilter ++ "('".toList ++ d ++ "')".toList
  | .coll .list items => '[' :: itemsShow .list items ++ [']']
  | .coll .tuple items =>
    if items.length = 1 then '(' :: itemsShow .tuple items ++ ",)".toList
    else '(' :: itemsShow .tuple items ++ [')']
  | .coll .dict items => '{' :: itemsShow .dict items ++ ['}']
  | .coll .dictCall items => "dict(".toList ++ itemsShow .dictCall items ++ [')']
def itemsShow (k : CKind) : List (Str × Expr) → Str
  | [] => []
  | (key, e) :: rest =>
    (match k with
      | .dict => '\'' :: key ++ "': ".toList ++ e.show
      | .dictCall => key ++ '=' :: e.show
      | _ => e.show) ++ (if rest.isEmpty then [] else sepStr ++ itemsShow k rest)
end

def lengthFilter : Str := "length".toList
def firstFilter : Str := "first".toList
def lastFilter : Str := "last".toList
def joinFilter : Str := "join".toList

/-- a filter application must be parenthesised before `[i]` -/
def CExpr.isFiltered : CExpr → Bool
  | .dflt _ _ | .len _ | .first _ | .last _ | .join _ _ => true
  | _ => false

mutual
def CExpr.show : CExpr → Str
  | .ref p => p.show
  | .dflt x d => x ++ '|' :: defaultFilter ++ "('".toList ++ d ++ "')".toList
  | .coll .list items => '[' :: citemsShow .list items ++ [']']
  | .coll .tuple items =>
    if items.length = 1 then '(' :: citemsShow .tuple items ++ ",)".toList
    else '(' :: citemsShow .tuple items ++ [')']
  | .coll .dict items => '{' :: citemsShow .dict items ++ ['}']
  | .coll .dictCall items => "dict(".toList ++ citemsShow .dictCall items ++ [')']
  | .len e => e.show ++ '|' :: lengthFilter
  | .first e => e.show ++ '|' :: firstFilter
  | .last e => e.show ++ '|' :: lastFilter
  | .index e i =>
    (if e.isFiltered then '(' :: e.show ++ [')'] else e.show) ++ '[' :: (Nat.repr i).toList ++ [']']
  | .join sep e => e.show ++ '|' :: joinFilter ++ "('".toList ++ sep ++ "')".toList
def citemsShow (k : CKind) : List (Str × CExpr) → Str
  | [] => []
  | (key, e) :: rest =>
    (match k with
      | .dict => '\'' :: key ++ "': ".toList ++ e.show
      | .dictCall => key ++ '=' :: e.show
      | _ => e.show) ++ (if rest.isEmpty then [] else sepStr ++ citemsShow k rest)
end

def Tmpl.show : Tmpl → Str
  | .lit s => s
  | .var p => varStart ++ p.show ++ varEnd
  | .escVar p => varStart ++ p.show ++ '|' :: escapeFilter ++ varEnd
  | .seq a b => a.show ++ b.show
  | .forJoin v p body =>
    blockStart ++ " for ".toList ++ v ++ " in ".toList ++ p.show ++ ' ' :: blockEnd ++ body.show ++
      blockStart ++ " endfor ".toList ++ blockEnd
  | .ifEq p c body =>
    blockStart ++ " if ".toList ++ p.show ++ " == '".toList ++ c ++ "' ".toList ++ blockEnd ++ body.show ++
      blockStart ++ " endif ".toList ++ blockEnd
  | .expr e none => varStart ++ ' ' :: e.show ++ ' ' :: varEnd
  | .expr e (some f) => varStart ++ ' ' :: e.show ++ " ~ ".toList ++ f.show ++ ' ' :: varEnd

def Src.show : Src → Str
  | .text t => t.show
  | .nat l p r => natStart ++ l ++ p.show ++ r ++ natEnd
  | .nat2 p q => natStart ++ p.show ++ natEnd ++ natStart ++ q.show ++ natEnd
  | .natE l e r => natStart ++ l ++ e.show ++ r ++ natEnd
  | .textC e none => varStart ++ ' ' :: e.show ++ ' ' :: varEnd
  | .textC e (some f) => varStart ++ ' ' :: e.show ++ " ~ ".toList ++ f.show ++ ' ' :: varEnd
  | .natC l e r => natStart ++ l ++ e.show ++ r ++ natEnd

/-! ### the wrapper: `parse_as_string` and `parse` -/

/-- `pat in s` -/
def containsSub (pat : Str) : Str → Bool
  | [] => pat.isEmpty
  | c :: s => pat.isPrefixOf (c :: s) || containsSub pat s

/-- the wrapper selects the native environment -/
def isNativeCell (stripped : Str) : Bool :=
  natStart.isPrefixOf stripped && natEnd.isSuffixOf stripped

/-- `parse_as_string(value, context)` (for `value` not `None`).  `ctx? = none` is
`context=None`, i.e. `omit_templating`.  `ast` is Jinja's reading of the stripped text in the
selected environment (the driver checks `ast.show = strip value`). -/
def parseAsString (cf : Conf) (ctx? : Option Ctx) (value : Str) (ast : Src) : Except Err Out :=
  let stripped := strip pyWs value
  match ctx? with
  | none => .ok (.text stripped)
  | some ctx =>
    if ctx.isEmpty && !stripped.contains shortcutChar then .ok (.text stripped)
    else if isNativeCell stripped then
      if containsSub natStart (stripped.drop nestedOffset) then .error .nestedNative
      else renderSrc cf ctx ast
    else renderSrc cf ctx ast

/-- result of `parse`: a split cell, or the native object unprocessed -/
inductive Parsed where
  | cell (c : Cell)
  | value (v : Val)
  | undefinedObject
  | pvalue (v : PVal)
  | holdsUndefined
  deriving Repr

/-- `parse(value, context)`: text results go through `split_into_lists`, native objects are
returned as they are. -/
def parse (cf : Conf) (ctx? : Option Ctx) (value : Str) (ast : Src) : Except Err Parsed :=
  match parseAsString cf ctx? value ast with
  | .error e => .error e
  | .ok (.text s) => .ok (.cell (splitIntoLists pyWs s))
  | .ok (.value v) => .ok (.value v)
  | .ok .undefinedObject => .ok .undefinedObject
  | .ok (.pvalue v) => .ok (.pvalue v)
  | .ok .holdsUndefined => .ok .holdsUndefined

/-! ### rows: `SheetParser.parse_next_row(omit_templating)` -/

/-- a row = its cells (raw text with Jinja's reading); `omitT = true` passes `context=None` -/
def parseRow (cf : Conf) (omitT : Bool) (ctx : Ctx) (cells : List (Str × Src)) :
    List (Except Err Out) :=
  cells.map fun c => parseAsString cf (if omitT then none else some ctx) c.1 c.2

end Rpft.Template
