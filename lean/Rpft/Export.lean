/-
M5 — the flow exporter `FlowContainer.to_rows` (containers.py `find_node`, `_to_rows_recurse`,
`to_rows`, `to_row_data_sheet`; nodes.py `initiate_row_models`, `prepend_edge_to_row_models`),
POLYMORPHIC in the identifier type `U` (only `DecidableEq U` is used: the code compares uuids
for equality and tests membership in sets of uuids, nothing else).

What is abstracted (supplied by the harness from the real objects, uuid-free):
* `short`  = `node.short_name()`;
* `rows`   = one entry per row model the node creates (`initiate_row_models`: one per action, or
  the single router row): the row's content as an opaque string and its `obj_id`;
* `edges`  = `node.get_exit_edge_pairs()`: the edge's condition as an opaque label and
  `exit.destination_uuid` (falsy ↦ `none`).

Temp row ids `"{uuid}|{short}"`, `"{uuid}|{short}.{i}"`, `"{uuid4()}|goto.{short}"` are pairs
`(U ⊕ Nat) × Str` (`inr k` = the k-th fresh uuid4); `"start"` is `none`.
Core Lean only (compiled into the driver).
-/
import Rpft.Str
import Rpft.Dict
namespace Rpft.Export

abbrev Label := Str
abbrev Payload := Str

/-- temp row id `"{uuid}|{name}"` -/
abbrev TempId (U : Type) := (U ⊕ Nat) × Str

/-- a node as the exporter sees it -/
structure NodeX (U : Type) where
  uuid : U
  short : Str
  rows : List (Payload × Option U)
  edges : List (Label × Option U)
  deriving Repr

abbrev FlowX (U : Type) := List (NodeX U)

/-- `Edge(from_=…, condition=…)`; `from_ = none` is `"start"` -/
structure EdgeT (U : Type) where
  from_ : Option (TempId U)
  label : Label
  deriving Repr, DecidableEq

/-- `FlowRowModel` with temp ids.  `nodeId` = `node_uuid` (`_nodeId`), `objId` = `obj_id`. -/
structure RowT (U : Type) where
  id : TempId U
  nodeId : Option U
  objId : Option U
  payload : Payload
  edges : List (EdgeT U)
  goto : List (TempId U)
  deriving Repr, DecidableEq

/-- a row of the stripped sheet: NO component of type `U` -/
structure RowS where
  id : Str
  payload : Payload
  edges : List (Str × Label)
  goto : List Str
  deriving Repr, DecidableEq

inductive Err
  | fuel          -- (model artefact) recursion fuel exhausted
  | noNode        -- find_node: ValueError "Destination node … does not exist within flow."
  | noRows        -- node without row models: IndexError in `row_models[-1]`
  | keyError      -- KeyError in temp_row_id_to_row_id[…]
  | counterFuel   -- (model artefact) uniqueness counter fuel exhausted
  deriving Repr, DecidableEq

structure St (U : Type) where
  visited : List U       -- self.visited_nodes   (membership only)
  completed : List U     -- self.completed_nodes (membership only)
  rows : List (RowT U)   -- self.rows
  fresh : Nat            -- number of uuid4() calls so far
  deriving Repr

/-- decimal `str(i)` -/
def natStr (i : Nat) : Str := (Nat.repr i).toList

/-- payload of a `go_to` row (type = "go_to", nothing else) -/
def gotoPayload : Payload := "go_to".toList
/-- `"goto."` -/
def gotoPrefix : Str := "goto.".toList
/-- the default `Condition()` -/
def blankLabel : Label := []
/-- `"start"` (the `from` of the first row; the remapping dict starts as `{"start": "start"}`) -/
def startStr : Str := "start".toList
/-- separator of a temp row id `"{uuid}|{name}"` (the pair constructor of `TempId`) -/
def tempIdSeparator : Str := "|".toList
/-- `excluded_headers` of `to_row_data_sheet(strip_uuids=True)` = the headers of the two `U`-valued
fields of `RowT` (`nodeId` ↦ `_nodeId`, `objId` ↦ `obj_id`) that `RowS` does not have -/
def idFieldHeaders : List Str := ["_nodeId".toList, "obj_id".toList]
/-- what `--strip_uuids` excludes: the two id fields, and (since fix F-C17-a) the WhatsApp
template id, which lives in the opaque payload -/
def excludedHeaders : List Str := idFieldHeaders ++ ["wa_template.uuid".toList]

variable {U : Type} [DecidableEq U]

/-- `find_node`: first node with this uuid -/
def findNode (f : FlowX U) (u : U) : Option (NodeX U) := f.find? (fun n => n.uuid = u)

/-- row id of the i-th row model of a node: `node_row_id` for `i = 0`, else `f"{node_row_id}.{i}"` -/
def rowId (n : NodeX U) (i : Nat) : TempId U :=
  (.inl n.uuid, if i = 0 then n.short else n.short ++ '.' :: natStr i)

/-- `initiate_row_models`: the first row carries the parent edge, row i+1 hangs off row i -/
def mkRowsFrom (n : NodeX U) : Nat → EdgeT U → List (Payload × Option U) → List (RowT U)
  | _, _, [] => []
  | i, pe, (p, o) :: rest =>
    { id := rowId n i, nodeId := some n.uuid, objId := o, payload := p, edges := [pe], goto := [] }
      :: mkRowsFrom n (i + 1) ⟨some (rowId n i), blankLabel⟩ rest

def mkRows (n : NodeX U) (pe : EdgeT U) : List (RowT U) := mkRowsFrom n 0 pe n.rows

/-- `child_node.prepend_edge_to_row_models(edge)`: the child's first row model (which is already
in `self.rows`, identified here by its temp id) gets the edge at the front. -/
def prependEdge (tid : TempId U) (e : EdgeT U) (rows : List (RowT U)) : List (RowT U) :=
  rows.map (fun r => if r.id = tid then { r with edges := e :: r.edges } else r)

/-- the `go_to` row for a backward edge -/
def gotoRow (k : Nat) (child : NodeX U) (e : EdgeT U) : RowT U :=
  { id := (.inr k, gotoPrefix ++ child.short), nodeId := none, objId := none, payload := gotoPayload,
    edges := [e], goto := [rowId child 0] }

/-- the `for exit, edge in exits_edges[::-1]` loop (called with the list already reversed);
`recChild` is the recursive call `self._to_rows_recurse(child_node, edge)`. -/
def loop (f : FlowX U) (recChild : NodeX U → EdgeT U → St U → Except Err (St U)) (fromId : TempId U) :
    List (Label × Option U) → St U → Except Err (St U)
  | [], st => .ok st
  | (_, none) :: es, st => loop f recChild fromId es st
  | (lab, some d) :: es, st =>
    match findNode f d with
    | none => .error .noNode
    | some child =>
      if child.uuid ∈ st.completed then
        loop f recChild fromId es { st with rows := prependEdge (rowId child 0) ⟨some fromId, lab⟩ st.rows }
      else if child.uuid ∈ st.visited then
        loop f recChild fromId es
          { st with rows := gotoRow st.fresh child ⟨some fromId, lab⟩ :: st.rows, fresh := st.fresh + 1 }
      else
        match recChild child ⟨some fromId, lab⟩ st with
        | .error e => .error e
        | .ok st' => loop f recChild fromId es st'

/-- `_to_rows_recurse` -/
def dfs (f : FlowX U) : Nat → NodeX U → EdgeT U → St U → Except Err (St U)
  | 0, _, _, _ => .error .fuel
  | fuel + 1, node, pe, st =>
    if node.rows = [] then .error .noRows else
    match loop f (dfs f fuel) (rowId node (node.rows.length - 1)) node.edges.reverse
        { st with visited := node.uuid :: st.visited } with
    | .error e => .error e
    | .ok st2 =>
      .ok { st2 with completed := node.uuid :: st2.completed, rows := mkRows node pe ++ st2.rows }

/-- the rows with temp ids (`self.rows` before the remapping) -/
def toRowsT (f : FlowX U) : Except Err (List (RowT U)) :=
  match f with
  | [] => .ok []
  | n0 :: _ =>
    match dfs f (f.length + 1) n0 ⟨none, blankLabel⟩ ⟨[], [], [], 0⟩ with
    | .error e => .error e
    | .ok st => .ok st.rows

/-! ### remapping of the temp ids -/

/-- candidates `base`, `base.1`, `base.2`, … -/
def cand (base : Str) (k : Nat) : Str := if k = 0 then base else base ++ '.' :: natStr k

/-- `while new_id in temp_row_id_to_row_id.values(): …` (at most `|used| + 1` candidates are needed) -/
def pickName (base : Str) (used : List Str) : Except Err Str :=
  match (List.range (used.length + 1)).find? (fun k => decide (cand base k ∉ used)) with
  | some k => .ok (cand base k)
  | none => .error .counterFuel

/-- `temp_row_id_to_row_id.values()` — the dict starts as `{"start": "start"}` -/
def usedValues (d : Dict (TempId U) Str) : List Str := startStr :: d.map (·.2)

/-- the loop compiling the remapping dict (without its `"start"` entry) -/
def buildTable (numbered : Bool) : Nat → List (RowT U) → Dict (TempId U) Str → Except Err (Dict (TempId U) Str)
  | _, [], d => .ok d
  | idx, r :: rs, d =>
    if numbered then buildTable numbered (idx + 1) rs (Dict.set d r.id (natStr (idx + 1)))
    else
      match pickName r.id.2 (usedValues d) with
      | .error e => .error e
      | .ok new => buildTable numbered (idx + 1) rs (Dict.set d r.id new)

/-- `temp_row_id_to_row_id[k]` -/
def look (d : Dict (TempId U) Str) (k : TempId U) : Except Err Str :=
  match Dict.get d k with
  | some v => .ok v
  | none => .error .keyError

def lookFrom (d : Dict (TempId U) Str) : Option (TempId U) → Except Err Str
  | none => .ok startStr
  | some k => look d k

def remapEdges (d : Dict (TempId U) Str) : List (EdgeT U) → Except Err (List (Str × Label))
  | [] => .ok []
  | e :: es =>
    match lookFrom d e.from_, remapEdges d es with
    | .ok s, .ok r => .ok ((s, e.label) :: r)
    | .error x, _ => .error x
    | _, .error x => .error x

def remapIds (d : Dict (TempId U) Str) : List (TempId U) → Except Err (List Str)
  | [] => .ok []
  | k :: ks =>
    match look d k, remapIds d ks with
    | .ok s, .ok r => .ok (s :: r)
    | .error x, _ => .error x
    | _, .error x => .error x

/-- the remapping of one row + `excluded_headers = {"obj_id", "_nodeId"}` -/
def remapRow (d : Dict (TempId U) Str) (r : RowT U) : Except Err RowS :=
  match look d r.id, remapIds d r.goto, remapEdges d r.edges with
  | .ok i, .ok g, .ok es => .ok { id := i, payload := r.payload, edges := es, goto := g }
  | .error x, _, _ => .error x
  | _, .error x, _ => .error x
  | _, _, .error x => .error x

def remapRows (d : Dict (TempId U) Str) : List (RowT U) → Except Err (List RowS)
  | [] => .ok []
  | r :: rs =>
    match remapRow d r, remapRows d rs with
    | .ok a, .ok b => .ok (a :: b)
    | .error x, _ => .error x
    | _, .error x => .error x

def remap (numbered : Bool) (rows : List (RowT U)) : Except Err (List RowS) :=
  match buildTable numbered 0 rows [] with
  | .error e => .error e
  | .ok d => remapRows d rows

/-- `to_rows(numbered)` seen through `to_row_data_sheet(strip_uuids=True)` -/
def strippedRows (numbered : Bool) (f : FlowX U) : Except Err (List RowS) :=
  match toRowsT f with
  | .error e => .error e
  | .ok rows => remap numbered rows

/-! ### the sheet: header order and file export are uninterpreted functions of uuid-free data -/

/-- `RowDataSheet.convert_to_tablib` + `export`: `unparse` = `RowParser.unparse_row` (row → ordered
header/cell pairs), `topo` = `networkx.topological_sort` of the header graph built from the rows'
header sequences, `write` = tablib's writer.  All three only ever see `RowS`. -/
def sheetBytes {Bytes : Type} (unparse : RowS → List (Str × Str)) (topo : List (List Str) → List Str)
    (write : List Str → List (List Str) → Bytes) (numbered : Bool) (f : FlowX U) : Except Err Bytes :=
  match strippedRows numbered f with
  | .error e => .error e
  | .ok rows =>
    let dicts := rows.map unparse
    let hdr := topo (dicts.map (fun d => d.map (·.1)))
    .ok (write hdr (dicts.map (fun d => hdr.map (fun h => ((d.find? (fun kv => kv.1 = h)).map (·.2)).getD []))))

/-! ### renaming -/

variable {V : Type}

def TempId.map (ρ : U → V) (t : TempId U) : TempId V := (Sum.map ρ id t.1, t.2)

def EdgeT.map (ρ : U → V) (e : EdgeT U) : EdgeT V := ⟨e.from_.map (TempId.map ρ), e.label⟩

def RowT.map (ρ : U → V) (r : RowT U) : RowT V :=
  { id := TempId.map ρ r.id, nodeId := r.nodeId.map ρ, objId := r.objId.map ρ, payload := r.payload,
    edges := r.edges.map (EdgeT.map ρ), goto := r.goto.map (TempId.map ρ) }

def NodeX.map (ρ : U → V) (n : NodeX U) : NodeX V :=
  { uuid := ρ n.uuid, short := n.short, rows := n.rows.map (fun po => (po.1, po.2.map ρ)),
    edges := n.edges.map (fun le => (le.1, le.2.map ρ)) }

/-- `mapU`: consistent renaming of every identifier of a flow -/
def mapU (ρ : U → V) (f : FlowX U) : FlowX V := f.map (NodeX.map ρ)

def St.map (ρ : U → V) (s : St U) : St V :=
  { visited := s.visited.map ρ, completed := s.completed.map ρ, rows := s.rows.map (RowT.map ρ), fresh := s.fresh }

end Rpft.Export
