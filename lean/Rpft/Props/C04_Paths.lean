/-
C04 (path level) — the sheet exporter `FlowContainer.to_rows` preserves the flow's BEHAVIOUR along every
path: "same destinations, including joins and cycles … same test order".

Two labelled transition systems over exit labels (`Rpft/Lemmas/ExportPaths.lean`):

* the FLOW: a state is a node; `FlowStep f n ℓ m` — `n` has an exit `(ℓ, some d)` and `find_node d = m`;
  an exit `(ℓ, none)` is no transition (`FlowEnds`); `flowOut f n` lists the transitions in EXIT ORDER;
  a node performs `nodePayloads n` (the content of its row models, in order);
* the SHEET as the compiler reads it WITH NODE MERGING (`Sheet`, `sheetT rows`): a state is a node of the
  sheet = a group of rows (`groupRows`), named by its first row; `Sheet.Step S i ℓ j` — an edge labelled `ℓ`
  (resolved by `readRow`: an edge on a `go_to` row enters the row named there) leaves the LAST row of
  group `i` and enters a row of group `j`; `Sheet.out S i` lists the transitions in SHEET ORDER (the order
  in which the compiler gives the router its cases back); a group performs `Sheet.payloads S i` (the
  content of its rows top to bottom — walking row to row along the blank chain edges, `Sheet.Linked`).

The theorems say: `n ↦ firstId n` ("node `n` ↔ the group of rows exported for `n`") is a functional
BISIMULATION between the reachable part of the flow and the sheet, for EVERY flow the exporter accepts,
relationally (no determinism assumed: two exits of one node may carry the same label), with equal
payloads — hence for every finite label sequence the same paths, the same payload traces.  Exits that
lead nowhere are finding F-C04-a: they are no transition on either side, and the sheet has no trace of them
(`dangling_label_no_step`); nothing is claimed about "the flow ends there".
-/
import Rpft.Lemmas.ExportPathsRows
import Rpft.Props.C04_Graph
set_option linter.unusedSimpArgs false
set_option linter.unusedVariables false
namespace Rpft.Props.C04
open Rpft Rpft.Export

variable {U : Type} [DecidableEq U]

/-! ### states: the groups of the sheet are the reachable nodes -/

/-- **start.**  The `"start"` edge is the only edge without source, and it enters the group of the first
node: the sheet starts where the flow starts. -/
theorem sheet_start (f : FlowX U) (rows : List (RowT U)) (h : toRowsT f = .ok rows) :
    (sheetT rows).start = (f.head?.map firstId).toList := by
  by_cases hne : f = []
  · subst hne
    simp only [toRowsT, Except.ok.injEq] at h
    subst h
    rfl
  · obtain ⟨n0, items, vis, sk⟩ := export_skeleton f rows h hne
    rw [sk.start_eq, sk.head]; rfl

/-- **the group of a reachable node.**  Read with the compiler's merge rule, the rows of the group whose
first row is `firstId n` are exactly the rows exported for `n`, in order, with their content; the last of
them is `lastId n`; the group performs what the node performs; consecutive rows are linked by blank edges
(the walk inside the node). -/
theorem node_group_exported (f : FlowX U) (rows : List (RowT U)) (h : toRowsT f = .ok rows) (n : NodeX U) (hn : Reach f n) :
    (sheetT rows).groupOf (firstId n) = n.rows.zipIdx.map (fun x => (rowId n x.2, x.1.1)) ∧
    (sheetT rows).lastRow (firstId n) = some (lastId n) ∧
    (sheetT rows).payloads (firstId n) = nodePayloads n ∧
    (sheetT rows).Linked (firstId n) := by
  obtain ⟨n0, items, vis, sk⟩ := export_skeleton f rows h hn.ne_nil
  have hm := (sk.reach n).2 hn
  exact ⟨sk.groupOf_eq hm, sk.lastRow_eq hm, sk.payloads_eq hm, sk.linked hm⟩

/-- the relation "node ↔ its group" is one to one on the reachable nodes -/
theorem firstId_injective (f : FlowX U) (n m : NodeX U) (hn : Reach f n) (hm : Reach f m) (h : firstId n = firstId m) :
    n = m :=
  firstId_inj_of_canon hn.canon hm.canon h

/-- **no other state**: every node of the sheet is the group of a reachable node of the flow, and every
reachable node has its group -/
theorem sheet_nodes_are_flow_nodes (f : FlowX U) (rows : List (RowT U)) (h : toRowsT f = .ok rows) (i : TempId U) :
    i ∈ (sheetT rows).nodes ↔ ∃ n, Reach f n ∧ i = firstId n := by
  simp only [Sheet.nodes, List.mem_eraseDups, List.mem_map]
  by_cases hne : f = []
  · subst hne
    simp only [toRowsT, Except.ok.injEq] at h
    subst h
    constructor
    · rintro ⟨x, hx, _⟩; cases hx
    · rintro ⟨n, hn, _⟩; exact absurd rfl hn.ne_nil
  · obtain ⟨n0, items, vis, sk⟩ := export_skeleton f rows h hne
    rw [sk.nodeRowsP]
    constructor
    · rintro ⟨x, hx, rfl⟩
      obtain ⟨m, hm, hxm⟩ := List.mem_flatMap.1 hx
      obtain ⟨j, hj, hxj⟩ := mem_nodeSigP hxm
      refine ⟨m, (sk.reach m).1 hm, ?_⟩
      rw [hxj]
      exact sk.repOf_row hm hj
    · rintro ⟨n, hn, rfl⟩
      have hm := (sk.reach n).2 hn
      have hpos := sk.rows_pos hm
      refine ⟨(rowId n 0, (n.rows[0]).1), ?_, sk.repOf_row hm hpos⟩
      apply List.mem_flatMap.2
      refine ⟨n, hm, ?_⟩
      simp only [nodeSigP, List.mem_map]
      exact ⟨(n.rows[0], 0), List.mk_mem_zipIdx_iff_getElem?.2 (by simp [hpos]), rfl⟩

/-! ### one step -/

/-- **all transitions of one node, as a multiset.**  The transitions leaving the group of a reachable node
`n` are, one for one, the connected exits of `n`: same label, into the group of the node `find_node`
returns — joins, cycles, self loops and parallel edges included. -/
theorem export_out_perm (f : FlowX U) (rows : List (RowT U)) (h : toRowsT f = .ok rows) (n : NodeX U) (hn : Reach f n) :
    ((sheetT rows).out (firstId n)).Perm ((flowOut f n).map (fun p => (p.1, firstId p.2))) := by
  obtain ⟨n0, items, vis, sk⟩ := export_skeleton f rows h hn.ne_nil
  exact sk.out_perm ((sk.reach n).2 hn)

/-- **one-step correspondence** (both directions): from the group of a reachable node `n` the sheet can
take a step labelled `ℓ` into group `j` IF AND ONLY IF the flow can take a step labelled `ℓ` from `n` to a
node `m` whose group is `j` (and `m` is reachable again). -/
theorem export_step (f : FlowX U) (rows : List (RowT U)) (h : toRowsT f = .ok rows) (n : NodeX U) (hn : Reach f n)
    (ℓ : Label) (j : TempId U) :
    (sheetT rows).Step (firstId n) ℓ j ↔ ∃ m, FlowStep f n ℓ m ∧ j = firstId m := by
  unfold Sheet.Step
  rw [(export_out_perm f rows h n hn).mem_iff, List.mem_map]
  constructor
  · rintro ⟨⟨l, m⟩, hp, he⟩
    simp only [Prod.mk.injEq] at he
    obtain ⟨rfl, rfl⟩ := he
    exact ⟨m, hp, rfl⟩
  · rintro ⟨m, hp, rfl⟩
    exact ⟨(ℓ, m), hp, rfl⟩

/-- forward half: a step of the flow is a step of the sheet -/
theorem export_step_forward (f : FlowX U) (rows : List (RowT U)) (h : toRowsT f = .ok rows) (n m : NodeX U) (hn : Reach f n)
    (ℓ : Label) (hs : FlowStep f n ℓ m) : (sheetT rows).Step (firstId n) ℓ (firstId m) ∧ Reach f m :=
  ⟨(export_step f rows h n hn ℓ _).2 ⟨m, hs, rfl⟩, hn.flowStep hs⟩

/-- backward half: a step of the sheet is a step of the flow -/
theorem export_step_backward (f : FlowX U) (rows : List (RowT U)) (h : toRowsT f = .ok rows) (n : NodeX U) (hn : Reach f n)
    (ℓ : Label) (j : TempId U) (hs : (sheetT rows).Step (firstId n) ℓ j) :
    ∃ m, FlowStep f n ℓ m ∧ Reach f m ∧ j = firstId m := by
  obtain ⟨m, hm, hj⟩ := (export_step f rows h n hn ℓ j).1 hs
  exact ⟨m, hm, hn.flowStep hm, hj⟩

/-! ### label sequences -/

/-- **The exported sheet has exactly the paths of the flow.**  For every flow the exporter accepts, every
reachable node `n` (in particular the first node, whose group is where the sheet starts: `sheet_start`)
and every finite sequence of labels `ℓs`: following `ℓs` in the sheet from the group of `n` visits the
groups `js` IF AND ONLY IF following `ℓs` in the flow from `n` visits nodes `ms` whose groups are `js`.
Relational: if a node has two exits with the same label both branches correspond. -/
theorem export_paths (f : FlowX U) (rows : List (RowT U)) (h : toRowsT f = .ok rows) (n : NodeX U) (hn : Reach f n)
    (ℓs : List Label) (js : List (TempId U)) :
    LPath (sheetT rows).Step (firstId n) ℓs js ↔ ∃ ms, LPath (FlowStep f) n ℓs ms ∧ js = ms.map firstId := by
  induction ℓs generalizing n js with
  | nil =>
    cases js with
    | nil => exact ⟨fun _ => ⟨[], trivial, rfl⟩, fun _ => trivial⟩
    | cons j js =>
      constructor
      · intro hp; exact hp.elim
      · rintro ⟨ms, hp, he⟩
        cases ms with
        | nil => cases he
        | cons m ms => exact hp.elim
  | cons ℓ ℓs ih =>
    cases js with
    | nil =>
      constructor
      · intro hp; exact hp.elim
      · rintro ⟨ms, hp, he⟩
        cases ms with
        | nil => exact hp.elim
        | cons m ms => cases he
    | cons j js =>
      constructor
      · rintro ⟨h1, h2⟩
        obtain ⟨m, hm, hrm, rfl⟩ := export_step_backward f rows h n hn ℓ j h1
        obtain ⟨ms, hms, rfl⟩ := (ih m hrm js).1 h2
        exact ⟨m :: ms, ⟨hm, hms⟩, rfl⟩
      · rintro ⟨ms, hp, he⟩
        cases ms with
        | nil => exact hp.elim
        | cons m ms =>
          simp only [List.map_cons, List.cons.injEq] at he
          obtain ⟨rfl, rfl⟩ := he
          have hrm := hn.flowStep hp.1
          exact ⟨(export_step_forward f rows h n m hn ℓ hp.1).1, (ih m hrm _).2 ⟨ms, hp.2, rfl⟩⟩

/-- **Simulation with payloads** (flow ⇒ sheet).  Following `ℓs` in the flow from a reachable node `n`
through the nodes `ms`: the sheet follows `ℓs` from the group of `n` through the groups of `ms`, ends in the
group of the node the flow ends in, and performs the same payload sequence (content of every row of
every node entered, in order). -/
theorem export_simulates (f : FlowX U) (rows : List (RowT U)) (h : toRowsT f = .ok rows) (n : NodeX U) (hn : Reach f n)
    (ℓs : List Label) (ms : List (NodeX U)) (hp : LPath (FlowStep f) n ℓs ms) :
    LPath (sheetT rows).Step (firstId n) ℓs (ms.map firstId) ∧
    endOf (firstId n) (ms.map firstId) = firstId (endOf n ms) ∧
    traceOf (sheetT rows).payloads (firstId n) (ms.map firstId) = traceOf nodePayloads n ms := by
  refine ⟨(export_paths f rows h n hn ℓs _).2 ⟨ms, hp, rfl⟩, ?_, ?_⟩
  · simp only [endOf, ← List.map_cons]
    rw [List.getLast_map]
  · have hall : ∀ m ∈ n :: ms, Reach f m := by
      intro m hm
      rcases List.mem_cons.1 hm with rfl | hm
      · exact hn
      · exact hn.lpath hp m hm
    simp only [traceOf, ← List.map_cons, List.flatMap_map]
    apply flatMap_congr_mem
    intro m hm
    exact (node_group_exported f rows h m (hall m hm)).2.2.1

/-- **… and back** (sheet ⇒ flow).  Every path of the sheet from the group of a reachable node is the image
of a path of the flow with the same labels, ending in the node whose group the sheet path ends in, with
the same payload sequence. -/
theorem export_simulated_by (f : FlowX U) (rows : List (RowT U)) (h : toRowsT f = .ok rows) (n : NodeX U) (hn : Reach f n)
    (ℓs : List Label) (js : List (TempId U)) (hp : LPath (sheetT rows).Step (firstId n) ℓs js) :
    ∃ ms, LPath (FlowStep f) n ℓs ms ∧ js = ms.map firstId ∧ Reach f (endOf n ms) ∧
      endOf (firstId n) js = firstId (endOf n ms) ∧
      traceOf (sheetT rows).payloads (firstId n) js = traceOf nodePayloads n ms := by
  obtain ⟨ms, hms, rfl⟩ := (export_paths f rows h n hn ℓs js).1 hp
  obtain ⟨_, h2, h3⟩ := export_simulates f rows h n hn ℓs ms hms
  refine ⟨ms, hms, rfl, ?_, h2, h3⟩
  have hmem : endOf n ms ∈ n :: ms := List.getLast_mem _
  rcases List.mem_cons.1 hmem with he | he
  · rw [he]; exact hn
  · exact hn.lpath hms _ he

/-- **from the start**: the form of the property text.  The sheet starts in the group of the flow's first
node, and for every label sequence: the flow reaches node `m` from its first node performing `P` IFF the
sheet reaches the group of `m` from its start performing `P` (for reachable `m`; `firstId` is one to one
on reachable nodes: `firstId_injective`). -/
theorem export_paths_from_start (f : FlowX U) (rows : List (RowT U)) (h : toRowsT f = .ok rows) (n0 : NodeX U)
    (h0 : f.head? = some n0) (ℓs : List Label) (m : NodeX U) (P : List Payload) :
    (sheetT rows).start = [firstId n0] ∧
    ((∃ ms, LPath (FlowStep f) n0 ℓs ms ∧ endOf n0 ms = m ∧ traceOf nodePayloads n0 ms = P) ↔
     (Reach f m ∧ ∃ js, LPath (sheetT rows).Step (firstId n0) ℓs js ∧ endOf (firstId n0) js = firstId m ∧
        traceOf (sheetT rows).payloads (firstId n0) js = P)) := by
  have hn0 : Reach f n0 := Reach.start h0
  refine ⟨by rw [sheet_start f rows h, h0]; rfl, ?_⟩
  constructor
  · rintro ⟨ms, hp, rfl, rfl⟩
    obtain ⟨a, b, c⟩ := export_simulates f rows h n0 hn0 ℓs ms hp
    refine ⟨?_, ms.map firstId, a, b, c⟩
    have hmem : endOf n0 ms ∈ n0 :: ms := List.getLast_mem _
    rcases List.mem_cons.1 hmem with he | he
    · rw [he]; exact hn0
    · exact hn0.lpath hp _ he
  · rintro ⟨hm, js, hp, he, rfl⟩
    obtain ⟨ms, hms, rfl, hre, hend, htr⟩ := export_simulated_by f rows h n0 hn0 ℓs js hp
    refine ⟨ms, hms, ?_, htr.symm⟩
    rw [hend] at he
    exact firstId_injective f _ _ hre hm he

/-! ### exits that lead nowhere (finding F-C04-a) -/

/-- a label whose exit leads nowhere (and that no connected exit of the node shares) is a transition on
NEITHER side: the flow has no step for it (it "ends", `FlowEnds`), and the sheet has no edge with that
label leaving the node's group — no trace of the exit is left in the sheet (after recompilation the router
has no case for it: F-C04-a).  That the flow "ends there" on both sides is NOT claimed. -/
theorem dangling_label_no_step (f : FlowX U) (rows : List (RowT U)) (h : toRowsT f = .ok rows) (n : NodeX U) (hn : Reach f n)
    (ℓ : Label) (hd : FlowEnds n ℓ) (hno : ∀ d, (ℓ, some d) ∉ n.edges) :
    (∀ m, ¬ FlowStep f n ℓ m) ∧ (∀ j, ¬ (sheetT rows).Step (firstId n) ℓ j) ∧
    ∀ e ∈ edgesOfT rows, e.src = some (lastId n) → e.label ≠ ℓ := by
  have h1 : ∀ m, ¬ FlowStep f n ℓ m := by
    intro m hm
    obtain ⟨d, hd', _⟩ := flowStep_iff.1 hm
    exact hno d hd'
  refine ⟨h1, ?_, (export_drops_dangling_exits f rows h n hn).2 ℓ hd hno⟩
  intro j hj
  obtain ⟨m, hm, _⟩ := (export_step f rows h n hn ℓ j).1 hj
  exact h1 m hm

/-! ### test order along paths -/

/-- the sheet lists the transitions of the group of `n` in the flow's exit order IFF the row graph lists the
edges leaving the last row of `n` in exit order (the statement the order criteria of `C04_Graph` decide) -/
theorem out_order_iff_edges_order (f : FlowX U) (rows : List (RowT U)) (h : toRowsT f = .ok rows) (n : NodeX U) (hn : Reach f n) :
    (sheetT rows).out (firstId n) = (flowOut f n).map (fun p => (p.1, firstId p.2)) ↔
      outOf (lastId n) (edgesOfT rows) = exitsEdges f n := by
  obtain ⟨n0, items, vis, sk⟩ := export_skeleton f rows h hn.ne_nil
  rw [sk.out_eq ((sk.reach n).2 hn)]
  have hmap : (flowOut f n).map (fun p => (p.1, firstId p.2)) = (exitsEdges f n).map (fun e => (e.label, e.dst)) := by
    rw [exitsEdges_eq_flowOut, List.map_map]; rfl
  rw [hmap]
  constructor
  · intro heq
    have hsrc : ∀ l : List (SEdge (TempId U)), (∀ e ∈ l, e.src = some (lastId n)) →
        l = (l.map (fun e => (e.label, e.dst))).map (fun q => ⟨some (lastId n), q.1, q.2⟩) := by
      intro l hl
      rw [List.map_map]
      conv => lhs; rw [← List.map_id l]
      apply List.map_congr_left
      intro e he
      have := hl e he
      cases e
      simp only at this
      simp [this]
    rw [hsrc (outOf (lastId n) (edgesOfT rows)) (by intro e he; simpa [outOf] using (List.mem_filter.1 he).2),
      hsrc (exitsEdges f n) (by intro e he; obtain ⟨_, _, _, _, _, rfl⟩ := mem_loopEdges he; rfl), heq]
  · intro heq; rw [heq]

/-- **test order, join-free sheets**: on a sheet without joins (no row with more than one edge cell: a tree
with back edges / `go_to` rows) the transitions of every reachable node come back in exit order. -/
theorem export_test_order_of_join_free (f : FlowX U) (rows : List (RowT U)) (h : toRowsT f = .ok rows)
    (hjf : ∀ r ∈ rows, r.edges.length ≤ 1) (n : NodeX U) (hn : Reach f n) :
    (sheetT rows).out (firstId n) = (flowOut f n).map (fun p => (p.1, firstId p.2)) :=
  (out_order_iff_edges_order f rows h n hn).2 (out_edges_order_of_join_free f rows h hjf n hn)

/-- **test order, criterion 1**: no edge leaving `n` was prepended to an existing row -/
theorem export_test_order_of_not_prepended (f : FlowX U) (rows : List (RowT U)) (h : toRowsT f = .ok rows) (n : NodeX U)
    (hn : Reach f n) (hlast : ∀ r ∈ rows, ∀ e ∈ r.edges.dropLast, e.from_ ≠ some (lastId n)) :
    (sheetT rows).out (firstId n) = (flowOut f n).map (fun p => (p.1, firstId p.2)) :=
  (out_order_iff_edges_order f rows h n hn).2 (out_edges_order_of_not_prepended f rows h n hn hlast)

/-- **test order, exact criterion** (F-C04-b is its negation): for a reachable node none of whose edges is
carried by a `go_to` row, the ordered list of (label, target node) of the sheet is the flow's IF AND ONLY IF
the targets of the exits stand in the sheet in the order of the exits. -/
theorem export_test_order_iff_targets_sorted (f : FlowX U) (rows : List (RowT U)) (h : toRowsT f = .ok rows) (n : NodeX U)
    (hn : Reach f n) (hg : ∀ r ∈ rows, r.goto ≠ [] → ∀ e ∈ r.edges, e.from_ ≠ some (lastId n)) :
    (sheetT rows).out (firstId n) = (flowOut f n).map (fun p => (p.1, firstId p.2)) ↔
      (exitsEdges f n).Pairwise (fun a b => pos (rows.map (·.id)) a.dst ≤ pos (rows.map (·.id)) b.dst) :=
  (out_order_iff_edges_order f rows h n hn).trans (out_edges_order_iff_targets_sorted f rows h n hn hg)

/-- **Same test order along every path.**  If every node satisfies an order criterion — here: the sheet is
join-free — then along every path of the flow from a reachable node, every node visited has, in the sheet,
the same ORDERED list of (label, target) as in the flow, the targets being the groups of the target nodes:
"first matching test wins" (or any other semantics that reads the cases in order) takes the same branch
at every step, and the sheet path is the image of the flow path (`export_simulates`). -/
theorem export_test_order_paths (f : FlowX U) (rows : List (RowT U)) (h : toRowsT f = .ok rows)
    (hjf : ∀ r ∈ rows, r.edges.length ≤ 1) (n : NodeX U) (hn : Reach f n)
    (ℓs : List Label) (ms : List (NodeX U)) (hp : LPath (FlowStep f) n ℓs ms) :
    LPath (sheetT rows).Step (firstId n) ℓs (ms.map firstId) ∧
    ∀ m ∈ n :: ms, (sheetT rows).out (firstId m) = (flowOut f m).map (fun p => (p.1, firstId p.2)) := by
  refine ⟨(export_simulates f rows h n hn ℓs ms hp).1, ?_⟩
  intro m hm
  apply export_test_order_of_join_free f rows h hjf
  rcases List.mem_cons.1 hm with rfl | hm
  · exact hn
  · exact hn.lpath hp m hm

/-- … per node, with whatever criterion holds there: along every path, a visited node whose edges come back
in exit order has the same ordered (label, target) list -/
theorem export_test_order_paths_of (f : FlowX U) (rows : List (RowT U)) (h : toRowsT f = .ok rows) (n : NodeX U) (hn : Reach f n)
    (ℓs : List Label) (ms : List (NodeX U)) (hp : LPath (FlowStep f) n ℓs ms)
    (hord : ∀ m ∈ n :: ms, outOf (lastId m) (edgesOfT rows) = exitsEdges f m) :
    ∀ m ∈ n :: ms, (sheetT rows).out (firstId m) = (flowOut f m).map (fun p => (p.1, firstId p.2)) := by
  intro m hm
  have hr : Reach f m := by
    rcases List.mem_cons.1 hm with rfl | hm'
    · exact hn
    · exact hn.lpath hp m hm'
  exact (out_order_iff_edges_order f rows h m hr).2 (hord m hm)

/-! ### determinism -/

/-- per node, the labels of the connected exits are pairwise distinct (decidable) -/
def LabelsDistinct (f : FlowX U) : Prop := ∀ n ∈ f, ((n.edges.filter (fun e => e.2.isSome)).map (·.1)).Nodup

instance (f : FlowX U) : Decidable (LabelsDistinct f) := by unfold LabelsDistinct; infer_instance

/-- first matching case wins: the target of the first transition labelled `ℓ` -/
def firstMatch {S : Type} (out : List (Label × S)) (ℓ : Label) : Option S :=
  (out.find? (fun p => decide (p.1 = ℓ))).map (·.2)

theorem flowStep_deterministic (f : FlowX U) (hd : LabelsDistinct f) (n : NodeX U) (hn : n ∈ f) (ℓ : Label) (m m' : NodeX U)
    (h1 : FlowStep f n ℓ m) (h2 : FlowStep f n ℓ m') : m = m' := by
  obtain ⟨d, hd1, hf1⟩ := flowStep_iff.1 h1
  obtain ⟨d', hd2, hf2⟩ := flowStep_iff.1 h2
  have key : ∀ es : List (Label × Option U), ((es.filter (fun e => e.2.isSome)).map (·.1)).Nodup →
      (ℓ, some d) ∈ es → (ℓ, some d') ∈ es → d = d' := by
    intro es
    induction es with
    | nil => intro _ h; cases h
    | cons x es ih =>
      intro hnd ha hb
      obtain ⟨lab, o⟩ := x
      cases o with
      | none =>
        simp only [List.filter_cons, Option.isSome_none, Bool.false_eq_true, if_false] at hnd
        rcases List.mem_cons.1 ha with ha1 | ha1
        · cases ha1
        rcases List.mem_cons.1 hb with hb1 | hb1
        · cases hb1
        exact ih hnd ha1 hb1
      | some x =>
        simp only [List.filter_cons, Option.isSome_some, if_true, List.map_cons, List.nodup_cons] at hnd
        have hin : ∀ y, (ℓ, some y) ∈ es → ℓ ∈ (es.filter (fun e => e.2.isSome)).map (·.1) :=
          fun y hy => List.mem_map.2 ⟨(ℓ, some y), List.mem_filter.2 ⟨hy, rfl⟩, rfl⟩
        rcases List.mem_cons.1 ha with ha1 | ha1 <;> rcases List.mem_cons.1 hb with hb1 | hb1
        · cases ha1; cases hb1; rfl
        · cases ha1; exact absurd (hin _ hb1) hnd.1
        · cases hb1; exact absurd (hin _ ha1) hnd.1
        · exact ih hnd.2 ha1 hb1
  have := key n.edges (hd n hn) hd1 hd2
  subst this
  rw [hf1] at hf2
  exact Option.some.inj hf2

/-- **determinism is preserved**: if in the flow the labels of the connected exits of every node are
pairwise distinct, both systems are deterministic on the reachable part — the sheet path for a label
sequence is unique, and it is the image of THE flow path. -/
theorem export_deterministic (f : FlowX U) (rows : List (RowT U)) (h : toRowsT f = .ok rows) (hd : LabelsDistinct f)
    (n : NodeX U) (hn : Reach f n) (ℓs : List Label) (js js' : List (TempId U))
    (h1 : LPath (sheetT rows).Step (firstId n) ℓs js) (h2 : LPath (sheetT rows).Step (firstId n) ℓs js') : js = js' := by
  obtain ⟨ms, hms, rfl⟩ := (export_paths f rows h n hn ℓs js).1 h1
  obtain ⟨ms', hms', rfl⟩ := (export_paths f rows h n hn ℓs js').1 h2
  have key : ∀ (ℓs : List Label) (n : NodeX U), Reach f n → ∀ ms ms', LPath (FlowStep f) n ℓs ms → LPath (FlowStep f) n ℓs ms' → ms = ms' := by
    intro ℓs
    induction ℓs with
    | nil =>
      intro n _ ms ms' a b
      cases ms with
      | cons _ _ => exact a.elim
      | nil => cases ms' with
        | cons _ _ => exact b.elim
        | nil => rfl
    | cons ℓ ℓs ih =>
      intro n hn ms ms' a b
      cases ms with
      | nil => exact a.elim
      | cons m ms => cases ms' with
        | nil => exact b.elim
        | cons m' ms' =>
          have := flowStep_deterministic f hd n (findNode_mem hn.canon) ℓ m m' a.1 b.1
          subst this
          rw [ih m (hn.flowStep a.1) ms ms' a.2 b.2]
  rw [key ℓs n hn ms ms' hms hms']

/-! ### the ROW graph and the FINAL sheet (`--strip_uuids`: no `_nodeId`, every row is its own node) -/

/-- **Row-level bisimulation (temp-id sheet).**  Whatever the grouping: the row graph of the exported sheet
is the flow with every node expanded into the chain of its row models (`RowStepF`: blank step to the next
row model inside a node, the node's steps from its last row model into the first row model of the
target).  For every state `p` = (reachable node, row model) and every label sequence: the row graph walks
`Ls` from the row of `p` through the rows `bs` IFF the expanded flow walks `Ls` from `p` through states
whose rows are `bs`. -/
theorem export_row_paths (f : FlowX U) (rows : List (RowT U)) (h : toRowsT f = .ok rows) (p : NodeX U × Nat)
    (hp : RowState f p) (Ls : List Label) (bs : List (TempId U)) :
    LPath (EdgeStep (edgesOfT rows)) (rowOf p) Ls bs ↔ ∃ qs, LPath (RowStepF f) p Ls qs ∧ bs = qs.map rowOf := by
  obtain ⟨n0, items, vis, sk⟩ := export_skeleton f rows h hp.1.ne_nil
  exact lpath_of_step_iff (RowStepF f) (EdgeStep (edgesOfT rows)) rowOf (RowState f)
    (fun s hs ℓ t => sk.row_step s hs ℓ t) (fun s ℓ s' hs hst => sk.rowState_step s ℓ s' hs hst) Ls p bs hp

/-- **The FINAL sheet, both id modes.**  The rows `to_rows(numbered)` returns are the temp-id rows renamed by
a `σ` that is one to one on the states; the graph the compiler reads from the final sheet (`edgesOfS`; with
`--strip_uuids` there is no `_nodeId` column and every row is its own node, `ungrouped_without_node_ids`)
starts in the row of (first node, 0), has from the row of every state exactly the steps of the expanded
flow, carries the state's content — hence walks exactly the label paths of the expanded flow: a node with
several row models comes back as a chain of one-row nodes linked by blank steps, everything else as it
was (joins, cycles, self loops, parallel edges). -/
theorem export_row_paths_final (numbered : Bool) (f : FlowX U) (out : List RowS) (h : strippedRows numbered f = .ok out) :
    ∃ (rows : List (RowT U)) (σ : TempId U → Str), toRowsT f = .ok rows ∧ out = rows.map (renameRow σ) ∧
      (∀ p q, RowState f p → RowState f q → σ (rowOf p) = σ (rowOf q) → p = q) ∧
      (∀ n0, f.head? = some n0 → (⟨none, blankLabel, σ (firstId n0)⟩ : SEdge Str) ∈ edgesOfS out) ∧
      (∀ p, RowState f p → ∃ c, (σ (rowOf p), c) ∈ nodeRowsS out ∧ rowPayload p = [c]) ∧
      (∀ p, RowState f p → ∀ ℓ c, EdgeStep (edgesOfS out) (σ (rowOf p)) ℓ c ↔ ∃ q, RowStepF f p ℓ q ∧ c = σ (rowOf q)) ∧
      (∀ p, RowState f p → ∀ (Ls : List Label) (cs : List Str),
        LPath (EdgeStep (edgesOfS out)) (σ (rowOf p)) Ls cs ↔
          ∃ qs, LPath (RowStepF f) p Ls qs ∧ cs = qs.map (fun q => σ (rowOf q))) := by
  obtain ⟨rows, σ, hr, ho, hst, hinj, hrefs, hE, hN, hO⟩ := export_preserves_graph_stripped numbered f out h
  have hmem : ∀ p, RowState f p → rowOf p ∈ rows.map (·.id) := by
    intro p hp
    obtain ⟨n0, items, vis, sk⟩ := export_skeleton f rows hr hp.1.ne_nil
    exact sk.rowOf_mem p hp
  have hstep : ∀ p, RowState f p → ∀ ℓ c, EdgeStep (edgesOfS out) (σ (rowOf p)) ℓ c ↔ ∃ q, RowStepF f p ℓ q ∧ c = σ (rowOf q) := by
    intro p hp ℓ c
    obtain ⟨n0, items, vis, sk⟩ := export_skeleton f rows hr hp.1.ne_nil
    have h1 : EdgeStep (edgesOfS out) (σ (rowOf p)) ℓ c ↔ ∃ b, EdgeStep (edgesOfT rows) (rowOf p) ℓ b ∧ c = σ b := by
      have hout := hO (rowOf p) (hmem p hp)
      have hiff : EdgeStep (edgesOfS out) (σ (rowOf p)) ℓ c ↔
          (⟨some (σ (rowOf p)), ℓ, c⟩ : SEdge Str) ∈ outOf (σ (rowOf p)) (edgesOfS out) := by
        simp [EdgeStep, outOf]
      rw [hiff, hout, List.mem_map]
      constructor
      · rintro ⟨e, he, heq⟩
        obtain ⟨he1, he2⟩ := List.mem_filter.1 he
        simp only [decide_eq_true_eq] at he2
        obtain ⟨s, l, d⟩ := e
        simp only at he2
        subst he2
        simp only [SEdge.map, Option.map_some, SEdge.mk.injEq, true_and] at heq
        obtain ⟨rfl, rfl⟩ := heq
        exact ⟨d, he1, rfl⟩
      · rintro ⟨b, hb, rfl⟩
        exact ⟨⟨some (rowOf p), ℓ, b⟩, List.mem_filter.2 ⟨hb, by simp⟩, rfl⟩
    rw [h1]
    constructor
    · rintro ⟨b, hb, rfl⟩
      obtain ⟨q, hq, rfl⟩ := (sk.row_step p hp ℓ b).1 hb
      exact ⟨q, hq, rfl⟩
    · rintro ⟨q, hq, rfl⟩
      exact ⟨rowOf q, (sk.row_step p hp ℓ _).2 ⟨q, hq, rfl⟩, rfl⟩
  have hgood : ∀ p ℓ q, RowState f p → RowStepF f p ℓ q → RowState f q := by
    intro p ℓ q hp hs
    obtain ⟨n0, items, vis, sk⟩ := export_skeleton f rows hr hp.1.ne_nil
    exact sk.rowState_step p ℓ q hp hs
  refine ⟨rows, σ, hr, ho, ?_, ?_, ?_, hstep, ?_⟩
  · intro p q hp hq heq
    exact rowOf_inj hp hq (hinj _ (hmem p hp) _ (hmem q hq) heq)
  · intro n0 h0
    rw [hE]
    apply List.mem_map.2
    refine ⟨startEdge n0, ?_, rfl⟩
    obtain ⟨order, _, _, hperm, _⟩ := export_preserves_graph f rows hr
    apply hperm.mem_iff.2
    simp [h0]
  · intro p hp
    obtain ⟨n0, items, vis, sk⟩ := export_skeleton f rows hr hp.1.ne_nil
    obtain ⟨x, hx, hx1, hx2⟩ := sk.row_payload_mem p hp
    refine ⟨x.2.2.2, ?_, hx2⟩
    rw [hN]
    exact List.mem_map.2 ⟨x, hx, by rw [hx1]⟩
  · intro p hp Ls cs
    exact lpath_of_step_iff (RowStepF f) (EdgeStep (edgesOfS out)) (fun q => σ (rowOf q)) (RowState f) hstep hgood Ls p cs hp

/-- a step of the flow is a walk of the expanded flow: through the remaining row models of the node by blank
steps, then the step itself — the label sequence gets `|rows| - 1` blank labels in front -/
theorem flowStep_expands (f : FlowX U) (n m : NodeX U) (ℓ : Label) (hs : FlowStep f n ℓ m) (j : Nat) (hj : j < n.rows.length) :
    LPath (RowStepF f) (n, j) (List.replicate (n.rows.length - 1 - j) blankLabel ++ [ℓ])
      (((List.range (n.rows.length - 1 - j)).map (fun k => (n, j + 1 + k))) ++ [(m, 0)]) := by
  generalize hk : n.rows.length - 1 - j = k
  induction k generalizing j with
  | zero =>
    exact ⟨Or.inr ⟨by simp only; omega, rfl, hs⟩, trivial⟩
  | succ k ih =>
    have := ih (j + 1) (by omega) (by omega)
    rw [List.replicate_succ, List.range_succ_eq_map]
    simp only [List.map_cons, List.cons_append, List.map_map]
    refine ⟨Or.inl ⟨rfl, rfl, by simp only; omega, rfl⟩, ?_⟩
    have hfun : ((fun k => (n, j + 1 + k)) ∘ Nat.succ) = (fun k => (n, j + 1 + 1 + k)) := by
      funext k; simp only [Function.comp]; congr 1; omega
    rw [Nat.add_zero, hfun]
    exact this

/-! ### what is still missing -/

/-- NOT proved: the GROUP-level statement for the final sheet that KEEPS its `_nodeId` column (`to_rows`
without `--strip_uuids`).  `export_paths` is about the temp-id sheet; the final ids are the temp ids renamed
by the injective `σ` of `export_row_paths_final`, and the row graph is the renamed row graph (proved), so what
is missing is only that the compiler's merge rule commutes with an injective renaming of the row ids: -/
def final_grouping_renamed_full : Prop :=
  ∀ (rows : List (RowT Nat)) (σ : TempId Nat → Str),
    (∀ a ∈ rows.map (·.id), ∀ b ∈ rows.map (·.id), σ a = σ b → a = b) →
    (∀ r ∈ rows, RowRefs (rows.map (·.id)) r) →
    groupRows ((rows.filter (fun r => r.goto.isEmpty)).map
        (fun r => (σ r.id, r.nodeId, r.cells.map (fun c => (c.1.map σ, c.2))))) =
      (groupsT rows).map (fun p => (σ p.1, σ p.2))

/-! ### non-vacuity and negative witnesses (kernel-evaluated) -/

instance (f : FlowX Nat) (n : NodeX Nat) (ℓ : Label) (m : NodeX Nat) : Decidable (FlowStep f n ℓ m) := by
  unfold FlowStep; infer_instance

instance (n : NodeX Nat) (ℓ : Label) : Decidable (FlowEnds n ℓ) := by unfold FlowEnds; infer_instance

def gB : NodeX Nat := ⟨2, "msg.b".toList, [("b".toList, none)], [([], some 3)]⟩
def gC : NodeX Nat := ⟨3, "msg.c".toList, [("c".toList, none)], [([], none)]⟩

/-- a label path through the self loop (c5), the cycle back to the first node (c6) and the join (c1 → b → c) -/
def pathLabels : List Label := [[], "c5".toList, "c6".toList, [], "c1".toList, []]
def pathNodes : List (NodeX Nat) := [gX, gX, gA, gX, gB, gC]

/-- the flow walks it … -/
theorem exG_flow_path : LPath (FlowStep exG) gA pathLabels pathNodes := by decide +kernel

/-- … the sheet of `exG` walks it through the groups of these nodes (computed on the sheet alone) … -/
theorem exG_sheet_path : LPath (sheetT rowsG).Step (firstId gA) pathLabels (pathNodes.map firstId) := by decide +kernel

/-- … it starts where the sheet starts, and performs the same payloads: a1 a2 (the two-row node) w w w a1 a2 w b c -/
theorem exG_path_trace :
    (sheetT rowsG).start = [firstId gA] ∧
    traceOf (sheetT rowsG).payloads (firstId gA) (pathNodes.map firstId) =
      ["a1", "a2", "w", "w", "a1", "a2", "w", "b", "c"].map String.toList ∧
    traceOf nodePayloads gA pathNodes = ["a1", "a2", "w", "w", "a1", "a2", "w", "b", "c"].map String.toList := by
  decide +kernel

/-- the theorems instantiated on that path (hypotheses are satisfiable) -/
example : LPath (sheetT rowsG).Step (firstId gA) pathLabels (pathNodes.map firstId) ∧
    endOf (firstId gA) (pathNodes.map firstId) = firstId (endOf gA pathNodes) ∧
    traceOf (sheetT rowsG).payloads (firstId gA) (pathNodes.map firstId) = traceOf nodePayloads gA pathNodes :=
  export_simulates exG rowsG rowsG_ok gA reach_gA pathLabels pathNodes exG_flow_path
example : ∃ ms, LPath (FlowStep exG) gA pathLabels ms ∧ pathNodes.map firstId = ms.map firstId :=
  (export_paths exG rowsG rowsG_ok gA reach_gA pathLabels _).1 exG_sheet_path
example : (sheetT rowsG).Step (firstId gX) "c6".toList (firstId gA) :=
  (export_step_forward exG rowsG rowsG_ok gX gA reach_gX _ (by decide +kernel)).1

/-- the groups of the sheet of `exG`: five nodes (the unreachable node 4 has none), the two rows of msg.a are
one group, linked by a blank edge -/
theorem exG_sheet_nodes :
    (sheetT rowsG).nodes.map (·.2) = ["msg.a", "split.x", "msg.b", "msg.c"].map String.toList ∧
    ((sheetT rowsG).groupOf (firstId gA)).map (fun x => (x.1.2, x.2)) =
      [("msg.a".toList, "a1".toList), ("msg.a.1".toList, "a2".toList)] ∧
    (sheetT rowsG).lastRow (firstId gA) = some (lastId gA) := by
  decide +kernel

/-- **F-C04-a along paths**: at the router of `exG` the label c4 (exit leads nowhere) is a transition on
neither side, and the sheet has no edge for it -/
example : (∀ m, ¬ FlowStep exG gX "c4".toList m) ∧ (∀ j, ¬ (sheetT rowsG).Step (firstId gX) "c4".toList j) ∧
    ∀ e ∈ edgesOfT rowsG, e.src = some (lastId gX) → e.label ≠ "c4".toList :=
  dangling_label_no_step exG rowsG rowsG_ok gX reach_gX _ (by decide) (by intro d hd; simp [gX] at hd)

/-- the transitions of the router of `exG`, flow order vs sheet order: the same multiset (`export_out_perm`),
NOT the same order — c2 comes back after c3 (F-C04-b; the join at msg.c) -/
theorem exG_router_out :
    (flowOut exG gX).map (fun p => (p.1, p.2.short)) =
      [("c1".toList, "msg.b".toList), ("c2".toList, "msg.c".toList), ("c3".toList, "msg.b".toList),
       ("c5".toList, "split.x".toList), ("c6".toList, "msg.a".toList)] ∧
    ((sheetT rowsG).out (firstId gX)).map (fun p => (p.1, p.2.2)) =
      [("c1".toList, "msg.b".toList), ("c3".toList, "msg.b".toList), ("c2".toList, "msg.c".toList),
       ("c5".toList, "split.x".toList), ("c6".toList, "msg.a".toList)] := by
  decide +kernel

/-- the order hypothesis of the test-order theorems is needed: the sheet of `exG` is not join-free, and at its
router the ordered lists differ -/
theorem needs_order_criterion :
    (¬ ∀ r ∈ rowsG, r.edges.length ≤ 1) ∧
    (sheetT rowsG).out (firstId gX) ≠ (flowOut exG gX).map (fun p => (p.1, firstId p.2)) :=
  ⟨by decide +kernel, by decide +kernel⟩

/-- non-vacuity of the test-order theorems: the self-loop flow `exL` (join-free sheet, a `go_to` row) -/
example : (sheetT rowsL).out (firstId lR) = (flowOut exL lR).map (fun p => (p.1, firstId p.2)) :=
  export_test_order_of_join_free exL rowsL rowsL_ok (by decide +kernel) lR (Reach.start rfl)
example : LPath (sheetT rowsL).Step (firstId lR) ["t2".toList, "t2".toList] ([lR, lR].map firstId) ∧
    ∀ m ∈ [lR, lR, lR], (sheetT rowsL).out (firstId m) = (flowOut exL m).map (fun p => (p.1, firstId p.2)) :=
  export_test_order_paths exL rowsL rowsL_ok (by decide +kernel) lR (Reach.start rfl) _ _ (by decide +kernel)
/-- … and of the criteria at a join: the diamond `exD` -/
example : (sheetT rowsD).out (firstId bR) = (flowOut exD bR).map (fun p => (p.1, firstId p.2)) :=
  export_test_order_of_not_prepended exD rowsD rowsD_ok bR (Reach.start rfl) diamond_order_preserved.2.1
example : (sheetT rowsD).out (firstId bR) = (flowOut exD bR).map (fun p => (p.1, firstId p.2)) ↔
    (exitsEdges exD bR).Pairwise (fun a b => pos (rowsD.map (·.id)) a.dst ≤ pos (rowsD.map (·.id)) b.dst) :=
  export_test_order_iff_targets_sorted exD rowsD rowsD_ok bR (Reach.start rfl) diamond_order_preserved.2.2.1

/-- **what goes wrong without `LabelsDistinct` AND without an order criterion**: `exB` with both tests
labelled `t`.  The relational theorems still hold (both branches exist on both sides: `export_paths`),
but "first matching test wins" takes DIFFERENT branches: the flow goes to msg.x, the sheet to msg.y —
the prepended edge at the join reorders two cases that only their order tells apart. -/
def exT : FlowX Nat :=
  [ ⟨0, "split".toList, [("r".toList, none)], [("t".toList, some 1), ("t".toList, some 2)]⟩,
    ⟨1, "msg.x".toList, [("x".toList, none)], [([], none)]⟩,
    ⟨2, "msg.y".toList, [("y".toList, none)], [([], some 1)]⟩ ]
def tR : NodeX Nat := ⟨0, "split".toList, [("r".toList, none)], [("t".toList, some 1), ("t".toList, some 2)]⟩
def rowsT : List (RowT Nat) := (toRowsT exT).toOption.getD []
theorem rowsT_ok : toRowsT exT = .ok rowsT := by decide +kernel

theorem needs_labels_distinct :
    ¬ LabelsDistinct exT ∧
    (firstMatch (flowOut exT tR) "t".toList).map (·.short) = some "msg.x".toList ∧
    (firstMatch ((sheetT rowsT).out (firstId tR)) "t".toList).map (·.2) = some "msg.y".toList ∧
    -- the sheet is not deterministic either: two different paths for the one label sequence [t]
    (∃ js js', js ≠ js' ∧ LPath (sheetT rowsT).Step (firstId tR) ["t".toList] js ∧
        LPath (sheetT rowsT).Step (firstId tR) ["t".toList] js') := by
  refine ⟨by decide +kernel, by decide +kernel, by decide +kernel, ?_⟩
  exact ⟨[((.inl 1), "msg.x".toList)], [((.inl 2), "msg.y".toList)], by decide +kernel, by decide +kernel, by decide +kernel⟩

/-- non-vacuity of `export_deterministic` / `flowStep_deterministic`: `exG` has distinct labels per node -/
theorem exG_labels_distinct : LabelsDistinct exG := by decide +kernel
example (js js' : List (TempId Nat)) (h1 : LPath (sheetT rowsG).Step (firstId gA) pathLabels js)
    (h2 : LPath (sheetT rowsG).Step (firstId gA) pathLabels js') : js = js' :=
  export_deterministic exG rowsG rowsG_ok exG_labels_distinct gA reach_gA _ _ _ h1 h2

/-- reachability is needed in the one-step theorem: the unreachable node of `exG` has a step to the first
node, the sheet has none (it has no group for it) -/
theorem needs_reachable_step :
    FlowStep exG gZ [] gA ∧ ¬ (sheetT rowsG).Step (firstId gZ) [] (firstId gA) ∧ (sheetT rowsG).groupOf (firstId gZ) = [] := by
  decide +kernel

/-! #### the row graph of the final sheet -/

instance (f : FlowX Nat) (p : NodeX Nat × Nat) (ℓ : Label) (q : NodeX Nat × Nat) : Decidable (RowStepF f p ℓ q) := by
  unfold RowStepF; infer_instance

/-- the final numbered sheet of `exG` (what `--strip_uuids` writes) -/
def outGn : List RowS := (strippedRows true exG).toOption.getD []
theorem outGn_ok : strippedRows true exG = .ok outGn := by decide +kernel

/-- the same walk at the row level: the two-row node msg.a is a chain of two one-row nodes (a blank step
between them), the self loop, the cycle and the join are as in the flow -/
def rowLabels : List Label := [[], [], "c5".toList, "c6".toList, [], [], "c1".toList, []]
theorem exG_row_path :
    LPath (RowStepF exG) (gA, 0) rowLabels [(gA, 1), (gX, 0), (gX, 0), (gA, 0), (gA, 1), (gX, 0), (gB, 0), (gC, 0)] ∧
    LPath (EdgeStep (edgesOfS outGn)) "1".toList rowLabels (["2", "3", "3", "1", "2", "3", "4", "5"].map String.toList) ∧
    nodeRowsS outGn = [("1", "a1"), ("2", "a2"), ("3", "w"), ("4", "b"), ("5", "c")].map (fun x => (x.1.toList, x.2.toList)) := by
  decide +kernel

/-- non-vacuity of `export_row_paths` / `export_row_paths_final` / `flowStep_expands` -/
example : ∃ qs, LPath (RowStepF exG) (gA, 0) rowLabels qs ∧
    [(gA, 1), (gX, 0), (gX, 0), (gA, 0), (gA, 1), (gX, 0), (gB, 0), (gC, 0)].map rowOf = qs.map rowOf :=
  (export_row_paths exG rowsG rowsG_ok (gA, 0) ⟨reach_gA, by decide⟩ rowLabels _).1 (by decide +kernel)
example : ∃ (rows : List (RowT Nat)) (σ : TempId Nat → Str), toRowsT exG = .ok rows ∧ outGn = rows.map (renameRow σ) := by
  obtain ⟨rows, σ, h1, h2, _⟩ := export_row_paths_final true exG outGn outGn_ok
  exact ⟨rows, σ, h1, h2⟩
example : LPath (RowStepF exG) (gA, 0) [[], []] [(gA, 1), (gX, 0)] :=
  flowStep_expands exG gA gX [] (by decide +kernel) 0 (by decide)

/-- a state must be a row model of a REACHABLE node: the unreachable node of `exG` has a step in the
expanded flow, its row has none in the sheet (it has no row) -/
theorem needs_row_state :
    RowStepF exG (gZ, 0) [] (gA, 0) ∧ ¬ EdgeStep (edgesOfT rowsG) (rowOf (gZ, 0)) [] (rowOf (gA, 0)) := by
  decide +kernel

end Rpft.Props.C04
