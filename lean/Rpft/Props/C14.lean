/-
C14 — Workbook format does not matter: CSV, XLSX and JSON inputs compile identically.  (PARTIAL)

What is proved: the repo's own post-processing of the grids the libraries deliver —
`XLSXSheetReader._sanitize`, `to_json` (`table.dict`), `JSONSheetReader` (`table.dict = …`) and
tablib's CSV record loop, all in `Rpft/Sheets.lean` — is the identity on rectangular text sheets
under explicit hypotheses, each of which is shown necessary by a kernel-checked witness that is
replayed on the real code by `harness/props/c14.py`.

What is NOT proved (`C14_full` below): that the byte formats themselves (Python `csv`, openpyxl,
`json`, file encodings) deliver the written grid.  That part is library code; it is exercised on
every run by the harness (trusted base §3.4), not modelled.
-/
import Rpft.Lemmas.Sheets
import Rpft.Gen.Tables
set_option linter.unusedSimpArgs false
set_option linter.unusedVariables false
namespace Rpft.Props.C14
open Rpft Rpft.Sheets

/-- T1: the format → reader table of the model is the one in the source (regenerated each run). -/
theorem tables_agree : Gen.sheetFormatReaders = formatReaders := by decide

/-! ### hypotheses -/

/-- every row has exactly one cell per header -/
def Rect (s : Sheet) : Prop := ∀ r ∈ s.rows, r.length = s.headers.length

/-- no row consists of empty cells only -/
def NoBlankRow (s : Sheet) : Prop := ∀ r ∈ s.rows, r.any (fun c => !c.isEmpty) = true

/-- there is a header, and the last header is not the empty string -/
def LastHeaderPresent (s : Sheet) : Prop :=
  ∃ l, s.headers.getLast? = some l ∧ l ≠ []

instance (s : Sheet) : Decidable (Rect s) := by unfold Rect; infer_instance
instance (s : Sheet) : Decidable (NoBlankRow s) := by unfold NoBlankRow; infer_instance

/-! ### JSON: `convert` then `JSONSheetReader` -/

/-- **JSON round trip**: what `to_json` writes for a sheet, `JSONSheetReader` reads back as the
same sheet — for rectangular sheets with distinct headers and at least one row. -/
theorem json_roundtrip (s : Sheet) (hrect : Rect s) (hnd : s.headers.Nodup) (hrows : s.rows ≠ []) :
    readJson s.name (toJson s) = .ok s := by
  obtain ⟨name, headers, rows⟩ := s
  simp only [Rect] at hrect
  simp only at hnd hrows
  unfold toJson tableDict
  cases hh : headers with
  | nil =>
    subst hh
    cases rows with
    | nil => exact absurd rfl hrows
    | cons r rs =>
      have := appendAll_ok ([] : List Str) 0 rfl (r :: rs) []
        (by intro x hx; simpa using hrect x hx) (by simp)
      simp [readJson, this]
  | cons h hs =>
    subst hh
    cases rows with
    | nil => exact absurd rfl hrows
    | cons r rs =>
      have hzip : ∀ x ∈ r :: rs, odOfPairs ((h :: hs).zip x) = (h :: hs).zip x := by
        intro x hx
        apply odOfPairs_nodup
        rw [List.map_fst_zip (by rw [hrect x hx]; exact Nat.le_refl _)]
        exact hnd
      have hmap : (r :: rs).map (fun x => odOfPairs ((h :: hs).zip x))
          = (r :: rs).map (fun x => (h :: hs).zip x) :=
        List.map_congr_left hzip
      have hfst : ((h :: hs).zip r).map Prod.fst = h :: hs :=
        List.map_fst_zip (by rw [hrect r (by simp)]; exact Nat.le_refl _)
      have hsnd : ((r :: rs).map (fun x => (h :: hs).zip x)).map (fun p => p.map Prod.snd)
          = r :: rs := by
        rw [List.map_map]
        conv => rhs; rw [← List.map_id (r :: rs)]
        apply List.map_congr_left
        intro x hx
        simp only [Function.comp, id]
        exact List.map_snd_zip (by rw [hrect x hx]; exact Nat.le_refl _)
      have happ := appendAll_ok (h :: hs) (h :: hs).length rfl (r :: rs) []
        (by intro x hx; exact hrect x hx) (by simp)
      simp only [List.isEmpty_cons, Bool.false_eq_true, if_false]
      rw [hmap]
      simp only [List.map_cons] at hsnd ⊢
      simp only [readJson, hfst, List.map_cons]
      rw [hsnd, happ]
      simp

example : Rect ⟨"s".toList, ["a".toList, "b".toList], [["1".toList, [] ], [[], "x".toList]]⟩ ∧
    (["a".toList, "b".toList] : List Str).Nodup ∧
    ([["1".toList, [] ], [[], "x".toList]] : List (List Str)) ≠ [] := by decide

/-- a header-only sheet loses its headers through JSON (`table.dict == []`) — genuine on the
real code, known finding F-C14-b. -/
def wHeaderOnly : Sheet := ⟨"s".toList, ["a".toList, "b".toList], []⟩

theorem needs_rows :
    Rect wHeaderOnly ∧ wHeaderOnly.headers.Nodup ∧ readJson wHeaderOnly.name (toJson wHeaderOnly) ≠ .ok wHeaderOnly := by decide

/-- duplicate headers collapse in `table.dict`: the row comes back one cell short -/
def wDupHeaders : Sheet := ⟨"s".toList, ["a".toList, "a".toList], [["1".toList, "2".toList]]⟩

theorem needs_nodup :
    Rect wDupHeaders ∧ wDupHeaders.rows ≠ [] ∧ readJson wDupHeaders.name (toJson wDupHeaders) ≠ .ok wDupHeaders := by decide

/-- a row longer than the header list is cut by `zip` -/
def wLongRow : Sheet := ⟨"s".toList, ["a".toList], [["1".toList, "2".toList]]⟩

theorem needs_rect :
    wLongRow.headers.Nodup ∧ wLongRow.rows ≠ [] ∧ readJson wLongRow.name (toJson wLongRow) ≠ .ok wLongRow := by decide

/-! ### XLSX: `_sanitize` -/

/-- `_sanitize` on what openpyxl delivers for a rectangular text sheet (empty cells AND empty
header cells arrive as `None`) without an all-empty row and with a last header: rows unchanged,
headers unchanged except that an empty header that is not the last stays `None`. -/
theorem xlsx_sanitize_grid (s : Sheet) (hrect : Rect s) (hnb : NoBlankRow s)
    (hlast : LastHeaderPresent s) :
    xlsxSanitize (toXlsxGrid s) = .ok ⟨s.headers.map toXHeader, s.rows⟩ := by
  obtain ⟨name, headers, rows⟩ := s
  obtain ⟨l, hl, hlne⟩ := hlast
  simp only [Rect, NoBlankRow] at hrect hnb hl
  have hpop : popTrailingNone (headers.map toXHeader) = headers.map toXHeader := by
    apply popTrailingNone_of_last_some _ (toXHeader l)
    · rw [List.getLast?_map, hl]; rfl
    · unfold toXHeader; cases l with
      | nil => exact absurd rfl hlne
      | cons a t => rfl
  have hne : headers ≠ [] := by intro h; subst h; simp at hl
  have hrows := sanitizeRows_ok (headers.map toXHeader) (rows.map (fun r => r.map toXCell)) []
    (by
      intro r hr
      simp only [List.mem_map] at hr
      obtain ⟨r0, hr0, rfl⟩ := hr
      rw [map_cellStr_toXCell]
      exact ⟨by simpa using hrect r0 hr0, hnb r0 hr0⟩)
    (by simp)
  have hmm : (rows.map (fun r => r.map toXCell)).map (fun r => r.map cellStr) = rows := by
    rw [List.map_map]
    conv => rhs; rw [← List.map_id rows]
    apply List.map_congr_left
    intro x _
    simp only [Function.comp, id, map_cellStr_toXCell]
  have hemp : (headers.map toXHeader).isEmpty = false := by
    cases headers with
    | nil => exact absurd rfl hne
    | cons a t => rfl
  unfold xlsxSanitize toXlsxGrid
  simp only [hpop, hemp, Bool.false_eq_true, if_false, hrows, hmm, List.nil_append]

/-- all headers are non-empty text (the property's "unique non-empty headers") -/
def HeadersPresent (s : Sheet) : Prop := s.headers ≠ [] ∧ ∀ h ∈ s.headers, h ≠ []

instance (s : Sheet) : Decidable (HeadersPresent s) := by unfold HeadersPresent; infer_instance

theorem lastHeaderPresent_of_headersPresent {s : Sheet} (h : HeadersPresent s) :
    LastHeaderPresent s := by
  obtain ⟨hne, hall⟩ := h
  cases hl : s.headers.getLast? with
  | none => rw [List.getLast?_eq_none_iff] at hl; exact absurd hl hne
  | some l => exact ⟨l, hl, hall l (List.mem_of_getLast? hl)⟩

/-- **`_sanitize` is the identity** on rectangular text sheets with non-empty headers and no
all-empty row. -/
theorem xlsx_sanitize_id (s : Sheet) (hrect : Rect s) (hnb : NoBlankRow s)
    (hh : HeadersPresent s) :
    xlsxSanitize (toXlsxGrid s) = .ok (XTable.ofSheet s) := by
  rw [xlsx_sanitize_grid s hrect hnb (lastHeaderPresent_of_headersPresent hh)]
  have : s.headers.map toXHeader = s.headers.map some := by
    apply List.map_congr_left
    intro h hmem
    unfold toXHeader
    cases h with
    | nil => exact absurd rfl (hh.2 [] hmem)
    | cons a t => rfl
  simp [XTable.ofSheet, this]

/-- … and the sanitized table is the sheet itself -/
theorem ofSheet_toSheet (s : Sheet) : (XTable.ofSheet s).toSheet? s.name = some s := by
  obtain ⟨name, headers, rows⟩ := s
  have h1 : (headers.map some).all Option.isSome = true := by simp
  have h2 : (headers.map (some : Str → Option Str)).filterMap id = headers := by
    induction headers with
    | nil => rfl
    | cons a t ih => simp
  simp [XTable.ofSheet, XTable.toSheet?, h2]

example :
    let s : Sheet := ⟨"s".toList, ["a".toList, "b".toList], [["1".toList, [] ], [[], "0".toList]]⟩
    Rect s ∧ NoBlankRow s ∧ HeadersPresent s := by decide

/-- an all-empty row is dropped by `_sanitize` (and kept by the CSV and JSON readers) — genuine on
the real code, known finding F-C14-a. -/
def wBlankRow : Sheet := ⟨"s".toList, ["a".toList, "b".toList],
      [["1".toList, "2".toList], [[], []], ["3".toList, "4".toList]]⟩

theorem needs_NoBlankRow :
    Rect wBlankRow ∧ HeadersPresent wBlankRow ∧ xlsxSanitize (toXlsxGrid wBlankRow) ≠ .ok (XTable.ofSheet wBlankRow) ∧
      readCsv wBlankRow.name (toCsvRecords wBlankRow) = .ok wBlankRow ∧ readJson wBlankRow.name (toJson wBlankRow) = .ok wBlankRow := by decide

/-- a column whose header is empty and last is cut off together with its cells -/
def wEmptyLastHeader : Sheet := ⟨"s".toList, ["a".toList, []], [["1".toList, "2".toList]]⟩

theorem needs_last_header :
    Rect wEmptyLastHeader ∧ NoBlankRow wEmptyLastHeader ∧
      xlsxSanitize (toXlsxGrid wEmptyLastHeader) = .ok ⟨[some "a".toList], [["1".toList]]⟩ := by decide

/-- an empty header that is not the last stays `None` (and is not a string any more) -/
def wEmptyFirstHeader : Sheet := ⟨"s".toList, [[], "b".toList], [["1".toList, "2".toList]]⟩

theorem needs_headers_present :
    Rect wEmptyFirstHeader ∧ NoBlankRow wEmptyFirstHeader ∧ LastHeaderPresent wEmptyFirstHeader ∧
      xlsxSanitize (toXlsxGrid wEmptyFirstHeader) ≠ .ok (XTable.ofSheet wEmptyFirstHeader) := by
  refine ⟨by decide, by decide, ⟨"b".toList, by decide, by decide⟩, by decide⟩

/-- ragged input: a row longer than the header list is truncated, not rejected -/
theorem sanitize_truncates :
    xlsxSanitize ⟨some [some "a".toList, none], [[.str "1".toList, .str "2".toList]]⟩
      = .ok ⟨[some "a".toList], [["1".toList]]⟩ := by decide

/-- truthiness is that of the STRING: `"0"` and `"False"` keep their row -/
theorem sanitize_keeps_zero_row :
    xlsxSanitize ⟨some [some "a".toList], [[.str "0".toList], [.bool false], [.int 0], [.none]]⟩
      = .ok ⟨[some "a".toList], [["0".toList], ["False".toList], ["0".toList]]⟩ := by decide

/-- **`_sanitize` is idempotent**: whatever it returns, it returns again when fed its own output
(as text cells) — for EVERY input grid, also ragged ones with `None`s anywhere. -/
theorem sanitize_idem (g : XGrid) (t : XTable) (h : xlsxSanitize g = .ok t) :
    xlsxSanitize t.toGrid = .ok t := by
  unfold xlsxSanitize at h
  split at h
  · cases h
  · rename_i hs0 hg
    simp only at h
    split at h
    · cases h
    · rename_i hemp
      split at h
      · rename_i rows hrows
        simp only [Except.ok.injEq] at h
        subst h
        have hne : popTrailingNone hs0 ≠ [] := by
          intro e; rw [e] at hemp; simp at hemp
        have hinv := sanitizeRows_inv (popTrailingNone hs0) hne g.rows [] rows hrows (by simp)
        have hpop : popTrailingNone (popTrailingNone hs0) = popTrailingNone hs0 := by
          cases hl : (popTrailingNone hs0).getLast? with
          | none => rw [List.getLast?_eq_none_iff] at hl; exact absurd hl hne
          | some l =>
            exact popTrailingNone_of_last_some _ l hl (popTrailingNone_last hs0 l hl)
        have hok := sanitizeRows_ok (popTrailingNone hs0) (rows.map (fun r => r.map XVal.str)) []
          (by
            intro r hr
            simp only [List.mem_map] at hr
            obtain ⟨r0, hr0, rfl⟩ := hr
            rw [map_cellStr_str]
            exact hinv r0 hr0)
          (by simp)
        have hmm : (rows.map (fun r => r.map XVal.str)).map (fun r => r.map cellStr) = rows := by
          rw [List.map_map]
          conv => rhs; rw [← List.map_id rows]
          apply List.map_congr_left
          intro x _
          simp only [Function.comp, id, map_cellStr_str]
        unfold xlsxSanitize XTable.toGrid
        simp only [hpop, hemp, hok, hmm, List.nil_append, Bool.false_eq_true, if_false]
      · cases h

/-! ### CSV: tablib's record loop -/

/-- the CSV record loop is the identity on rectangular sheets that have a header (a record with
at least one field is never "blank") -/
theorem csv_read_id (s : Sheet) (hrect : Rect s) (hne : s.headers ≠ []) :
    readCsv s.name (toCsvRecords s) = .ok s := by
  obtain ⟨name, headers, rows⟩ := s
  simp only [Rect] at hrect hne
  have hpos : headers.length ≠ 0 := fun h0 => hne (List.eq_nil_of_length_eq_zero h0)
  have key : ∀ (rs acc : List (List Str)), (∀ r ∈ rs, r.length = headers.length) →
      (∀ r ∈ acc, r.length = headers.length) → csvRows headers rs acc = .ok (acc ++ rs) := by
    intro rs
    induction rs with
    | nil => intro acc _ _; simp [csvRows]
    | cons r rs ih =>
      intro acc hrs hacc
      have hr : r.length = headers.length := hrs r (by simp)
      have hre : r.isEmpty = false := by
        cases r with
        | nil => simp at hr; exact absurd hr.symm hpos
        | cons a t => rfl
      have hw := width_of_uniform headers headers.length rfl acc hacc
      have hv := validRow_of_uniform headers headers.length rfl acc hacc r hr
      simp only [csvRows, hre, Bool.false_eq_true, if_false, hw, hr, Nat.lt_irrefl, hv, if_true]
      rw [ih (acc ++ [r]) (fun x hx => hrs x (by simp [hx]))
        (by intro x hx; simp only [List.mem_append, List.mem_singleton] at hx
            rcases hx with hx | hx
            · exact hacc x hx
            · exact hx ▸ hr)]
      simp
  simp [readCsv, toCsvRecords, key rows [] hrect (by simp)]

/-- without a header the (empty) records are blank lines and disappear -/
def wNoHeader : Sheet := ⟨"s".toList, [], [[], []]⟩

theorem csv_needs_header :
    Rect wNoHeader ∧ readCsv wNoHeader.name (toCsvRecords wNoHeader) ≠ .ok wNoHeader := by decide

/-! ### the three formats together, and `convert` followed by compilation -/

/-- the property's domain: rectangular, distinct non-empty headers, at least one row, no
all-empty row -/
structure Good (s : Sheet) : Prop where
  rect : Rect s
  nodup : s.headers.Nodup
  headers : HeadersPresent s
  rows : s.rows ≠ []
  noBlank : NoBlankRow s

/-- `to_json(reader)` over the sheets of a reader / `JSONSheetReader` over the sheets of the
file.  (Sheet names are the keys of a Python dict on both sides, hence distinct; the order of the
keys is the order of the sheets.) -/
def convertBook (w : Workbook) : List (Str × JContent) := w.map (fun s => (s.name, toJson s))

def readJsonBook (b : List (Str × JContent)) : Except SErr Workbook :=
  b.mapM (fun p => readJson p.1 p.2)

def readXlsxBook (b : List (Str × XGrid)) : Except SErr (List (Str × XTable)) :=
  b.mapM (fun p => (xlsxSanitize p.2).map (fun t => (p.1, t)))

/-- **all three readers deliver the same sheet** -/
theorem formats_agree (s : Sheet) (g : Good s) :
    readCsv s.name (toCsvRecords s) = .ok s ∧
    (xlsxSanitize (toXlsxGrid s)).map (fun t => t.toSheet? s.name) = .ok (some s) ∧
    readJson s.name (toJson s) = .ok s := by
  refine ⟨csv_read_id s g.rect g.headers.1, ?_, json_roundtrip s g.rect g.nodup g.rows⟩
  rw [xlsx_sanitize_id s g.rect g.noBlank g.headers]
  simp [Except.map, ofSheet_toSheet]

theorem convert_then_read (w : Workbook)
    (h : ∀ s ∈ w, Rect s ∧ s.headers.Nodup ∧ s.rows ≠ []) :
    readJsonBook (convertBook w) = .ok w := by
  unfold readJsonBook convertBook
  induction w with
  | nil => rfl
  | cons s w ih =>
    obtain ⟨h1, h2, h3⟩ := h s (by simp)
    have ih' := ih (fun x hx => h x (by simp [hx]))
    simp only [List.map_cons, List.mapM_cons, json_roundtrip s h1 h2 h3]
    simp only [bind, Except.bind, pure, Except.pure] at ih' ⊢
    rw [ih']

/-- **`convert` followed by compilation = compiling the source** — for ANY compiler that is a
function of the sheets.  (Thin by design: the whole content is `convert_then_read`; that the real
`create_flows` is a function of `reader.sheets` up to invented UUIDs is C13's business and is
exercised, not proved, here.) -/
theorem convert_then_compile {β : Type} (compile : Workbook → β) (w : Workbook)
    (h : ∀ s ∈ w, Rect s ∧ s.headers.Nodup ∧ s.rows ≠ []) :
    (readJsonBook (convertBook w)).map compile = .ok (compile w) := by
  rw [convert_then_read w h]; rfl

example : Good ⟨"s".toList, ["a".toList, "b".toList], [["1".toList, [] ], [[], "0".toList]]⟩ :=
  ⟨by decide, by decide, by decide, by decide, by decide⟩

/-- The full statement of C14, kept visible: for EVERY byte-level writer/reader pair of the three
formats that is faithful on grids (`csvBytes`, `xlsxBytes`, `jsonBytes` deliver what was written),
the three readers agree on `Good` sheets.  The faithfulness premises are exactly the part that is
library code; they are exercised by the harness on every run, not proved. -/
def C14_full : Prop :=
  ∀ (Bytes : Type)
    (writeCsv : Sheet → Bytes) (parseCsv : Bytes → List (List Str))
    (writeXlsx : Sheet → Bytes) (parseXlsx : Bytes → XGrid)
    (writeJson : JContent → Bytes) (parseJson : Bytes → JContent),
    (∀ s, parseCsv (writeCsv s) = toCsvRecords s) →
    (∀ s, parseXlsx (writeXlsx s) = toXlsxGrid s) →
    (∀ c, parseJson (writeJson c) = c) →
    ∀ s, Good s →
      readCsv s.name (parseCsv (writeCsv s)) = .ok s ∧
      (xlsxSanitize (parseXlsx (writeXlsx s))).map (fun t => t.toSheet? s.name) = .ok (some s) ∧
      readJson s.name (parseJson (writeJson (toJson s))) = .ok s

/-- `C14_full` holds *relative to* the library premises it names — which is all a model that stops
at the library boundary can say; hence the claim stays PARTIAL. -/
theorem c14_partial : C14_full := by
  intro Bytes wc pc wx px wj pj hc hx hj s g
  rw [hc, hx, hj]
  exact formats_agree s g

end Rpft.Props.C14
