/-
C14 — Workbook format does not matter: CSV, XLSX and JSON inputs compile identically.  (PARTIAL)

What is proved: the repo's own post-processing of the grids the libraries deliver —
`XLSXSheetReader._sanitize`, `to_json` (`table.dict`), `JSONSheetReader` (`table.dict = …`) and
tablib's CSV record loop, all in `Rpft/Sheets.lean` — is the identity on rectangular text sheets
under explicit hypotheses (and, in general, "the sheet with its all-empty rows removed": every reader
omits them — `readers_agree_on_blank_rows`, the CSV and JSON readers through `omit_empty_rows`), each of which is shown necessary by a kernel-checked witness that is
replayed on the real code by `harness/props/c14.py`.

The CSV byte format is INSIDE the model (`Rpft/Csv.lean`: `csv.writer` with the project's dialect,
text-mode line iteration with `newline=""`, the `csv.reader` automaton with its field limit, UTF-8)
and its round trip is proved for ALL grids (`csv_read_write`, `csv_reader_grammar`,
`csv_file_roundtrip`); the model of the library is tied to the real `csv` module on every run.

The JSON byte format is inside the model too (`Rpft/JsonText.lean`: `json.dumps(…, ensure_ascii=False,
indent=2)` and `json.loads` for strings / arrays / objects; `Rpft/Sheets.lean`: the `book` value of
`to_json`, text-mode reading, `JSONSheetReader`'s loop): `json_string_roundtrip`,
`json_document_roundtrip`, `json_file_roundtrip`.

What is NOT proved (`C14_full` below): that the XLSX byte format (openpyxl: zip + XML) delivers the
written grid.  That part is library code; it is exercised on every run by the harness
(trusted base §3.4), not modelled.
-/
import Rpft.Lemmas.Sheets
import Rpft.Lemmas.Csv
import Rpft.Lemmas.JsonText
import Rpft.Lemmas.JsonBook
import Rpft.Gen.Tables
import Rpft.Canon
set_option linter.unusedSimpArgs false
set_option linter.unusedVariables false
namespace Rpft.Props.C14
open Rpft Rpft.Sheets

/-- T1: the format → reader table of the model is the one of the source (regenerated each run by
probing `create_sheet_reader`).  A lookup on distinct format words: compared up to order. -/
theorem tables_agree :
    Canon.sameMap Gen.sheetFormatReaders formatReaders ∧ Canon.uniqueKeys formatReaders = true := by decide

/-! ### hypotheses -/

/-- every row has exactly one cell per header -/
def Rect (s : Sheet) : Prop := ∀ r ∈ s.rows, r.length = s.headers.length

/-- no row consists of empty cells only -/
def NoBlankRow (s : Sheet) : Prop := ∀ r ∈ s.rows, r.any (fun c => !c.isEmpty) = true

/-- there is a header, and the last header is not the empty string -/
def LastHeaderPresent (s : Sheet) : Prop :=
  ∃ l, s.headers.getLast? = some l ∧ l ≠ []

instance (s : Sheet) : Decidable (Rect s) := by unfold Rect; infer_instance
instance (s : Sheet) : Decidable (NoBlankRow s) := by unfold NoBlankRow; infer_instance

/-! ### `omit_empty_rows` (what `load_csv` and `JSONSheetReader` apply to the Dataset tablib built) -/

/-- **`omit_empty_rows` changes nothing exactly on the sheets without an all-empty row** -/
theorem omitEmpty_eq_self_iff (s : Sheet) : s.omitEmpty = s ↔ NoBlankRow s := by
  obtain ⟨name, headers, rows⟩ := s
  simp only [Sheet.omitEmpty, NoBlankRow, Sheet.mk.injEq, true_and]
  exact omitEmptyRows_eq_self_iff rows

/-- what it returns has no all-empty row, for EVERY sheet … -/
theorem omitEmpty_noBlank (s : Sheet) : NoBlankRow s.omitEmpty := by
  intro r hr
  exact (mem_omitEmptyRows.mp hr).2

/-- … so doing it twice is doing it once … -/
theorem omitEmpty_idem (s : Sheet) : s.omitEmpty.omitEmpty = s.omitEmpty :=
  (omitEmpty_eq_self_iff _).2 (omitEmpty_noBlank s)

/-- … and it keeps a rectangular sheet rectangular (rows are removed, never altered) -/
theorem omitEmpty_rect (s : Sheet) (h : Rect s) : Rect s.omitEmpty := by
  intro r hr
  exact h r (mem_omitEmptyRows.mp hr).1

/-- start / middle / end, several in a row; a cell of one blank is NOT empty -/
theorem omitEmpty_example :
    (⟨"s".toList, ["a".toList, "b".toList],
      [[[], []], ["1".toList, []], [[], []], [[], []], [" ".toList, []], [[], []]]⟩ : Sheet).omitEmpty
      = ⟨"s".toList, ["a".toList, "b".toList], [["1".toList, []], [" ".toList, []]]⟩ := by decide

/-! ### JSON: `convert` then `JSONSheetReader` -/

/-- **JSON round trip**: what `to_json` writes for a sheet, `JSONSheetReader` reads back as the
same sheet — for rectangular sheets with distinct headers and at least one row. -/
theorem json_roundtrip (s : Sheet) (hrect : Rect s) (hnd : s.headers.Nodup) (hrows : s.rows ≠ []) :
    readJson s.name (toJson s) = .ok s := by
  obtain ⟨name, headers, rows⟩ := s
  simp only [Rect] at hrect
  simp only at hnd hrows
  unfold toJson tableDict
  cases hh : headers with
  | nil =>
    subst hh
    cases rows with
    | nil => exact absurd rfl hrows
    | cons r rs =>
      have := appendAll_ok ([] : List Str) 0 rfl (r :: rs) []
        (by intro x hx; simpa using hrect x hx) (by simp)
      simp [readJson, this]
  | cons h hs =>
    subst hh
    cases rows with
    | nil => exact absurd rfl hrows
    | cons r rs =>
      have hzip : ∀ x ∈ r :: rs, odOfPairs ((h :: hs).zip x) = (h :: hs).zip x := by
        intro x hx
        apply odOfPairs_nodup
        rw [List.map_fst_zip (by rw [hrect x hx]; exact Nat.le_refl _)]
        exact hnd
      have hmap : (r :: rs).map (fun x => odOfPairs ((h :: hs).zip x))
          = (r :: rs).map (fun x => (h :: hs).zip x) :=
        List.map_congr_left hzip
      have hfst : ((h :: hs).zip r).map Prod.fst = h :: hs :=
        List.map_fst_zip (by rw [hrect r (by simp)]; exact Nat.le_refl _)
      have hsnd : ((r :: rs).map (fun x => (h :: hs).zip x)).map (fun p => p.map Prod.snd)
          = r :: rs := by
        rw [List.map_map]
        conv => rhs; rw [← List.map_id (r :: rs)]
        apply List.map_congr_left
        intro x hx
        simp only [Function.comp, id]
        exact List.map_snd_zip (by rw [hrect x hx]; exact Nat.le_refl _)
      have happ := appendAll_ok (h :: hs) (h :: hs).length rfl (r :: rs) []
        (by intro x hx; exact hrect x hx) (by simp)
      simp only [List.isEmpty_cons, Bool.false_eq_true, if_false]
      rw [hmap]
      simp only [List.map_cons] at hsnd ⊢
      simp only [readJson, hfst, List.map_cons]
      rw [hsnd, happ]
      simp

example : Rect ⟨"s".toList, ["a".toList, "b".toList], [["1".toList, [] ], [[], "x".toList]]⟩ ∧
    (["a".toList, "b".toList] : List Str).Nodup ∧
    ([["1".toList, [] ], [[], "x".toList]] : List (List Str)) ≠ [] := by decide

/-- a header-only sheet loses its headers through JSON (`table.dict == []`) — genuine on the
real code, known finding F-C14-b. -/
def wHeaderOnly : Sheet := ⟨"s".toList, ["a".toList, "b".toList], []⟩

theorem needs_rows :
    Rect wHeaderOnly ∧ wHeaderOnly.headers.Nodup ∧ readJson wHeaderOnly.name (toJson wHeaderOnly) ≠ .ok wHeaderOnly := by decide

/-- duplicate headers collapse in `table.dict`: the row comes back one cell short -/
def wDupHeaders : Sheet := ⟨"s".toList, ["a".toList, "a".toList], [["1".toList, "2".toList]]⟩

theorem needs_nodup :
    Rect wDupHeaders ∧ wDupHeaders.rows ≠ [] ∧ readJson wDupHeaders.name (toJson wDupHeaders) ≠ .ok wDupHeaders := by decide

/-- a row longer than the header list is cut by `zip` -/
def wLongRow : Sheet := ⟨"s".toList, ["a".toList], [["1".toList, "2".toList]]⟩

theorem needs_rect :
    wLongRow.headers.Nodup ∧ wLongRow.rows ≠ [] ∧ readJson wLongRow.name (toJson wLongRow) ≠ .ok wLongRow := by decide

/-- **the JSON reader, every sheet**: what `to_json` writes, `JSONSheetReader` (`table.dict = …`
then `omit_empty_rows`) reads back as the sheet WITHOUT its all-empty rows. -/
theorem json_reader_general (s : Sheet) (hrect : Rect s) (hnd : s.headers.Nodup) (hrows : s.rows ≠ []) :
    readJsonSheet s.name (toJson s) = .ok s.omitEmpty := by
  simp [readJsonSheet, json_roundtrip s hrect hnd hrows]

/-- … hence as the same sheet when it has no all-empty row -/
theorem json_reader_id (s : Sheet) (hrect : Rect s) (hnd : s.headers.Nodup) (hrows : s.rows ≠ [])
    (hnb : NoBlankRow s) : readJsonSheet s.name (toJson s) = .ok s := by
  rw [json_reader_general s hrect hnd hrows, (omitEmpty_eq_self_iff s).2 hnb]

example :
    let s : Sheet := ⟨"s".toList, ["a".toList, "b".toList], [["1".toList, [] ], [[], "x".toList]]⟩
    Rect s ∧ s.headers.Nodup ∧ s.rows ≠ [] ∧ NoBlankRow s := by decide

/-! ### XLSX: `_sanitize` -/

/-- `_sanitize` on what openpyxl delivers for ANY rectangular text sheet with a last header (empty
cells AND empty header cells arrive as `None`): the all-empty rows are gone, the other rows
unchanged, headers unchanged except that an empty header that is not the last stays `None`. -/
theorem xlsx_sanitize_grid_general (s : Sheet) (hrect : Rect s) (hlast : LastHeaderPresent s) :
    xlsxSanitize (toXlsxGrid s) = .ok ⟨s.headers.map toXHeader, omitEmptyRows s.rows⟩ := by
  obtain ⟨name, headers, rows⟩ := s
  obtain ⟨l, hl, hlne⟩ := hlast
  simp only [Rect] at hrect hl
  have hpop : popTrailingNone (headers.map toXHeader) = headers.map toXHeader := by
    apply popTrailingNone_of_last_some _ (toXHeader l)
    · rw [List.getLast?_map, hl]; rfl
    · unfold toXHeader; cases l with
      | nil => exact absurd rfl hlne
      | cons a t => rfl
  have hne : headers ≠ [] := by intro h; subst h; simp at hl
  have hrows := sanitizeRows_filter (headers.map toXHeader) (rows.map (fun r => r.map toXCell)) []
    (by
      intro r hr
      simp only [List.mem_map] at hr
      obtain ⟨r0, hr0, rfl⟩ := hr
      rw [map_cellStr_toXCell]
      simpa using hrect r0 hr0)
    (by simp)
  have hmm : (rows.map (fun r => r.map toXCell)).map (fun r => r.map cellStr) = rows := by
    rw [List.map_map]
    conv => rhs; rw [← List.map_id rows]
    apply List.map_congr_left
    intro x _
    simp only [Function.comp, id, map_cellStr_toXCell]
  have hemp : (headers.map toXHeader).isEmpty = false := by
    cases headers with
    | nil => exact absurd rfl hne
    | cons a t => rfl
  unfold xlsxSanitize toXlsxGrid
  simp only [hpop, hemp, Bool.false_eq_true, if_false, hrows, hmm, List.nil_append]

/-- … hence, without an all-empty row: rows unchanged -/
theorem xlsx_sanitize_grid (s : Sheet) (hrect : Rect s) (hnb : NoBlankRow s)
    (hlast : LastHeaderPresent s) :
    xlsxSanitize (toXlsxGrid s) = .ok ⟨s.headers.map toXHeader, s.rows⟩ := by
  rw [xlsx_sanitize_grid_general s hrect hlast, (omitEmptyRows_eq_self_iff s.rows).2 hnb]

/-- all headers are non-empty text (the property's "unique non-empty headers") -/
def HeadersPresent (s : Sheet) : Prop := s.headers ≠ [] ∧ ∀ h ∈ s.headers, h ≠ []

instance (s : Sheet) : Decidable (HeadersPresent s) := by unfold HeadersPresent; infer_instance

theorem lastHeaderPresent_of_headersPresent {s : Sheet} (h : HeadersPresent s) :
    LastHeaderPresent s := by
  obtain ⟨hne, hall⟩ := h
  cases hl : s.headers.getLast? with
  | none => rw [List.getLast?_eq_none_iff] at hl; exact absurd hl hne
  | some l => exact ⟨l, hl, hall l (List.mem_of_getLast? hl)⟩

/-- **`_sanitize` on every rectangular text sheet with non-empty headers**: the sheet without its
all-empty rows (the same table `omit_empty_rows` gives the CSV and JSON readers). -/
theorem xlsx_sanitize_general (s : Sheet) (hrect : Rect s) (hh : HeadersPresent s) :
    xlsxSanitize (toXlsxGrid s) = .ok (XTable.ofSheet s.omitEmpty) := by
  rw [xlsx_sanitize_grid_general s hrect (lastHeaderPresent_of_headersPresent hh)]
  have : s.headers.map toXHeader = s.headers.map some := by
    apply List.map_congr_left
    intro h hmem
    unfold toXHeader
    cases h with
    | nil => exact absurd rfl (hh.2 [] hmem)
    | cons a t => rfl
  simp [XTable.ofSheet, Sheet.omitEmpty, this]

/-- **`_sanitize` is the identity** on rectangular text sheets with non-empty headers and no
all-empty row. -/
theorem xlsx_sanitize_id (s : Sheet) (hrect : Rect s) (hnb : NoBlankRow s)
    (hh : HeadersPresent s) :
    xlsxSanitize (toXlsxGrid s) = .ok (XTable.ofSheet s) := by
  rw [xlsx_sanitize_general s hrect hh, (omitEmpty_eq_self_iff s).2 hnb]

/-- **EVERY grid** openpyxl can deliver (ragged, `None`s and non-text values anywhere): whenever
`_sanitize` returns a table, its rows are `omit_empty_rows` of the stringified rows cut to the header
count — the XLSX reader and the helper of the CSV / JSON readers drop the same rows. -/
theorem xlsx_rows_eq_omitEmptyRows (g : XGrid) (t : XTable) (h : xlsxSanitize g = .ok t) :
    t.rows = omitEmptyRows (g.rows.map (fun r => (r.map cellStr).take t.headers.length)) := by
  unfold xlsxSanitize at h
  split at h
  · cases h
  · simp only at h
    split at h
    · cases h
    · split at h
      · rename_i rows hrows
        simp only [Except.ok.injEq] at h
        subst h
        simpa using sanitizeRows_eq_omit _ _ _ _ hrows
      · cases h

example : xlsxSanitize ⟨some [some "a".toList, none], [[.none, .str "x".toList], [.int 0, .none]]⟩
    = .ok ⟨[some "a".toList], [["0".toList]]⟩ := by decide

/-- … and the sanitized table is the sheet itself -/
theorem ofSheet_toSheet (s : Sheet) : (XTable.ofSheet s).toSheet? s.name = some s := by
  obtain ⟨name, headers, rows⟩ := s
  have h1 : (headers.map some).all Option.isSome = true := by simp
  have h2 : (headers.map (some : Str → Option Str)).filterMap id = headers := by
    induction headers with
    | nil => rfl
    | cons a t ih => simp
  simp [XTable.ofSheet, XTable.toSheet?, h2]

example :
    let s : Sheet := ⟨"s".toList, ["a".toList, "b".toList], [["1".toList, [] ], [[], "0".toList]]⟩
    Rect s ∧ NoBlankRow s ∧ HeadersPresent s := by decide

/-- an all-empty row is dropped by `_sanitize` — and, since the fix of F-C14-a, by the CSV and JSON
readers as well (tablib's own loops, `readCsv` / `readJson`, still keep it: the readers remove it
afterwards with `omit_empty_rows`).  So no reader is the identity on such a sheet, and all agree. -/
def wBlankRow : Sheet := ⟨"s".toList, ["a".toList, "b".toList],
      [["1".toList, "2".toList], [[], []], ["3".toList, "4".toList]]⟩

def wBlankRowRead : Sheet := ⟨"s".toList, ["a".toList, "b".toList],
      [["1".toList, "2".toList], ["3".toList, "4".toList]]⟩

theorem needs_NoBlankRow :
    Rect wBlankRow ∧ HeadersPresent wBlankRow ∧ wBlankRow.headers.Nodup ∧ wBlankRow.rows ≠ [] ∧
      xlsxSanitize (toXlsxGrid wBlankRow) ≠ .ok (XTable.ofSheet wBlankRow) ∧
      readCsvSheet wBlankRow.name (toCsvRecords wBlankRow) ≠ .ok wBlankRow ∧
      readJsonSheet wBlankRow.name (toJson wBlankRow) ≠ .ok wBlankRow ∧
      xlsxSanitize (toXlsxGrid wBlankRow) = .ok (XTable.ofSheet wBlankRowRead) ∧
      readCsvSheet wBlankRow.name (toCsvRecords wBlankRow) = .ok wBlankRowRead ∧
      readJsonSheet wBlankRow.name (toJson wBlankRow) = .ok wBlankRowRead ∧
      readCsv wBlankRow.name (toCsvRecords wBlankRow) = .ok wBlankRow ∧
      readJson wBlankRow.name (toJson wBlankRow) = .ok wBlankRow := by decide

/-- a column whose header is empty and last is cut off together with its cells -/
def wEmptyLastHeader : Sheet := ⟨"s".toList, ["a".toList, []], [["1".toList, "2".toList]]⟩

theorem needs_last_header :
    Rect wEmptyLastHeader ∧ NoBlankRow wEmptyLastHeader ∧
      xlsxSanitize (toXlsxGrid wEmptyLastHeader) = .ok ⟨[some "a".toList], [["1".toList]]⟩ := by decide

/-- an empty header that is not the last stays `None` (and is not a string any more) -/
def wEmptyFirstHeader : Sheet := ⟨"s".toList, [[], "b".toList], [["1".toList, "2".toList]]⟩

theorem needs_headers_present :
    Rect wEmptyFirstHeader ∧ NoBlankRow wEmptyFirstHeader ∧ LastHeaderPresent wEmptyFirstHeader ∧
      xlsxSanitize (toXlsxGrid wEmptyFirstHeader) ≠ .ok (XTable.ofSheet wEmptyFirstHeader) := by
  refine ⟨by decide, by decide, ⟨"b".toList, by decide, by decide⟩, by decide⟩

/-- ragged input: a row longer than the header list is truncated, not rejected -/
theorem sanitize_truncates :
    xlsxSanitize ⟨some [some "a".toList, none], [[.str "1".toList, .str "2".toList]]⟩
      = .ok ⟨[some "a".toList], [["1".toList]]⟩ := by decide

/-- truthiness is that of the STRING: `"0"` and `"False"` keep their row -/
theorem sanitize_keeps_zero_row :
    xlsxSanitize ⟨some [some "a".toList], [[.str "0".toList], [.bool false], [.int 0], [.none]]⟩
      = .ok ⟨[some "a".toList], [["0".toList], ["False".toList], ["0".toList]]⟩ := by decide

/-- **`_sanitize` is idempotent**: whatever it returns, it returns again when fed its own output
(as text cells) — for EVERY input grid, also ragged ones with `None`s anywhere. -/
theorem sanitize_idem (g : XGrid) (t : XTable) (h : xlsxSanitize g = .ok t) :
    xlsxSanitize t.toGrid = .ok t := by
  unfold xlsxSanitize at h
  split at h
  · cases h
  · rename_i hs0 hg
    simp only at h
    split at h
    · cases h
    · rename_i hemp
      split at h
      · rename_i rows hrows
        simp only [Except.ok.injEq] at h
        subst h
        have hne : popTrailingNone hs0 ≠ [] := by
          intro e; rw [e] at hemp; simp at hemp
        have hinv := sanitizeRows_inv (popTrailingNone hs0) hne g.rows [] rows hrows (by simp)
        have hpop : popTrailingNone (popTrailingNone hs0) = popTrailingNone hs0 := by
          cases hl : (popTrailingNone hs0).getLast? with
          | none => rw [List.getLast?_eq_none_iff] at hl; exact absurd hl hne
          | some l =>
            exact popTrailingNone_of_last_some _ l hl (popTrailingNone_last hs0 l hl)
        have hok := sanitizeRows_ok (popTrailingNone hs0) (rows.map (fun r => r.map XVal.str)) []
          (by
            intro r hr
            simp only [List.mem_map] at hr
            obtain ⟨r0, hr0, rfl⟩ := hr
            rw [map_cellStr_str]
            exact hinv r0 hr0)
          (by simp)
        have hmm : (rows.map (fun r => r.map XVal.str)).map (fun r => r.map cellStr) = rows := by
          rw [List.map_map]
          conv => rhs; rw [← List.map_id rows]
          apply List.map_congr_left
          intro x _
          simp only [Function.comp, id, map_cellStr_str]
        unfold xlsxSanitize XTable.toGrid
        simp only [hpop, hemp, hok, hmm, List.nil_append, Bool.false_eq_true, if_false]
      · cases h

/-! ### CSV: tablib's record loop -/

/-- the CSV record loop is the identity on rectangular sheets that have a header (a record with
at least one field is never "blank") -/
theorem csv_read_id (s : Sheet) (hrect : Rect s) (hne : s.headers ≠ []) :
    readCsv s.name (toCsvRecords s) = .ok s := by
  obtain ⟨name, headers, rows⟩ := s
  simp only [Rect] at hrect hne
  have hpos : headers.length ≠ 0 := fun h0 => hne (List.eq_nil_of_length_eq_zero h0)
  have key : ∀ (rs acc : List (List Str)), (∀ r ∈ rs, r.length = headers.length) →
      (∀ r ∈ acc, r.length = headers.length) → csvRows headers rs acc = .ok (acc ++ rs) := by
    intro rs
    induction rs with
    | nil => intro acc _ _; simp [csvRows]
    | cons r rs ih =>
      intro acc hrs hacc
      have hr : r.length = headers.length := hrs r (by simp)
      have hre : r.isEmpty = false := by
        cases r with
        | nil => simp at hr; exact absurd hr.symm hpos
        | cons a t => rfl
      have hw := width_of_uniform headers headers.length rfl acc hacc
      have hv := validRow_of_uniform headers headers.length rfl acc hacc r hr
      simp only [csvRows, hre, Bool.false_eq_true, if_false, hw, hr, Nat.lt_irrefl, hv, if_true]
      rw [ih (acc ++ [r]) (fun x hx => hrs x (by simp [hx]))
        (by intro x hx; simp only [List.mem_append, List.mem_singleton] at hx
            rcases hx with hx | hx
            · exact hacc x hx
            · exact hx ▸ hr)]
      simp
  simp [readCsv, toCsvRecords, key rows [] hrect (by simp)]

/-- without a header the (empty) records are blank lines and disappear -/
def wNoHeader : Sheet := ⟨"s".toList, [], [[], []]⟩

theorem csv_needs_header :
    Rect wNoHeader ∧ readCsv wNoHeader.name (toCsvRecords wNoHeader) ≠ .ok wNoHeader := by decide

/-- **the CSV reader, every sheet**: tablib's loop followed by `omit_empty_rows` delivers the sheet
WITHOUT its all-empty rows … -/
theorem csv_reader_general (s : Sheet) (hrect : Rect s) (hne : s.headers ≠ []) :
    readCsvSheet s.name (toCsvRecords s) = .ok s.omitEmpty := by
  simp [readCsvSheet, csv_read_id s hrect hne]

/-- … hence the same sheet when it has no all-empty row -/
theorem csv_reader_id (s : Sheet) (hrect : Rect s) (hne : s.headers ≠ []) (hnb : NoBlankRow s) :
    readCsvSheet s.name (toCsvRecords s) = .ok s := by
  rw [csv_reader_general s hrect hne, (omitEmpty_eq_self_iff s).2 hnb]

example :
    let s : Sheet := ⟨"s".toList, ["a".toList], [["1".toList], [" ".toList]]⟩
    Rect s ∧ s.headers ≠ [] ∧ NoBlankRow s := by decide

/-- the only way tablib's loop can refuse a record -/
theorem readCsv_error (name : Str) (records : List (List Str)) (e : SErr)
    (h : readCsv name records = .error e) : e = .invalidDimensions := by
  have key : ∀ (hs : List Str) (rs acc : List (List Str)) (e : SErr),
      csvRows hs rs acc = .error e → e = .invalidDimensions := by
    intro hs rs
    induction rs with
    | nil => intro acc e h; simp [csvRows] at h
    | cons r rs ih =>
      intro acc e h
      unfold csvRows at h
      split at h
      · exact ih _ _ h
      · simp only at h
        generalize (if r.length < width hs acc then padTo (width hs acc) r else r) = r' at h
        split at h
        · exact ih _ _ h
        · cases h; rfl
  unfold readCsv at h
  split at h
  · cases h
  · split at h
    · cases h
    · rename_i e'' he''
      cases h
      rw [key _ _ _ _ he'']

/-! ### CSV, the byte format: `csv.writer` → UTF-8 → file → `newline=""` lines → `csv.reader` -/

section CsvBytes
open Rpft.Csv

/-- every field fits the reader's field limit (`csv.field_size_limit()`) -/
def FieldsFit (limit : Nat) (recs : List (List Str)) : Prop := ∀ r ∈ recs, ∀ f ∈ r, f.length ≤ limit

instance (limit : Nat) (recs : List (List Str)) : Decidable (FieldsFit limit recs) := by
  unfold FieldsFit; infer_instance

/-- **CSV round trip, any field limit**: what `csv.writer` (excel dialect, CRLF) writes for ANY
list of records — any number of records and fields, empty records, empty fields, fields with
commas, quotes, CR, LF, CRLF, any Unicode — `csv.reader` reads back as exactly those records,
provided no field is longer than the reader's field limit. -/
theorem csv_read_write_with (limit : Nat) (recs : List (List Str)) (hfit : FieldsFit limit recs) :
    parseCsvWith limit (writeCsv recs) = .ok recs :=
  parse_writeRows limit crlf (Or.inl rfl) false recs
    (fun r _ f _ h => plain_of_not_needsQuote_crlf f (by simpa using h)) hfit

/-- **CSV round trip** at the real field limit (131072 characters per field). -/
theorem csv_read_write (recs : List (List Str)) (hfit : FieldsFit fieldLimit recs) :
    parseCsv (writeCsv recs) = .ok recs :=
  csv_read_write_with fieldLimit recs hfit

/-- non-vacuity, and the round trip computed by the kernel on a grid with every special character,
an empty record, a record that is one empty field, and a ragged record -/
def gHostile : List (List Str) :=
  [["a,b".toList, "say \"hi\"".toList, "l1\r\nl2\rl3\nl4".toList, "é日本".toList, [], " x ".toList],
   [], [[]], [[], []], ["\"".toList], ["\r".toList, "\n".toList, ",".toList]]

example : FieldsFit fieldLimit gHostile := by decide
example : parseCsv (writeCsv gHostile) = .ok gHostile := by decide

/-- the hypothesis is forced: a field one character over the limit makes the reader raise
(`_csv.Error: field larger than field limit`) — checked by the kernel at a small limit, replayed on
the real reader at 131072 / 131073 by the harness -/
theorem needs_fieldsFit :
    parseCsvWith 3 (writeCsv [["abc".toList]]) = .ok [["abc".toList]] ∧
    parseCsvWith 3 (writeCsv [["abcd".toList]]) = .error .fieldLimit ∧
    parseCsvWith 3 (writeCsv [["a\"\"b".toList]]) = .error .fieldLimit := by decide

theorem fieldsFit_mono {a b : Nat} (h : a ≤ b) {recs : List (List Str)} (hf : FieldsFit a recs) :
    FieldsFit b recs := fun r hr f hf' => Nat.le_trans (hf r hr f hf') h

theorem exists_fieldsFit (recs : List (List Str)) : ∃ L, FieldsFit L recs := by
  induction recs with
  | nil => exact ⟨0, fun r hr => by simp at hr⟩
  | cons r rs ih =>
    obtain ⟨L, hL⟩ := ih
    have hrow : ∃ K, ∀ f ∈ r, f.length ≤ K := by
      induction r with
      | nil => exact ⟨0, fun f hf => by simp at hf⟩
      | cons f tl ih2 =>
        obtain ⟨K, hK⟩ := ih2
        refine ⟨max f.length K, fun g hg => ?_⟩
        simp only [List.mem_cons] at hg
        rcases hg with hg | hg
        · subst hg; exact Nat.le_max_left _ _
        · exact Nat.le_trans (hK g hg) (Nat.le_max_right _ _)
    obtain ⟨K, hK⟩ := hrow
    refine ⟨max K L, fun r' hr' f hf => ?_⟩
    simp only [List.mem_cons] at hr'
    rcases hr' with hr' | hr'
    · subst hr'; exact Nat.le_trans (hK f hf) (Nat.le_max_left _ _)
    · exact Nat.le_trans (hL r' hr' f hf) (Nat.le_max_right _ _)

/-- **the writer loses nothing**: two lists of records with the same CSV text are the same list —
unconditionally (the field limit belongs to the reader, not to the text). -/
theorem writeCsv_injective (a b : List (List Str)) (h : writeCsv a = writeCsv b) : a = b := by
  obtain ⟨La, ha⟩ := exists_fieldsFit a
  obtain ⟨Lb, hb⟩ := exists_fieldsFit b
  have h1 := csv_read_write_with (max La Lb) a (fieldsFit_mono (Nat.le_max_left _ _) ha)
  have h2 := csv_read_write_with (max La Lb) b (fieldsFit_mono (Nat.le_max_right _ _) hb)
  rw [h] at h1
  rw [h1] at h2
  exact Except.ok.inj h2

/-- **the guard is exact**: the records come back iff every field fits the limit … -/
theorem csv_read_write_iff (limit : Nat) (recs : List (List Str)) :
    parseCsvWith limit (writeCsv recs) = .ok recs ↔ FieldsFit limit recs :=
  ⟨fun h => parse_output_fits limit _ recs h, csv_read_write_with limit recs⟩

/-- … and otherwise the reader RAISES (`_csv.Error: field larger than field limit`): it never
delivers different records for a text the project's writer produced. -/
theorem csv_unfit_raises (limit : Nat) (recs : List (List Str)) (h : ¬ FieldsFit limit recs) :
    parseCsvWith limit (writeCsv recs) = .error .fieldLimit := by
  cases hp : parseCsvWith limit (writeCsv recs) with
  | error e => rw [parse_error_is_fieldLimit limit _ e hp]
  | ok r =>
    exfalso
    obtain ⟨L0, hL0⟩ := exists_fieldsFit recs
    have h1 := parse_mono limit (max limit L0) (Nat.le_max_left _ _) _ r hp
    rw [csv_read_write_with (max limit L0) recs (fieldsFit_mono (Nat.le_max_right _ _) hL0)] at h1
    cases h1
    exact h (parse_output_fits limit _ recs hp)

example : ¬ FieldsFit 3 [["abcd".toList]] := by decide

/-- **the reader on ANY text** (not only written ones): it either delivers records whose fields fit
the limit or raises the field-limit error — the "new-line character seen in unquoted field" error
of `csv.reader` cannot occur behind `newline=""` line iteration. -/
theorem csv_reader_total (limit : Nat) (text : Str) :
    (∃ recs, parseCsvWith limit text = .ok recs ∧ FieldsFit limit recs) ∨
      parseCsvWith limit text = .error .fieldLimit := by
  cases hp : parseCsvWith limit text with
  | error e => exact Or.inr (by rw [parse_error_is_fieldLimit limit _ e hp])
  | ok r => exact Or.inl ⟨r, rfl, parse_output_fits limit _ r hp⟩

/-- **the reader on the grammar of CSV texts** (not only on what the project's writer produces):
records terminated by CRLF or by LF, comma-separated fields, each field EITHER between quotes with
its quotes doubled OR written as is when it has no comma, quote, CR or LF (and a record that is one
empty field is quoted).  Covers QUOTE_ALL files, LF files, needlessly quoted fields. -/
theorem csv_reader_grammar (limit : Nat) (lt : Str) (hlt : lt = crlf ∨ lt = lf)
    (rs : List (List (Bool × Str))) (hv : ∀ r ∈ rs, ValidRow r)
    (hn : ∀ r ∈ rs, ∀ p ∈ r, p.2.length ≤ limit) :
    parseCsvWith limit (encRows lt rs) = .ok (rs.map (fun r => r.map Prod.snd)) :=
  parse_encRows limit lt hlt rs hv hn

example :
    let rs : List (List (Bool × Str)) :=
      [[(true, "a".toList), (false, "b c".toList), (true, "x\"y\n".toList)], [], [(true, [])], [(false, []), (false, [])]]
    (∀ r ∈ rs, ValidRow r) ∧ (∀ r ∈ rs, ∀ p ∈ r, p.2.length ≤ fieldLimit) ∧
      encRows lf rs = "\"a\",b c,\"x\"\"y\n\"\n\n\"\"\n,\n".toList := by decide

/-- both validity conditions are forced: an unquoted field with a CR is cut into two records, an
unquoted quote in the middle of a field is kept but a leading one opens a quoted field, and a
record that is one unquoted empty field is a blank line (which tablib then skips) -/
theorem needs_validRow :
    parseCsv (encRows lf [[(false, "a\rb".toList)]]) = .ok [["a".toList], ["b".toList]] ∧
    parseCsv (encRows lf [[(false, "\"a".toList), (false, "b".toList)]]) = .ok [["a,b\n".toList]] ∧
    parseCsv (encRows lf [[(false, [])]]) = .ok [[]] := by decide

/-- the line terminator matters: with any other separator of records the text is one record -/
theorem needs_lineTerminator :
    (∀ r ∈ [[(false, "a".toList)], [(false, "b".toList)]], ValidRow r) ∧
    parseCsv (encRows [';'] [[(false, "a".toList)], [(false, "b".toList)]]) = .ok [["a;b;".toList]] := by
  decide

/-- **the other dialects of `csv.writer`** the reader has to understand (the harness and other
tools write them): LF line ends and/or QUOTE_ALL.  With QUOTE_MINIMAL and LF line ends CPython 3.12
does NOT quote a field for a CR, so the round trip needs CR-free cells there. -/
theorem csv_read_write_dialect (limit : Nat) (lt : Str) (hlt : lt = crlf ∨ lt = lf) (qa : Bool)
    (recs : List (List Str))
    (hcr : qa = true ∨ lt = crlf ∨ ∀ r ∈ recs, ∀ f ∈ r, '\r' ∉ f)
    (hfit : FieldsFit limit recs) :
    parseCsvWith limit (writeRows lt qa recs) = .ok recs := by
  refine parse_writeRows limit lt hlt qa recs ?_ hfit
  intro r hr f hf hq
  rcases hcr with h | h | h
  · subst h; simp at hq
  · subst h
    exact plain_of_not_needsQuote_crlf f (by cases qa <;> simp_all)
  · have hnq : needsQuote lt f = false := by cases qa <;> simp_all
    rcases hlt with e | e
    · subst e; exact plain_of_not_needsQuote_crlf f hnq
    · subst e
      intro c hc
      unfold needsQuote at hnq
      rw [List.any_eq_false] at hnq
      have h1 := hnq c hc
      simp [special, lf] at h1
      obtain ⟨⟨h1, h2⟩, h3⟩ := h1
      refine ⟨h1, h2, ?_, h3⟩
      intro e; subst e; exact h r hr f hf hc

example : (true = true ∨ lf = crlf ∨ ∀ r ∈ gHostile, ∀ f ∈ r, '\r' ∉ f) ∧ FieldsFit fieldLimit gHostile :=
  ⟨Or.inl rfl, by decide⟩

/-- the CR hypothesis is forced: `csv.writer(lineterminator="\n")` of CPython 3.12 writes a cell with
a lone CR unquoted, and `csv.reader` then reads two records — a loss inside the library pair
(never on the project's own CRLF dialect) -/
theorem lf_minimal_loses_cr :
    writeRows lf false [["a\rb".toList]] = "a\rb\n".toList ∧
    parseCsv (writeRows lf false [["a\rb".toList]]) = .ok [["a".toList], ["b".toList]] ∧
    parseCsv (writeRows lf true [["a\rb".toList]]) = .ok [["a\rb".toList]] ∧
    parseCsv (writeCsv [["a\rb".toList]]) = .ok [["a\rb".toList]] := by decide

/-- the bytes: `str.encode("utf-8")` then the strict UTF-8 decoder -/
theorem utf8_roundtrip (text : Str) : decodeUtf8 (encodeUtf8 text) = some text := by
  simp [decodeUtf8, encodeUtf8]

/-- every cell of the sheet (headers included) fits the CSV reader's field limit -/
def CellsFit (s : Sheet) : Prop := FieldsFit fieldLimit (toCsvRecords s)

instance (s : Sheet) : Decidable (CellsFit s) := by unfold CellsFit; infer_instance

/-- **a sheet through a CSV file, every sheet**: `table.export("csv")`, UTF-8, and back through
`load_csv` (`open(…, encoding="utf-8", newline="")` + `tablib.import_set` + `omit_empty_rows`) gives
the sheet WITHOUT its all-empty rows, for every rectangular sheet that has a header — whatever the
cells contain, up to the reader's field limit. -/
theorem csv_file_roundtrip_general (s : Sheet) (hrect : Rect s) (hne : s.headers ≠ []) (hfit : CellsFit s) :
    loadCsv s.name (exportCsvBytes s) = .ok s.omitEmpty := by
  have hpk : packageRecords s = toCsvRecords s := by
    unfold packageRecords toCsvRecords
    cases hh : s.headers with
    | nil => exact absurd hh hne
    | cons a t => rfl
  unfold loadCsv exportCsvBytes
  rw [utf8_roundtrip]
  simp only [loadCsvText, exportCsv, hpk, csv_read_write _ hfit, csv_reader_general s hrect hne]

/-- **… and is the identity** on the sheets without an all-empty row (decidable hypothesis). -/
theorem csv_file_roundtrip (s : Sheet) (hrect : Rect s) (hne : s.headers ≠ []) (hnb : NoBlankRow s)
    (hfit : CellsFit s) :
    loadCsv s.name (exportCsvBytes s) = .ok s := by
  rw [csv_file_roundtrip_general s hrect hne hfit, (omitEmpty_eq_self_iff s).2 hnb]

example :
    let s : Sheet := ⟨"s".toList, ["a".toList, "b,c".toList], [["1\r\n2".toList, [] ], [[], "\"".toList], [[], " ".toList]]⟩
    Rect s ∧ s.headers ≠ [] ∧ NoBlankRow s ∧ CellsFit s := by decide

example :
    let s : Sheet := ⟨"s".toList, ["a".toList, "b,c".toList], [[[], []], ["1\r\n2".toList, [] ], [[], []]]⟩
    Rect s ∧ s.headers ≠ [] ∧ CellsFit s ∧ s.omitEmpty ≠ s := by decide

/-- the hypothesis is forced (and is exact: `omitEmpty_eq_self_iff`): the all-empty row of `wBlankRow`
does not come back from the file -/
theorem csv_file_needs_NoBlankRow :
    Rect wBlankRow ∧ wBlankRow.headers ≠ [] ∧ CellsFit wBlankRow ∧
      loadCsv wBlankRow.name (exportCsvBytes wBlankRow) = .ok wBlankRowRead ∧ wBlankRowRead ≠ wBlankRow := by
  refine ⟨by decide, by decide, by decide, ?_, by decide⟩
  simp only [loadCsv, exportCsvBytes, utf8_roundtrip]
  decide

/-- … and the same for every dialect of the writer family and, more generally, every valid
encoding of the sheet's records (files written by the harness, by spreadsheet programs, by hand) -/
theorem csv_any_encoding_general (s : Sheet) (hrect : Rect s) (hne : s.headers ≠ []) (lt : Str)
    (hlt : lt = crlf ∨ lt = lf) (rs : List (List (Bool × Str)))
    (henc : rs.map (fun r => r.map Prod.snd) = toCsvRecords s) (hv : ∀ r ∈ rs, ValidRow r)
    (hfit : CellsFit s) :
    loadCsv s.name (encodeUtf8 (encRows lt rs)) = .ok s.omitEmpty := by
  have hn : ∀ r ∈ rs, ∀ p ∈ r, p.2.length ≤ fieldLimit := by
    intro r hr p hp
    have h1 : r.map Prod.snd ∈ toCsvRecords s := by rw [← henc]; exact List.mem_map_of_mem hr
    exact hfit _ h1 _ (List.mem_map_of_mem hp)
  unfold loadCsv
  rw [utf8_roundtrip]
  simp only [loadCsvText, parseCsv, csv_reader_grammar fieldLimit lt hlt rs hv hn, henc,
    csv_reader_general s hrect hne]

theorem csv_any_encoding (s : Sheet) (hrect : Rect s) (hne : s.headers ≠ []) (hnb : NoBlankRow s) (lt : Str)
    (hlt : lt = crlf ∨ lt = lf) (rs : List (List (Bool × Str)))
    (henc : rs.map (fun r => r.map Prod.snd) = toCsvRecords s) (hv : ∀ r ∈ rs, ValidRow r)
    (hfit : CellsFit s) :
    loadCsv s.name (encodeUtf8 (encRows lt rs)) = .ok s := by
  rw [csv_any_encoding_general s hrect hne lt hlt rs henc hv hfit, (omitEmpty_eq_self_iff s).2 hnb]

example :
    let s : Sheet := ⟨"s".toList, ["a".toList, "b".toList], [["1".toList, []]]⟩
    let rs : List (List (Bool × Str)) := [[(true, "a".toList), (false, "b".toList)], [(false, "1".toList), (true, [])]]
    Rect s ∧ s.headers ≠ [] ∧ NoBlankRow s ∧ rs.map (fun r => r.map Prod.snd) = toCsvRecords s ∧ (∀ r ∈ rs, ValidRow r) ∧ CellsFit s := by
  decide

/-- every way `load_csv` can fail on a file: not UTF-8, a field over the limit, or a record longer
than the first one (`tablib.InvalidDimensions`) — nothing else, for EVERY byte string. -/
theorem loadCsv_errors (name : Str) (bytes : ByteArray) (e : LoadErr)
    (h : loadCsv name bytes = .error e) :
    e = .csv .decode ∨ e = .csv .fieldLimit ∨ e = .sheet .invalidDimensions := by
  unfold loadCsv at h
  split at h
  · cases h; exact Or.inl rfl
  · rename_i text _
    unfold loadCsvText at h
    split at h
    · rename_i e' he'
      cases h
      exact Or.inr (Or.inl (by rw [parse_error_is_fieldLimit fieldLimit text e' he']))
    · rename_i records _
      split at h
      · cases h
      · rename_i e' he'
        cases h
        refine Or.inr (Or.inr ?_)
        unfold readCsvSheet at he'
        split at he'
        · cases he'
        · rename_i e'' he''
          cases he'
          rw [readCsv_error _ _ _ he'']

/-- outside the guard, where the real pipeline loses information: (1) a sheet WITHOUT headers is
exported without a header record, so its first row comes back as the headers; (2) a short row is
padded by tablib, a long row is refused; (3) a header-less sheet of empty rows is a file of blank
lines, which vanish. -/
def wNoHeaderRows : Sheet := ⟨"s".toList, [], [["x".toList], ["y".toList]]⟩
def wShortRow : Sheet := ⟨"s".toList, ["a".toList, "b".toList], [["1".toList]]⟩

theorem csv_file_needs_header_and_rect :
    loadCsv wNoHeaderRows.name (exportCsvBytes wNoHeaderRows) = .ok ⟨"s".toList, ["x".toList], [["y".toList]]⟩ ∧
    loadCsv wShortRow.name (exportCsvBytes wShortRow) = .ok ⟨"s".toList, ["a".toList, "b".toList], [["1".toList, []]]⟩ ∧
    loadCsv wLongRow.name (exportCsvBytes wLongRow) = .error (.sheet .invalidDimensions) ∧
    loadCsv wNoHeader.name (exportCsvBytes wNoHeader) = .ok ⟨"s".toList, [], []⟩ := by
  refine ⟨?_, ?_, ?_, ?_⟩ <;>
    simp only [loadCsv, exportCsvBytes, utf8_roundtrip] <;> decide

/-- blank lines and the all-empty row: in a CSV file a blank LINE is skipped by tablib's loop, a row
of empty cells (`,,` or `""`) is kept by that loop and then removed by `omit_empty_rows` (F-C14-a,
fixed) — a cell of one blank keeps its row -/
theorem csv_blank_line_vs_blank_row :
    loadCsvText [] "a,b\r\n\r\n1,2\r\n".toList = .ok ⟨[], ["a".toList, "b".toList], [["1".toList, "2".toList]]⟩ ∧
    loadCsvText [] "a,b\r\n,\r\n1,2\r\n".toList
      = .ok ⟨[], ["a".toList, "b".toList], [["1".toList, "2".toList]]⟩ ∧
    loadCsvText [] "a\r\n\"\"\r\n1\r\n".toList = .ok ⟨[], ["a".toList], [["1".toList]]⟩ ∧
    loadCsvText [] "a,b\r\n, \r\n,\r\n".toList = .ok ⟨[], ["a".toList, "b".toList], [[[], " ".toList]]⟩ ∧
    (Csv.parseCsv "a,b\r\n,\r\n1,2\r\n".toList).map (readCsv [])
      = .ok (.ok ⟨[], ["a".toList, "b".toList], [[[], []], ["1".toList, "2".toList]]⟩) := by decide

/-- unusual but legal texts: bare LF / bare CR line ends, no final line end, an unfinished quoted
field at end of file, characters after a closing quote (the reader is not strict) -/
theorem csv_reader_quirks :
    parseCsv "a,b\nc,d".toList = .ok [["a".toList, "b".toList], ["c".toList, "d".toList]] ∧
    parseCsv "a\rb\r".toList = .ok [["a".toList], ["b".toList]] ∧
    parseCsv "a,\"b\nc".toList = .ok [["a".toList, "b\nc".toList]] ∧
    parseCsv "\"a\"b,\"c\" \n".toList = .ok [["ab".toList, "c ".toList]] ∧
    parseCsv "a\"b, \"c\"\n".toList = .ok [["a\"b".toList, " \"c\"".toList]] ∧
    parseCsv "x\r\r\ny".toList = .ok [["x".toList], [], ["y".toList]] := by decide

end CsvBytes

/-! ### JSON, the string literals: `json.dumps(…, ensure_ascii=False)` → `json.load` -/

section JsonStrings
open Rpft.JsonText

/-- **JSON string literal round trip**: what `to_json` writes for a cell / header / sheet name,
`json.load`'s strict string scanner reads back as exactly that text, and it stops right after the
closing quote — for EVERY string (quotes, backslashes, control characters, newlines, DEL, U+2028,
any Unicode), with no hypothesis. -/
theorem json_string_roundtrip (s rest : Str) : scanStr (encodeString s ++ rest) = .ok (s, rest) :=
  scanStr_encodeString s rest

/-- … hence the writer of string literals loses nothing -/
theorem encodeString_injective (a b : Str) (h : encodeString a = encodeString b) : a = b := by
  have h1 := json_string_roundtrip a []
  have h2 := json_string_roundtrip b []
  rw [h] at h1
  rw [h1] at h2
  exact congrArg Prod.fst (Except.ok.inj h2)

/-- what the literal looks like, and what the scanner accepts beyond the writer's output: `\/`,
upper-case hex, surrogate pairs; what it refuses: a raw control character (strict), an unknown
escape, three hex digits, `\uXXXX` as the very last characters; a lone surrogate is outside `Char` -/
theorem json_string_facts :
    encodeString "a\"b\\c/\n\r\t\x08\x0c\x00\x1f\x7fé".toList
      = "\"a\\\"b\\\\c/\\n\\r\\t\\b\\f\\u0000\\u001f\x7fé\"".toList ∧
    scanStr "\"\\/\\u00E9\\ud83d\\uDE00\"x".toList = .ok ("/é😀".toList, "x".toList) ∧
    scanStr "\"a\nb\"".toList = .error .controlChar ∧
    scanStr "\"\\a\"".toList = .error .invalidEscape ∧
    scanStr "\"\\u12\"".toList = .error .invalidUnicodeEscape ∧
    scanStr "\"\\u0041".toList = .error .invalidUnicodeEscape ∧
    scanStr "\"\\ud83d\\uzzzz\"".toList = .error .invalidUnicodeEscape ∧
    scanStr "\"abc".toList = .error .unterminated ∧
    scanStr "\"\\ud83dx\"".toList = .error .loneSurrogate := by decide

end JsonStrings

/-! ### the three formats together, and `convert` followed by compilation -/

/-- the property's domain: rectangular, distinct non-empty headers, at least one row, no
all-empty row -/
structure Good (s : Sheet) : Prop where
  rect : Rect s
  nodup : s.headers.Nodup
  headers : HeadersPresent s
  rows : s.rows ≠ []
  noBlank : NoBlankRow s

/-- `to_json(reader)` over the sheets of a reader / `JSONSheetReader` over the sheets of the
file.  (Sheet names are the keys of a Python dict on both sides, hence distinct; the order of the
keys is the order of the sheets.) -/
def convertBook (w : Workbook) : List (Str × JContent) := w.map (fun s => (s.name, toJson s))

def readJsonBook (b : List (Str × JContent)) : Except SErr Workbook :=
  b.mapM (fun p => readJsonSheet p.1 p.2)

def readXlsxBook (b : List (Str × XGrid)) : Except SErr (List (Str × XTable)) :=
  b.mapM (fun p => (xlsxSanitize p.2).map (fun t => (p.1, t)))

/-- **the readers agree on all-empty rows** (the statement the fix of F-C14-a is about): for EVERY
rectangular sheet with distinct non-empty headers and a row — all-empty rows anywhere, any number of
them, even nothing but them — the CSV reader, the XLSX reader and the JSON reader deliver the same
table: the sheet without its all-empty rows.  No `NoBlankRow` hypothesis. -/
theorem readers_agree_on_blank_rows (s : Sheet) (hrect : Rect s) (hnd : s.headers.Nodup)
    (hh : HeadersPresent s) (hrows : s.rows ≠ []) :
    readCsvSheet s.name (toCsvRecords s) = .ok s.omitEmpty ∧
    (xlsxSanitize (toXlsxGrid s)).map (fun t => t.toSheet? s.name) = .ok (some s.omitEmpty) ∧
    readJsonSheet s.name (toJson s) = .ok s.omitEmpty := by
  refine ⟨csv_reader_general s hrect hh.1, ?_, json_reader_general s hrect hnd hrows⟩
  rw [xlsx_sanitize_general s hrect hh]
  have := ofSheet_toSheet s.omitEmpty
  simpa [Except.map, Sheet.omitEmpty] using this

/-- … in particular the three readers give the same answer as each other (whatever it is) -/
theorem readers_agree (s : Sheet) (hrect : Rect s) (hnd : s.headers.Nodup)
    (hh : HeadersPresent s) (hrows : s.rows ≠ []) :
    (readCsvSheet s.name (toCsvRecords s)).map some
        = (xlsxSanitize (toXlsxGrid s)).map (fun t => t.toSheet? s.name) ∧
      readCsvSheet s.name (toCsvRecords s) = readJsonSheet s.name (toJson s) := by
  obtain ⟨h1, h2, h3⟩ := readers_agree_on_blank_rows s hrect hnd hh hrows
  rw [h1, h2, h3]
  exact ⟨rfl, rfl⟩

/-- non-vacuity on a sheet WITH all-empty rows (first, middle, two in a row, last), and what the
readers make of it, computed by the kernel -/
def wBlankRows : Sheet := ⟨"s".toList, ["a".toList, "b".toList],
  [[[], []], ["1".toList, []], [[], []], [[], []], [" ".toList, []], [[], []]]⟩

example : Rect wBlankRows ∧ wBlankRows.headers.Nodup ∧ HeadersPresent wBlankRows ∧ wBlankRows.rows ≠ [] ∧
    ¬ NoBlankRow wBlankRows := by decide

theorem readers_agree_example :
    readCsvSheet wBlankRows.name (toCsvRecords wBlankRows)
      = .ok ⟨"s".toList, ["a".toList, "b".toList], [["1".toList, []], [" ".toList, []]]⟩ ∧
    xlsxSanitize (toXlsxGrid wBlankRows)
      = .ok ⟨[some "a".toList, some "b".toList], [["1".toList, []], [" ".toList, []]]⟩ ∧
    readJsonSheet wBlankRows.name (toJson wBlankRows)
      = .ok ⟨"s".toList, ["a".toList, "b".toList], [["1".toList, []], [" ".toList, []]]⟩ := by decide

/-- **all three readers deliver the same sheet** — the written one, when it has no all-empty row -/
theorem formats_agree (s : Sheet) (g : Good s) :
    readCsvSheet s.name (toCsvRecords s) = .ok s ∧
    (xlsxSanitize (toXlsxGrid s)).map (fun t => t.toSheet? s.name) = .ok (some s) ∧
    readJsonSheet s.name (toJson s) = .ok s := by
  have h := readers_agree_on_blank_rows s g.rect g.nodup g.headers g.rows
  rw [(omitEmpty_eq_self_iff s).2 g.noBlank] at h
  exact h

/-- `convert` then `JSONSheetReader`, every workbook: the sheets without their all-empty rows -/
theorem convert_then_read_general (w : Workbook)
    (h : ∀ s ∈ w, Rect s ∧ s.headers.Nodup ∧ s.rows ≠ []) :
    readJsonBook (convertBook w) = .ok (w.map Sheet.omitEmpty) := by
  unfold readJsonBook convertBook
  induction w with
  | nil => rfl
  | cons s w ih =>
    obtain ⟨h1, h2, h3⟩ := h s (by simp)
    have ih' := ih (fun x hx => h x (by simp [hx]))
    simp only [List.map_cons, List.mapM_cons, json_reader_general s h1 h2 h3]
    simp only [bind, Except.bind, pure, Except.pure] at ih' ⊢
    rw [ih']

theorem map_omitEmpty_id (w : Workbook) (h : ∀ s ∈ w, NoBlankRow s) : w.map Sheet.omitEmpty = w := by
  conv => rhs; rw [← List.map_id w]
  apply List.map_congr_left
  intro s hs
  exact (omitEmpty_eq_self_iff s).2 (h s hs)

theorem convert_then_read (w : Workbook)
    (h : ∀ s ∈ w, Rect s ∧ s.headers.Nodup ∧ s.rows ≠ [] ∧ NoBlankRow s) :
    readJsonBook (convertBook w) = .ok w := by
  rw [convert_then_read_general w (fun s hs => ⟨(h s hs).1, (h s hs).2.1, (h s hs).2.2.1⟩),
    map_omitEmpty_id w (fun s hs => (h s hs).2.2.2)]

/-- the hypothesis is forced: the all-empty row is not in what `convert` + `JSONSheetReader` deliver
(as it is not in what any reader delivers for the source) -/
theorem convert_needs_NoBlankRow :
    readJsonBook (convertBook [wBlankRow]) = .ok [wBlankRowRead] ∧ [wBlankRowRead] ≠ [wBlankRow] := by decide

/-- **`convert` followed by compilation = compiling what the source's reader delivers** — for ANY
compiler that is a function of the sheets.  (Thin by design: the whole content is
`convert_then_read`; that the real `create_flows` is a function of `reader.sheets` up to invented
UUIDs is C13's business and is exercised, not proved, here.) -/
theorem convert_then_compile_general {β : Type} (compile : Workbook → β) (w : Workbook)
    (h : ∀ s ∈ w, Rect s ∧ s.headers.Nodup ∧ s.rows ≠ []) :
    (readJsonBook (convertBook w)).map compile = .ok (compile (w.map Sheet.omitEmpty)) := by
  rw [convert_then_read_general w h]; rfl

theorem convert_then_compile {β : Type} (compile : Workbook → β) (w : Workbook)
    (h : ∀ s ∈ w, Rect s ∧ s.headers.Nodup ∧ s.rows ≠ [] ∧ NoBlankRow s) :
    (readJsonBook (convertBook w)).map compile = .ok (compile w) := by
  rw [convert_then_read w h]; rfl

example :
    let w : Workbook := [⟨"s".toList, ["a".toList, "b".toList], [["1".toList, [] ], [[], "0".toList]]⟩]
    ∀ s ∈ w, Rect s ∧ s.headers.Nodup ∧ s.rows ≠ [] ∧ NoBlankRow s := by decide

example : Good ⟨"s".toList, ["a".toList, "b".toList], [["1".toList, [] ], [[], "0".toList]]⟩ :=
  ⟨by decide, by decide, by decide, by decide, by decide⟩

/-! ### JSON, the byte format: `to_json` → UTF-8 → file → `load_json` → `JSONSheetReader` -/

section JsonBytes
open Rpft.JsonText

/-- **JSON document round trip**: `json.loads(json.dumps(v, ensure_ascii=False, indent=2)) = v` for
every value made of strings, arrays and objects whose keys are distinct (any nesting, any text). -/
theorem json_document_roundtrip (v : JV) (huk : ukV v) : loads (dumps v) = .ok v :=
  loads_dumps v huk

def vDemo : JV :=
  .obj (.cons "k\"1".toList (.arr (.cons (.str "a\nb".toList) (.cons (.obj .nil) (.cons (.arr .nil) .nil))))
    (.cons "é".toList (.obj (.cons [] (.str [] ) .nil)) .nil))

example : ukV vDemo := by
  simp only [vDemo, ukV, ukVs, ukMs, jmKeys]
  exact ⟨by decide, ⟨⟨trivial, ⟨by decide, trivial⟩, trivial, trivial⟩, ⟨by decide, trivial, trivial⟩, trivial⟩⟩

example : dumps vDemo = "{\n  \"k\\\"1\": [\n    \"a\\nb\",\n    {},\n    []\n  ],\n  \"é\": {\n    \"\": \"\"\n  }\n}".toList ∧
    loads (dumps vDemo) = .ok vDemo := by decide +kernel

/-- the distinct-keys hypothesis is forced (and is what a Python dict guarantees): a repeated key
keeps its first position and its last value -/
theorem needs_unique_keys :
    loads (dumps (.obj (.cons "a".toList (.str "1".toList) (.cons "b".toList (.str "2".toList)
        (.cons "a".toList (.str "3".toList) .nil)))))
      = .ok (.obj (.cons "a".toList (.str "3".toList) (.cons "b".toList (.str "2".toList) .nil))) := by
  decide +kernel

/-- **a workbook through a JSON file, every workbook**: `to_json(reader)` written as UTF-8
(`rpft convert`) and read back by `JSONSheetReader` (`load_json` in text mode + `table.dict = content`
+ `omit_empty_rows`) is the same workbook — sheet names, order, headers, every cell — WITHOUT the
all-empty rows, for rectangular sheets with distinct headers and at least one row each (the
hypotheses of `json_roundtrip`; the sheet names are the keys of a dict). -/
theorem json_file_roundtrip_general (w : Workbook) (hn : (w.map Sheet.name).Nodup)
    (h : ∀ s ∈ w, Rect s ∧ s.headers.Nodup ∧ s.rows ≠ []) :
    loadJson (toJsonBytes w) = .ok (w.map Sheet.omitEmpty) := by
  have huk : ukV (bookJV w) := ukV_book w hn (fun s hs => ⟨(h s hs).1, (h s hs).2.1⟩)
  have hsheets := sheetsOfMembers_book_gen Sheet.omitEmpty w
    (fun s hs => json_reader_general s (h s hs).1 (h s hs).2.1 (h s hs).2.2)
  have hne : ("meta".toList = "sheets".toList) = False := by decide
  unfold loadJson toJsonBytes
  rw [utf8_roundtrip]
  simp only [toJsonText]
  rw [universalNewlines_noCR _ (by unfold dumps; exact dumpValue_noCR _ 0)]
  unfold loadJsonText
  rw [loads_dumps _ huk]
  simp only [bookJV, jmLookup, hne, if_false, if_true, hsheets]

/-- **… and is the identity** on workbooks whose sheets have no all-empty row. -/
theorem json_file_roundtrip (w : Workbook) (hn : (w.map Sheet.name).Nodup)
    (h : ∀ s ∈ w, Rect s ∧ s.headers.Nodup ∧ s.rows ≠ [] ∧ NoBlankRow s) :
    loadJson (toJsonBytes w) = .ok w := by
  rw [json_file_roundtrip_general w hn (fun s hs => ⟨(h s hs).1, (h s hs).2.1, (h s hs).2.2.1⟩),
    map_omitEmpty_id w (fun s hs => (h s hs).2.2.2)]

example :
    let w : Workbook := [⟨"s1".toList, ["a".toList, "b".toList], [["1\r\n2".toList, [] ], [[], "\"".toList]]⟩,
                         ⟨"s 2".toList, ["x".toList], [[" ".toList]]⟩]
    (w.map Sheet.name).Nodup ∧ ∀ s ∈ w, Rect s ∧ s.headers.Nodup ∧ s.rows ≠ [] ∧ NoBlankRow s := by decide

example :
    let w : Workbook := [⟨"s1".toList, ["a".toList, "b".toList], [[[], []], ["1".toList, [] ]]⟩, ⟨"s 2".toList, ["x".toList], [[[]]]⟩]
    (w.map Sheet.name).Nodup ∧ (∀ s ∈ w, Rect s ∧ s.headers.Nodup ∧ s.rows ≠ []) ∧ w.map Sheet.omitEmpty ≠ w := by decide

/-- the hypothesis is forced: through the file the all-empty row is gone -/
theorem json_file_needs_NoBlankRow :
    loadJsonText (toJsonText [wBlankRow]) = .ok [wBlankRowRead] ∧ [wBlankRowRead] ≠ [wBlankRow] := by decide +kernel

/-- the distinct-names hypothesis is forced in the model (a reader's sheets are the values of a dict,
so it always holds on the real side): two sheets of the same name come back as one, with the
content of the second -/
theorem json_file_needs_distinct_names :
    loadJsonText (toJsonText [⟨"s".toList, ["a".toList], [["1".toList]]⟩, ⟨"s".toList, ["a".toList], [["2".toList]]⟩])
      = .ok [⟨"s".toList, ["a".toList], [["2".toList]]⟩] := by decide +kernel

/-- texts `to_json` never writes but `JSONSheetReader` must read alike (compact separators, other
whitespace, other member order, `meta` absent), and what it refuses; a header-only sheet comes back
without headers (known finding F-C14-b, recorded at the `table.dict` level by `needs_rows`) -/
theorem json_reader_facts :
    loadJsonText "{\"sheets\":{\"s\":[{\"a\":\"1\",\"b\":\"\"}]}}".toList
      = .ok [⟨"s".toList, ["a".toList, "b".toList], [["1".toList, []]]⟩] ∧
    loadJsonText " {\r\n\t\"sheets\" : { \"s\" : [ [ \"1\" , \"2\" ] ] } , \"meta\" : { } } \n".toList
      = .ok [⟨"s".toList, [], [["1".toList, "2".toList]]⟩] ∧
    loadJsonText "{\"sheets\": {\"s\": [{\"a\": \"1\"}, {\"a\": \"2\", \"b\": \"3\"}]}}".toList
      = .error (.sheet .invalidDimensions) ∧
    loadJsonText "{\"sheets\": {\"s\": [{\"a\": \"1\"},]}}".toList = .error (.json .expectingValue) ∧
    loadJsonText "{\"meta\": {}}".toList = .error .shape ∧
    loadJsonText "{\"sheets\": {\"s\": [{\"a\": 1}]}}".toList = .error (.json .unsupported) ∧
    loadJsonText (toJsonText [wHeaderOnly]) = .ok [⟨"s".toList, [], []⟩] := by decide +kernel

end JsonBytes

/-- The full statement of C14, kept visible: for EVERY byte-level writer/reader pair of the XLSX
format that is faithful on grids (`xlsxBytes` delivers what was written), the three readers agree on
workbooks of `Good` sheets with distinct names whose cells fit the CSV reader's field limit.  The CSV
and the JSON legs have no premise any more: they go through the modelled bytes (`exportCsvBytes` /
`loadCsv`, `toJsonBytes` / `loadJson`).  The remaining faithfulness premise (openpyxl: zip + XML) is
exactly the part that is library code; it is exercised by the harness on every run, not proved. -/
def C14_full : Prop :=
  ∀ (Bytes : Type) (writeXlsx : Sheet → Bytes) (parseXlsx : Bytes → XGrid),
    (∀ s, parseXlsx (writeXlsx s) = toXlsxGrid s) →
    ∀ w : Workbook, (w.map Sheet.name).Nodup → (∀ s ∈ w, Good s ∧ CellsFit s) →
      (∀ s ∈ w, loadCsv s.name (exportCsvBytes s) = .ok s ∧
        (xlsxSanitize (parseXlsx (writeXlsx s))).map (fun t => t.toSheet? s.name) = .ok (some s)) ∧
      loadJson (toJsonBytes w) = .ok w

/-- `C14_full` holds *relative to* the one library premise it still names (XLSX); the CSV and JSON
byte formats are proved (`csv_file_roundtrip`, `json_file_roundtrip`).  Hence the claim stays
PARTIAL. -/
theorem c14_partial : C14_full := by
  intro Bytes wx px hx w hn hw
  refine ⟨fun s hs => ?_, json_file_roundtrip w hn
    (fun s hs => ⟨(hw s hs).1.rect, (hw s hs).1.nodup, (hw s hs).1.rows, (hw s hs).1.noBlank⟩)⟩
  rw [hx]
  exact ⟨csv_file_roundtrip s (hw s hs).1.rect (hw s hs).1.headers.1 (hw s hs).1.noBlank (hw s hs).2,
    (formats_agree s (hw s hs).1).2.1⟩

example :
    let w : Workbook := [⟨"s".toList, ["a".toList, "b".toList], [["1".toList, [] ], [[], "0".toList]]⟩]
    (w.map Sheet.name).Nodup ∧ ∀ s ∈ w, Good s ∧ CellsFit s := by
  refine ⟨by decide, ?_⟩
  intro s hs
  simp only [List.mem_singleton] at hs
  subst hs
  exact ⟨⟨by decide, by decide, by decide, by decide, by decide⟩, by decide⟩

end Rpft.Props.C14
