/-
C07 — Row models survive the trip to spreadsheet cells and back, in every layout.

Property theorems only (model: Rpft/Schema, RowParse, RowUnparse, RowSpec; helper lemmas:
Rpft/Lemmas/Row.lean, Codec.lean).  Strings, integers, list lengths and the number of
fields are unbounded in every theorem.
-/
import Rpft.Lemmas.Row
import Rpft.FlowSchema
import Rpft.Gen.Tables
set_option linter.unusedSimpArgs false
set_option linter.unusedVariables false
namespace Rpft.Props.C07
open Rpft Rpft.Row

/-- T1: the hand-written flow row schema is the one in the source (regenerated each run):
field names, types, defaults of FlowRowModel / Edge / Condition / Webhook /
WhatsAppTemplating and the Edge remap dictionaries. -/
theorem tables_agree_schema : Gen.flowRowDescr = Ty.descr flowRowTy := by decide +kernel

/-- T1: header remap dictionaries of flowrowmodel.py -/
theorem tables_agree_remaps :
    Gen.flowF2H = flowF2H ∧ Gen.flowBasicHeaderDict = flowBasicHeaders ∧
    Gen.flowRowTypeToMainArg = flowMainArg ∧
    flowRowSchema.ctxMain = some (Gen.flowMainHeader, Gen.flowTypeColumn, Gen.flowRowTypeToMainArg) ∧
    Gen.edgeH2F = pairsS [("from", "from_")] ∧ Gen.edgeF2H = pairsS [("from_", "from")] := by
  decide +kernel

/-- the round trip as a Boolean (for the kernel-evaluated witnesses) -/
def roundTrips (sch : Schema) (lay : Layout) (v : Val) : Bool :=
  match unparseRow sch lay v with
  | .ok cells =>
    match parseRow sch cells with
    | .ok v' => v' == v
    | .error _ => false
  | .error _ => false

/-- the round trip as a statement -/
def RoundTrip (sch : Schema) (lay : Layout) (v : Val) : Prop :=
  ∃ cells, unparseRow sch lay v = .ok cells ∧ parseRow sch cells = .ok v

theorem roundTrips_of (sch : Schema) (lay : Layout) (v : Val) (h : RoundTrip sch lay v) :
    roundTrips sch lay v = true := by
  obtain ⟨cells, h1, h2⟩ := h
  simp [roundTrips, h1, h2]

/-- well-formed schema (general statement): field names are distinct header segments at
every level -/
def wfFieldNames (fs : List Field) : Bool :=
  fs.all (fun f => simpleName f.1) && decide ((fs.map (·.1)).Nodup)

/-- **The general statement** (kept visible; proved below for the families named
`…_partial`): for every schema of the `Ty` grammar without header remaps, every
representable value and every admissible layout, parse ∘ unparse is the identity.
(Schemas with remaps additionally need the remap tables to be mutually inverse on the value,
see `harness/props/c07.py remap_consistent`; untyped lists holding lists must be packed —
finding F-C04-d.) -/
def C07_full : Prop :=
  ∀ (fs : List Field) (lay : Layout) (v : Val),
    wfFieldNames fs = true →
    Representable (plainTop fs) v = true → Admissible { top := plainTop fs } lay = true →
    RoundTrip { top := plainTop fs } lay v

/-- family 1: every field has a basic type (`str`, `int`, `float`, `bool`) -/
def flatFamily (fs : List Field) : Bool := fs.all fun f => isBasicTy f.2.1

/-- **Flat records**: any number of fields of basic types, any defaults (or none), any
representable value — unbounded strings and integers; fields equal to their default are
elided by `unparse` and restored by default filling. -/
theorem parse_unparse_flat_partial (fs : List Field) (lay : Layout) (v : Val)
    (hwf : wfFieldNames fs = true) (hfam : flatFamily fs = true)
    (hr : Representable (plainTop fs) v = true)
    (ha : Admissible { top := plainTop fs } lay = true) :
    RoundTrip { top := plainTop fs } lay v := by
  cases v <;> simp [Representable] at hr
  case model kvs =>
    obtain ⟨hnames, hrf⟩ := hr
    simp only [wfFieldNames, Bool.and_eq_true, List.all_eq_true, decide_eq_true_eq] at hwf
    obtain ⟨hsimple, hnd⟩ := hwf
    have he : lay.excluded = [] := by
      simp only [Admissible, Bool.and_eq_true, List.isEmpty_iff] at ha
      exact ha.1
    apply parse_unparse_of_fields lay fs kvs hnames hnd
    intro p hp hdef
    have hmem : p.1 ∈ fs := (List.of_mem_zip hp).1
    obtain ⟨x, hx, hor⟩ := reprFields_mem false kvs fs hrf p.1 hmem
    have hx' := alookup_zip fs kvs hnames hnd p hp
    rw [hx'] at hx
    cases hx
    rcases hor with h | ⟨_, h⟩
    · rw [h] at hdef; cases hdef
    · have hb : isBasicTy p.1.2.1 = true := by
        simp only [flatFamily, List.all_eq_true] at hfam
        exact hfam p.1 hmem
      exact fieldRT_basic (d := p.1.2.2) (hsimple p.1 hmem) (fieldLookup_mem fs hnd p.1 hmem) he hb h

/-! #### non-vacuity and negative witnesses (flat records) -/

def exFlat : List Field :=
  [("a".toList, .str, some (.str [])), ("b".toList, .int, some (.int 0)),
   ("c".toList, .bool, some (.bool true)), ("e".toList, .str, some (.str "dflt".toList)),
   ("r".toList, .str, none)]

def exFlatVal : Val :=
  .model [("a".toList, .str "x|y; z\\".toList), ("b".toList, .int (-42)), ("c".toList, .bool true),
    ("e".toList, .str []), ("r".toList, .str "é日".toList)]

/-- the hypotheses of `parse_unparse_flat_partial` are satisfiable by a non-trivial value
(separators, escapes, a negative number, one default-valued field, one blank non-default) -/
example : wfFieldNames exFlat = true ∧ flatFamily exFlat = true ∧
    Representable (plainTop exFlat) exFlatVal = true ∧
    Admissible { top := plainTop exFlat } {} = true := by decide +kernel

example : roundTrips { top := plainTop exFlat } {} exFlatVal = true := by decide +kernel

/-- strings must be trimmed: the cell is stripped when read -/
theorem needs_trimmed :
    roundTrips { top := plainTop exFlat } {}
      (.model [("a".toList, .str " x".toList), ("b".toList, .int 0), ("c".toList, .bool true),
        ("e".toList, .str "dflt".toList), ("r".toList, .str "r".toList)]) = false := by
  decide +kernel

/-- strings must be template free: `{` starts the template engine -/
theorem needs_template_free :
    roundTrips { top := plainTop exFlat } {}
      (.model [("a".toList, .str "{{x}}".toList), ("b".toList, .int 0), ("c".toList, .bool true),
        ("e".toList, .str "dflt".toList), ("r".toList, .str "r".toList)]) = false := by
  decide +kernel

/-- nothing may be excluded: an excluded non-default field is lost -/
theorem needs_nothing_excluded :
    roundTrips { top := plainTop exFlat } { excluded := ["a".toList] } exFlatVal = false := by
  decide +kernel

end Rpft.Props.C07
