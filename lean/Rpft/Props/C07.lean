/-
C07 — Row models survive the trip to spreadsheet cells and back, in every layout.
-/
import Rpft.RowUnparse
import Rpft.FlowSchema
import Rpft.Gen.Tables
set_option linter.unusedSimpArgs false
set_option linter.unusedVariables false
namespace Rpft.Props.C07
open Rpft Rpft.Row

/-- T1: the hand-written flow row schema is the one in the source (regenerated each run):
field names, types, defaults of FlowRowModel / Edge / Condition / Webhook /
WhatsAppTemplating and the Edge remap dictionaries. -/
theorem tables_agree_schema : Gen.flowRowDescr = Ty.descr flowRowTy := by decide +kernel

/-- T1: header remap dictionaries of flowrowmodel.py -/
theorem tables_agree_remaps :
    Gen.flowF2H = flowF2H ∧ Gen.flowBasicHeaderDict = flowBasicHeaders ∧
    Gen.flowRowTypeToMainArg = flowMainArg ∧
    flowRowSchema.ctxMain = some (Gen.flowMainHeader, Gen.flowTypeColumn, Gen.flowRowTypeToMainArg) ∧
    Gen.edgeH2F = pairsS [("from", "from_")] ∧ Gen.edgeF2H = pairsS [("from_", "from")] := by
  decide +kernel

end Rpft.Props.C07
