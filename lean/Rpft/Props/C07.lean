/-
C07 — Row models survive the trip to spreadsheet cells and back, in every layout.

Property theorems only (model: Rpft/Schema, RowParse, RowUnparse, RowSpec; helper lemmas:
Rpft/Lemmas/Row.lean, Codec.lean).  Strings, integers, list lengths and the number of
fields are unbounded in every theorem.
-/
import Rpft.Lemmas.RowFam
import Rpft.FlowSchema
import Rpft.Gen.Tables
set_option linter.unusedSimpArgs false
set_option linter.unusedVariables false
namespace Rpft.Props.C07
open Rpft Rpft.Row

/-- T1: the hand-written flow row schema is the one in the source (regenerated each run):
field names, types, defaults of FlowRowModel / Edge / Condition / Webhook /
WhatsAppTemplating and the Edge remap dictionaries. -/
theorem tables_agree_schema : Gen.flowRowDescr = Ty.descr flowRowTy := by decide +kernel

/-- T1: header remap dictionaries of flowrowmodel.py -/
theorem tables_agree_remaps :
    Gen.flowF2H = flowF2H ∧ Gen.flowBasicHeaderDict = flowBasicHeaders ∧
    Gen.flowRowTypeToMainArg = flowMainArg ∧
    flowRowSchema.ctxMain = some (Gen.flowMainHeader, Gen.flowTypeColumn, Gen.flowRowTypeToMainArg) ∧
    Gen.edgeH2F = pairsS [("from", "from_")] ∧ Gen.edgeF2H = pairsS [("from_", "from")] := by
  decide +kernel

/-- the round trip as a Boolean (for the kernel-evaluated witnesses) -/
def roundTrips (sch : Schema) (lay : Layout) (v : Val) : Bool :=
  match unparseRow sch lay v with
  | .ok cells =>
    match parseRow sch cells with
    | .ok v' => v' == v
    | .error _ => false
  | .error _ => false

/-- the round trip as a statement -/
def RoundTrip (sch : Schema) (lay : Layout) (v : Val) : Prop :=
  ∃ cells, unparseRow sch lay v = .ok cells ∧ parseRow sch cells = .ok v

theorem roundTrips_of (sch : Schema) (lay : Layout) (v : Val) (h : RoundTrip sch lay v) :
    roundTrips sch lay v = true := by
  obtain ⟨cells, h1, h2⟩ := h
  simp [roundTrips, h1, h2]

/-- well-formed schema (general statement): field names are distinct header segments at
every level -/
def wfFieldNames (fs : List Field) : Bool :=
  fs.all (fun f => simpleName f.1) && decide ((fs.map (·.1)).Nodup)

/-- **The general statement** (kept visible; proved below for the families named
`…_partial`): for every schema of the `Ty` grammar without header remaps, every
representable value and every admissible layout, parse ∘ unparse is the identity.
(`AnySpreadOk`: untyped lists holding lists must be packed — finding F-C04-d.  Schemas with
remaps additionally need the remap tables to be mutually inverse on the value, see
`harness/props/c07.py remap_consistent`.) -/
def C07_full : Prop :=
  ∀ (fs : List Field) (lay : Layout) (v : Val),
    wfFieldNames fs = true →
    Representable (plainTop fs) v = true → Admissible { top := plainTop fs } lay = true →
    AnySpreadOk { top := plainTop fs } lay v = true →
    RoundTrip { top := plainTop fs } lay v

/-- family 1: every field has a basic type (`str`, `int`, `float`, `bool`) -/
def flatFamily (fs : List Field) : Bool := fs.all fun f => isBasicTy f.2.1

/-- **Flat records**: any number of fields of basic types, any defaults (or none), any
representable value — unbounded strings and integers; fields equal to their default are
elided by `unparse` and restored by default filling. -/
theorem parse_unparse_flat_partial (fs : List Field) (lay : Layout) (v : Val)
    (hwf : wfFieldNames fs = true) (hfam : flatFamily fs = true)
    (hr : Representable (plainTop fs) v = true)
    (ha : Admissible { top := plainTop fs } lay = true) :
    RoundTrip { top := plainTop fs } lay v := by
  cases v <;> simp [Representable] at hr
  case model kvs =>
    obtain ⟨hnames, hrf⟩ := hr
    simp only [wfFieldNames, Bool.and_eq_true, List.all_eq_true, decide_eq_true_eq] at hwf
    obtain ⟨hsimple, hnd⟩ := hwf
    have he : lay.excluded = [] := by
      simp only [Admissible, Bool.and_eq_true, List.isEmpty_iff] at ha
      exact ha.1
    apply parse_unparse_of_fields lay fs kvs hnames hnd
    intro p hp hdef
    have hmem : p.1 ∈ fs := (List.of_mem_zip hp).1
    obtain ⟨x, hx, hor⟩ := reprFields_mem false kvs fs hrf p.1 hmem
    have hx' := alookup_zip fs kvs hnames hnd p hp
    rw [hx'] at hx
    cases hx
    rcases hor with h | ⟨_, h⟩
    · rw [h] at hdef; cases hdef
    · have hb : isBasicTy p.1.2.1 = true := by
        simp only [flatFamily, List.all_eq_true] at hfam
        exact hfam p.1 hmem
      exact fieldRT_basic (d := p.1.2.2) (hsimple p.1 hmem) (fieldLookup_mem fs hnd p.1 hmem) he hb h

/-- **Records of basic fields, lists of basic values, sub-records and lists of sub-records,
in every admissible layout**: each list of basic values independently spread over `f.1, f.2, …` or
packed into one cell `x|y|z`; each sub-record spread over `f.a, f.b, …` or packed as
`a;va|b;vb`; each ELEMENT of a list of sub-records independently packed into its cell `f.i`
or spread over `f.i.a, f.i.b, …`; each untyped list packed (strings and lists of strings) or —
plain strings — spread; as selected by ANY admissible target-header set (with `*` or
concrete indices); any number of fields, unbounded strings, integers and list lengths;
default-valued fields elided and restored. -/
theorem parse_unparse_partial (fs : List Field) (lay : Layout) (v : Val)
    (hwf : wfFieldNames fs = true) (hfam : family fs = true)
    (hr : Representable (plainTop fs) v = true)
    (ha : Admissible { top := plainTop fs } lay = true)
    (hany : AnySpreadOk { top := plainTop fs } lay v = true) :
    RoundTrip { top := plainTop fs } lay v := by
  cases v <;> simp [Representable] at hr
  case model kvs =>
    obtain ⟨hnames, hrf⟩ := hr
    simp only [wfFieldNames, Bool.and_eq_true, List.all_eq_true, decide_eq_true_eq] at hwf
    obtain ⟨hsimple, hnd⟩ := hwf
    have hanyF : anyDeepFields lay [] [] kvs fs = true := by
      have := hany
      unfold AnySpreadOk anyDeep at this
      simpa [matchesHeaders] using this
    simp only [Admissible, Bool.and_eq_true, List.isEmpty_iff] at ha
    have he : lay.excluded = [] := ha.1
    have hadm : admFields lay.targets [] [] fs = true := by
      have := ha.2
      unfold admTy at this
      simpa [isBasicTy, matchesHeaders] using this
    apply parse_unparse_of_fields lay fs kvs hnames hnd
    intro p hp hdef
    have hmem : p.1 ∈ fs := (List.of_mem_zip hp).1
    obtain ⟨x, hx, hor⟩ := reprFields_mem false kvs fs hrf p.1 hmem
    have hx' := alookup_zip fs kvs hnames hnd p hp
    rw [hx'] at hx
    cases hx
    rcases hor with h | ⟨hfo, h⟩
    · rw [h] at hdef; cases hdef
    · have hb : famTy p.1.2.1 = true := by
        simp only [family, List.all_eq_true] at hfam
        exact hfam p.1 hmem
      have hadm' := admFields_mem lay.targets [] [] fs hadm p.1 hmem (remap_nil _)
      simp only [List.nil_append] at hadm'
      refine fieldRT_fam (d := p.1.2.2) (hsimple p.1 hmem) (fieldLookup_mem fs hnd p.1 hmem) he hb hfo h
        hadm' ?_
      intro xs hty hv hm
      have := anyDeepFields_mem lay [] [] kvs fs hanyF p.1 hmem (remap_nil _) p.2 hx' hdef
      rw [hty, hv] at this
      unfold anyDeep at this
      simpa [hm] using this

/-- flat records are the special case -/
theorem flat_in_family (fs : List Field) (h : flatFamily fs = true) : family fs = true := by
  simp only [flatFamily, family, List.all_eq_true] at h ⊢
  intro f hf
  have := h f hf
  cases hty : f.2.1 <;> simp [hty, isBasicTy] at this <;> simp [famTy, isBasicTy]

/-! #### non-vacuity and negative witnesses (flat records) -/

def exFlat : List Field :=
  [("a".toList, .str, some (.str [])), ("b".toList, .int, some (.int 0)),
   ("c".toList, .bool, some (.bool true)), ("e".toList, .str, some (.str "dflt".toList)),
   ("r".toList, .str, none)]

def exFlatVal : Val :=
  .model [("a".toList, .str "x|y; z\\".toList), ("b".toList, .int (-42)), ("c".toList, .bool true),
    ("e".toList, .str []), ("r".toList, .str "é日".toList)]

/-- the hypotheses of `parse_unparse_flat_partial` are satisfiable by a non-trivial value
(separators, escapes, a negative number, one default-valued field, one blank non-default) -/
example : wfFieldNames exFlat = true ∧ flatFamily exFlat = true ∧
    Representable (plainTop exFlat) exFlatVal = true ∧
    Admissible { top := plainTop exFlat } {} = true := by decide +kernel

example : roundTrips { top := plainTop exFlat } {} exFlatVal = true := by decide +kernel

/-- strings must be trimmed: the cell is stripped when read -/
theorem needs_trimmed :
    roundTrips { top := plainTop exFlat } {}
      (.model [("a".toList, .str " x".toList), ("b".toList, .int 0), ("c".toList, .bool true),
        ("e".toList, .str "dflt".toList), ("r".toList, .str "r".toList)]) = false := by
  decide +kernel

/-- strings must be template free: `{` starts the template engine -/
theorem needs_template_free :
    roundTrips { top := plainTop exFlat } {}
      (.model [("a".toList, .str "{{x}}".toList), ("b".toList, .int 0), ("c".toList, .bool true),
        ("e".toList, .str "dflt".toList), ("r".toList, .str "r".toList)]) = false := by
  decide +kernel

/-- nothing may be excluded: an excluded non-default field is lost -/
theorem needs_nothing_excluded :
    roundTrips { top := plainTop exFlat } { excluded := ["a".toList] } exFlatVal = false := by
  decide +kernel

/-! #### non-vacuity and negative witnesses (lists, sub-records, layouts) -/

def exSub : List Field :=
  [("p".toList, .str, some (.str [])), ("q".toList, .int, some (.int 0)),
   ("w".toList, .bool, some (.bool false)), ("z".toList, .str, some (.str "zz".toList))]
def exSubDefault : Val :=
  .model [("p".toList, .str []), ("q".toList, .int 0), ("w".toList, .bool false),
    ("z".toList, .str "zz".toList)]

def exFam : List Field :=
  [("a".toList, .str, some (.str [])), ("xs".toList, .list .str, some (.list [])),
   ("s".toList, plainTop exSub, some exSubDefault), ("c".toList, .bool, some (.bool true)),
   ("ys".toList, .list .str, none)]

def exFamVal : Val :=
  .model [("a".toList, .str "x;y".toList),
    ("xs".toList, .list [.str "a|b".toList, .str "\\;".toList, .str "q".toList]),
    ("s".toList, .model [("p".toList, .str "p;|q".toList), ("q".toList, .int (-7)),
      ("w".toList, .bool false), ("z".toList, .str "z".toList)]),
    ("c".toList, .bool true), ("ys".toList, .list [.str "one".toList])]

def exLayouts : List Layout :=
  [{}, { targets := ["xs".toList] }, { targets := ["s".toList] },
   { targets := ["xs".toList, "s".toList, "ys".toList] }, { targets := ["*".toList] }]

/-- the hypotheses of `parse_unparse_partial` hold for a non-trivial value in five layouts
(all spread, only the list packed, only the sub-record packed, everything packed, `*`) -/
example : wfFieldNames exFam = true ∧ family exFam = true ∧
    Representable (plainTop exFam) exFamVal = true ∧
    exLayouts.all (fun lay => Admissible { top := plainTop exFam } lay &&
      AnySpreadOk { top := plainTop exFam } lay exFamVal) = true := by
  decide +kernel

example : exLayouts.all (fun lay => roundTrips { top := plainTop exFam } lay exFamVal) = true := by
  decide +kernel

def exFamWith (xs : List Val) (z : Str) : Val :=
  .model [("a".toList, .str []), ("xs".toList, .list xs),
    ("s".toList, .model [("p".toList, .str []), ("q".toList, .int 0), ("w".toList, .bool false),
      ("z".toList, .str z)]),
    ("c".toList, .bool true), ("ys".toList, .list [.str "y".toList])]

/-- "no blank element inside a list": a packed list loses a blank last element -/
theorem needs_no_blank_in_list :
    roundTrips { top := plainTop exFam } { targets := ["xs".toList] }
      (exFamWith [.str "a".toList, .str []] "zz".toList) = false := by decide +kernel

/-- a blank, non-default string inside a packed sub-record is the blank last element of its
key/value pair: it is lost, and the key is then read as a positional value -/
theorem needs_no_blank_in_subrecord :
    roundTrips { top := plainTop exFam } { targets := ["s".toList] }
      (exFamWith [] []) = false := by decide +kernel

/-- an empty list must be the field's default: it leaves no cell, so a required list field
is reported missing -/
theorem needs_nonempty_or_default :
    roundTrips { top := plainTop exFam } {}
      (.model [("a".toList, .str []), ("xs".toList, .list []), ("s".toList, exSubDefault),
        ("c".toList, .bool true), ("ys".toList, .list [])]) = false := by decide +kernel

/-- an all-default record inside a list unparses to nothing (spread) -/
theorem needs_no_all_default_record_in_list :
    roundTrips { top := plainTop [("items".toList, .list (plainTop exSub), some (.list []))] } {}
      (.model [("items".toList, .list [exSubDefault, .model [("p".toList, .str "x".toList),
        ("q".toList, .int 0), ("w".toList, .bool false), ("z".toList, .str "zz".toList)]])]) = false := by
  decide +kernel

def exDeep : List Field :=
  [("s".toList, plainTop [("xs".toList, .list .str, some (.list []))],
    some (.model [("xs".toList, .list [])]))]

/-- `Admissible`: a record holding a list needs three levels when packed — the error branch
of `join_from_lists` -/
theorem needs_admissible_depth :
    Admissible { top := plainTop exDeep } { targets := ["s".toList] } = false ∧
    roundTrips { top := plainTop exDeep } { targets := ["s".toList] }
      (.model [("s".toList, .model [("xs".toList, .list [.str "a".toList])])]) = false ∧
    roundTrips { top := plainTop exDeep } {}
      (.model [("s".toList, .model [("xs".toList, .list [.str "a".toList])])]) = true := by
  decide +kernel

/-- finding F-C04-d: an untyped list holding a list, spread over `u.1.1, u.1.2`, cannot be
parsed back (assertion in `find_entry`); packed it survives -/
theorem spread_untyped_list_of_lists_fails :
    roundTrips { top := plainTop [("u".toList, .anyList, some (.any []))] } {}
      (.model [("u".toList, .any [.list [.atom "k".toList, .atom "v".toList]])]) = false ∧
    roundTrips { top := plainTop [("u".toList, .anyList, some (.any []))] } { targets := ["u".toList] }
      (.model [("u".toList, .any [.list [.atom "k".toList, .atom "v".toList]])]) = true := by
  decide +kernel

/-! #### lists of numbers and lists of sub-records -/

def exItems : List Field :=
  [("name".toList, .str, none), ("ns".toList, .list .int, some (.list [])),
   ("items".toList, .list (plainTop exSub), some (.list []))]

def exItemsVal : Val :=
  .model [("name".toList, .str "n".toList), ("ns".toList, .list [.int 10, .int (-3)]),
    ("items".toList, .list [
      .model [("p".toList, .str "a;b".toList), ("q".toList, .int 0), ("w".toList, .bool true),
        ("z".toList, .str "zz".toList)],
      .model [("p".toList, .str []), ("q".toList, .int 12), ("w".toList, .bool false),
        ("z".toList, .str "y|".toList)]])]

def exItemsLays : List Layout :=
  [{}, { targets := ["items.*".toList] }, { targets := ["items.2".toList, "ns".toList] }]

/-- non-vacuity for lists of integers and lists of sub-records: all elements spread, all
elements packed by `items.*`, only the second element packed (and the number list packed) -/
example : wfFieldNames exItems = true ∧ family exItems = true ∧
    Representable (plainTop exItems) exItemsVal = true ∧
    exItemsLays.all (fun lay => Admissible { top := plainTop exItems } lay &&
      roundTrips { top := plainTop exItems } lay exItemsVal) = true := by decide +kernel

/-- `Admissible` is needed for lists of sub-records: packing the whole list needs three levels -/
theorem needs_admissible_list_of_records :
    Admissible { top := plainTop exItems } { targets := ["items".toList] } = false ∧
    roundTrips { top := plainTop exItems } { targets := ["items".toList] } exItemsVal = false := by
  decide +kernel

/-! #### untyped lists -/

def exAny : List Field :=
  [("u".toList, .anyList, some (.any [])), ("hs".toList, .anyList, some (.any []))]

def exAnyVal : Val :=
  .model [("u".toList, .any [.atom "a;b".toList, .atom "c".toList]),
    ("hs".toList, .any [.list [.atom "k|1".toList, .atom "v".toList], .atom "w".toList])]

/-- non-vacuity: plain strings spread, the list holding a list packed — and `AnySpreadOk`
excludes exactly the layout that spreads `hs` -/
example : wfFieldNames exAny = true ∧ family exAny = true ∧
    Representable (plainTop exAny) exAnyVal = true ∧
    Admissible { top := plainTop exAny } { targets := ["hs".toList] } = true ∧
    AnySpreadOk { top := plainTop exAny } { targets := ["hs".toList] } exAnyVal = true ∧
    roundTrips { top := plainTop exAny } { targets := ["hs".toList] } exAnyVal = true ∧
    AnySpreadOk { top := plainTop exAny } {} exAnyVal = false ∧
    roundTrips { top := plainTop exAny } {} exAnyVal = false := by decide +kernel

end Rpft.Props.C07
