/-
C07 — Row models survive the trip to spreadsheet cells and back, in every layout.

Property theorems only (model: Rpft/Schema, RowParse, RowUnparse, RowSpec; helper lemmas:
Rpft/Lemmas/Row.lean, Codec.lean).  Strings, integers, list lengths and the number of
fields are unbounded in every theorem.
-/
import Rpft.Lemmas.RowGenFlow
import Rpft.FlowSchema
import Rpft.Gen.Tables
set_option linter.unusedSimpArgs false
set_option linter.unusedVariables false
namespace Rpft.Props.C07
open Rpft Rpft.Row

/-- T1: the hand-written flow row schema is the one in the source (regenerated each run):
field names, types, defaults of FlowRowModel / Edge / Condition / Webhook /
WhatsAppTemplating and the Edge remap dictionaries. -/
theorem tables_agree_schema : Gen.flowRowDescr = Ty.descr flowRowTy := by decide +kernel

/-- T1: header remap tables of flowrowmodel.py, read off the BEHAVIOUR of the remap functions
(`harness/tables/t07_flowrow.py`).  They are lookups with unique keys (`remap_keys_unique`), so they
are compared up to order (`Canon.sortP`); the main header and the type column exactly. -/
theorem tables_agree_remaps :
    Canon.sameMap Gen.flowF2H flowF2H ∧ Canon.sameMap Gen.flowBasicHeaderDict flowBasicHeaders ∧
    Canon.sameMap Gen.flowRowTypeToMainArg flowMainArg ∧
    (flowRowSchema.ctxMain.map fun (h, t, m) => (h, t, Canon.sortP m))
      = some (Gen.flowMainHeader, Gen.flowTypeColumn, Canon.sortP Gen.flowRowTypeToMainArg) ∧
    Canon.sameMap Gen.edgeH2F (pairsS [("from", "from_")]) ∧
    Canon.sameMap Gen.edgeF2H (pairsS [("from_", "from")]) := by
  decide +kernel

/-- … and first-match lookup in them does not depend on their order: keys are unique -/
theorem remap_keys_unique :
    Canon.uniqueKeys flowF2H = true ∧ Canon.uniqueKeys flowBasicHeaders = true ∧
    Canon.uniqueKeys flowMainArg = true := by decide +kernel

/-- the round trip as a Boolean (for the kernel-evaluated witnesses) -/
def roundTrips (sch : Schema) (lay : Layout) (v : Val) : Bool :=
  match unparseRow sch lay v with
  | .ok cells =>
    match parseRow sch cells with
    | .ok v' => v' == v
    | .error _ => false
  | .error _ => false

/-- the round trip as a statement -/
def RoundTrip (sch : Schema) (lay : Layout) (v : Val) : Prop :=
  ∃ cells, unparseRow sch lay v = .ok cells ∧ parseRow sch cells = .ok v

theorem roundTrips_of (sch : Schema) (lay : Layout) (v : Val) (h : RoundTrip sch lay v) :
    roundTrips sch lay v = true := by
  obtain ⟨cells, h1, h2⟩ := h
  simp [roundTrips, h1, h2]

/-- well-formed schema (general statement): field names are distinct header segments at
every level -/
def wfFieldNames (fs : List Field) : Bool :=
  fs.all (fun f => simpleName f.1) && decide ((fs.map (·.1)).Nodup)

/-- The FIRST-ROUND general statement, with the layout condition checked statically on the
schema (list index 1 standing for every index).  It is kept visible because it is FALSE
(`static_statement_is_false` below: a target header with a concrete index such as `items.2`
escapes the static check) — the general theorem `parse_unparse` at the end of this file uses
the value-level condition `LayoutOk` instead and needs the nested remap tables to be
consistent (`goodTop`). -/
def C07_static_statement : Prop :=
  ∀ (fs : List Field) (lay : Layout) (v : Val),
    wfFieldNames fs = true →
    Representable (plainTop fs) v = true → Admissible { top := plainTop fs } lay = true →
    AnySpreadOk { top := plainTop fs } lay v = true →
    RoundTrip { top := plainTop fs } lay v

/-- family 1: every field has a basic type (`str`, `int`, `float`, `bool`) -/
def flatFamily (fs : List Field) : Bool := fs.all fun f => isBasicTy f.2.1

/-- **Flat records**: any number of fields of basic types, any defaults (or none), any
representable value — unbounded strings and integers; fields equal to their default are
elided by `unparse` and restored by default filling. -/
theorem parse_unparse_flat_partial (fs : List Field) (lay : Layout) (v : Val)
    (hwf : wfFieldNames fs = true) (hfam : flatFamily fs = true)
    (hr : Representable (plainTop fs) v = true)
    (ha : Admissible { top := plainTop fs } lay = true) :
    RoundTrip { top := plainTop fs } lay v := by
  cases v <;> simp [Representable] at hr
  case model kvs =>
    obtain ⟨hnames, hrf⟩ := hr
    simp only [wfFieldNames, Bool.and_eq_true, List.all_eq_true, decide_eq_true_eq] at hwf
    obtain ⟨hsimple, hnd⟩ := hwf
    have he : lay.excluded = [] := by
      simp only [Admissible, Bool.and_eq_true, List.isEmpty_iff] at ha
      exact ha.1
    apply parse_unparse_of_fields lay fs kvs hnames hnd
    intro p hp hdef
    have hmem : p.1 ∈ fs := (List.of_mem_zip hp).1
    obtain ⟨x, hx, hor⟩ := reprFields_mem false kvs fs hrf p.1 hmem
    have hx' := alookup_zip fs kvs hnames hnd p hp
    rw [hx'] at hx
    cases hx
    rcases hor with h | ⟨_, h⟩
    · rw [h] at hdef; cases hdef
    · have hb : isBasicTy p.1.2.1 = true := by
        simp only [flatFamily, List.all_eq_true] at hfam
        exact hfam p.1 hmem
      exact fieldRT_basic (d := p.1.2.2) (hsimple p.1 hmem) (fieldLookup_mem fs hnd p.1 hmem) he hb h

/-- **Records of basic fields, lists of basic values, sub-records and lists of sub-records,
in every admissible layout**: each list of basic values independently spread over `f.1, f.2, …` or
packed into one cell `x|y|z`; each sub-record spread over `f.a, f.b, …` or packed as
`a;va|b;vb`; each ELEMENT of a list of sub-records independently packed into its cell `f.i`
or spread over `f.i.a, f.i.b, …`; each untyped list packed (strings and lists of strings) or —
plain strings — spread; as selected by ANY admissible target-header set (with `*` or
concrete indices); any number of fields, unbounded strings, integers and list lengths;
default-valued fields elided and restored. -/
theorem parse_unparse_partial (fs : List Field) (lay : Layout) (v : Val)
    (hwf : wfFieldNames fs = true) (hfam : family fs = true)
    (hr : Representable (plainTop fs) v = true)
    (ha : Admissible { top := plainTop fs } lay = true)
    (hany : AnySpreadOk { top := plainTop fs } lay v = true) :
    RoundTrip { top := plainTop fs } lay v := by
  cases v <;> simp [Representable] at hr
  case model kvs =>
    obtain ⟨hnames, hrf⟩ := hr
    simp only [wfFieldNames, Bool.and_eq_true, List.all_eq_true, decide_eq_true_eq] at hwf
    obtain ⟨hsimple, hnd⟩ := hwf
    have hanyF : anyDeepFields lay [] [] kvs fs = true := by
      have := hany
      unfold AnySpreadOk anyDeep at this
      simpa [matchesHeaders] using this
    simp only [Admissible, Bool.and_eq_true, List.isEmpty_iff] at ha
    have he : lay.excluded = [] := ha.1
    have hadm : admFields lay.targets [] [] fs = true := by
      have := ha.2
      unfold admTy at this
      simpa [isBasicTy, matchesHeaders] using this
    apply parse_unparse_of_fields lay fs kvs hnames hnd
    intro p hp hdef
    have hmem : p.1 ∈ fs := (List.of_mem_zip hp).1
    obtain ⟨x, hx, hor⟩ := reprFields_mem false kvs fs hrf p.1 hmem
    have hx' := alookup_zip fs kvs hnames hnd p hp
    rw [hx'] at hx
    cases hx
    rcases hor with h | ⟨hfo, h⟩
    · rw [h] at hdef; cases hdef
    · have hb : famTy p.1.2.1 = true := by
        simp only [family, List.all_eq_true] at hfam
        exact hfam p.1 hmem
      have hadm' := admFields_mem lay.targets [] [] fs hadm p.1 hmem (remap_nil _)
      simp only [List.nil_append] at hadm'
      refine fieldRT_fam (d := p.1.2.2) (hsimple p.1 hmem) (fieldLookup_mem fs hnd p.1 hmem) he hb hfo h
        hadm' ?_
      intro xs hty hv hm
      have := anyDeepFields_mem lay [] [] kvs fs hanyF p.1 hmem (remap_nil _) p.2 hx' hdef
      rw [hty, hv] at this
      unfold anyDeep at this
      simpa [hm] using this

/-- flat records are the special case -/
theorem flat_in_family (fs : List Field) (h : flatFamily fs = true) : family fs = true := by
  simp only [flatFamily, family, List.all_eq_true] at h ⊢
  intro f hf
  have := h f hf
  cases hty : f.2.1 <;> simp [hty, isBasicTy] at this <;> simp [famTy, isBasicTy]

/-! #### non-vacuity and negative witnesses (flat records) -/

def exFlat : List Field :=
  [("a".toList, .str, some (.str [])), ("b".toList, .int, some (.int 0)),
   ("c".toList, .bool, some (.bool true)), ("e".toList, .str, some (.str "dflt".toList)),
   ("r".toList, .str, none)]

def exFlatVal : Val :=
  .model [("a".toList, .str "x|y; z\\".toList), ("b".toList, .int (-42)), ("c".toList, .bool true),
    ("e".toList, .str []), ("r".toList, .str "é日".toList)]

/-- the hypotheses of `parse_unparse_flat_partial` are satisfiable by a non-trivial value
(separators, escapes, a negative number, one default-valued field, one blank non-default) -/
example : wfFieldNames exFlat = true ∧ flatFamily exFlat = true ∧
    Representable (plainTop exFlat) exFlatVal = true ∧
    Admissible { top := plainTop exFlat } {} = true := by decide +kernel

example : roundTrips { top := plainTop exFlat } {} exFlatVal = true := by decide +kernel

/-- strings must be trimmed: the cell is stripped when read -/
theorem needs_trimmed :
    roundTrips { top := plainTop exFlat } {}
      (.model [("a".toList, .str " x".toList), ("b".toList, .int 0), ("c".toList, .bool true),
        ("e".toList, .str "dflt".toList), ("r".toList, .str "r".toList)]) = false := by
  decide +kernel

/-- strings must be template free: `{` starts the template engine -/
theorem needs_template_free :
    roundTrips { top := plainTop exFlat } {}
      (.model [("a".toList, .str "{{x}}".toList), ("b".toList, .int 0), ("c".toList, .bool true),
        ("e".toList, .str "dflt".toList), ("r".toList, .str "r".toList)]) = false := by
  decide +kernel

/-- nothing may be excluded: an excluded non-default field is lost -/
theorem needs_nothing_excluded :
    roundTrips { top := plainTop exFlat } { excluded := ["a".toList] } exFlatVal = false := by
  decide +kernel

/-! #### non-vacuity and negative witnesses (lists, sub-records, layouts) -/

def exSub : List Field :=
  [("p".toList, .str, some (.str [])), ("q".toList, .int, some (.int 0)),
   ("w".toList, .bool, some (.bool false)), ("z".toList, .str, some (.str "zz".toList))]
def exSubDefault : Val :=
  .model [("p".toList, .str []), ("q".toList, .int 0), ("w".toList, .bool false),
    ("z".toList, .str "zz".toList)]

def exFam : List Field :=
  [("a".toList, .str, some (.str [])), ("xs".toList, .list .str, some (.list [])),
   ("s".toList, plainTop exSub, some exSubDefault), ("c".toList, .bool, some (.bool true)),
   ("ys".toList, .list .str, none)]

def exFamVal : Val :=
  .model [("a".toList, .str "x;y".toList),
    ("xs".toList, .list [.str "a|b".toList, .str "\\;".toList, .str "q".toList]),
    ("s".toList, .model [("p".toList, .str "p;|q".toList), ("q".toList, .int (-7)),
      ("w".toList, .bool false), ("z".toList, .str "z".toList)]),
    ("c".toList, .bool true), ("ys".toList, .list [.str "one".toList])]

def exLayouts : List Layout :=
  [{}, { targets := ["xs".toList] }, { targets := ["s".toList] },
   { targets := ["xs".toList, "s".toList, "ys".toList] }, { targets := ["*".toList] }]

/-- the hypotheses of `parse_unparse_partial` hold for a non-trivial value in five layouts
(all spread, only the list packed, only the sub-record packed, everything packed, `*`) -/
example : wfFieldNames exFam = true ∧ family exFam = true ∧
    Representable (plainTop exFam) exFamVal = true ∧
    exLayouts.all (fun lay => Admissible { top := plainTop exFam } lay &&
      AnySpreadOk { top := plainTop exFam } lay exFamVal) = true := by
  decide +kernel

example : exLayouts.all (fun lay => roundTrips { top := plainTop exFam } lay exFamVal) = true := by
  decide +kernel

def exFamWith (xs : List Val) (z : Str) : Val :=
  .model [("a".toList, .str []), ("xs".toList, .list xs),
    ("s".toList, .model [("p".toList, .str []), ("q".toList, .int 0), ("w".toList, .bool false),
      ("z".toList, .str z)]),
    ("c".toList, .bool true), ("ys".toList, .list [.str "y".toList])]

/-- "no blank element inside a list": a packed list loses a blank last element -/
theorem needs_no_blank_in_list :
    roundTrips { top := plainTop exFam } { targets := ["xs".toList] }
      (exFamWith [.str "a".toList, .str []] "zz".toList) = false := by decide +kernel

/-- a blank, non-default string inside a packed sub-record is the blank last element of its
key/value pair: it is lost, and the key is then read as a positional value -/
theorem needs_no_blank_in_subrecord :
    roundTrips { top := plainTop exFam } { targets := ["s".toList] }
      (exFamWith [] []) = false := by decide +kernel

/-- an empty list must be the field's default: it leaves no cell, so a required list field
is reported missing -/
theorem needs_nonempty_or_default :
    roundTrips { top := plainTop exFam } {}
      (.model [("a".toList, .str []), ("xs".toList, .list []), ("s".toList, exSubDefault),
        ("c".toList, .bool true), ("ys".toList, .list [])]) = false := by decide +kernel

/-- an all-default record inside a list unparses to nothing (spread) -/
theorem needs_no_all_default_record_in_list :
    roundTrips { top := plainTop [("items".toList, .list (plainTop exSub), some (.list []))] } {}
      (.model [("items".toList, .list [exSubDefault, .model [("p".toList, .str "x".toList),
        ("q".toList, .int 0), ("w".toList, .bool false), ("z".toList, .str "zz".toList)]])]) = false := by
  decide +kernel

def exDeep : List Field :=
  [("s".toList, plainTop [("xs".toList, .list .str, some (.list []))],
    some (.model [("xs".toList, .list [])]))]

/-- `Admissible`: a record holding a list needs three levels when packed — the error branch
of `join_from_lists` -/
theorem needs_admissible_depth :
    Admissible { top := plainTop exDeep } { targets := ["s".toList] } = false ∧
    roundTrips { top := plainTop exDeep } { targets := ["s".toList] }
      (.model [("s".toList, .model [("xs".toList, .list [.str "a".toList])])]) = false ∧
    roundTrips { top := plainTop exDeep } {}
      (.model [("s".toList, .model [("xs".toList, .list [.str "a".toList])])]) = true := by
  decide +kernel

/-- finding F-C04-d: an untyped list holding a list, spread over `u.1.1, u.1.2`, cannot be
parsed back (assertion in `find_entry`); packed it survives -/
theorem spread_untyped_list_of_lists_fails :
    roundTrips { top := plainTop [("u".toList, .anyList, some (.any []))] } {}
      (.model [("u".toList, .any [.list [.atom "k".toList, .atom "v".toList]])]) = false ∧
    roundTrips { top := plainTop [("u".toList, .anyList, some (.any []))] } { targets := ["u".toList] }
      (.model [("u".toList, .any [.list [.atom "k".toList, .atom "v".toList]])]) = true := by
  decide +kernel

/-! #### lists of numbers and lists of sub-records -/

def exItems : List Field :=
  [("name".toList, .str, none), ("ns".toList, .list .int, some (.list [])),
   ("items".toList, .list (plainTop exSub), some (.list []))]

def exItemsVal : Val :=
  .model [("name".toList, .str "n".toList), ("ns".toList, .list [.int 10, .int (-3)]),
    ("items".toList, .list [
      .model [("p".toList, .str "a;b".toList), ("q".toList, .int 0), ("w".toList, .bool true),
        ("z".toList, .str "zz".toList)],
      .model [("p".toList, .str []), ("q".toList, .int 12), ("w".toList, .bool false),
        ("z".toList, .str "y|".toList)]])]

def exItemsLays : List Layout :=
  [{}, { targets := ["items.*".toList] }, { targets := ["items.2".toList, "ns".toList] }]

/-- non-vacuity for lists of integers and lists of sub-records: all elements spread, all
elements packed by `items.*`, only the second element packed (and the number list packed) -/
example : wfFieldNames exItems = true ∧ family exItems = true ∧
    Representable (plainTop exItems) exItemsVal = true ∧
    exItemsLays.all (fun lay => Admissible { top := plainTop exItems } lay &&
      roundTrips { top := plainTop exItems } lay exItemsVal) = true := by decide +kernel

/-- `Admissible` is needed for lists of sub-records: packing the whole list needs three levels -/
theorem needs_admissible_list_of_records :
    Admissible { top := plainTop exItems } { targets := ["items".toList] } = false ∧
    roundTrips { top := plainTop exItems } { targets := ["items".toList] } exItemsVal = false := by
  decide +kernel

/-! #### untyped lists -/

def exAny : List Field :=
  [("u".toList, .anyList, some (.any [])), ("hs".toList, .anyList, some (.any []))]

def exAnyVal : Val :=
  .model [("u".toList, .any [.atom "a;b".toList, .atom "c".toList]),
    ("hs".toList, .any [.list [.atom "k|1".toList, .atom "v".toList], .atom "w".toList])]

/-- non-vacuity: plain strings spread, the list holding a list packed — and `AnySpreadOk`
excludes exactly the layout that spreads `hs` -/
example : wfFieldNames exAny = true ∧ family exAny = true ∧
    Representable (plainTop exAny) exAnyVal = true ∧
    Admissible { top := plainTop exAny } { targets := ["hs".toList] } = true ∧
    AnySpreadOk { top := plainTop exAny } { targets := ["hs".toList] } exAnyVal = true ∧
    roundTrips { top := plainTop exAny } { targets := ["hs".toList] } exAnyVal = true ∧
    AnySpreadOk { top := plainTop exAny } {} exAnyVal = false ∧
    roundTrips { top := plainTop exAny } {} exAnyVal = false := by decide +kernel

/-! ## The general theorem

Every row model whose (arbitrarily nested) field types are built from `str`/`int`/`float`/
`bool`, untyped lists, `List[T]` and sub-records with consistent remap tables (`goodTop`),
every representable value, every layout that is `LayoutOk` for the value (each position
spread or packed into one cell; a packed position must fit one cell), with or without
top-level header remaps (`RemapConsistent`). -/

/-- **C07 (general)**: `parse_row(unparse_row(v, layout)) = v`.
* `goodTop sch.top` — static, decidable: at every level field names and their headers are
  distinct header segments and `header_name_to_field_name` undoes
  `field_name_to_header_name` (`remapOk`); nesting depth and list lengths are unbounded.
* `Representable` — the value domain of the statement (trimmed template-free strings, no blank
  element inside a list, …).
* `LayoutOk sch lay v` — nothing excluded; every position that `unparse` writes as ONE cell
  (matched by a target header — `*` or concrete indices — or forced by a remapped field) has
  a type that fits one cell (`packTy` = the two-level limit); a spread untyped list holds
  plain strings (F-C04-d).  Spread positions nest arbitrarily.
* `RemapConsistent sch lay v` — the top-level header remaps lead back to the written fields
  (flow rows: `message_text` is the main argument of the row's `type`). -/
theorem parse_unparse (sch : Schema) (lay : Layout) (v : Val)
    (hg : goodTop sch.top = true) (hr : Representable sch.top v = true)
    (hl : LayoutOk sch lay v = true) (hc : RemapConsistent sch lay v = true) :
    RoundTrip sch lay v :=
  parse_unparse_gen sch lay v hg hr hl hc

/-- **C07 without a context remap**: when the root's own tables satisfy the static side
conditions too (`goodTy sch.top`), no value-level remap condition is needed. -/
theorem parse_unparse_static_remaps (sch : Schema) (lay : Layout) (v : Val)
    (hb : sch.ctxBasic = []) (hm : sch.ctxMain = none)
    (hg : goodTy sch.top = true) (hr : Representable sch.top v = true)
    (hl : LayoutOk sch lay v = true) : RoundTrip sch lay v :=
  parse_unparse_static sch lay v hb hm hg hr hl

/-- the flow row schema (tied to the source by `tables_agree_schema`) is in the family: `Edge`
with its `from_`↔`from` tables, the nested `Condition`, `Webhook` with the untyped `headers`,
`WhatsAppTemplating` with a list -/
theorem flowRowSchema_in_family : goodTop flowRowSchema.top = true := by decide +kernel

/-- **The flow row model round-trips**, in every layout that is `LayoutOk` for the row:
`flowMainOk` — every written field whose header is `message_text` is the main argument
selected by `row_type_to_main_arg[type]` (so at most one of them is non-default).  All side
conditions on `field_name_to_header_name`, `basic_header_dict`, `row_type_to_main_arg` are
discharged by the kernel on the T1-tied tables (`flow_static`). -/
theorem flow_row_roundtrip (lay : Layout) (kvs : List (Str × Val))
    (hr : Representable flowRowSchema.top (.model kvs) = true)
    (hl : LayoutOk flowRowSchema lay (.model kvs) = true) (hm : flowMainOk kvs = true) :
    RoundTrip flowRowSchema lay (.model kvs) :=
  flow_roundtrip lay kvs hr hl hm

/-- `packTy` is the code's two-level limit: a type fits one cell iff `to_nested_list` of its
values has depth ≤ 2 (and, for a record, its header→field table leaves the field names alone) -/
theorem packTy_depth (ty : Ty) (h : packTy ty = true) : packDepth ty ≤ 2 := by
  cases ty with
  | str | int | float | bool | anyList => simp [packDepth]
  | list t =>
    cases t with
    | list u => simp only [packTy] at h; cases u <;> simp [isBasicTy] at h <;> simp [packDepth]
    | str | int | float | bool => simp [packDepth]
    | anyList => simp [packTy, isBasicTy] at h
    | model _ _ _ => simp [packTy, isBasicTy] at h
  | model fs h2f f2h =>
    simp only [packTy, List.all_eq_true, Bool.and_eq_true] at h
    have : packDepthFields fs = 0 := by
      induction fs with
      | nil => simp [packDepthFields]
      | cons f rest ih =>
        obtain ⟨n, t, d⟩ := f
        have h1 := (h (n, t, d) (by simp)).1
        have h2 := ih (fun x hx => h x (List.mem_cons_of_mem _ hx))
        simp only [packDepthFields, h2]
        cases t <;> simp [isBasicTy] at h1 <;> simp [packDepth]
    simp [packDepth, this]

/-! #### non-vacuity and negative witnesses (general theorem) -/

def exInner : List Field :=
  [("xs".toList, .list .str, some (.list [])), ("k".toList, .str, some (.str [])),
   ("c".toList, conditionTy, some conditionDefault)]
def exInnerDefault : Val :=
  .model [("xs".toList, .list []), ("k".toList, .str []), ("c".toList, conditionDefault)]

/-- a deep schema: a list of records each holding a list and a sub-record; a sub-record
holding a sub-record holding a list; a list of lists; a list of untyped lists; remapped
headers at the root and inside the list elements -/
def exDeepFields : List Field :=
  [("items".toList, .list (.model exInner (pairsS [("key", "k")]) (pairsS [("k", "key")])), some (.list [])),
   ("o".toList, plainTop [("inner".toList, plainTop exInner, some exInnerDefault),
      ("tag".toList, .str, some (.str []))],
     some (.model [("inner".toList, exInnerDefault), ("tag".toList, .str [])])),
   ("ll".toList, .list (.list .int), some (.list [])),
   ("ul".toList, .list .anyList, some (.list [])),
   ("from_".toList, .str, some (.str []))]
def exDeepSch : Schema :=
  { top := .model exDeepFields (pairsS [("from", "from_")]) (pairsS [("from_", "from")]) }

def exInnerVal (xs : List Str) (k : String) (cv : String) : Val :=
  .model [("xs".toList, .list (xs.map Val.str)), ("k".toList, .str k.toList),
    ("c".toList, .model [("value".toList, .str cv.toList), ("variable".toList, .str []),
      ("type".toList, .str []), ("name".toList, .str "n;1".toList)])]

def exDeepVal : Val :=
  .model [("items".toList, .list [exInnerVal ["a|b".toList, "c".toList] "k1" "v",
      exInnerVal ["d".toList] "" ""]),
    ("o".toList, .model [("inner".toList, exInnerVal ["z".toList] "kk" "w"), ("tag".toList, .str "t".toList)]),
    ("ll".toList, .list [.list [.int 1, .int (-2)], .list [.int 3]]),
    ("ul".toList, .list [.any [.atom "p".toList, .atom "q".toList], .any [.atom "r".toList]]),
    ("from_".toList, .str "start".toList)]

def exDeepLays : List Layout :=
  [{}, { targets := ["items.*.xs".toList, "items.2.c".toList, "o.inner.c".toList] },
   { targets := ["ll".toList, "ul.*".toList, "items.1.xs".toList] },
   { targets := ["ll.*".toList, "ul.2".toList, "o.inner.xs".toList, "items.*.c".toList] }]

/-- non-vacuity of `parse_unparse` / `parse_unparse_static_remaps`: the hypotheses hold for a
deep value in four layouts (all spread; lists inside list elements packed, one element's
sub-record packed by a concrete index; the list of lists packed whole; its inner lists packed
one per cell) — and the rows do round-trip -/
example : goodTy exDeepSch.top = true ∧ goodTop exDeepSch.top = true ∧
    Representable exDeepSch.top exDeepVal = true ∧
    exDeepLays.all (fun lay => LayoutOk exDeepSch lay exDeepVal &&
      RemapConsistent exDeepSch lay exDeepVal && roundTrips exDeepSch lay exDeepVal) = true := by
  decide +kernel

/-- the four layouts give four different rows -/
example : (exDeepLays.map fun lay => match unparseRow exDeepSch lay exDeepVal with
    | .ok cells => cells.length
    | .error _ => 0) = [19, 17, 15, 17] := by decide +kernel

def exFlowRow (mainField : String) (main : Val) : List (Str × Val) :=
  (flowRowFields.map fun f => (f.1, match f.2.2 with | some d => d | none => .str [])).map fun kv =>
    if kv.1 = "type".toList then (kv.1, .str "send_message".toList)
    else if kv.1 = "edges".toList then (kv.1, .list [
      .model [("from_".toList, .str "start".toList), ("condition".toList, conditionDefault)],
      .model [("from_".toList, .str "1".toList), ("condition".toList,
        .model [("value".toList, .str "a|b".toList), ("variable".toList, .str "@fields.x".toList),
          ("type".toList, .str "has_phrase".toList), ("name".toList, .str [])])]])
    else if kv.1 = mainField.toList then (kv.1, main)
    else if kv.1 = "webhook".toList then (kv.1,
      .model [("url".toList, .str "http://x".toList), ("method".toList, .str "GET".toList),
        ("headers".toList, .any [.list [.atom "k".toList, .atom "v".toList]]), ("body".toList, .str [])])
    else if kv.1 = "wa_template".toList then (kv.1,
      .model [("name".toList, .str "tpl".toList), ("uuid".toList, .str []),
        ("variables".toList, .list [.str "x".toList, .str "y;z".toList])])
    else if kv.1 = "node_uuid".toList then (kv.1, .str "n-1".toList)
    else kv

def exFlowLays : List Layout :=
  [{ targets := ["webhook.headers".toList] },
   { targets := ["edges.*.condition".toList, "webhook.headers".toList, "wa_template.variables".toList] }]

/-- non-vacuity of `flow_row_roundtrip`: a `send_message` row with two edges (one with a
condition), a webhook with a header pair, a WhatsApp template with variables, a remapped
`node_uuid` and the main argument under `message_text` -/
example :
    let kvs := exFlowRow "mainarg_message_text" (.str "hi; there".toList)
    Representable flowRowSchema.top (.model kvs) = true ∧ flowMainOk kvs = true ∧
    exFlowLays.all (fun lay => LayoutOk flowRowSchema lay (.model kvs) &&
      roundTrips flowRowSchema lay (.model kvs)) = true := by decide +kernel

/-- `flowMainOk` is needed: a `send_message` row whose `mainarg_value` is set writes it under
`message_text`, which is read back as `mainarg_message_text` -/
theorem needs_flowMainOk :
    let kvs := exFlowRow "mainarg_value" (.str "v".toList)
    Representable flowRowSchema.top (.model kvs) = true ∧ flowMainOk kvs = false ∧
    LayoutOk flowRowSchema { targets := ["webhook.headers".toList] } (.model kvs) = true ∧
    roundTrips flowRowSchema { targets := ["webhook.headers".toList] } (.model kvs) = false := by
  decide +kernel

def exItemsDeep : List Field :=
  [("items".toList, .list (plainTop [("xs".toList, .list .str, some (.list []))]), some (.list []))]
def exItemsDeepVal : Val :=
  .model [("items".toList, .list [.model [("xs".toList, .list [.str "a".toList])],
    .model [("xs".toList, .list [.str "b".toList])]])]

/-- `LayoutOk` (checked along the VALUE) is needed and the static `Admissible` (index 1 for
every index) is not enough: the target `items.2` packs the second element, a record holding
a list — three levels, the error branch of `join_from_lists` -/
theorem needs_layoutOk_on_the_value :
    Admissible { top := plainTop exItemsDeep } { targets := ["items.2".toList] } = true ∧
    AnySpreadOk { top := plainTop exItemsDeep } { targets := ["items.2".toList] } exItemsDeepVal = true ∧
    Representable (plainTop exItemsDeep) exItemsDeepVal = true ∧
    LayoutOk { top := plainTop exItemsDeep } { targets := ["items.2".toList] } exItemsDeepVal = false ∧
    roundTrips { top := plainTop exItemsDeep } { targets := ["items.2".toList] } exItemsDeepVal = false ∧
    roundTrips { top := plainTop exItemsDeep } { targets := ["items.2.xs".toList] } exItemsDeepVal = true := by
  decide +kernel

/-- hence the first-round static statement is false -/
theorem static_statement_is_false : ¬ C07_static_statement := by
  intro h
  have h1 := needs_layoutOk_on_the_value
  have := roundTrips_of _ _ _ (h exItemsDeep { targets := ["items.2".toList] } exItemsDeepVal
    (by decide +kernel) h1.2.2.1 h1.1 h1.2.1)
  rw [h1.2.2.2.2.1] at this
  cases this

/-- "no blank element inside a list" includes an empty untyped list inside `List[list]`: it
leaves no cell -/
theorem needs_no_empty_untyped_list_in_list :
    roundTrips { top := plainTop [("ul".toList, .list .anyList, some (.list []))] } {}
      (.model [("ul".toList, .list [.any [], .any [.atom "a".toList]])]) = false ∧
    Representable (plainTop [("ul".toList, .list .anyList, some (.list []))])
      (.model [("ul".toList, .list [.any [], .any [.atom "a".toList]])]) = false := by
  decide +kernel

def exBadRemap : List Field :=
  [("s".toList, .model [("a".toList, .str, some (.str [])), ("b".toList, .str, some (.str []))]
      [] (pairsS [("a", "h")]), some (.model [("a".toList, .str []), ("b".toList, .str [])]))]

/-- `goodTop` (`remapOk` at every level) is needed: a sub-record that writes its field `a`
under the header `h` without a header→field entry for `h` cannot be read back -/
theorem needs_remapOk :
    goodTop (plainTop exBadRemap) = false ∧
    Representable (plainTop exBadRemap)
      (.model [("s".toList, .model [("a".toList, .str "x".toList), ("b".toList, .str [])])]) = true ∧
    roundTrips { top := plainTop exBadRemap } {}
      (.model [("s".toList, .model [("a".toList, .str "x".toList), ("b".toList, .str [])])]) = false := by
  decide +kernel

end Rpft.Props.C07
