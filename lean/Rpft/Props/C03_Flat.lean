/-
C03, flat sheets — the step "flat rows → tree" of the C03 argument, proved.

`Props/C03.lean` proves that loops, blocks and include_if are sugar on the TREE model of a
sheet (`Sugar.Item`, `evItems`, `dsItems`).  The real parser never sees a tree: it runs over the
flat row list with an iterator, re-reads a loop body once per element by jumping back to a
bookmark, consumes excluded blocks row by row without templating, and matches begin/end rows
while it runs (`Rpft/SugarFlat.lean`: `parseBlock`, `runFlat`, following `_parse_block` and
`SheetParser` line by line).  Here:

* `parse_flatten` / `flatten_parse` / `flatten_parseAll`: the structural parser (`parseTree`, the Lean
  version of the harness' `tree_of_rows`) and `flatten` are inverse to each other;
  `parse_fault_is_cli_fault`: its verdict is the one of the C15 block machine `Cli.checkBlocks`.
* `flat_eq_scan_tree`: for EVERY sheet, context and interface satisfying `FlatLaws`, the flat
  machine returns what the tree reading `evP` of the sheet's scan tree returns — same events, same
  order, same first error (also on ill-nested sheets) — and the context it leaves is the initial one.
* `flat_eq_tree`: on a well-nested quiet sheet that is `Sugar.evItems` of the parsed tree.
* `flat_ill_nested`: on an ill-nested sheet the run never succeeds; it stops with the structural fault
  or with an earlier row error.
* `flat_terminates`, `flat_fuel_irrelevant`: the fuel of the model never runs out, nor does a bookmark
  or a context key go missing.
* `flat_events_desugar`: `events_desugar` on flat sheets.
* Every hypothesis has a kernel-checked witness (`needs_…`) on toy interfaces; the sheets of the
  witnesses are replayed on the real parser by the check (harness/props/c03.py, `flat_stream`).
-/
import Rpft.Props.C03
import Rpft.Lemmas.SugarFlatDesugar
import Rpft.Lemmas.SugarFlatTerm
set_option linter.unusedSimpArgs false
set_option linter.unusedVariables false
namespace Rpft.Props.C03
open Rpft Rpft.Sugar Rpft.SugarFlat
open Rpft.Cli (RowType BlockType Fault)

variable {Raw Inst Ctx Val Hdr Err S : Type}

/-! ### the structural parser -/

/-- **flatten, then parse = identity**: every tree whose rows sit where their kinds say is the
parse of its own flat sheet. -/
theorem parse_flatten (kind : Raw → RowKind) (its : List (FItem Raw)) (h : WkFL kind its) :
    parseTree kind (flattenFL its) = .ok its :=
  parseTree_flatten kind its h

/-- **parse, then flatten = identity**: a successful parse is a tree of exactly the rows of the
sheet, in order, every row where its kind says. -/
theorem flatten_parse (kind : Raw → RowKind) (rows : List Raw) (its : List (FItem Raw))
    (h : parseTree kind rows = .ok its) : flattenFL its = rows ∧ WkFL kind its :=
  parseTree_sound kind rows its h

/-- …also for ill-nested sheets: the scan tree holds exactly the rows of the sheet. -/
theorem flatten_parseAll (kind : Raw → RowKind) (rows : List Raw) :
    flattenP (parseAll kind rows) = rows ∧ WkP kind .root (parseAll kind rows) :=
  ⟨flattenP_parseAll kind rows, WkP_parseAll kind rows⟩

/-- the structural parser accepts exactly the sheets the block machine of C15 (`Cli.checkBlocks`)
accepts, and reports the same fault on the others. -/
theorem parse_fault_is_cli_fault (kind : Raw → RowKind) (rows : List Raw) :
    errOf (parseTree kind rows) = errOf (Cli.checkBlocks (rows.map kind)) := by
  have h := fault?_build kind rows [] []
  have hw := WkP_parseAll kind rows
  simp only [frameBts] at h
  unfold Cli.checkBlocks
  rw [← h]
  unfold parseTree parseAll at *
  cases hp : build kind [] [] rows with
  | done its => simp [PTree.fault?, errOf]
  | fault its f rest => simp [PTree.fault?, errOf]
  | open_ its isFor b t =>
    rw [hp] at hw
    have := fault?_isSome kind t _ hw.2.2 (by cases isFor <;> simp)
    simp only [PTree.fault?, errOf]
    cases ht : t.fault? with
    | none => simp [ht] at this
    | some f => simp

/-! ### flat machine = tree reading -/

/-- **The flat machine and the tree reading agree on every sheet.**  For every interface
satisfying `FlatLaws`, every context and every flat sheet — well nested or not — `_parse_block`
run over the rows with iterator, bookmarks and mutable context returns exactly what the tree
reading `evP` of the sheet's scan tree returns: the same events in the same order, or the same
first error; and the context it leaves behind is the one it started with. -/
theorem flat_eq_scan_tree (I : FIface Raw Inst Ctx Val Hdr Err S) (L : FlatLaws I) (ctx : Ctx) (rows : List Raw) :
    runFlat I ctx rows = (evP I ctx (parseAll I.kind rows)).map fun es => (es, ctx) := by
  rw [runFlat_eq_evP I L ctx rows]
  cases evP I ctx (parseAll I.kind rows) <;> rfl

/-- **Flat machine = `Sugar.evItems` of the parsed tree** (well-nested quiet sheets): the same
events in the same order, the error of the same (first failing) row, and the final context is the
initial one — loop variables gone after end_for, shadowed ones restored. -/
theorem flat_eq_tree (I : FIface Raw Inst Ctx Val Hdr Err S) (L : FlatLaws I) (ctx : Ctx) (rows : List Raw)
    (its : List (FItem Raw)) (hp : parseTree I.kind rows = .ok its) (hq : Quiet I rows) :
    runFlat I ctx rows = withCtx ctx (evItems I.toIface ctx (eraseL its)) := by
  obtain ⟨hfl, hwk⟩ := parseTree_sound I.kind rows its hp
  rw [runFlat_eq_evP I L, (parseTree_ok_iff I.kind rows its).1 hp]
  simp only [evP]
  rw [evFs_eq_evItems I its hwk (by rw [hfl]; exact hq) ctx]
  cases evItems I.toIface ctx (eraseL its) <;> rfl

/-- the context after a successful run is the context before it -/
theorem flat_context_restored (I : FIface Raw Inst Ctx Val Hdr Err S) (L : FlatLaws I) (ctx c : Ctx)
    (rows : List Raw) (es : List (Ev Inst Hdr)) (h : runFlat I ctx rows = .ok (es, c)) : c = ctx := by
  rw [runFlat_eq_evP I L] at h
  cases hE : evP I ctx (parseAll I.kind rows) with
  | error x => simp [hE] at h
  | ok es' =>
    simp only [hE] at h
    injection h with h
    injection h with _ h2
    exact h2.symm

/-- **Ill-nested sheets**: if the structural parser reports fault `f`, the flat machine never
succeeds; it stops with `f`, or earlier with the error of a row it instantiated (or scanned)
before reaching the fault. -/
theorem flat_ill_nested (I : FIface Raw Inst Ctx Val Hdr Err S) (L : FlatLaws I) (ctx : Ctx) (rows : List Raw)
    (f : Fault) (hp : parseTree I.kind rows = .error f) :
    runFlat I ctx rows = .error (.fault f) ∨ ∃ e, runFlat I ctx rows = .error (.err e) := by
  have hw := WkP_parseAll I.kind rows
  have hf : (parseAll I.kind rows).fault? = some f := by
    unfold parseTree at hp
    cases ht : parseAll I.kind rows with
    | done its => simp [ht] at hp
    | fault its f' rest => simp [ht] at hp; simp [PTree.fault?, hp]
    | open_ its isFor b t =>
      rw [ht] at hw
      have := fault?_isSome I.kind t _ hw.2.2 (by cases isFor <;> simp)
      simp only [ht] at hp
      simp only [PTree.fault?]
      cases h2 : t.fault? with
      | none => simp [h2] at this
      | some f' => simp [h2] at hp; simp [hp]
  rw [runFlat_eq_evP I L]
  rcases evP_shape I _ .root hw f hf ctx with h | ⟨e, h⟩
  · left; simp [h]
  · right; exact ⟨e, by simp [h]⟩

/-- **Termination, and no internal failure**: whatever the lists of the loops are, the run
neither exhausts the model's fuel (`rows + 1`: one unit per turn of the `while` loop and per
nesting level; iterations re-use the fuel) nor misses a bookmark nor pops a missing context key. -/
theorem flat_terminates (I : FIface Raw Inst Ctx Val Hdr Err S) (L : FlatLaws I) (ctx : Ctx) (rows : List Raw) :
    runFlat I ctx rows ≠ .error .fuel ∧ runFlat I ctx rows ≠ .error .noBookmark ∧
    ∀ k, runFlat I ctx rows ≠ .error (.keyError k) := by
  rw [runFlat_eq_evP I L]
  cases hE : evP I ctx (parseAll I.kind rows) with
  | ok es => simp
  | error x =>
    rcases evP_stop I _ ctx x hE with ⟨e, rfl⟩ | ⟨f, rfl⟩ <;> simp

/-- more fuel changes nothing -/
theorem flat_fuel_irrelevant (I : FIface Raw Inst Ctx Val Hdr Err S) (L : FlatLaws I) (ctx : Ctx)
    (rows : List Raw) (F : Nat) (hF : rows.length < F) :
    parseBlock I F 0 .root false ⟨rows, [], ctx, []⟩ =
      parseBlock I (rows.length + 1) 0 .root false ⟨rows, [], ctx, []⟩ := by
  have hm : MarksBelow 0 ([] : List (Nat × List Raw)) := fun q hq => by simp at hq
  have h1 := run_P I L (parseAll I.kind rows) .root (WkP_parseAll I.kind rows) F 0 [] ctx []
    (by rw [flattenP_parseAll]; omega) hm
  have h2 := run_P I L (parseAll I.kind rows) .root (WkP_parseAll I.kind rows) (rows.length + 1) 0 [] ctx []
    (by rw [flattenP_parseAll]; omega) hm
  rw [flattenP_parseAll] at h1 h2
  rw [h1, h2]

/-- **Termination for ANY interface** — no law is used: row kinds may be templated, lists and
context operations arbitrary.  Every call of `_parse_block` returns with no more rows left than it
started with and with the bookmarks of the enclosing loops untouched (`parseBlock_good`), every
iteration restarts at the bookmark of its own loop, so `rows + 1` units of fuel (one per turn of the
`while` loop and per nesting level) always suffice. -/
theorem flat_terminates_any (I : FIface Raw Inst Ctx Val Hdr Err S) (ctx : Ctx) (rows : List Raw) :
    runFlat I ctx rows ≠ .error .fuel := by
  unfold runFlat
  have h := parseBlock_nofuel I (rows.length + 1) 0 .root false ⟨rows, [], ctx, []⟩ (by simp)
  cases hp : parseBlock I (rows.length + 1) 0 .root false ⟨rows, [], ctx, []⟩ with
  | ok s => simp
  | error e =>
    simp only []
    intro he
    injection he with he
    subst he
    exact h hp

/-- a call of `_parse_block` never moves the iterator backwards (whatever happened in between:
the jumps back to bookmarks are internal to the loops) and leaves outer bookmarks alone -/
theorem flat_call_shrinks (I : FIface Raw Inst Ctx Val Hdr Err S) (F d : Nat) (bt : BlockType) (om : Bool)
    (s s' : St Raw Inst Ctx Hdr) (h : parseBlock I F d bt om s = .ok s') :
    s'.pos.length ≤ s.pos.length ∧ ∀ k, k < d → getMark k s'.marks = getMark k s.marks :=
  parseBlock_good I F d bt om s s' h

/-! ### desugaring, on flat sheets -/

/-- **`events_desugar` on flat sheets.**  Take the tree of a sheet, desugar it in context `ctx`,
write the result as a flat sheet again (`ef` / `eb`: the end rows to write) and run the FLAT
machine on it in ANY context: it performs exactly the events of the sugared tree, and leaves the
context as it found it.  (`hab`: a begin_for row rewritten as a block is a begin_block row;
`hq`: the written sheet is quiet.) -/
theorem flat_events_desugar (I : FIface Raw Inst Ctx Val Hdr Err S) (L : Laws I.toIface) (FL : FlatLaws I)
    (hab : ∀ i, I.kindI i = .beginFor → I.kindI (I.asBlock i) = .beginBlock)
    (ef eb : Raw) (hef : I.kind ef = .endFor) (heb : I.kind eb = .endBlock)
    (its its' : List (Item Raw)) (ctx ctx' : Ctx) (hwk : WkIL I.kind its)
    (h : dsItems I.toIface ctx its = .ok its') (hq : Quiet I (flatten ef eb its')) :
    ∃ es, evItems I.toIface ctx its = .ok es ∧ runFlat I ctx' (flatten ef eb its') = .ok (es, ctx') := by
  obtain ⟨es, h1, h2⟩ := events_desugar I.toIface L its its' ctx h
  refine ⟨es, h1, ?_⟩
  have hwk' := WkFL_uneraseL I.kind ef eb hef heb its' (WkIL_dsItems I L FL hab its hwk ctx its' h)
  have hp := parseTree_flatten I.kind _ hwk'
  have := flat_eq_tree I FL ctx' (flatten ef eb its') _ hp hq
  rw [this, eraseL_uneraseL, h2 ctx']
  rfl

/-- …starting from a flat sugared sheet: the flat machine performs the same events on the sheet
and on the flat sheet of its desugared form. -/
theorem flat_desugar_flat (I : FIface Raw Inst Ctx Val Hdr Err S) (L : Laws I.toIface) (FL : FlatLaws I)
    (hab : ∀ i, I.kindI i = .beginFor → I.kindI (I.asBlock i) = .beginBlock)
    (ef eb : Raw) (hef : I.kind ef = .endFor) (heb : I.kind eb = .endBlock)
    (rows : List Raw) (t : List (FItem Raw)) (its' : List (Item Raw)) (ctx ctx' : Ctx)
    (hp : parseTree I.kind rows = .ok t) (hqr : Quiet I rows)
    (h : dsItems I.toIface ctx (eraseL t) = .ok its') (hq : Quiet I (flatten ef eb its')) :
    ∃ es, runFlat I ctx rows = .ok (es, ctx) ∧ runFlat I ctx' (flatten ef eb its') = .ok (es, ctx') := by
  obtain ⟨_, hwk⟩ := parseTree_sound I.kind rows t hp
  obtain ⟨es, h1, h2⟩ := flat_events_desugar I L FL hab ef eb hef heb (eraseL t) its' ctx ctx'
    (WkIL_eraseL I.kind t hwk) h hq
  refine ⟨es, ?_, h2⟩
  rw [flat_eq_tree I FL ctx rows t hp hqr, h1]
  rfl

/-! ### a concrete interface: non-vacuity, worked runs, and why each hypothesis is there -/

/-- toy raw rows: a kind, a number plus the values of the variables in `use` (an unbound one is an
instantiation error), include_if, loop variables and list of a begin_for row -/
structure FRaw where
  kind : RowType
  base : Nat := 0
  use : List Str := []
  incl : Bool := true
  vars : Option (Str × Option Str) := none
  list : List Nat := []
  /-- the untemplated parse raises (an unknown type cell) -/
  bad : Bool := false
  /-- a templated type cell: what the type is once instantiated (ignored by `toyF`) -/
  tkind : Option RowType := none
  deriving DecidableEq, Repr

structure FRow where
  kind : RowType
  text : Nat
  incl : Bool
  vars : Option (Str × Option Str)
  list : List Nat
  deriving DecidableEq, Repr

abbrev FCtx := Str → Option Nat

def sumVars (c : FCtx) : List Str → Option Nat
  | [] => some 0
  | v :: vs =>
    match c v, sumVars c vs with
    | some a, some b => some (a + b)
    | _, _ => none

def fput (c : FCtx) (v : Str) (x : Nat) : FCtx := fun k => if k = v then some x else c k
def fdel (c : FCtx) (v : Str) : FCtx := fun k => if k = v then none else c k

/-- `sameOk`: a begin_for may name its index variable like its loop variable -/
def toyWith (sameOk : Bool) : FIface FRaw FRow FCtx Nat Nat Unit Nat :=
  { inst := fun c r =>
      match sumVars c r.use with
      | some n => .ok ⟨r.kind, r.base + n, r.incl, r.vars, r.list⟩
      | none => .error ()
    includeIf := fun i => i.incl
    loopVars := fun i =>
      match i.vars with
      | some (v, some j) => if v = j ∧ !sameOk then some (v, none) else some (v, some j)
      | o => o
    iterList := fun i => i.list
    bind := fput
    bindIdx := fput
    hdr := fun i => i.text
    noVarErr := ()
    lit := fun i => { kind := i.kind, base := i.text, incl := i.incl, vars := i.vars, list := i.list }
    asBlock := fun i => { i with kind := .beginBlock, vars := none, list := [] }
    kind := fun r => r.kind
    scanFail := fun r => if r.bad then some () else none
    kindI := fun i => i.kind
    get := fun c k => c k
    put := fput
    del := fdel
    ofVal := id
    ofIdx := id }

def toyF := toyWith false

theorem toyF_laws : FlatLaws toyF := by
  refine ⟨?_, ?_, ?_, ?_, ?_, ?_, ?_, ?_, ?_, ?_, ?_, ?_⟩
  · intro ctx r i h
    simp only [toyF, toyWith] at h ⊢
    cases hs : sumVars ctx r.use with
    | none => simp [hs] at h
    | some n => simp [hs] at h; subst h; rfl
  · intro i v idx h
    simp only [toyF, toyWith] at h
    cases hv : i.vars with
    | none => simp [hv] at h
    | some p =>
      obtain ⟨a, j⟩ := p
      cases j with
      | none => simp [hv] at h
      | some j =>
        simp only [hv] at h
        by_cases hs : a = j
        · simp [hs] at h
        · simp [hs] at h
          obtain ⟨h1, h2⟩ := h
          subst h1 h2
          exact hs
  · intro c v x; rfl
  · intro c v k; rfl
  · intro c k a b; funext q; simp only [toyF, toyWith, fput]; split <;> rfl
  · intro c k k' a b h; funext q; simp only [toyF, toyWith, fput]
    by_cases h1 : q = k'
    · subst h1; simp [Ne.symm h]
    · by_cases h2 : q = k
      · subst h2; simp [h]
      · simp [h1, h2]
  · intro c k a; simp [toyF, toyWith, fput]
  · intro c k k' a h; simp [toyF, toyWith, fput, Ne.symm h]
  · intro c k a; funext q; simp only [toyF, toyWith, fput, fdel]; split <;> rfl
  · intro c k k' a h; funext q; simp only [toyF, toyWith, fput, fdel]
    by_cases h1 : q = k'
    · subst h1; simp [Ne.symm h]
    · by_cases h2 : q = k
      · subst h2; simp [h]
      · simp [h1, h2]
  · intro c k h; funext q; simp only [toyF, toyWith, fdel] at h ⊢
    split
    · next hq => subst hq; exact h.symm
    · rfl
  · intro c k a h; funext q; simp only [toyF, toyWith, fput, fdel] at h ⊢
    split
    · next hq => subst hq; exact h.symm
    · rfl

theorem toyF_sugar_laws : Laws toyF.toIface := by
  refine ⟨?_, ?_, ?_⟩
  · intro ctx i; simp [toyF, toyWith, sumVars]
  · intro i; rfl
  · intro i h; exact h

/-- a decidable sufficient condition for `Quiet toyF` -/
def quietToy (rows : List FRaw) : Bool :=
  rows.all fun r => !r.bad && (r.use.isEmpty || (r.kind != .endFor && r.kind != .endBlock))

theorem quiet_toy (rows : List FRaw) (h : quietToy rows = true) : Quiet toyF rows := by
  intro r hr
  have := List.all_eq_true.1 h r hr
  simp only [Bool.and_eq_true, Bool.not_eq_true', Bool.or_eq_true, List.isEmpty_iff, bne_iff_ne] at this
  obtain ⟨h1, h2⟩ := this
  refine ⟨by simp [toyF, toyWith, h1], ?_⟩
  intro hk ctx
  rcases h2 with h2 | h2
  · have : toyF.inst ctx r = .ok ⟨r.kind, r.base + 0, r.incl, r.vars, r.list⟩ := by
      simp [toyF, toyWith, h2, sumVars]
    exact ⟨_, this⟩
  · simp only [toyF, toyWith] at hk
    rcases hk with hk | hk
    · exact absurd hk h2.1
    · exact absurd hk h2.2

def vV : Str := "v".toList
def vW : Str := "w".toList
def vNope : Str := "nope".toList
/-- initial context: `w = 1000` (shadowed by the loops below, then restored) -/
def ctxW : FCtx := fun k => if k = vW then some 1000 else none

/-- events as (0 = row | 1 = open | 2 = close, number), and the final context at `v`, `w` -/
def obsEv : Ev FRow Nat → Nat × Nat
  | .row i => (0, i.text)
  | .open_ h => (1, h)
  | .close h => (2, h)
def obs (r : Res Unit (List (Ev FRow Nat) × FCtx)) : Res Unit (List (Nat × Nat) × Option Nat × Option Nat) :=
  r.map fun p => (p.1.map obsEv, p.2 vV, p.2 vW)

/-- a loop over `v, w` (w = index, shadowing the initial `w`) around: a row, an inner loop that
re-uses `v` around a row and an EXCLUDED block (whose content — a row and a nested loop that could
never be instantiated — is only scanned), and a loop over the EMPTY list (body skipped
unevaluated); then a row after the loop that sees the initial `w` again. -/
def flatSheet : List FRaw := [
  { kind := .other, base := 1, use := [vW] },
  { kind := .beginFor, base := 10, vars := some (vV, some vW), list := [7, 8] },
    { kind := .other, base := 100, use := [vV, vW] },
    { kind := .beginFor, base := 20, use := [vV], vars := some (vV, none), list := [1, 2, 3] },
      { kind := .other, base := 200, use := [vV] },
      { kind := .beginBlock, base := 30, incl := false },
        { kind := .other, base := 300, use := [vNope] },
        { kind := .beginFor, base := 300, use := [vNope] },
        { kind := .endFor },
      { kind := .endBlock },
    { kind := .endFor },
    { kind := .beginFor, base := 40, vars := some (vW, none), list := [] },
      { kind := .other, base := 400, use := [vNope] },
    { kind := .endFor },
  { kind := .endFor },
  { kind := .other, base := 2, use := [vW] } ]

def flatEvents : List (Nat × Nat) :=
  [(0, 1001), (1, 10),
     (0, 107), (1, 27), (0, 201), (0, 202), (0, 203), (2, 27), (1, 40), (2, 40),
     (0, 109), (1, 28), (0, 201), (0, 202), (0, 203), (2, 28), (1, 40), (2, 40),
   (2, 10), (0, 1002)]

/-- the flat machine on that sheet: body re-read per element, inner `v` shadows outer `v` and is
restored, the index `w` shadows the initial `w`, which is back (1000) after end_for; `v` is gone -/
example : obs (runFlat toyF ctxW flatSheet) = .ok (flatEvents, none, some 1000) := by decide

/-- non-vacuity of `flat_eq_tree`: the sheet parses, is quiet, and the tree gives these events -/
example : (parseTree toyF.kind flatSheet).toOption.isSome = true ∧ quietToy flatSheet = true ∧
    ((parseTree toyF.kind flatSheet).toOption.bind fun t =>
      ((evItems toyF.toIface ctxW (eraseL t)).toOption.map fun es => es.map obsEv)) = some flatEvents := by
  decide

/-- `flat_eq_tree` applied: its hypotheses hold together on this sheet -/
example : ∃ t, parseTree toyF.kind flatSheet = .ok t ∧
    runFlat toyF ctxW flatSheet = withCtx ctxW (evItems toyF.toIface ctxW (eraseL t)) := by
  have h : (parseTree toyF.kind flatSheet).toOption.isSome = true := by decide
  cases hp : parseTree toyF.kind flatSheet with
  | error f => rw [hp] at h; simp [Except.toOption] at h
  | ok t => exact ⟨t, rfl, flat_eq_tree toyF toyF_laws ctxW flatSheet t hp (quiet_toy _ (by decide))⟩

/-- the desugared form of `flatSheet` in `ctxW`, written as a flat sheet again -/
def flatTwin : List FRaw :=
  match parseTree toyF.kind flatSheet with
  | .error _ => []
  | .ok t =>
    match dsItems toyF.toIface ctxW (eraseL t) with
    | .error _ => []
    | .ok t' => flatten { kind := .endFor } { kind := .endBlock } t'

/-- non-vacuity of `flat_events_desugar`: the twin has 10 literal plain rows in 5 blocks, no loop,
no variable, is quiet, and the flat machine performs the same events on it in the EMPTY context -/
example : flatTwin.length = 20 ∧ (flatTwin.all fun r => r.kind != .beginFor && r.use.isEmpty && r.incl) = true ∧
    quietToy flatTwin = true ∧
    obs (runFlat toyF (fun _ => none) flatTwin) = .ok (flatEvents, none, none) := by decide

/-- ill-nested sheets (non-vacuity of `flat_ill_nested`): the sheet cut after 12 rows is
unterminated; with a stray `end_block` it has a wrong terminator; cut inside the first iteration
before the fault is reached, an earlier row error wins -/
example : obs (runFlat toyF ctxW (flatSheet.take 12)) = .error (.fault .unterminated) ∧
    errOf (parseTree toyF.kind (flatSheet.take 12)) = some .unterminated := by decide
example : obs (runFlat toyF ctxW (flatSheet.take 8 ++ flatSheet.drop 9)) =
      .error (.fault (.wrongTerminator .endBlock .for_)) ∧
    errOf (parseTree toyF.kind (flatSheet.take 8 ++ flatSheet.drop 9)) = some (.wrongTerminator .endBlock .for_) := by
  decide
example : obs (runFlat toyF ctxW (flatSheet.drop 2)) = .error (.err ()) ∧
    errOf (parseTree toyF.kind (flatSheet.drop 2)) = some (.wrongTerminator .endFor .root) := by decide

/-! #### why the hypotheses are there -/

/-- `parse_flatten` needs a well-kinded tree: a tree that holds an end row in the place of a plain
row is not the parse of its flat sheet (which is ill nested). -/
theorem needs_well_kinded :
    errOf (parseTree toyF.kind (flattenFL [FItem.row ({ kind := .endBlock } : FRaw)])) =
      some (.wrongTerminator .endBlock .root) := by decide


def treeOutcome (I : FIface FRaw FRow FCtx Nat Nat Unit Nat) (c : FCtx) (rows : List FRaw) :
    Res Unit (List (Nat × Nat)) :=
  (evP I c (parseAll I.kind rows)).map fun es => es.map obsEv

/-- `FlatLaws.kind_inst` (a row's kind is not templated).  With a templated type cell the
instantiated row may be an end row although the raw cell is not: an INCLUDED block is closed by
it (the flat machine succeeds), while the raw kinds — which is all the parser sees when content is
omitted, and all `tree_of_rows` sees — give an unterminated block. -/
def toyTemplated : FIface FRaw FRow FCtx Nat Nat Unit Nat :=
  { toyF with
    inst := fun c r =>
      match sumVars c r.use with
      | some n => .ok ⟨r.tkind.getD r.kind, r.base + n, r.incl, r.vars, r.list⟩
      | none => .error () }

def templatedEnd : List FRaw :=
  [{ kind := .beginBlock, base := 1 }, { kind := .other, base := 5 }, { kind := .other, tkind := some .endBlock }]

theorem needs_kind_inst :
    obs (runFlat toyTemplated ctxW templatedEnd) = .ok ([(1, 1), (0, 5), (2, 1)], none, some 1000) ∧
    treeOutcome toyTemplated ctxW templatedEnd = .error (.fault .unterminated) ∧
    -- the same rows inside an excluded block: the flat machine itself reads the raw kinds
    obs (runFlat toyTemplated ctxW ({ kind := .beginBlock, incl := false } :: templatedEnd ++ [{ kind := .endBlock }])) =
      .error (.fault .unterminated) := by decide

/-- `FlatLaws.vars_ne`.  A loop whose index variable has the name of its loop variable: the real
code removes the name twice at end_for (`dict.pop` → KeyError); the tree reading has no such error. -/
def sameVarSheet : List FRaw :=
  [{ kind := .beginFor, base := 1, vars := some (vV, some vV), list := [7] }, { kind := .other, base := 5, use := [vV] },
   { kind := .endFor }]

theorem needs_vars_ne :
    obs (runFlat (toyWith true) ctxW sameVarSheet) = .error (.keyError vV) ∧
    treeOutcome (toyWith true) ctxW sameVarSheet = .ok [(1, 1), (0, 5), (2, 1)] := by decide

/-- the dictionary laws.  If removing a name did not remove it, the loop variable would still be
bound after end_for (here `v = 7`), unlike in the tree reading, where the rows after a loop see the
context before it. -/
def toyLeaky : FIface FRaw FRow FCtx Nat Nat Unit Nat := { toyF with del := fun c _ => c }

theorem needs_dict_laws :
    obs (runFlat toyLeaky ctxW [{ kind := .beginFor, base := 1, vars := some (vV, none), list := [7] }, { kind := .endFor },
      { kind := .other, base := 5, use := [vV] }]) = .ok ([(1, 1), (2, 1), (0, 12)], some 7, some 1000) ∧
    treeOutcome toyLeaky ctxW [{ kind := .beginFor, base := 1, vars := some (vV, none), list := [7] }, { kind := .endFor },
      { kind := .other, base := 5, use := [vV] }] = .error (.err ()) := by decide

/-- `Quiet`, first half.  A row that cannot even be parsed untemplated (an unknown type) inside an
EXCLUDED block stops the real parser; `Sugar.evItems` never looks into an excluded block. -/
def badInExcluded : List FRaw :=
  [{ kind := .beginBlock, incl := false }, { kind := .other, bad := true }, { kind := .endBlock }]

theorem needs_quiet_scan :
    obs (runFlat toyF ctxW badInExcluded) = .error (.err ()) ∧
    ((parseTree toyF.kind badInExcluded).toOption.map fun t =>
      (evItems toyF.toIface ctxW (eraseL t)).toOption.map fun es => es.map obsEv) = some (some []) := by decide

/-- `Quiet`, second half.  The end row of an INCLUDED block is instantiated like any other row: an
unbound variable in one of its cells stops the real parser; `Sugar.evItems` has no end rows. -/
def badEndRow : List FRaw :=
  [{ kind := .beginBlock, base := 1 }, { kind := .other, base := 5 }, { kind := .endBlock, use := [vNope] }]

theorem needs_quiet_end :
    obs (runFlat toyF ctxW badEndRow) = .error (.err ()) ∧
    ((parseTree toyF.kind badEndRow).toOption.map fun t =>
      (evItems toyF.toIface ctxW (eraseL t)).toOption.map fun es => es.map obsEv) =
      some (some [(1, 1), (0, 5), (2, 1)]) ∧
    -- in an excluded block the same end row is harmless
    obs (runFlat toyF ctxW ({ kind := .beginBlock, incl := false } :: badEndRow ++ [{ kind := .endBlock }])) =
      .ok ([], none, some 1000) := by decide

end Rpft.Props.C03
