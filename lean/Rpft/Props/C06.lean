/-
C06 — One name, one UUID: group and flow references are globally consistent.

Property theorems only (helper lemmas: `Rpft/Lemmas/Uuid.lean`).  Everything is stated for
`runOccs fresh st next occs`: one `validate()` on an arbitrary occurrence list, starting
from an arbitrary `uuid_dict` state `st` (`run` = the special case `st = ∅`, occurrences
`pre ++ occsOf container`), for arbitrary name / id types and an arbitrary supply `fresh`
of invented ids.  No bound on the number of flows, campaigns, triggers, occurrences.
-/
import Rpft.Lemmas.Uuid
import Rpft.Gen.Tables
set_option linter.unusedSimpArgs false
set_option linter.unusedVariables false
set_option linter.unusedSectionVars false
namespace Rpft.Props.C06
open Rpft Rpft.Uuid

variable {N U : Type} [DecidableEq N] [DecidableEq U]

/-- T1: the call sequences transcribed by the model are those of the source (regenerated
from /repo on every run): order of the record / generate / assign loops of
`update_global_uuids`, of the campaign, trigger, node, action and router hooks, the
`require_existing=True` flag, and the set of classes that have a record hook at all. -/
theorem tables_agree :
    Gen.uuidUpdateSteps = srcUpdateSteps ∧ Gen.uuidValidateSteps = srcValidateSteps ∧
    Gen.uuidFlowRecord = srcFlowRecord ∧ Gen.uuidNodeRecord = srcNodeRecord ∧
    Gen.uuidCampaignRecord = srcCampaignRecord ∧ Gen.uuidCampaignAssign = srcCampaignAssign ∧
    Gen.uuidEventRecord = srcEventRecord ∧ Gen.uuidTriggerRecord = srcTriggerRecord ∧
    Gen.uuidTriggerAssign = srcTriggerAssign ∧ Gen.uuidGroupActionRecord = srcGroupActionRecord ∧
    Gen.uuidEnterFlowRecord = srcEnterFlowRecord ∧ Gen.uuidSwitchRecord = srcSwitchRecord ∧
    Gen.uuidSwitchAssign = srcSwitchAssign ∧ Gen.uuidHookedClasses = srcHookedClasses := by
  decide

/-- the uuid bound to `(kind, name)` after the run -/
def uuidOf (out : Out N U) (k : Kind) (n : N) : Option U := lookup out.st k n

/-- after a run every name that occurred (at any site, or in the earlier state) has a uuid -/
theorem uuidOf_isSome {fresh : Nat → U} {st : St N U} {nx : Nat} {occs : List (Occ N U)} {out : Out N U}
    (h : runOccs fresh st nx occs = .ok out) {o : Occ N U} (ho : o ∈ occs) :
    ∃ u, Truthy out.st o.kind o.name u := by
  obtain ⟨st1, h1, hst, _, _, _⟩ := runOccs_ok h
  have hk := (recordAll_mem h1 ho).1
  have hk2 : HasKey out.st o.kind o.name := by rw [hst]; exact (generateMissing_hasKey fresh nx).2 hk
  have ha : AllSome (out.st.get o.kind) := by rw [hst]; exact generateMissing_allSome fresh st1 nx _
  exact allSome_dget ha hk2

/-- **explicit wins**, at the level of the dictionary: an explicit uuid at ANY occurrence —
whatever its site (sheet `obj_id`, old group list, flow definition, action, case, campaign,
trigger) and whatever its position in the visiting order — is the uuid of that name. -/
theorem explicit_wins {fresh : Nat → U} {st : St N U} {nx : Nat} {occs : List (Occ N U)} {out : Out N U}
    (h : runOccs fresh st nx occs = .ok out) {e : Occ N U} (he : e ∈ occs) {u : U}
    (hg : e.given = some u) : uuidOf out e.kind e.name = some u := by
  obtain ⟨st1, h1, hst, _, _, _⟩ := runOccs_ok h
  have ht := (recordAll_mem h1 he).2 u hg
  have : Truthy out.st e.kind e.name u := by rw [hst]; exact generateMissing_truthy fresh nx ht
  exact lookup_of_truthy this

/-- … and so is a uuid already in the container's `uuid_dict` before the run -/
theorem recorded_wins {fresh : Nat → U} {st : St N U} {nx : Nat} {occs : List (Occ N U)} {out : Out N U}
    (h : runOccs fresh st nx occs = .ok out) {k : Kind} {n : N} {u : U} (ht : Truthy st k n u) :
    uuidOf out k n = some u := by
  obtain ⟨st1, h1, hst, _, _, _⟩ := runOccs_ok h
  have : Truthy out.st k n u := by
    rw [hst]; exact generateMissing_truthy fresh nx (recordAll_truthy_mono h1 ht)
  exact lookup_of_truthy this

/-- every reference object of the output that is assignable (everything except the flow
definitions) or that brought its own uuid carries `uuidOf` its (kind, name), which exists -/
theorem assigned_eq_uuidOf {fresh : Nat → U} {st : St N U} {nx : Nat} {occs : List (Occ N U)}
    {out : Out N U} (h : runOccs fresh st nx occs = .ok out) {o : Occ N U} (ho : o ∈ out.occs)
    (ha : assignable o.site = true ∨ o.given.isSome = true) :
    o.given = uuidOf out o.kind o.name ∧ (uuidOf out o.kind o.name).isSome = true := by
  obtain ⟨st1, h1, hst, _, _, hocc⟩ := runOccs_ok h
  rw [hocc] at ho
  obtain ⟨o0, ho0, rfl⟩ := List.mem_map.1 ho
  have ho0' : o0 ∈ occs := (List.mem_filter.1 ho0).1
  obtain ⟨u, hu⟩ := uuidOf_isSome h ho0'
  have hl : uuidOf out o0.kind o0.name = some u := lookup_of_truthy hu
  by_cases hs : assignable o0.site = true
  · have : assignOcc out.st o0 = { o0 with given := lookup out.st o0.kind o0.name } := by
      simp [assignOcc, hs]
    rw [this]
    simp only [Occ.kind] at hl ⊢
    exact ⟨by simp [uuidOf], by rw [hl]; rfl⟩
  · have hid : assignOcc out.st o0 = o0 := by simp [assignOcc, hs]
    rw [hid] at ha ⊢
    rcases ha with ha | ha
    · exact absurd ha hs
    · obtain ⟨v, hv⟩ := Option.isSome_iff_exists.1 ha
      have := explicit_wins h ho0' hv
      exact ⟨by rw [hv, this], by rw [this]; rfl⟩

/-- **assign_functional** — one name, one uuid: any two reference objects of the rendered
container (group actions, `has_group` cases, campaign groups, trigger groups and exclude
groups; enter-flow actions, campaign-event flows, trigger flows) of the same kind and name
carry the same uuid, and it is a real uuid (not `None`). -/
theorem assign_functional {fresh : Nat → U} {st : St N U} {nx : Nat} {occs : List (Occ N U)}
    {out : Out N U} (h : runOccs fresh st nx occs = .ok out) {o₁ o₂ : Occ N U}
    (h1 : o₁ ∈ out.occs) (h2 : o₂ ∈ out.occs)
    (a1 : assignable o₁.site = true) (a2 : assignable o₂.site = true)
    (hk : o₁.kind = o₂.kind) (hn : o₁.name = o₂.name) :
    o₁.given = o₂.given ∧ o₁.given.isSome = true := by
  have e1 := assigned_eq_uuidOf h h1 (Or.inl a1)
  have e2 := assigned_eq_uuidOf h h2 (Or.inl a2)
  rw [e1.1, e2.1, hk, hn]
  exact ⟨rfl, e2.2⟩

example : runOccs (fun n => n + 100) (St.empty : St Nat Nat) 0
    [⟨7, none, .action .group⟩, ⟨7, some 3, .case⟩, ⟨7, none, .trigExclude⟩] =
    .ok ⟨[⟨7, some 3, .action .group⟩, ⟨7, some 3, .case⟩, ⟨7, some 3, .trigExclude⟩],
         [(7, some 3)], ⟨[], [(7, some 3)]⟩, 0⟩ := by decide

/-- the new top-level group list: distinct names, real uuids, and each entry is the uuid
of its name (`WF`: the dictionary the run started from had distinct keys — true of `∅`) -/
theorem group_list_sound {fresh : Nat → U} {st : St N U} {nx : Nat} {occs : List (Occ N U)}
    {out : Out N U} (h : runOccs fresh st nx occs = .ok out) (hw : WF st) :
    (out.groups.map Prod.fst).Nodup ∧
    ∀ p ∈ out.groups, p.2 = uuidOf out .group p.1 ∧ p.2.isSome = true := by
  obtain ⟨st1, h1, hst, _, hg, _⟩ := runOccs_ok h
  have hw2 : WF out.st := by rw [hst]; exact generateMissing_wf fresh nx (recordAll_wf h1 hw)
  have ha : AllSome (out.st.get .group) := by rw [hst]; exact generateMissing_allSome fresh st1 nx _
  rw [hg]
  refine ⟨hw2.2, ?_⟩
  intro p hp
  obtain ⟨n, v⟩ := p
  have := dget_of_mem hw2.2 hp
  refine ⟨?_, ha (n, v) hp⟩
  simp [uuidOf, lookup, St.get, this]

/-- `WF` is needed for the list to have distinct names (a Python dict cannot violate it) -/
theorem group_list_needs_WF :
    ∃ out, runOccs (fun n => n + 100) (⟨[], [(7, none), (7, none)]⟩ : St Nat Nat) 0 [] = .ok out ∧
      ¬ (out.groups.map Prod.fst).Nodup := by
  refine ⟨_, rfl, ?_⟩; decide

/-- **groups_listed** — every group name that occurs anywhere (any site, including sheet
`obj_id` records and the old group list) is listed at top level exactly once (names of the
list are distinct), and every group reference object of the output appears there with
exactly the uuid it carries. -/
theorem groups_listed {fresh : Nat → U} {st : St N U} {nx : Nat} {occs : List (Occ N U)}
    {out : Out N U} (h : runOccs fresh st nx occs = .ok out) (hw : WF st) :
    (out.groups.map Prod.fst).Nodup ∧
    (∀ o ∈ occs, o.kind = .group → o.name ∈ out.groups.map Prod.fst) ∧
    (∀ o ∈ out.occs, o.kind = .group → (o.name, o.given) ∈ out.groups) := by
  obtain ⟨st1, h1, hst, _, hg, hocc⟩ := runOccs_ok h
  refine ⟨(group_list_sound h hw).1, ?_, ?_⟩
  · intro o ho hk
    obtain ⟨u, hu⟩ := uuidOf_isSome h ho
    rw [hk] at hu
    rw [hg]
    exact List.mem_map.2 ⟨(o.name, some u), mem_of_dget hu, rfl⟩
  · intro o ho hk
    have hsite : assignable o.site = true := by
      cases hs : o.site <;> simp [Occ.kind, hs, Site.kind] at hk <;> simp [assignable]
      · rename_i k; subst hk
        -- a `.pre` site is never part of the output
        rw [hocc] at ho
        obtain ⟨o0, ho0, rfl⟩ := List.mem_map.1 ho
        have hf := (List.mem_filter.1 ho0).2
        have : (assignOcc out.st o0).site = o0.site := by unfold assignOcc; split <;> rfl
        rw [this] at hs; rw [hs] at hf; simp [inOutput] at hf
      · rw [hocc] at ho
        obtain ⟨o0, ho0, rfl⟩ := List.mem_map.1 ho
        have hf := (List.mem_filter.1 ho0).2
        have : (assignOcc out.st o0).site = o0.site := by unfold assignOcc; split <;> rfl
        rw [this] at hs; rw [hs] at hf; simp [inOutput] at hf
    have e := assigned_eq_uuidOf h ho (Or.inl hsite)
    obtain ⟨u, hu⟩ := Option.isSome_iff_exists.1 e.2
    rw [e.1, hu, hg]
    rw [hk] at hu
    unfold uuidOf lookup at hu
    cases hd : dget (out.st.get .group) o.name with
    | none => rw [hd] at hu; cases hu
    | some v =>
      rw [hd] at hu
      cases v with
      | none => cases hu
      | some w => simp at hu; subst hu; exact mem_of_dget hd

/-- **defined_flow_uuid** — a reference (enter-flow action, campaign event, trigger) to a
flow that the container defines carries that flow's uuid.  (`d.given = some u`: a
`FlowContainer` always has a uuid — its constructor invents one.) -/
theorem defined_flow_uuid {fresh : Nat → U} {st : St N U} {nx : Nat} {occs : List (Occ N U)}
    {out : Out N U} (h : runOccs fresh st nx occs = .ok out)
    {d : Occ N U} (hd : d ∈ occs) (hs : d.site = .flowDef) {u : U} (hu : d.given = some u)
    {o : Occ N U} (ho : o ∈ out.occs) (ha : assignable o.site = true)
    (hk : o.kind = .flow) (hn : o.name = d.name) : o.given = some u := by
  have e := (assigned_eq_uuidOf h ho (Or.inl ha)).1
  have hdk : d.kind = .flow := by simp [Occ.kind, hs, Site.kind]
  have := explicit_wins h hd hu
  rw [e, hk, hn, ← hdk, this]

example : runOccs (fun n => n + 100) (St.empty : St Nat Nat) 0
    [⟨1, some 5, .flowDef⟩, ⟨1, none, .action .flow⟩, ⟨1, none, .trigFlow⟩] =
    .ok ⟨[⟨1, some 5, .flowDef⟩, ⟨1, some 5, .action .flow⟩, ⟨1, some 5, .trigFlow⟩],
         [], ⟨[(1, some 5)], []⟩, 0⟩ := by decide

/-- `d.given = some _` is needed: a definition without uuid would keep `None` while its
references get an invented one (the real `FlowContainer.__init__` rules this out). -/
theorem defined_flow_uuid_needs_given :
    ∃ out, runOccs (fun n => n + 100) (St.empty : St Nat Nat) 0
      [⟨1, none, .flowDef⟩, ⟨1, none, .action .flow⟩] = .ok out ∧
      out.occs = [⟨1, none, .flowDef⟩, ⟨1, some 100, .action .flow⟩] := by
  refine ⟨_, rfl, ?_⟩; decide

/-- **explicit_wins** on the output objects: if ANY occurrence of `(kind, name)` — at any
site and any position of the visiting order — has an explicit uuid `u`, every reference
object of that kind and name in the output carries `u`. -/
theorem explicit_wins_everywhere {fresh : Nat → U} {st : St N U} {nx : Nat} {occs : List (Occ N U)}
    {out : Out N U} (h : runOccs fresh st nx occs = .ok out) {e : Occ N U} (he : e ∈ occs) {u : U}
    (hg : e.given = some u) {o : Occ N U} (ho : o ∈ out.occs) (ha : assignable o.site = true)
    (hk : o.kind = e.kind) (hn : o.name = e.name) : o.given = some u := by
  rw [(assigned_eq_uuidOf h ho (Or.inl ha)).1, hk, hn]
  exact explicit_wins h he hg

/-- position independence, explicitly: the explicit occurrence may sit before, between or
after the others (`a ++ e :: b` for every `a`, `b`). -/
theorem explicit_wins_any_position {fresh : Nat → U} {st : St N U} {nx : Nat}
    (a b : List (Occ N U)) (e : Occ N U) {u : U} (hg : e.given = some u) {out : Out N U}
    (h : runOccs fresh st nx (a ++ e :: b) = .ok out) : uuidOf out e.kind e.name = some u :=
  explicit_wins h (by simp) hg

example : runOccs (fun n => n + 100) (St.empty : St Nat Nat) 0
    [⟨7, none, .action .group⟩, ⟨7, none, .campGroup⟩, ⟨7, some 3, .trigGroup⟩] =
    .ok ⟨[⟨7, some 3, .action .group⟩, ⟨7, some 3, .campGroup⟩, ⟨7, some 3, .trigGroup⟩],
         [(7, some 3)], ⟨[], [(7, some 3)]⟩, 0⟩ := by decide

/-- order of occurrence does not matter for explicitly identified names: two runs over
permuted occurrence lists that both succeed agree on every such name. -/
theorem explicit_perm_agree {fresh fresh' : Nat → U} {st st' : St N U} {nx nx' : Nat}
    {occs occs' : List (Occ N U)} {out out' : Out N U} (hp : ∀ o, o ∈ occs ↔ o ∈ occs')
    (h : runOccs fresh st nx occs = .ok out) (h' : runOccs fresh' st' nx' occs' = .ok out')
    {e : Occ N U} (he : e ∈ occs) {u : U} (hg : e.given = some u) :
    uuidOf out e.kind e.name = uuidOf out' e.kind e.name := by
  rw [explicit_wins h he hg, explicit_wins h' ((hp e).1 he) hg]

/-- **conflict_rejected** — two different explicit uuids for one (kind, name), at any two
sites and positions, make the run fail. -/
theorem conflict_rejected {fresh : Nat → U} {st : St N U} {nx : Nat} {occs : List (Occ N U)}
    {e₁ e₂ : Occ N U} (h1 : e₁ ∈ occs) (h2 : e₂ ∈ occs) (hk : e₁.kind = e₂.kind)
    (hn : e₁.name = e₂.name) {u₁ u₂ : U} (g1 : e₁.given = some u₁) (g2 : e₂.given = some u₂)
    (hne : u₁ ≠ u₂) : ∃ err, runOccs fresh st nx occs = .error err := by
  cases h : runOccs fresh st nx occs with
  | error err => exact ⟨err, rfl⟩
  | ok out =>
    have a := explicit_wins h h1 g1
    have b := explicit_wins h h2 g2
    rw [hk, hn, b] at a
    exact absurd (Option.some.inj a).symm hne

/-- … and likewise an explicit uuid that differs from one already recorded in the
container's dictionary (e.g. by `add_flow`, or by an earlier render). -/
theorem conflict_with_recorded_rejected {fresh : Nat → U} {st : St N U} {nx : Nat}
    {occs : List (Occ N U)} {e : Occ N U} (he : e ∈ occs) {u r : U} (g : e.given = some u)
    (ht : Truthy st e.kind e.name r) (hne : u ≠ r) :
    ∃ err, runOccs fresh st nx occs = .error err := by
  cases h : runOccs fresh st nx occs with
  | error err => exact ⟨err, rfl⟩
  | ok out =>
    have a := explicit_wins h he g
    have b := recorded_wins h ht
    rw [b] at a
    exact absurd (Option.some.inj a).symm hne

example : runOccs (fun n => n + 100) (St.empty : St Nat Nat) 0
    [⟨7, some 3, .action .group⟩, ⟨7, none, .case⟩, ⟨7, some 4, .trigGroup⟩] =
    .error (.conflict .group 7 4 3) := by decide

/-- the first conflicting pair in visiting order is the one that is reported -/
theorem conflict_reported_pair {st st1 : St N U} (a b : List (Occ N U)) (e : Occ N U) {u r : U}
    (ha : recordAll st a = .ok st1) (hs : e.site ≠ .trigFlow) (g : e.given = some u)
    (ht : Truthy st1 e.kind e.name r) (hne : u ≠ r) :
    recordAll st (a ++ e :: b) = .error (.conflict e.kind e.name u r) := by
  rw [recordAll_append, ha]
  simp only [recordAll, recordOcc, hs, false_and, if_false, g]
  rw [recordDict_conflict ht hne]

/-- no spurious conflict: a reported conflict names two different uuids that were really
given for that (kind, name) — the new one by an occurrence, the recorded one by an
occurrence or by the dictionary the run started from. -/
theorem conflict_sound {st : St N U} {occs : List (Occ N U)} {k : Kind} {n : N} {u r : U}
    (h : recordAll st occs = .error (.conflict k n u r)) :
    u ≠ r ∧ (∃ o ∈ occs, o.kind = k ∧ o.name = n ∧ o.given = some u) ∧
    (Truthy st k n r ∨ ∃ o ∈ occs, o.kind = k ∧ o.name = n ∧ o.given = some r) := by
  induction occs generalizing st with
  | nil => simp [recordAll] at h
  | cons p os ih =>
    simp only [recordAll] at h
    cases h1 : recordOcc st p with
    | ok st1 =>
      rw [h1] at h
      obtain ⟨hne, ⟨o, ho, hk, hn, hg⟩, hr⟩ := ih h
      refine ⟨hne, ⟨o, List.mem_cons_of_mem _ ho, hk, hn, hg⟩, ?_⟩
      rcases hr with hr | ⟨o', ho', hk', hn', hg'⟩
      · rcases recordOcc_truthy_bound h1 hr with h3 | ⟨h3, h4, h5⟩
        · exact Or.inl h3
        · exact Or.inr ⟨p, List.mem_cons_self, h3, h4, h5⟩
      · exact Or.inr ⟨o', List.mem_cons_of_mem _ ho', hk', hn', hg'⟩
    | error e =>
      rw [h1] at h
      cases h
      unfold recordOcc at h1
      split at h1
      · cases h1
      · split at h1
        · cases h1
        · rename_i e' he'
          cases h1
          obtain ⟨u', r', hg, hd, hne, heq⟩ := recordDict_error he'
          cases heq
          exact ⟨hne, ⟨p, List.mem_cons_self, rfl, rfl, hg⟩, Or.inl hd⟩

/-! ### triggers -/

/-- The property's wording: "a trigger naming a flow that does not exist is rejected" —
*exist* read as "the container defines it".  Kept visible; it is FALSE of the code (and of
the model, which follows the code): see `trigger_unknown_flow_rejected_full_false`. -/
def trigger_unknown_flow_rejected_full : Prop :=
  ∀ (occs : List (Occ Nat Nat)) (t : Occ Nat Nat), t ∈ occs → t.site = .trigFlow →
    (¬ ∃ d ∈ occs, d.site = .flowDef ∧ d.name = t.name) →
    ∃ err, runOccs (fun n => n + 100) St.empty 0 occs = .error err

/-- negative witness (known finding F-C06-b): flow 1 is defined and starts flow 2, which
nobody defines; a trigger for flow 2 is accepted and gets an invented uuid. -/
theorem trigger_unknown_flow_rejected_full_false : ¬ trigger_unknown_flow_rejected_full := by
  intro h
  have := h [⟨1, some 5, .flowDef⟩, ⟨2, none, .action .flow⟩, ⟨2, none, .trigFlow⟩]
    ⟨2, none, .trigFlow⟩ (by decide) rfl (by decide)
  obtain ⟨err, he⟩ := this
  have hok : ∃ out, runOccs (fun n => n + 100) (St.empty : St Nat Nat) 0
      [⟨1, some 5, .flowDef⟩, ⟨2, none, .action .flow⟩, ⟨2, none, .trigFlow⟩] = .ok out :=
    ⟨_, rfl⟩
  obtain ⟨out, ho⟩ := hok
  rw [ho] at he
  cases he

/-- what the code checks, exactly: at the moment the trigger is visited its flow name must
be a *key of `flow_dict`* — otherwise this very error is raised. -/
theorem trigger_check_exact {st st1 : St N U} (a b : List (Occ N U)) (t : Occ N U)
    (ha : recordAll st a = .ok st1) (hs : t.site = .trigFlow) (hk : ¬ HasKey st1 .flow t.name) :
    recordAll st (a ++ t :: b) = .error (.triggerUnknownFlow t.name) := by
  rw [recordAll_append, ha]
  have : (dget st1.flows t.name).isNone = true := by
    unfold HasKey at hk; simp only [St.get] at hk
    cases hd : dget st1.flows t.name with
    | none => rfl
    | some v => rw [hd] at hk; simp at hk
  simp [recordAll, recordOcc, hs, this]

/-- **trigger_unknown_flow_rejected** (`_partial`: proved for the reading the code
implements) — a trigger whose flow name is neither in the dictionary the run started from
nor *mentioned* by any non-trigger flow occurrence (flow definition, enter-flow action,
campaign event, sheet `obj_id` record) makes the run fail. -/
theorem trigger_unknown_flow_rejected_partial {fresh : Nat → U} {st : St N U} {nx : Nat}
    {occs : List (Occ N U)} {t : Occ N U} (ht : t ∈ occs) (hs : t.site = .trigFlow)
    (hst : ¬ HasKey st .flow t.name)
    (hm : ∀ o ∈ occs, o.kind = .flow → o.name = t.name → o.site = .trigFlow) :
    ∃ err, runOccs fresh st nx occs = .error err := by
  have key : ∀ (l : List (Occ N U)) (s : St N U), ¬ HasKey s .flow t.name →
      (∀ o ∈ l, o.kind = .flow → o.name = t.name → o.site = .trigFlow) →
      (∃ o ∈ l, o.kind = .flow ∧ o.name = t.name) → ∃ err, recordAll s l = .error err := by
    intro l
    induction l with
    | nil => intro s _ _ h; obtain ⟨o, ho, _⟩ := h; cases ho
    | cons p os ih =>
      intro s hs0 hall hex
      simp only [recordAll]
      cases h1 : recordOcc s p with
      | error e => exact ⟨e, rfl⟩
      | ok s1 =>
        simp only
        by_cases hp : p.kind = .flow ∧ p.name = t.name
        · -- `p` is a trigger for the unknown name: its own check fails
          have hps := hall p List.mem_cons_self hp.1 hp.2
          have hc := (recordOcc_ok h1).1
          exfalso; apply hc
          refine ⟨hps, ?_⟩
          unfold HasKey at hs0; simp only [St.get] at hs0
          rw [hp.2]
          cases hd : dget s.flows t.name with
          | none => rfl
          | some v => rw [hd] at hs0; simp at hs0
        · apply ih s1
          · intro hk
            rcases recordOcc_keys_bound h1 hk with h2 | h2
            · exact hs0 h2
            · exact hp h2
          · exact fun o ho => hall o (List.mem_cons_of_mem _ ho)
          · obtain ⟨o, ho, hk, hn⟩ := hex
            rcases List.mem_cons.1 ho with rfl | hin
            · exact absurd ⟨hk, hn⟩ hp
            · exact ⟨o, hin, hk, hn⟩
  have htk : t.kind = .flow := by simp [Occ.kind, hs, Site.kind]
  obtain ⟨err, he⟩ := key occs st hst hm ⟨t, ht, htk, rfl⟩
  exact ⟨err, by simp [runOccs, he]⟩

example : runOccs (fun n => n + 100) (St.empty : St Nat Nat) 0
    [⟨1, some 5, .flowDef⟩, ⟨2, none, .trigFlow⟩] = .error (.triggerUnknownFlow 2) := by decide

/-- the extra hypothesis ("not mentioned elsewhere") is forced: same witness as above -/
theorem trigger_needs_not_mentioned :
    ∃ out, runOccs (fun n => n + 100) (St.empty : St Nat Nat) 0
      [⟨1, some 5, .flowDef⟩, ⟨2, none, .action .flow⟩, ⟨2, none, .trigFlow⟩] = .ok out ∧
      uuidOf out .flow 2 = some 100 := by
  refine ⟨_, rfl, ?_⟩; decide

/-! ### repeated validate / render -/

/-- **validate_idem** — validating (rendering) again changes nothing: the occurrence list
of the validated container (`reOccs`: new group list, then the same objects with their
assigned uuids), run from the dictionary and counter left by the first run, succeeds with
exactly the same output — same uuids on every object, same group list, no new invention
(`next` unchanged).  By induction, any number of repetitions. -/
theorem validate_idem {fresh : Nat → U} {st : St N U} {nx : Nat} {occs : List (Occ N U)}
    {out : Out N U} (hw : WF st) (h : runOccs fresh st nx occs = .ok out) :
    runOccs fresh out.st out.next (reOccs out) = .ok out := by
  obtain ⟨st1, h1, hst, hnx, hg, hocc⟩ := runOccs_ok h
  have hgl := group_list_sound h hw
  have haf : AllSome out.st.flows := by
    have := generateMissing_allSome fresh st1 nx .flow; rw [← hst] at this; exact this
  have hag : AllSome out.st.groups := by
    have := generateMissing_allSome fresh st1 nx .group; rw [← hst] at this; exact this
  -- every occurrence of the second run records a value that is already there
  have hnoop : recordAll out.st (reOccs out) = .ok out.st := by
    apply recordAll_noop
    intro o ho
    unfold reOccs at ho
    rcases List.mem_append.1 ho with hin | hin
    · obtain ⟨p, hp, rfl⟩ := List.mem_map.1 hin
      obtain ⟨e1, e2⟩ := hgl.2 p hp
      obtain ⟨u, hu⟩ := Option.isSome_iff_exists.1 e2
      refine ⟨u, ?_, Or.inr hu⟩
      have hk : (⟨p.1, p.2, .groupList⟩ : Occ N U).kind = .group := rfl
      rw [hk]
      have hmem : (p.1, some u) ∈ out.st.groups := by rw [← hu, ← hg]; exact hp
      have hw2 : WF out.st := by rw [hst]; exact generateMissing_wf fresh nx (recordAll_wf h1 hw)
      exact dget_of_mem hw2.2 hmem
    · have hin' := hin
      rw [hocc] at hin
      obtain ⟨o0, ho0, rfl⟩ := List.mem_map.1 hin
      have ho0' : o0 ∈ occs := (List.mem_filter.1 ho0).1
      obtain ⟨u, hu⟩ := uuidOf_isSome h ho0'
      have hkk : (assignOcc out.st o0).kind = o0.kind := by unfold assignOcc; split <;> rfl
      have hnn : (assignOcc out.st o0).name = o0.name := by unfold assignOcc; split <;> rfl
      refine ⟨u, by rw [hkk, hnn]; exact hu, ?_⟩
      by_cases hs : assignable o0.site = true
      · right
        have := (assigned_eq_uuidOf h hin' (Or.inl (by
          have : (assignOcc out.st o0).site = o0.site := by unfold assignOcc; split <;> rfl
          rw [this]; exact hs))).1
        rw [this, hkk, hnn]; exact lookup_of_truthy hu
      · have hid : assignOcc out.st o0 = o0 := by simp [assignOcc, hs]
        rw [hid]
        cases hgv : o0.given with
        | none => exact Or.inl rfl
        | some v =>
          right
          have a := explicit_wins h ho0' hgv
          have b : uuidOf out o0.kind o0.name = some u := lookup_of_truthy hu
          rw [a] at b; rw [b]
  have hfix : generateMissing fresh out.st out.next = (out.st, out.next) :=
    generateMissing_fix fresh _ _ haf hag
  -- objects: the group-list occurrences are dropped again, the others keep their uuid
  have hfilter : (reOccs out).filter (fun o => inOutput o.site) = out.occs := by
    unfold reOccs
    rw [List.filter_append]
    have e1 : (out.groups.map (fun p => (⟨p.1, p.2, .groupList⟩ : Occ N U))).filter
        (fun o => inOutput o.site) = [] := by
      rw [List.filter_eq_nil_iff]
      intro o ho
      obtain ⟨p, _, rfl⟩ := List.mem_map.1 ho
      simp [inOutput]
    have e2 : out.occs.filter (fun o => inOutput o.site) = out.occs := by
      rw [List.filter_eq_self]
      intro o ho
      rw [hocc] at ho
      obtain ⟨o0, ho0, rfl⟩ := List.mem_map.1 ho
      have : (assignOcc out.st o0).site = o0.site := by unfold assignOcc; split <;> rfl
      rw [this]; exact (List.mem_filter.1 ho0).2
    rw [e1, e2]; rfl
  have hassign : out.occs.map (assignOcc out.st) = out.occs := by
    -- every object already carries its uuid
    suffices hs : ∀ o ∈ out.occs, assignOcc out.st o = o by
      conv => rhs; rw [← List.map_id out.occs]
      exact List.map_congr_left hs
    intro o ho
    by_cases hs : assignable o.site = true
    · have := (assigned_eq_uuidOf h ho (Or.inl hs)).1
      unfold assignOcc; rw [if_pos hs]
      cases o with
      | mk n g s => simp only [Occ.kind, uuidOf] at this ⊢; rw [← this]
    · simp [assignOcc, hs]
  unfold runOccs
  rw [hnoop]
  simp only [hfix, hfilter, hassign, groupList]
  cases out with
  | mk oc gr s nx' => simp only at hg; rw [hg]

/-- any number of further validations -/
theorem validate_idem_iter {fresh : Nat → U} {st : St N U} {nx : Nat} {occs : List (Occ N U)}
    {out : Out N U} (hw : WF st) (h : runOccs fresh st nx occs = .ok out) (k : Nat) :
    Nat.rec (motive := fun _ => Except (Err N U) (Out N U)) (.ok out)
      (fun _ r => match r with
        | .ok o => runOccs fresh o.st o.next (reOccs o)
        | .error e => .error e) k = .ok out := by
  induction k with
  | zero => rfl
  | succ k ih =>
    simp only [ih]
    have hw2 : WF out.st := by
      obtain ⟨st1, h1, hst, _, _, _⟩ := runOccs_ok h
      rw [hst]; exact generateMissing_wf fresh nx (recordAll_wf h1 hw)
    exact validate_idem hw h

example : WF (St.empty : St Nat Nat) := WF_empty

/-- `WF` (distinct keys in the starting dictionary — what a Python dict guarantees) is
needed: with a duplicated key the second validation reports a conflict. -/
theorem validate_idem_needs_WF :
    ∃ out, runOccs (fun n => n + 100) (⟨[], [(7, none), (7, none)]⟩ : St Nat Nat) 0 [] = .ok out ∧
      runOccs (fun n => n + 100) out.st out.next (reOccs out) = .error (.conflict .group 7 101 100) := by
  refine ⟨_, rfl, ?_⟩; decide

/-! ### the container level: `run` = `runOccs` on the visiting order -/

/-- the statements above, for a container built with parse-time records `pre` (from the
empty dictionary, which is `WF`): one uuid per (kind, name) on all reference objects; all
groups listed once with that uuid; explicit uuids of the container's occurrences and of
the parse-time records on the container's own dictionary win; repeated validation stable. -/
theorem container_consistent {fresh : Nat → U} {pre : List (PreItem N U)} {c : Container N U}
    {out : Out N U} (h : run fresh pre c = .ok out) :
    (∀ o₁ ∈ out.occs, ∀ o₂ ∈ out.occs, assignable o₁.site = true → assignable o₂.site = true →
      o₁.kind = o₂.kind → o₁.name = o₂.name → o₁.given = o₂.given ∧ o₁.given.isSome = true) ∧
    (out.groups.map Prod.fst).Nodup ∧
    (∀ o ∈ out.occs, o.kind = .group → (o.name, o.given) ∈ out.groups) ∧
    (∀ e ∈ occsOf c, ∀ u, e.given = some u → uuidOf out e.kind e.name = some u) ∧
    (∀ e, PreItem.own e ∈ pre → ∀ u, e.given = some u → uuidOf out e.kind e.name = some u) ∧
    runOccs fresh out.st out.next (reOccs out) = .ok out := by
  unfold run at h
  cases hp : recordPre (St.empty : St N U) pre with
  | error e => rw [hp] at h; cases h
  | ok st =>
    rw [hp] at h
    simp only at h
    obtain ⟨hw, _, hg⟩ := recordPre_inv hp WF_empty
    exact ⟨fun o₁ h1 o₂ h2 a1 a2 hk hn => assign_functional h h1 h2 a1 a2 hk hn,
      (groups_listed h hw).1, (groups_listed h hw).2.2,
      fun e he u hu => explicit_wins h he hu,
      fun e he u hu => recorded_wins h (hg e he u hu),
      validate_idem hw h⟩

/-- **validate_idem at the container level** — `c.validated out.st` is the container as
`validate()` leaves it (every reference re-assigned, `groups` := `get_group_list()`);
validating it again, from the dictionary and counter left behind, reproduces `out`
exactly.  (Closes the gap between the occurrence-list statement and the nested object.) -/
theorem container_validate_idem {fresh : Nat → U} {pre : List (PreItem N U)} {c : Container N U}
    {out : Out N U} (h : run fresh pre c = .ok out) :
    runOccs fresh out.st out.next (occsOf (c.validated out.st)) = .ok out := by
  have hidem := (container_consistent h).2.2.2.2.2
  unfold run at h
  cases hp : recordPre (St.empty : St N U) pre with
  | error e => rw [hp] at h; cases h
  | ok st =>
    rw [hp] at h
    simp only at h
    obtain ⟨_, _, _, _, hg, hocc⟩ := runOccs_ok h
    have : occsOf (c.validated out.st) = reOccs out := by
      rw [occsOf_validated]
      unfold reOccs
      rw [hocc, hg]; rfl
    rw [this]; exact hidem

/-- **staged histories** — a container that grows between two validations (content added to
objects that were validated before, new flows / campaigns / triggers): whatever the previous
validation left (`prev`, any dictionary, any counter), whatever is marked as kept, a successful
further validation binds every (kind, name) to one real uuid on all reference objects.  (It is
an instance of `assign_functional`, which holds for every occurrence list and every starting
dictionary — nothing is remembered between two validations but the dictionary.) -/
theorem stage_consistent {fresh : Nat → U} {kept : U → Bool} {prev out : Out N U}
    {pre : List (PreItem N U)} {c : Container N U}
    (h : runStage fresh kept prev pre c = .ok out) :
    ∀ o₁ ∈ out.occs, ∀ o₂ ∈ out.occs, assignable o₁.site = true → assignable o₂.site = true →
      o₁.kind = o₂.kind → o₁.name = o₂.name → o₁.given = o₂.given ∧ o₁.given.isSome = true := by
  unfold runStage at h
  cases hp : recordPre prev.st pre with
  | error e => rw [hp] at h; cases h
  | ok st =>
    rw [hp] at h
    simp only at h
    exact fun o₁ h1 o₂ h2 a1 a2 hk hn => assign_functional h h1 h2 a1 a2 hk hn

/-- … and an explicit uuid on an ADDED reference wins (or the validation fails): the late
`has_group` case of a router that was validated before is recorded like any other. -/
theorem stage_explicit_wins {fresh : Nat → U} {kept : U → Bool} {prev out : Out N U}
    {pre : List (PreItem N U)} {c : Container N U}
    (h : runStage fresh kept prev pre c = .ok out) :
    ∀ e ∈ occsOf (c.settle kept prev), ∀ u, e.given = some u → uuidOf out e.kind e.name = some u := by
  unfold runStage at h
  cases hp : recordPre prev.st pre with
  | error e => rw [hp] at h; cases h
  | ok st =>
    rw [hp] at h
    simp only at h
    exact fun e he u hu => explicit_wins h he hu

/-- non-vacuity: a router validated with one case (group 7, invented uuid 100) gets a second
case for group 8 with explicit uuid 3 and a third without uuid; the second validation keeps
100, takes 3 and invents 101. -/
example :
    (match run (fun n => n + 100) ([] : List (PreItem Nat Nat))
        ⟨[], [⟨1, some 5, [⟨[], [⟨7, none⟩]⟩]⟩], [], []⟩ with
     | .ok prev =>
       (match runStage (fun n => n + 100) (fun u => u == 0) prev []
          ⟨[], [⟨1, some 5, [⟨[], [⟨7, some 0⟩, ⟨8, some 3⟩, ⟨9, none⟩]⟩]⟩], [], []⟩ with
        | .ok out => out.occs.map (fun o => (o.name, o.given))
        | .error _ => [])
     | .error _ => []) = [(1, some 5), (7, some 100), (8, some 3), (9, some 101)] := by decide

/-- `obj_id`s of rows inside an inserted block (`PreItem.scratch`) are NOT covered by the
statement above, and cannot be: the code records them in a throw-away dictionary (known
finding F-C06-a).  Witness: the block's `split_by_group` row gives uuid 3 to group 7, the
`has_group` case of the container gets the invented uuid 100. -/
theorem scratch_obj_id_lost :
    ∃ out, run (fun n => n + 100)
      [PreItem.scratch [(⟨7, some 3, .pre .group⟩ : Occ Nat Nat)], .own ⟨1, some 5, .pre .flow⟩]
      ⟨[], [⟨1, some 5, [⟨[], [⟨7, none⟩]⟩]⟩], [], []⟩ = .ok out ∧
      uuidOf out .group 7 = some 100 := by
  refine ⟨_, rfl, ?_⟩; decide

end Rpft.Props.C06
