/-
C19 — Campaign and trigger sheets compile row for row into resolvable definitions.

Property theorems only (helper lemmas: `Rpft/Lemmas/Campaign.lean`).  All statements are
for sheets of unbounded length and arbitrary cell strings.  "Accepted" means: no exception
and no `LOGGER.critical` (`parse… = .ok (out, [])`); "rejected" is its negation.

Reference resolution (one name, one UUID) is not modelled here: the model renders symbolic
UUIDs that are a function of (kind, name) by construction, so a theorem about it would be
vacuous; that part of the statement is C06's model (UUID dictionary) and, here, the direct
oracle of the check, evaluated on every real output.
-/
import Rpft.Lemmas.Campaign
import Rpft.Gen.Tables
import Rpft.Canon
set_option linter.unusedSimpArgs false
set_option linter.unusedVariables false
namespace Rpft.Props.C19
open Rpft Rpft.Campaign

/-- T1: the constants of the model are the constants of the source (regenerated each run by probing
the behaviour of the validators / constructors / parser: `harness/tables/t19_campaign.py`).  The code
words a validator accepts are sets (compared up to order); the field lists are in declaration order
(exact: a validator sees the fields declared before it, failing fields are reported in that order). -/
theorem tables_agree :
    Canon.sameSet Gen.campaignUnits units ∧ Canon.sameSet Gen.campaignStartModes startModes ∧
    Canon.sameSet Gen.campaignEventTypes eventTypes ∧ Gen.campaignCtorEventTypes = [evMessage, evFlow] ∧
    Canon.sameSet Gen.triggerTypes trigTypes ∧ Canon.sameSet Gen.triggerMatchTypes matchTypes ∧
    Gen.triggerMatchGuard = trigKeyword ∧ Gen.triggerCtorKeyword = trigKeyword ∧
    Gen.triggerDefaultMatch = defaultMatch ∧ Gen.fieldKeyMaxLen = maxKeyLen ∧
    Gen.campaignMessageKey = none ∧ Gen.campaignDefaultLang = defaultLang ∧
    Gen.campaignDefaultHour = defaultHour ∧
    Gen.campaignRowFields = campFields ∧ Gen.triggerRowFields = trigFields := by decide

/-! ### field key -/

/-- `generate_field_key` succeeds exactly with the label trimmed, lower-cased, spaces → `_`,
provided that is at most 36 characters long and contains a letter. -/
theorem field_key_aux (raw k : Str) :
    (if ¬ (raw.length ≤ maxKeyLen) then (.error .keyTooLong : Except Exc Str)
     else if ¬ (raw.any isAsciiLetter) then .error .keyNoLetter else .ok raw) = .ok k ↔
      k = raw ∧ k.length ≤ 36 ∧ ∃ c ∈ k, isAsciiLetter c = true := by
  by_cases hlen : raw.length ≤ maxKeyLen
  · by_cases hany : raw.any isAsciiLetter = true
    · simp only [hlen, hany, not_true_eq_false, if_false]
      constructor
      · intro h
        injection h with h
        subst h
        exact ⟨rfl, hlen, by simpa using hany⟩
      · rintro ⟨rfl, _, _⟩; rfl
    · simp only [hlen, hany, not_true_eq_false, if_false, if_true, not_false_eq_true]
      constructor
      · intro h; cases h
      · rintro ⟨rfl, _, hc⟩
        exact absurd (by simpa using hc) hany
  · simp only [hlen, not_false_eq_true, if_true]
    constructor
    · intro h; cases h
    · rintro ⟨rfl, hl, _⟩; exact absurd hl hlen

theorem field_key_spec (label k : Str) :
    generateFieldKey label = .ok k ↔
      k = replace1 ' ' ['_'] ((strip pyWs label).map lowerAscii) ∧ k.length ≤ 36 ∧
      ∃ c ∈ k, isAsciiLetter c = true :=
  field_key_aux (fieldKeyRaw label) k

/-- a generated key never contains a space -/
theorem field_key_no_space (label k : Str) (h : generateFieldKey label = .ok k) : ' ' ∉ k := by
  rw [((field_key_spec label k).1 h).1]
  exact not_mem_replace1 (by decide) _

example : generateFieldKey " Created On ".toList = .ok "created_on".toList := by decide
example : generateFieldKey "1 2 3".toList = .error .keyNoLetter := by decide
example : generateFieldKey "abcdefghijklmnopqrstuvwxyz abcdefghij".toList = .error .keyTooLong := by decide

/-! ### campaign sheets -/

/-- the statement's field list for one row, written out -/
def eventSpec (r : CampRow) (e : Event) : Prop :=
  pyInt r.offset = some e.offset ∧
  e.unit = r.unit ∧
  e.eventType = r.eventType ∧
  (if r.deliveryHour = [] then e.deliveryHour = -1 else pyInt r.deliveryHour = some e.deliveryHour) ∧
  e.startMode = r.startMode ∧
  e.relLabel = r.relativeTo ∧
  generateFieldKey r.relativeTo = .ok e.relKey ∧
  e.message = (if r.message = [] then none else
    some ((if r.baseLanguage = [] then defaultLang else r.baseLanguage), r.message)) ∧
  e.baseLanguage =
    (if r.message = [] then none else some (if r.baseLanguage = [] then defaultLang else r.baseLanguage)) ∧
  e.flowName = (if r.flow = [] then none else some r.flow)

theorem eventOfRow_spec (r : CampRow) (e : Event) (h : eventOfRow r = .ok e) : eventSpec r e := by
  unfold eventOfRow at h
  unfold eventSpec
  by_cases hdh : r.deliveryHour = []
  · simp only [hdh, ne_eq, not_true_eq_false, if_false] at h
    cases hoff : pyInt r.offset with
    | none => simp [hoff] at h
    | some off =>
      cases hk : generateFieldKey r.relativeTo with
      | error x => simp [hoff, hk] at h
      | ok key =>
        simp only [hoff, hk] at h
        by_cases hm : r.message = [] <;> by_cases ht : r.eventType = evMessage <;>
          simp [hm, ht] at h
        all_goals
          subst h
          by_cases hb : r.baseLanguage = [] <;> by_cases hfl : r.flow = [] <;>
            simp [hdh, hm, hb, hfl, defaultHour, ht]
  · simp only [hdh, ne_eq, not_false_eq_true, if_true] at h
    cases hd : pyInt r.deliveryHour with
    | none => simp [hd] at h
    | some dh =>
      cases hoff : pyInt r.offset with
      | none => simp [hd, hoff] at h
      | some off =>
        cases hk : generateFieldKey r.relativeTo with
        | error x => simp [hd, hoff, hk] at h
        | ok key =>
          simp only [hd, hoff, hk] at h
          by_cases hm : r.message = [] <;> by_cases ht : r.eventType = evMessage <;>
            simp [hm, ht] at h
          all_goals
            subst h
            by_cases hb : r.baseLanguage = [] <;> by_cases hfl : r.flow = [] <;>
              simp [hdh, hm, hb, hfl, ht]

/-- **Campaign sheets compile row for row**: an accepted sheet has exactly one event per
row, in row order, and the k-th event carries the k-th row's fields as stated. -/
theorem campaign_rowwise (rows : List CampRow) (evs : List Event)
    (h : parseCampaign rows = .ok (evs, [])) :
    evs.length = rows.length ∧
    ∀ k (hk : k < rows.length) (hk' : k < evs.length), eventSpec rows[k] evs[k] := by
  unfold parseCampaign at h
  cases hv : validateAll validateCampRow rows with
  | some e => simp [hv] at h
  | none =>
    simp only [hv] at h
    have := parseRows_clean eventOfRow rows 0 evs h
    exact ⟨this.1, fun k hk hk' => eventOfRow_spec _ _ (this.2 k hk hk')⟩

/-- **Library reading** (`LOGGER.critical` does not stop the run): whatever is reported, the
events are exactly the individually accepted rows, in row order, and every critical names
the row that caused it. -/
theorem campaign_library_rowwise (rows : List CampRow) (evs : List Event) (cs : List (Nat × Crit))
    (h : parseCampaign rows = .ok (evs, cs)) :
    evs = accepted eventOfRow rows ∧
    ∀ p ∈ cs, ∃ (hk : p.1 < rows.length), eventOfRow rows[p.1] = .crit p.2 := by
  unfold parseCampaign at h
  cases hv : validateAll validateCampRow rows with
  | some e => simp [hv] at h
  | none =>
    simp only [hv] at h
    refine ⟨parseRows_out _ _ _ _ _ h, fun p hp => ?_⟩
    obtain ⟨_, h2, h3⟩ := parseRows_crit_bound _ _ _ _ _ h p hp
    exact ⟨by simpa using h2, by simpa using h3⟩

/-- rendering keeps one entry per event -/
theorem render_events_length (c : Nat) (evs : List Event) :
    ∀ i, (renderEventsFrom c i evs).length = evs.length := by
  induction evs with
  | nil => intro i; rfl
  | cons e es ih => intro i; simp [renderEventsFrom, ih]

def row1 : CampRow :=
  { offset := "1_0".toList, unit := "H".toList, eventType := "M".toList, deliveryHour := "7".toList,
    message := "hi".toList, relativeTo := "Created On".toList, startMode := "I".toList }
def row2 : CampRow :=
  { offset := "-3".toList, unit := "W".toList, eventType := "F".toList,
    relativeTo := "x".toList, startMode := "P".toList, flow := "f".toList }

/-- non-vacuity of `campaign_rowwise`: a two-row sheet that is accepted -/
example : (match parseCampaign [row1, row2] with
    | .ok (evs, []) => evs.length == 2
    | _ => false) = true := by decide +kernel

/-- what the statement lists as invalid in a campaign row -/
def CampInvalid (r : CampRow) : Prop :=
  r.unit ∉ units ∨ r.startMode ∉ startModes ∨ r.eventType ∉ eventTypes ∨
  (r.eventType = evMessage ∧ r.message = [])

/-- everything the code needs of a campaign row -/
def CampValid (r : CampRow) : Prop :=
  r.unit ∈ units ∧ r.startMode ∈ startModes ∧ r.eventType ∈ eventTypes ∧
  (r.eventType = evMessage → r.message ≠ []) ∧
  (pyInt r.offset).isSome ∧
  (r.deliveryHour = [] ∨ (pyInt r.deliveryHour).isSome) ∧
  (∃ k, generateFieldKey r.relativeTo = .ok k)

theorem validateCampRow_none_iff (r : CampRow) :
    validateCampRow r = none ↔ r.unit ∈ units ∧ r.startMode ∈ startModes ∧ r.eventType ∈ eventTypes := by
  unfold validateCampRow campInvalidFields
  by_cases h1 : r.unit ∈ units <;> by_cases h2 : r.eventType ∈ eventTypes <;>
    by_cases h3 : r.startMode ∈ startModes <;> simp [h1, h2, h3]

theorem eventOfRow_ok_iff (r : CampRow) :
    (∃ e, eventOfRow r = .ok e) ↔
      (r.eventType = evMessage → r.message ≠ []) ∧ (pyInt r.offset).isSome ∧
      (r.deliveryHour = [] ∨ (pyInt r.deliveryHour).isSome) ∧
      (∃ k, generateFieldKey r.relativeTo = .ok k) := by
  unfold eventOfRow
  by_cases hdh : r.deliveryHour = []
  · simp only [hdh, ne_eq, not_true_eq_false, if_false]
    cases hoff : pyInt r.offset with
    | none => simp
    | some off =>
      cases hk : generateFieldKey r.relativeTo with
      | error x => simp
      | ok key =>
        by_cases hm : r.message = [] <;> by_cases ht : r.eventType = evMessage <;> simp [hm, ht]
  · simp only [hdh, ne_eq, not_false_eq_true, if_true]
    cases hd : pyInt r.deliveryHour with
    | none => simp
    | some dh =>
      cases hoff : pyInt r.offset with
      | none => simp
      | some off =>
        cases hk : generateFieldKey r.relativeTo with
        | error x => simp
        | ok key =>
          by_cases hm : r.message = [] <;> by_cases ht : r.eventType = evMessage <;> simp [hm, ht]

/-- **A campaign sheet is accepted exactly when every row is valid** (both directions:
`valid_accepted` and, contrapositively, every kind of rejection). -/
theorem campaign_accepted_iff (rows : List CampRow) :
    (∃ evs, parseCampaign rows = .ok (evs, [])) ↔ ∀ r ∈ rows, CampValid r := by
  unfold parseCampaign
  cases hv : validateAll validateCampRow rows with
  | some e =>
    simp only [reduceCtorEq, exists_false, false_iff]
    intro hall
    have : validateAll validateCampRow rows = none :=
      (validateAll_none_iff _ _).2 fun r hr =>
        (validateCampRow_none_iff r).2 ⟨(hall r hr).1, (hall r hr).2.1, (hall r hr).2.2.1⟩
    rw [this] at hv; cases hv
  | none =>
    simp only
    rw [parseRows_clean_iff]
    have hval := (validateAll_none_iff _ _).1 hv
    constructor
    · intro h r hr
      have h1 := (validateCampRow_none_iff r).1 (hval r hr)
      have h2 := (eventOfRow_ok_iff r).1 (h r hr)
      exact ⟨h1.1, h1.2.1, h1.2.2, h2.1, h2.2.1, h2.2.2.1, h2.2.2.2⟩
    · intro h r hr
      have := h r hr
      exact (eventOfRow_ok_iff r).2 ⟨this.2.2.2.1, this.2.2.2.2.1, this.2.2.2.2.2.1, this.2.2.2.2.2.2⟩

/-- **Invalid campaign rows are rejected**: a sheet containing a row with an invalid unit,
start mode or event type, or a message event without text, is not accepted. -/
theorem campaign_invalid_rejected (rows : List CampRow) (r : CampRow) (hr : r ∈ rows)
    (h : CampInvalid r) : ∀ evs, parseCampaign rows ≠ .ok (evs, []) := by
  intro evs hok
  have hv := (campaign_accepted_iff rows).1 ⟨evs, hok⟩ r hr
  rcases h with h | h | h | ⟨h1, h2⟩
  · exact h hv.1
  · exact h hv.2.1
  · exact h hv.2.2.1
  · exact hv.2.2.2.1 h1 h2

/-- **Valid campaign sheets are accepted.** -/
theorem campaign_valid_accepted (rows : List CampRow) (h : ∀ r ∈ rows, CampValid r) :
    ∃ evs, parseCampaign rows = .ok (evs, []) ∧ evs.length = rows.length := by
  obtain ⟨evs, he⟩ := (campaign_accepted_iff rows).2 h
  exact ⟨evs, he, (campaign_rowwise rows evs he).1⟩

example : CampValid row1 ∧ CampValid row2 := by
  refine ⟨⟨by decide, by decide, by decide, by decide, by decide, by decide,
            ⟨"created_on".toList, by decide⟩⟩,
          ⟨by decide, by decide, by decide, by decide, by decide, by decide, ⟨"x".toList, by decide⟩⟩⟩
example : CampInvalid { row1 with unit := "X".toList } := Or.inl (by decide)
example : CampInvalid { row1 with message := [] } := Or.inr (Or.inr (Or.inr ⟨by decide, rfl⟩))

/-- "The message with its base language": the message dict is keyed by the event's base
language (former finding F-C19-a, fixed in /repo: the key used to be the literal `eng`). -/
theorem campaign_message_lang (r : CampRow) (e : Event) (h : eventOfRow r = .ok e) :
    ∀ k t l, e.message = some (k, t) → e.baseLanguage = some l → k = l := by
  have hs := eventOfRow_spec r e h
  obtain ⟨_, _, _, _, _, _, _, hm, hl, _⟩ := hs
  intro k t l h1 h2
  by_cases hmsg : r.message = []
  · simp [hmsg] at hm; rw [hm] at h1; cases h1
  · simp only [hmsg, if_false] at hm hl
    rw [hm] at h1; rw [hl] at h2
    injection h1 with h1; injection h2 with h2
    have hk : k = (if r.baseLanguage = [] then defaultLang else r.baseLanguage) := by
      injection h1 with a b; exact a.symm
    rw [hk, h2]

example : eventOfRow row1 = .ok
    { offset := 10, unit := "H".toList, eventType := "M".toList, deliveryHour := 7,
      startMode := "I".toList, relLabel := "Created On".toList, relKey := "created_on".toList,
      message := some ("eng".toList, "hi".toList), flowName := none,
      baseLanguage := some "eng".toList } := by decide +kernel

/-- the statement's field list for one trigger row, written out -/
def triggerSpec (r : TrigRow) (t : Trigger) : Prop :=
  t.type = r.type ∧
  t.keywords = r.keywords ∧
  t.matchType =
    (if r.type = trigKeyword ∧ r.matchType.getD [] = [] then some defaultMatch
     else if r.matchType.getD [] = [] then none else some (r.matchType.getD [])) ∧
  t.channel = (if r.channel = [] then none else some r.channel) ∧
  t.flowName = r.flow ∧
  t.groups = r.groups ∧
  t.excludeGroups = r.excludeGroups

theorem triggerOfRow_spec (r : TrigRow) (t : Trigger) (h : triggerOfRow r = .ok t) :
    triggerSpec r t := by
  unfold triggerOfRow at h
  unfold triggerSpec
  split at h
  · cases h
  · split at h
    · cases h
    · split at h
      · cases h
      · split at h
        · cases h
        · injection h with h; subst h
          by_cases hc : r.channel = [] <;> by_cases hm : r.matchType.getD [] = [] <;>
            by_cases hk : r.type = trigKeyword <;> simp [orNone, hc, hm, hk]

/-- **Trigger sheets compile row for row.** -/
theorem trigger_rowwise (rows : List TrigRow) (ts : List Trigger)
    (h : parseTriggers rows = .ok (ts, [])) :
    ts.length = rows.length ∧
    ∀ k (hk : k < rows.length) (hk' : k < ts.length), triggerSpec rows[k] ts[k] := by
  unfold parseTriggers at h
  cases hv : validateAll validateTrigRow rows with
  | some e => simp [hv] at h
  | none =>
    simp only [hv] at h
    have := parseRows_clean triggerOfRow rows 0 ts h
    exact ⟨this.1, fun k hk hk' => triggerOfRow_spec _ _ (this.2 k hk hk')⟩

/-- **Library reading** for trigger sheets. -/
theorem trigger_library_rowwise (rows : List TrigRow) (ts : List Trigger) (cs : List (Nat × Crit))
    (h : parseTriggers rows = .ok (ts, cs)) :
    ts = accepted triggerOfRow rows ∧
    ∀ p ∈ cs, ∃ (hk : p.1 < rows.length), triggerOfRow rows[p.1] = .crit p.2 := by
  unfold parseTriggers at h
  cases hv : validateAll validateTrigRow rows with
  | some e => simp [hv] at h
  | none =>
    simp only [hv] at h
    refine ⟨parseRows_out _ _ _ _ _ h, fun p hp => ?_⟩
    obtain ⟨_, h2, h3⟩ := parseRows_crit_bound _ _ _ _ _ h p hp
    exact ⟨by simpa using h2, by simpa using h3⟩

def trow1 : TrigRow :=
  { type := "K".toList, keywords := ["hello".toList, "hi".toList], flow := "f".toList,
    groups := ["G".toList], matchType := some [] }
def trow2 : TrigRow := { type := "C".toList, flow := "f".toList, excludeGroups := ["G".toList] }

example : (match parseTriggers [trow1, trow2] with
    | .ok (ts, []) => ts.length == 2
    | _ => false) = true := by decide +kernel

/-- what the statement lists as invalid in a trigger row (plus: keyword trigger without keyword) -/
def TrigInvalid (r : TrigRow) : Prop :=
  r.type ∉ trigTypes ∨
  (r.type = trigKeyword ∧ ∃ m, r.matchType = some m ∧ m ∉ matchTypes) ∨
  (r.type = trigKeyword ∧ (r.keywords = [] ∨ r.keywords.head? = some []))

/-- everything the code needs of a trigger row -/
def TrigValid (r : TrigRow) : Prop :=
  r.type ∈ trigTypes ∧
  (r.type = trigKeyword → ∀ m, r.matchType = some m → m ∈ matchTypes) ∧
  (r.type = trigKeyword → r.keywords ≠ [] ∧ r.keywords.head? ≠ some []) ∧
  r.flow ≠ [] ∧ (∀ g ∈ r.groups, g ≠ []) ∧ (∀ g ∈ r.excludeGroups, g ≠ [])

theorem validateTrigRow_none_iff (r : TrigRow) :
    validateTrigRow r = none ↔
      r.type ∈ trigTypes ∧ (r.type = trigKeyword → ∀ m, r.matchType = some m → m ∈ matchTypes) := by
  unfold validateTrigRow
  by_cases ht : r.type ∈ trigTypes
  · rw [if_pos ht]
    cases hm : r.matchType with
    | none =>
      refine ⟨fun _ => ⟨ht, fun _ m h => by cases h⟩, fun _ => rfl⟩
    | some m =>
      by_cases hc : r.type = trigKeyword ∧ m ∉ matchTypes
      · show (if r.type = trigKeyword ∧ m ∉ matchTypes then _ else _) = none ↔ _
        rw [if_pos hc]
        refine ⟨fun h => (by cases h), fun h => ?_⟩
        exact absurd (h.2 hc.1 m rfl) hc.2
      · show (if r.type = trigKeyword ∧ m ∉ matchTypes then _ else _) = none ↔ _
        rw [if_neg hc]
        refine ⟨fun _ => ⟨ht, fun hk m' hm' => ?_⟩, fun _ => rfl⟩
        injection hm' with hm'
        subst hm'
        exact Classical.byContradiction fun hn => hc ⟨hk, hn⟩
  · rw [if_neg ht]
    cases hm : r.matchType with
    | none => exact ⟨fun h => (by cases h), fun h => absurd h.1 ht⟩
    | some m => exact ⟨fun h => (by cases h), fun h => absurd h.1 ht⟩

theorem triggerOfRow_ok_iff (r : TrigRow) :
    (∃ t, triggerOfRow r = .ok t) ↔
      (r.type = trigKeyword → r.keywords ≠ [] ∧ r.keywords.head? ≠ some []) ∧
      r.flow ≠ [] ∧ (∀ g ∈ r.groups, g ≠ []) ∧ (∀ g ∈ r.excludeGroups, g ≠ []) := by
  unfold triggerOfRow
  by_cases hk : r.type = trigKeyword ∧ (r.keywords = [] ∨ r.keywords.head? = some [])
  · rw [if_pos hk]
    refine ⟨fun ⟨_, h⟩ => (by cases h), fun h => ?_⟩
    have := h.1 hk.1
    rcases hk.2 with h1 | h1
    · exact absurd h1 this.1
    · exact absurd h1 this.2
  · have hk' : r.type = trigKeyword → r.keywords ≠ [] ∧ r.keywords.head? ≠ some [] := by
      intro h
      constructor
      · intro h1; exact hk ⟨h, Or.inl h1⟩
      · intro h1; exact hk ⟨h, Or.inr h1⟩
    rw [if_neg hk]
    by_cases hf : r.flow = []
    · simp only [hf, if_true]
      refine ⟨fun ⟨_, h⟩ => (by cases h), fun h => absurd rfl h.2.1⟩
    · by_cases hg : r.groups.any (· = []) = true
      · simp only [hf, hg, if_true, if_false]
        refine ⟨fun ⟨_, h⟩ => (by cases h), fun h => ?_⟩
        simp at hg
        exact absurd rfl (h.2.2.1 [] hg)
      · by_cases hx : r.excludeGroups.any (· = []) = true
        · simp only [hf, hg, hx, if_true, if_false, Bool.false_eq_true]
          refine ⟨fun ⟨_, h⟩ => (by cases h), fun h => ?_⟩
          simp at hx
          exact absurd rfl (h.2.2.2 [] hx)
        · simp only [hf, hg, hx, if_false, Bool.false_eq_true]
          simp at hg hx
          refine ⟨fun _ => ⟨hk', hf, ?_, ?_⟩, fun _ => ⟨_, rfl⟩⟩
          · intro g hgm h0; subst h0; exact hg hgm
          · intro g hgm h0; subst h0; exact hx hgm

/-- **A trigger sheet is accepted exactly when every row is valid.** -/
theorem trigger_accepted_iff (rows : List TrigRow) :
    (∃ ts, parseTriggers rows = .ok (ts, [])) ↔ ∀ r ∈ rows, TrigValid r := by
  unfold parseTriggers
  cases hv : validateAll validateTrigRow rows with
  | some e =>
    simp only [reduceCtorEq, exists_false, false_iff]
    intro hall
    have : validateAll validateTrigRow rows = none :=
      (validateAll_none_iff _ _).2 fun r hr =>
        (validateTrigRow_none_iff r).2 ⟨(hall r hr).1, (hall r hr).2.1⟩
    rw [this] at hv; cases hv
  | none =>
    simp only
    rw [parseRows_clean_iff]
    have hval := (validateAll_none_iff _ _).1 hv
    constructor
    · intro h r hr
      have h1 := (validateTrigRow_none_iff r).1 (hval r hr)
      have h2 := (triggerOfRow_ok_iff r).1 (h r hr)
      exact ⟨h1.1, h1.2, h2.1, h2.2.1, h2.2.2.1, h2.2.2.2⟩
    · intro h r hr
      have := h r hr
      exact (triggerOfRow_ok_iff r).2 ⟨this.2.2.1, this.2.2.2.1, this.2.2.2.2.1, this.2.2.2.2.2⟩

/-- **Invalid trigger rows are rejected**: invalid type, invalid match type of a keyword
trigger, keyword trigger without a (first) keyword. -/
theorem trigger_invalid_rejected (rows : List TrigRow) (r : TrigRow) (hr : r ∈ rows)
    (h : TrigInvalid r) : ∀ ts, parseTriggers rows ≠ .ok (ts, []) := by
  intro ts hok
  have hv := (trigger_accepted_iff rows).1 ⟨ts, hok⟩ r hr
  rcases h with h | ⟨hk, m, hm, hmm⟩ | ⟨hk, h⟩
  · exact h hv.1
  · exact hmm (hv.2.1 hk m hm)
  · have := hv.2.2.1 hk
    rcases h with h | h
    · exact this.1 h
    · exact this.2 h

/-- **Valid trigger sheets are accepted.** -/
theorem trigger_valid_accepted (rows : List TrigRow) (h : ∀ r ∈ rows, TrigValid r) :
    ∃ ts, parseTriggers rows = .ok (ts, []) ∧ ts.length = rows.length := by
  obtain ⟨ts, ht⟩ := (trigger_accepted_iff rows).2 h
  exact ⟨ts, ht, (trigger_rowwise rows ts ht).1⟩

example : TrigValid trow1 ∧ TrigValid trow2 := by
  refine ⟨⟨by decide, ?_, ?_, by decide, by decide, by decide⟩,
          ⟨by decide, ?_, ?_, by decide, by decide, by decide⟩⟩
  · intro _ m hm; cases hm; decide
  · intro _; exact ⟨by decide, by decide⟩
  · intro h; exact absurd h (by decide)
  · intro h; exact absurd h (by decide)
example : TrigInvalid { trow1 with keywords := [[], "x".toList] } :=
  Or.inr (Or.inr ⟨rfl, Or.inr rfl⟩)
example : TrigInvalid { trow1 with matchType := some "Z".toList } :=
  Or.inr (Or.inl ⟨rfl, _, rfl, by decide⟩)

/-- the statement says rows with an invalid match type are rejected; the code only looks
at the match type of keyword triggers — for other types anything goes … -/
def trigger_match_type_full : Prop :=
  ∀ rows r, r ∈ rows → (∃ m, r.matchType = some m ∧ m ∉ matchTypes) →
    ∀ ts, parseTriggers rows ≠ .ok (ts, [])

/-- … witness: a catch-all trigger with match type `Z` is accepted. -/
theorem match_type_needs_keyword_trigger : ¬ trigger_match_type_full := by
  intro h
  exact h [{ trow2 with matchType := some "Z".toList }] _ (List.mem_cons_self ..)
    ⟨_, rfl, by decide⟩ _ (by decide +kernel : parseTriggers _ = .ok
      ([{ type := "C".toList, keywords := [], matchType := some "Z".toList, channel := none,
          flowName := "f".toList, groups := [], excludeGroups := ["G".toList] }], []))

end Rpft.Props.C19
