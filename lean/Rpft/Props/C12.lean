/-
C12 — a template instantiated in bulk equals the same template instantiated row by row.

Property theorems over the model `Rpft/Bulk.lean` (`parse_all_flows`, `_parse_flow`,
`map_template_arguments_to_context`).  The model is a pure function and the template compiler
is an abstract function of (template sheet, flow name, context), so most statements are close
to definitional: what they pin down is the *specification* the real code is compared against
(harness/props/c12.py): which instances a bulk row stands for, their names and order, the
context each one is compiled in, and that this context mentions nothing of another instance.
Whether the real compiler really is such a function (deep copy of the context per flow, no
state carried from one instance to the next) is the content of the tie, not of these theorems.
-/
import Rpft.Bulk
set_option linter.unusedSimpArgs false
set_option linter.unusedVariables false
namespace Rpft.Props.C12
open Rpft Rpft.Bulk

variable {V Out α β : Type}

/-! ### Python dict facts -/

theorem dictGet_dictSet_same (d : List (Str × α)) (k : Str) (v : α) :
    dictGet (dictSet d k v) k = some v := by
  induction d with
  | nil => simp [dictSet, dictGet]
  | cons p t ih =>
    obtain ⟨k', v'⟩ := p
    by_cases h : k' = k <;> simp [dictSet, dictGet, h, ih]

theorem dictGet_dictSet_other (d : List (Str × α)) {k k' : Str} (v : α) (h : k ≠ k') :
    dictGet (dictSet d k v) k' = dictGet d k' := by
  induction d with
  | nil => simp [dictSet, dictGet, h]
  | cons p t ih =>
    obtain ⟨k₀, v₀⟩ := p
    by_cases h0 : k₀ = k
    · subst h0; simp [dictSet, dictGet, h]
    · by_cases h1 : k₀ = k'
      · subst h1; simp [dictSet, dictGet, h0]
      · simp [dictSet, dictGet, h0, h1, ih]

theorem dictGet_none_iff (d : List (Str × α)) (k : Str) : dictGet d k = none ↔ k ∉ keys d := by
  induction d with
  | nil => simp [dictGet, keys]
  | cons p t ih =>
    obtain ⟨k₀, v₀⟩ := p
    by_cases h0 : k₀ = k
    · subst h0; simp [dictGet, keys]
    · have : ¬ k = k₀ := fun e => h0 e.symm
      simp [dictGet, h0, this, keys] at ih ⊢; exact ih

/-- a new key is appended at the end (insertion order) -/
theorem dictSet_new (d : List (Str × α)) (k : Str) (v : α) (h : dictGet d k = none) :
    dictSet d k v = d ++ [(k, v)] := by
  induction d with
  | nil => simp [dictSet]
  | cons p t ih =>
    obtain ⟨k₀, v₀⟩ := p
    by_cases h0 : k₀ = k
    · simp [dictGet, h0] at h
    · simp [dictGet, h0] at h; simp [dictSet, h0, ih h]

/-- an existing key keeps its position -/
theorem keys_dictSet_old (d : List (Str × α)) (k : Str) (v : α) (h : k ∈ keys d) :
    keys (dictSet d k v) = keys d := by
  induction d with
  | nil => simp [keys] at h
  | cons p t ih =>
    obtain ⟨k₀, v₀⟩ := p
    by_cases h0 : k₀ = k
    · simp [dictSet, h0, keys]
    · have hk : k ∈ keys t := by
        simp [keys] at h ⊢
        rcases h with h | h
        · exact absurd h.symm h0
        · exact h
      have := ih hk
      simp [keys] at this ⊢
      simp [dictSet, h0, this]

theorem keys_nodup_dictSet (d : List (Str × α)) (k : Str) (v : α) (h : (keys d).Nodup) :
    (keys (dictSet d k v)).Nodup := by
  by_cases hk : k ∈ keys d
  · rw [keys_dictSet_old d k v hk]; exact h
  · rw [dictSet_new d k v ((dictGet_none_iff d k).2 hk)]
    simp only [keys, List.map_append, List.map_cons, List.map_nil] at h ⊢
    rw [List.nodup_append]
    refine ⟨h, by simp, ?_⟩
    intro a ha b hb
    simp at hb; subst hb
    intro e; subst e; exact hk (by simpa [keys] using ha)

/-- the row IDs of a data sheet are pairwise distinct, whatever the sheet's rows are
(`OrderedDict((row.ID, row) …)`: a repeated ID overwrites) -/
theorem ofRows_keys_nodup (rows : List (Str × Row V)) : (keys (ofRows rows)).Nodup := by
  unfold ofRows
  suffices h : ∀ (d : DataSheet V), (keys d).Nodup →
      (keys (rows.foldl (fun d p => dictSet d p.1 p.2) d)).Nodup from h [] (by simp [keys])
  induction rows with
  | nil => intro d h; simpa using h
  | cons p t ih => intro d h; exact ih _ (keys_nodup_dictSet d p.1 p.2 h)

/-- the last definition of a name is the one that stays -/
theorem dictGet_foldl_addFlow (outs : List (Str × β)) (k : Str) (v : β)
    (hall : ∀ p ∈ outs, p.1 = k → p.2 = v) :
    ∀ (fl : Flows β), ((∃ p ∈ outs, p.1 = k) ∨ dictGet fl k = some v) →
      dictGet (outs.foldl addFlow fl) k = some v := by
  induction outs with
  | nil => intro fl h; simpa using h
  | cons p t ih =>
    intro fl h
    simp only [List.foldl_cons]
    apply ih (fun q hq => hall q (List.mem_cons_of_mem _ hq))
    by_cases ht : ∃ q ∈ t, q.1 = k
    · exact Or.inl ht
    · right
      by_cases hp : p.1 = k
      · have := hall p (List.mem_cons_self) hp
        unfold addFlow; rw [hp, this]; exact dictGet_dictSet_same fl k v
      · unfold addFlow; rw [dictGet_dictSet_other fl p.2 hp]
        rcases h with ⟨q, hq, hqk⟩ | h
        · rcases List.mem_cons.1 hq with rfl | hq'
          · exact absurd hqk hp
          · exact absurd ⟨q, hq', hqk⟩ ht
        · exact h

theorem dictGet_foldl_addFlow_none (outs : List (Str × β)) (k : Str)
    (hno : ∀ p ∈ outs, p.1 ≠ k) (fl : Flows β) :
    dictGet (outs.foldl addFlow fl) k = dictGet fl k := by
  induction outs generalizing fl with
  | nil => rfl
  | cons p t ih =>
    simp only [List.foldl_cons]
    rw [ih (fun q hq => hno q (List.mem_cons_of_mem _ hq))]
    unfold addFlow
    exact dictGet_dictSet_other fl p.2 (hno p List.mem_cons_self)

/-- fresh, pairwise distinct names are appended in order -/
theorem foldl_addFlow_fresh (outs : List (Str × β)) :
    ∀ (fl : Flows β), (keys fl ++ keys outs).Nodup → outs.foldl addFlow fl = fl ++ outs := by
  induction outs with
  | nil => intro fl _; simp
  | cons p t ih =>
    intro fl h
    simp only [List.foldl_cons]
    have hp : dictGet fl p.1 = none := by
      rw [dictGet_none_iff]
      intro hm
      have := (List.nodup_append.1 h).2.2 p.1 hm p.1 (by simp [keys])
      exact this rfl
    rw [show addFlow fl p = dictSet fl p.1 p.2 from rfl, dictSet_new fl p.1 p.2 hp]
    have : (keys (fl ++ [(p.1, p.2)]) ++ keys t).Nodup := by
      simpa [keys, List.append_assoc] using h
    rw [ih _ this]; simp

/-! ### spec-level vocabulary -/

/-- left-to-right `map` that stops at the first error -/
def mapE {γ δ : Type} (f : γ → Except Err δ) : List γ → Except Err (List δ)
  | [] => .ok []
  | a :: as =>
    match f a with
    | .error e => .error e
    | .ok b =>
      match mapE f as with
      | .error e => .error e
      | .ok bs => .ok (b :: bs)

/-- instance of the row's template for data row `i`: mentions the index row, the registries
and `i` — and nothing else -/
def inst (env : Env V Out) (r : FlowRow) (i : Str) : Except Err (Str × Out) :=
  parseFlow env r.sheetName r.dataSheet i r.args r.newName

/-- the instances one `create_flow` row stands for -/
def expandRow (env : Env V Out) (r : FlowRow) : Except Err (List (Str × Out)) :=
  if r.dataSheet ≠ [] ∧ r.dataRowId = [] then
    match dictGet env.sheets r.dataSheet with
    | none => .error (.sheetNotFound r.dataSheet)
    | some ds => mapE (inst env r) (keys ds)
  else if r.dataSheet = [] ∧ r.dataRowId ≠ [] then .error .rowIdWithoutSheet
  else
    match inst env r r.dataRowId with
    | .error e => .error e
    | .ok f => .ok [f]

/-- all instances of an index, in generation order -/
def instances (env : Env V Out) (rs : List FlowRow) : Except Err (List (Str × Out)) :=
  match mapE (expandRow env) rs with
  | .error e => .error e
  | .ok outss => .ok outss.flatten

theorem bulkLoop_eq (env : Env V Out) (r : FlowRow) (ids : List Str) (fl : Flows Out) :
    bulkLoop env r ids fl =
      match mapE (inst env r) ids with
      | .error e => .error e
      | .ok outs => .ok (outs.foldl addFlow fl) := by
  induction ids generalizing fl with
  | nil => simp [bulkLoop, mapE]
  | cons i t ih =>
    simp only [bulkLoop, mapE, inst]
    cases h : parseFlow env r.sheetName r.dataSheet i r.args r.newName with
    | error e => rfl
    | ok f =>
      simp only []
      rw [ih]
      cases h2 : mapE (inst env r) t <;> simp [List.foldl_cons]

theorem stepRow_eq (env : Env V Out) (fl : Flows Out) (r : FlowRow) :
    stepRow env fl r =
      match expandRow env r with
      | .error e => .error e
      | .ok outs => .ok (outs.foldl addFlow fl) := by
  unfold stepRow expandRow
  split
  · cases h : dictGet env.sheets r.dataSheet with
    | none => simp
    | some ds => simp only []; exact bulkLoop_eq env r (keys ds) fl
  · split
    · rfl
    · simp only [inst]
      cases h : parseFlow env r.sheetName r.dataSheet r.dataRowId r.args r.newName <;> simp

/-- `parse_all_flows` = generate every instance in order, then keep the last one per name -/
theorem runRows_eq (env : Env V Out) (rs : List FlowRow) (fl : Flows Out) :
    runRows env rs fl =
      match instances env rs with
      | .error e => .error e
      | .ok outs => .ok (outs.foldl addFlow fl) := by
  induction rs generalizing fl with
  | nil => simp [runRows, instances, mapE]
  | cons r t ih =>
    simp only [runRows, instances, mapE]
    rw [stepRow_eq]
    cases h : expandRow env r with
    | error e => simp
    | ok outs =>
      simp only []
      rw [ih]
      simp only [instances]
      cases h2 : mapE (expandRow env) t <;> simp [List.foldl_append]

theorem runRows_append (env : Env V Out) (a b : List FlowRow) (fl : Flows Out) :
    runRows env (a ++ b) fl =
      match runRows env a fl with
      | .error e => .error e
      | .ok fl' => runRows env b fl' := by
  induction a generalizing fl with
  | nil => simp [runRows]
  | cons r t ih =>
    simp only [List.cons_append, runRows]
    cases h : stepRow env fl r with
    | error e => simp
    | ok fl' => simp only []; exact ih fl'

/-! ### bulk = singles -/

theorem runRows_singles (env : Env V Out) (r : FlowRow) (hds : r.dataSheet ≠ [])
    (ids : List Str) (hid : ∀ i ∈ ids, i ≠ []) (fl : Flows Out) :
    runRows env (singles r ids) fl = bulkLoop env r ids fl := by
  induction ids generalizing fl with
  | nil => simp [singles, runRows, bulkLoop]
  | cons i t ih =>
    have hi : i ≠ [] := hid i List.mem_cons_self
    have ht : ∀ j ∈ t, j ≠ [] := fun j hj => hid j (List.mem_cons_of_mem _ hj)
    simp only [singles, List.map_cons, runRows, bulkLoop]
    have hstep : stepRow env fl { r with dataRowId := i } =
        match parseFlow env r.sheetName r.dataSheet i r.args r.newName with
        | .error e => .error e
        | .ok f => .ok (addFlow fl f) := by
      simp [stepRow, hds, hi]
      rfl
    rw [hstep]
    cases h : parseFlow env r.sheetName r.dataSheet i r.args r.newName with
    | error e => simp
    | ok f => simp only []; exact ih ht (addFlow fl f)

/-- **bulk = row by row.**  Anywhere in a content index, and whatever flows were defined before
(`fl`), a bulk `create_flow` row (data sheet given, row ID blank) may be replaced by the list of
single rows naming each data row, in data order: `parse_all_flows` returns the same flows, in
the same order — or the same error. -/
theorem bulk_eq_singles (env : Env V Out) (r : FlowRow) (ds : DataSheet V)
    (hds : r.dataSheet ≠ []) (hb : r.dataRowId = [])
    (hs : dictGet env.sheets r.dataSheet = some ds) (hid : ∀ i ∈ keys ds, i ≠ [])
    (pre post : List FlowRow) (fl : Flows Out) :
    runRows env (pre ++ r :: post) fl = runRows env (pre ++ (singles r (keys ds) ++ post)) fl := by
  rw [runRows_append, runRows_append]
  cases h : runRows env pre fl with
  | error e => rfl
  | ok fl₁ =>
    simp only []
    rw [runRows_append, runRows_singles env r hds (keys ds) hid]
    simp [runRows, stepRow, hds, hb, hs]
    rfl

/-- the statement for an index holding just the bulk row -/
theorem bulk_eq_singles_alone (env : Env V Out) (r : FlowRow) (ds : DataSheet V)
    (hds : r.dataSheet ≠ []) (hb : r.dataRowId = [])
    (hs : dictGet env.sheets r.dataSheet = some ds) (hid : ∀ i ∈ keys ds, i ≠ []) :
    parseAllFlows env [r] = parseAllFlows env (singles r (keys ds)) := by
  have := bulk_eq_singles env r ds hds hb hs hid [] [] []
  simpa [parseAllFlows] using this

/-- **zero rows, zero flows.**  Anywhere in a content index, a bulk `create_flow` row over a data
sheet that holds NO row (a header-only sheet, a filter that keeps nothing) may be deleted:
it defines no flow and raises no error, whatever its template — which is never looked up — and
its arguments. -/
theorem bulk_empty_sheet (env : Env V Out) (r : FlowRow)
    (hds : r.dataSheet ≠ []) (hb : r.dataRowId = [])
    (hs : dictGet env.sheets r.dataSheet = some [])
    (pre post : List FlowRow) (fl : Flows Out) :
    runRows env (pre ++ r :: post) fl = runRows env (pre ++ post) fl := by
  have h := bulk_eq_singles env r [] hds hb hs (by simp [keys]) pre post fl
  simpa [singles, keys] using h

/-- alone in an index it gives the empty container -/
theorem bulk_empty_sheet_alone (env : Env V Out) (r : FlowRow)
    (hds : r.dataSheet ≠ []) (hb : r.dataRowId = [])
    (hs : dictGet env.sheets r.dataSheet = some []) :
    parseAllFlows env [r] = .ok [] := by
  have h := bulk_empty_sheet env r hds hb hs [] [] []
  simpa [parseAllFlows, runRows] using h

/-! ### names -/

theorem flowName_inj (base : Str) {i j : Str} (h : flowName base i = flowName base j) : i = j := by
  unfold flowName at h
  exact List.append_cancel_left h

/-- an instance for a named data row is called `base - id` -/
theorem inst_name (env : Env V Out) (r : FlowRow) (hds : r.dataSheet ≠ []) {i : Str} (hi : i ≠ [])
    {f : Str × Out} (h : inst env r i = .ok f) :
    f.1 = flowName (baseName r.sheetName r.newName) i := by
  unfold inst parseFlow nameAndRow at h
  simp only [hds, hi, ne_eq, not_false_eq_true, and_self, if_true] at h
  cases h1 : dictGet env.sheets r.dataSheet with
  | none => simp [h1] at h
  | some ds =>
    cases h2 : dictGet ds i with
    | none => simp [h1, h2] at h
    | some row =>
      simp only [h1, h2] at h
      cases h3 : dictGet env.templates r.sheetName with
      | none => simp [h3] at h
      | some defs =>
        simp only [h3] at h
        cases h4 : mapArgs env.sheets defs r.args (rowCtx row) with
        | error e => simp [h4] at h
        | ok c => simp [h4] at h; rw [← h]

theorem mapE_names (env : Env V Out) (r : FlowRow) (hds : r.dataSheet ≠ []) :
    ∀ (ids : List Str) (outs : List (Str × Out)), (∀ i ∈ ids, i ≠ []) →
      mapE (inst env r) ids = .ok outs →
      keys outs = ids.map (flowName (baseName r.sheetName r.newName)) := by
  intro ids
  induction ids with
  | nil => intro outs _ h; simp [mapE] at h; subst h; simp [keys]
  | cons i t ih =>
    intro outs hid h
    simp only [mapE] at h
    cases h1 : inst env r i with
    | error e => simp [h1] at h
    | ok f =>
      cases h2 : mapE (inst env r) t with
      | error e => simp [h1, h2] at h
      | ok bs =>
        simp [h1, h2] at h; subst h
        have := ih bs (fun j hj => hid j (List.mem_cons_of_mem _ hj)) h2
        have hn := inst_name env r hds (hid i List.mem_cons_self) h1
        simp only [keys, List.map_cons] at this ⊢
        rw [hn, this]

/-- **names and order.**  A bulk row alone produces exactly one flow per data row, in data
order, named `<name> - <ID>`; the k-th one is the instance for the k-th data row. -/
theorem bulk_names (env : Env V Out) (r : FlowRow) (ds : DataSheet V)
    (hds : r.dataSheet ≠ []) (hb : r.dataRowId = [])
    (hs : dictGet env.sheets r.dataSheet = some ds) (hid : ∀ i ∈ keys ds, i ≠ [])
    (hnd : (keys ds).Nodup) {fl : Flows Out} (h : parseAllFlows env [r] = .ok fl) :
    keys fl = (keys ds).map (flowName (baseName r.sheetName r.newName)) ∧
    fl.length = ds.length ∧
    mapE (inst env r) (keys ds) = .ok fl := by
  unfold parseAllFlows at h
  simp only [runRows, stepRow, hds, hb, hs, ne_eq, not_false_eq_true, and_self, if_true] at h
  rw [bulkLoop_eq] at h
  cases h1 : mapE (inst env r) (keys ds) with
  | error e => simp [h1] at h
  | ok outs =>
    simp [h1] at h
    have hk := mapE_names env r hds (keys ds) outs hid h1
    have hnd' : (keys ([] : Flows Out) ++ keys outs).Nodup := by
      simp only [keys, List.map_nil, List.nil_append] at hk ⊢
      rw [hk]
      exact List.Pairwise.map _ (fun a b hab e => hab (flowName_inj _ e)) hnd
    rw [foldl_addFlow_fresh outs [] hnd'] at h
    simp at h; subst h
    refine ⟨hk, ?_, rfl⟩
    have := congrArg List.length hk
    simpa [keys] using this


/-! ### arguments -/

/-- positional pairing of declared arguments with given ones: the k-th declared name gets the
k-th given argument, or `""` if there is none; arguments beyond the declared ones pair with nothing -/
def zipPad : List ArgDef → List Str → List (ArgDef × Str)
  | [], _ => []
  | d :: ds, [] => (d, []) :: zipPad ds []
  | d :: ds, a :: as => (d, a) :: zipPad ds as

theorem zip_replicate_nil (defs : List ArgDef) (n : Nat) (h : defs.length ≤ n) :
    defs.zip (List.replicate n ([] : Str)) = zipPad defs [] := by
  induction defs generalizing n with
  | nil => simp [zipPad]
  | cons d t ih =>
    cases n with
    | zero => simp at h
    | succ m => simp [List.replicate_succ, zipPad, ih m (by simpa using h)]

/-- **positional binding, padding, extras.**  The truncate / pad / zip preamble of
`map_template_arguments_to_context` is positional pairing: extras are dropped whatever they
contain, missing trailing arguments count as blank. -/
theorem args_positional (defs : List ArgDef) (args : List Str) :
    defs.zip (padArgs defs (truncArgs defs args)) = zipPad defs args := by
  induction defs generalizing args with
  | nil => simp [zipPad]
  | cons d t ih =>
    cases args with
    | nil =>
      simp only [truncArgs, padArgs, List.length_nil, List.length_cons, List.nil_append]
      have : ¬ (0 > t.length + 1) := by omega
      simp only [this, if_false, List.length_nil, Nat.sub_zero, List.replicate_succ, List.zip_cons_cons,
        zipPad, List.nil_append]
      rw [zip_replicate_nil t t.length (Nat.le_refl _)]
    | cons a as =>
      have h := ih as
      simp only [truncArgs, padArgs, List.length_cons, zipPad] at h ⊢
      by_cases hl : as.length > t.length
      · have hl' : as.length + 1 > t.length + 1 := by omega
        simp only [hl, hl', if_true, List.take_succ_cons, List.length_cons, List.cons_append,
          List.zip_cons_cons] at h ⊢
        rw [← h]
        simp [List.length_take]
      · have hl' : ¬ (as.length + 1 > t.length + 1) := by omega
        simp only [hl, hl', if_false, List.length_cons, List.cons_append, List.zip_cons_cons,
          Nat.add_sub_add_right] at h ⊢
        rw [← h]

theorem mapArgs_eq (sheets : List (Str × DataSheet V)) (defs : List ArgDef) (args : List Str) (ctx : Ctx V) :
    mapArgs sheets defs args ctx = mapArgsLoop sheets (zipPad defs args) ctx := by
  unfold mapArgs; rw [args_positional]

/-- **extras.**  Arguments beyond the declared ones never change the result … -/
theorem args_extras_ignored (sheets : List (Str × DataSheet V)) (defs : List ArgDef)
    (args extra : List Str) (ctx : Ctx V) (h : defs.length ≤ args.length) :
    mapArgs sheets defs (args ++ extra) ctx = mapArgs sheets defs args ctx := by
  rw [mapArgs_eq, mapArgs_eq]
  congr 1
  induction defs generalizing args with
  | nil => simp [zipPad]
  | cons d t ih =>
    cases args with
    | nil => simp at h
    | cons a as => simp [zipPad, ih as (by simpa using h)]

/-- … and are reported ("Too many arguments") exactly when one of them is not blank -/
theorem args_extras_warn (defs : List ArgDef) (args : List Str) :
    tooManyWarn defs args = true ↔ ∃ a ∈ args.drop defs.length, a ≠ [] := by
  unfold tooManyWarn
  simp only [Bool.and_eq_true, decide_eq_true_eq, List.any_eq_true]
  constructor
  · rintro ⟨_, a, ha, hne⟩; exact ⟨a, ha, hne⟩
  · rintro ⟨a, ha, hne⟩
    refine ⟨?_, a, ha, hne⟩
    by_cases hl : args.length > defs.length
    · exact hl
    · rw [List.drop_eq_nil_of_le (by omega)] at ha; simp at ha

/-- **padding.**  A blank trailing argument is the same as no argument -/
theorem args_trailing_blank (sheets : List (Str × DataSheet V)) (defs : List ArgDef)
    (args : List Str) (ctx : Ctx V) :
    mapArgs sheets defs (args ++ [[]]) ctx = mapArgs sheets defs args ctx := by
  rw [mapArgs_eq, mapArgs_eq]
  congr 1
  induction defs generalizing args with
  | nil => simp [zipPad]
  | cons d t ih =>
    cases args with
    | nil =>
      simp only [List.nil_append, zipPad]
    | cons a as => simp [zipPad, ih as]

/-- the value a declared argument is bound to -/
def boundVal (sheets : List (Str × DataSheet V)) (p : ArgDef × Str) : CVal V :=
  if p.1.type = sheetTy then .sheet ((dictGet sheets (argValue p.1 p.2)).getD [])
  else .text (argValue p.1 p.2)

/-- one pairing is acceptable in context `ctx` -/
def ArgOk (sheets : List (Str × DataSheet V)) (ctx : Ctx V) (p : ArgDef × Str) : Prop :=
  dictGet ctx p.1.name = none ∧ argValue p.1 p.2 ≠ [] ∧
  (p.1.type = sheetTy → (dictGet sheets (argValue p.1 p.2)).isSome)

theorem bindArg_ok_iff (sheets : List (Str × DataSheet V)) (ctx : Ctx V) (d : ArgDef) (a : Str) (c : Ctx V) :
    bindArg sheets ctx d a = .ok c ↔
      ArgOk sheets ctx (d, a) ∧ c = ctx ++ [(d.name, boundVal sheets (d, a))] := by
  unfold bindArg ArgOk boundVal
  cases hg : dictGet ctx d.name with
  | some x => simp
  | none =>
    simp only [Option.isSome_none, Bool.false_eq_true, if_false, true_and]
    by_cases hv : argValue d a = []
    · simp [hv]
    · simp only [hv, if_false, ne_eq, not_false_eq_true, true_and]
      by_cases ht : d.type = sheetTy
      · simp only [ht, if_true, true_implies]
        cases hs : dictGet sheets (argValue d a) with
        | none => simp
        | some ds =>
          simp only [Option.isSome_some, true_and, Option.getD_some, Except.ok.injEq]
          rw [dictSet_new ctx d.name _ hg]
          exact eq_comm
      · simp only [ht, if_false, false_implies, true_and, Except.ok.injEq]
        rw [dictSet_new ctx d.name _ hg]
        exact eq_comm

/-- **binding.**  When `map_template_arguments_to_context` succeeds, the context is the data
row's context, unchanged, followed by one binding per declared argument, in declaration order:
the given argument if it is not blank, else the declared default; for type `sheet` the rows of
the data sheet of that name.  Every declared name was new (neither a data column nor an earlier
argument), every value non-blank, every named sheet registered. -/
theorem args_ok_spec (sheets : List (Str × DataSheet V)) :
    ∀ (ps : List (ArgDef × Str)) (ctx c : Ctx V), mapArgsLoop sheets ps ctx = .ok c →
      c = ctx ++ ps.map (fun p => (p.1.name, boundVal sheets p)) ∧
      (∀ p ∈ ps, dictGet ctx p.1.name = none ∧ argValue p.1 p.2 ≠ [] ∧
        (p.1.type = sheetTy → (dictGet sheets (argValue p.1 p.2)).isSome)) ∧
      (ps.map (fun p => p.1.name)).Nodup := by
  intro ps
  induction ps with
  | nil => intro ctx c h; simp [mapArgsLoop] at h; simp [h]
  | cons p t ih =>
    intro ctx c h
    obtain ⟨d, a⟩ := p
    simp only [mapArgsLoop] at h
    cases hb : bindArg sheets ctx d a with
    | error e => simp [hb] at h
    | ok c₁ =>
      simp only [hb] at h
      obtain ⟨hok, hc₁⟩ := (bindArg_ok_iff sheets ctx d a c₁).1 hb
      obtain ⟨hc, hall, hnd⟩ := ih c₁ c h
      subst hc₁
      have hfresh : ∀ q ∈ t, dictGet ctx q.1.name = none ∧ q.1.name ≠ d.name := by
        intro q hq
        have h1 := (hall q hq).1
        rw [dictGet_none_iff] at h1 ⊢
        simp only [keys, List.map_append, List.map_cons, List.map_nil, List.mem_append,
          List.mem_singleton, not_or] at h1
        exact ⟨by simpa [keys] using h1.1, h1.2⟩
      refine ⟨by simp [hc], ?_, ?_⟩
      · intro q hq
        rcases List.mem_cons.1 hq with rfl | hq
        · exact hok
        · exact ⟨(hfresh q hq).1, (hall q hq).2⟩
      · simp only [List.map_cons, List.nodup_cons]
        refine ⟨?_, hnd⟩
        intro hm
        obtain ⟨q, hq, hqn⟩ := List.mem_map.1 hm
        exact (hfresh q hq).2 hqn

/-- … stated for the real entry point: successful `mapArgs` extends the context by the
positional bindings -/
theorem args_spec (sheets : List (Str × DataSheet V)) (defs : List ArgDef) (args : List Str)
    (ctx c : Ctx V) (h : mapArgs sheets defs args ctx = .ok c) :
    c = ctx ++ (zipPad defs args).map (fun p => (p.1.name, boundVal sheets p)) ∧
    (∀ p ∈ zipPad defs args, dictGet ctx p.1.name = none ∧ argValue p.1 p.2 ≠ [] ∧
        (p.1.type = sheetTy → (dictGet sheets (argValue p.1 p.2)).isSome)) ∧
    ((zipPad defs args).map (fun p => p.1.name)).Nodup := by
  rw [mapArgs_eq] at h
  exact args_ok_spec sheets _ ctx c h

theorem mapArgsLoop_append (sheets : List (Str × DataSheet V)) (ps qs : List (ArgDef × Str)) (ctx : Ctx V) :
    mapArgsLoop sheets (ps ++ qs) ctx =
      match mapArgsLoop sheets ps ctx with
      | .error e => .error e
      | .ok c => mapArgsLoop sheets qs c := by
  induction ps generalizing ctx with
  | nil => simp [mapArgsLoop]
  | cons p t ih =>
    obtain ⟨d, a⟩ := p
    simp only [List.cons_append, mapArgsLoop]
    cases hb : bindArg sheets ctx d a with
    | error e => rfl
    | ok c => simp only []; exact ih c

/-- **doubly defined.**  The first declared argument whose name is already in the context — a
data column or an earlier argument — stops the command with `argDoublyDefined`. -/
theorem args_doubly_defined (sheets : List (Str × DataSheet V)) (ps qs : List (ArgDef × Str))
    (d : ArgDef) (a : Str) (ctx c : Ctx V) (hp : mapArgsLoop sheets ps ctx = .ok c)
    (hin : (dictGet c d.name).isSome) :
    mapArgsLoop sheets (ps ++ (d, a) :: qs) ctx = .error (.argDoublyDefined d.name) := by
  rw [mapArgsLoop_append, hp]
  simp [mapArgsLoop, bindArg, hin]

/-- **missing.**  A blank (or absent) argument takes the declared default; if that is blank too
the command stops with `argMissing`. -/
theorem args_missing (sheets : List (Str × DataSheet V)) (ps qs : List (ArgDef × Str))
    (d : ArgDef) (ctx c : Ctx V) (hp : mapArgsLoop sheets ps ctx = .ok c)
    (hnew : dictGet c d.name = none) (hd : d.default = []) :
    mapArgsLoop sheets (ps ++ (d, []) :: qs) ctx = .error (.argMissing d.name) := by
  rw [mapArgsLoop_append, hp]
  simp [mapArgsLoop, bindArg, hnew, argValue, hd]

theorem args_default (d : ArgDef) : argValue d [] = d.default := by simp [argValue]

theorem args_given (d : ArgDef) (a : Str) (h : a ≠ []) : argValue d a = a := by simp [argValue, h]

/-- **sheet.**  A `sheet` argument naming an unregistered data sheet stops the command. -/
theorem args_sheet_unknown (sheets : List (Str × DataSheet V)) (ps qs : List (ArgDef × Str))
    (d : ArgDef) (a : Str) (ctx c : Ctx V) (hp : mapArgsLoop sheets ps ctx = .ok c)
    (hnew : dictGet c d.name = none) (hv : argValue d a ≠ []) (ht : d.type = sheetTy)
    (hs : dictGet sheets (argValue d a) = none) :
    mapArgsLoop sheets (ps ++ (d, a) :: qs) ctx = .error (.sheetNotFound (argValue d a)) := by
  rw [mapArgsLoop_append, hp]
  simp [mapArgsLoop, bindArg, hnew, hv, ht, hs]


/-! ### no leak -/

theorem mapE_cons_ok {γ δ : Type} (f : γ → Except Err δ) (a : γ) (as : List γ) (outs : List δ) :
    mapE f (a :: as) = .ok outs ↔ ∃ b bs, f a = .ok b ∧ mapE f as = .ok bs ∧ outs = b :: bs := by
  simp only [mapE]
  cases h1 : f a with
  | error e => simp
  | ok b =>
    cases h2 : mapE f as with
    | error e => simp
    | ok bs => simp [eq_comm]

theorem mapE_mem {γ δ : Type} (f : γ → Except Err δ) :
    ∀ (l : List γ) (outs : List δ), mapE f l = .ok outs →
      (∀ a ∈ l, ∃ b ∈ outs, f a = .ok b) ∧ (∀ b ∈ outs, ∃ a ∈ l, f a = .ok b) := by
  intro l
  induction l with
  | nil => intro outs h; simp [mapE] at h; subst h; simp
  | cons a t ih =>
    intro outs h
    obtain ⟨b, bs, h1, h2, rfl⟩ := (mapE_cons_ok f a t outs).1 h
    obtain ⟨ih1, ih2⟩ := ih bs h2
    constructor
    · intro x hx
      rcases List.mem_cons.1 hx with rfl | hx
      · exact ⟨b, List.mem_cons_self, h1⟩
      · obtain ⟨y, hy, hf⟩ := ih1 x hx; exact ⟨y, List.mem_cons_of_mem _ hy, hf⟩
    · intro y hy
      rcases List.mem_cons.1 hy with rfl | hy
      · exact ⟨a, List.mem_cons_self, h1⟩
      · obtain ⟨x, hx, hf⟩ := ih2 y hy; exact ⟨x, List.mem_cons_of_mem _ hx, hf⟩

/-- **no leak (histories).**  Whatever flows were produced before (`fl`) and whatever other data
rows are instantiated before or after (`ids`), the flow a bulk row leaves under the name
`base - i` is `inst env r i` — an expression that mentions the index row, the registries and `i`
only: neither the other data rows, nor their arguments, nor anything computed for them. -/
theorem no_leak (env : Env V Out) (r : FlowRow) (hds : r.dataSheet ≠ [])
    (ids : List Str) (hid : ∀ i ∈ ids, i ≠ []) (fl fl' : Flows Out)
    (h : bulkLoop env r ids fl = .ok fl') (i : Str) (hi : i ∈ ids) :
    ∃ o, inst env r i = .ok (flowName (baseName r.sheetName r.newName) i, o) ∧
      dictGet fl' (flowName (baseName r.sheetName r.newName) i) = some o := by
  rw [bulkLoop_eq] at h
  cases hm : mapE (inst env r) ids with
  | error e => simp [hm] at h
  | ok outs =>
    simp [hm] at h; subst h
    obtain ⟨h1, h2⟩ := mapE_mem (inst env r) ids outs hm
    obtain ⟨f, hf, hfi⟩ := h1 i hi
    have hn := inst_name env r hds (hid i hi) hfi
    refine ⟨f.2, ?_, ?_⟩
    · rw [hfi, ← hn]
    · apply dictGet_foldl_addFlow outs _ f.2
      · intro p hp hpk
        obtain ⟨j, hj, hfj⟩ := h2 p hp
        have hnj := inst_name env r hds (hid j hj) hfj
        have : j = i := flowName_inj _ (hnj.symm.trans hpk)
        subst this
        rw [hfi] at hfj; cases hfj; rfl
      · exact Or.inl ⟨f, hf, hn⟩

theorem mapArgsLoop_congr (sheets sheets' : List (Str × DataSheet V)) (ps : List (ArgDef × Str))
    (ctx : Ctx V)
    (h : ∀ p ∈ ps, p.1.type = sheetTy →
      dictGet sheets (argValue p.1 p.2) = dictGet sheets' (argValue p.1 p.2)) :
    mapArgsLoop sheets ps ctx = mapArgsLoop sheets' ps ctx := by
  induction ps generalizing ctx with
  | nil => rfl
  | cons p t ih =>
    obtain ⟨d, a⟩ := p
    have hb : bindArg sheets ctx d a = bindArg sheets' ctx d a := by
      unfold bindArg
      by_cases ht : d.type = sheetTy
      · have := h (d, a) List.mem_cons_self ht
        simp only at this
        simp only [ht, if_true, this]
      · simp only [ht, if_false]
    simp only [mapArgsLoop, hb]
    cases bindArg sheets' ctx d a with
    | error e => rfl
    | ok c => exact ih c (fun p hp => h p (List.mem_cons_of_mem _ hp))

/-- **no leak (data).**  The instance for data row `i` depends on the registered data sheets
only through (a) row `i` of the row's data sheet and (b) the sheets named by its `sheet`
arguments: two registries that agree on those give the same instance — in particular the other
rows of the data sheet are irrelevant. -/
theorem no_leak_frame (env env' : Env V Out) (r : FlowRow) (i : Str)
    (ht : env'.templates = env.templates) (hc : env'.compile = env.compile)
    (hrow : nameAndRow env' (baseName r.sheetName r.newName) r.dataSheet i =
      nameAndRow env (baseName r.sheetName r.newName) r.dataSheet i)
    (hsh : ∀ defs, dictGet env.templates r.sheetName = some defs →
      ∀ p ∈ zipPad defs r.args, p.1.type = sheetTy →
        dictGet env.sheets (argValue p.1 p.2) = dictGet env'.sheets (argValue p.1 p.2)) :
    inst env' r i = inst env r i := by
  unfold inst parseFlow
  rw [hrow, ht, hc]
  cases nameAndRow env (baseName r.sheetName r.newName) r.dataSheet i with
  | error e => rfl
  | ok nc =>
    obtain ⟨name, ctx0⟩ := nc
    simp only []
    cases hd : dictGet env.templates r.sheetName with
    | none => rfl
    | some defs =>
      simp only []
      rw [mapArgs_eq, mapArgs_eq, mapArgsLoop_congr env.sheets env'.sheets _ ctx0 (hsh defs hd)]

/-! ### order of generation -/

theorem mapE_perm {γ δ : Type} (f : γ → Except Err δ) {l l' : List γ} (hp : l.Perm l') :
    ∀ (outs : List δ), mapE f l = .ok outs → ∃ outs', mapE f l' = .ok outs' ∧ outs.Perm outs' := by
  induction hp with
  | nil => intro outs h; exact ⟨outs, h, List.Perm.refl _⟩
  | cons x _ ih =>
    intro outs h
    obtain ⟨b, bs, h1, h2, rfl⟩ := (mapE_cons_ok f x _ outs).1 h
    obtain ⟨bs', h3, h4⟩ := ih bs h2
    exact ⟨b :: bs', (mapE_cons_ok f x _ _).2 ⟨b, bs', h1, h3, rfl⟩, List.Perm.cons b h4⟩
  | swap x y l =>
    intro outs h
    obtain ⟨b, bs, h1, h2, rfl⟩ := (mapE_cons_ok f y _ outs).1 h
    obtain ⟨c, cs, h3, h4, rfl⟩ := (mapE_cons_ok f x _ bs).1 h2
    refine ⟨c :: b :: cs, ?_, List.Perm.swap c b cs⟩
    exact (mapE_cons_ok f x _ _).2 ⟨c, b :: cs, h3, (mapE_cons_ok f y _ _).2 ⟨b, cs, h1, h4, rfl⟩, rfl⟩
  | trans _ _ ih1 ih2 =>
    intro outs h
    obtain ⟨o1, h1, p1⟩ := ih1 outs h
    obtain ⟨o2, h2, p2⟩ := ih2 o1 h1
    exact ⟨o2, h2, p1.trans p2⟩

theorem dictGet_some_iff_mem (l : List (Str × β)) (hn : (keys l).Nodup) (k : Str) (v : β) :
    dictGet l k = some v ↔ (k, v) ∈ l := by
  induction l with
  | nil => simp [dictGet]
  | cons p t ih =>
    obtain ⟨k₀, v₀⟩ := p
    simp only [keys, List.map_cons, List.nodup_cons] at hn
    by_cases h0 : k₀ = k
    · subst h0
      simp only [dictGet, if_true, Option.some.injEq, List.mem_cons, Prod.mk.injEq, true_and]
      constructor
      · intro h; exact Or.inl h.symm
      · rintro (h | h)
        · exact h.symm
        · exact absurd (List.mem_map.2 ⟨(k₀, v), h, rfl⟩) hn.1
    · have h0' : ¬ k = k₀ := fun e => h0 e.symm
      simp only [dictGet, h0, if_false, List.mem_cons, Prod.mk.injEq, h0', false_and, false_or]
      exact ih (by simpa [keys] using hn.2)

theorem dictGet_perm {l l' : List (Str × β)} (hp : l.Perm l') (hn : (keys l).Nodup) (k : Str) :
    dictGet l' k = dictGet l k := by
  have hn' : (keys l').Nodup := (List.Perm.nodup_iff (hp.map Prod.fst)).1 hn
  cases h : dictGet l k with
  | none =>
    rw [dictGet_none_iff] at h ⊢
    intro hm; exact h ((hp.map Prod.fst).mem_iff.2 hm)
  | some v =>
    rw [dictGet_some_iff_mem l hn] at h
    rw [dictGet_some_iff_mem l' hn']
    exact hp.mem_iff.1 h

/-- **order of generation.**  If no flow name is defined twice, generating the instances in any
other order of the index rows gives the same flow under each name (and the same set of names);
in particular an index of single rows may be permuted freely. -/
theorem bulk_order_independent (env : Env V Out) (rs rs' : List FlowRow) (hp : rs.Perm rs')
    (outs : List (Str × Out)) (hi : instances env rs = .ok outs) (hn : (keys outs).Nodup) :
    parseAllFlows env rs = .ok outs ∧
    ∃ fl', parseAllFlows env rs' = .ok fl' ∧ outs.Perm fl' ∧ ∀ k, dictGet fl' k = dictGet outs k := by
  unfold parseAllFlows
  rw [runRows_eq, runRows_eq, hi]
  unfold instances at hi ⊢
  cases hm : mapE (expandRow env) rs with
  | error e => simp [hm] at hi
  | ok outss =>
    simp [hm] at hi; subst hi
    obtain ⟨outss', hm', hperm⟩ := mapE_perm (expandRow env) hp outss hm
    have hpf : outss.flatten.Perm outss'.flatten := hperm.flatten
    have hn' : (keys outss'.flatten).Nodup := (List.Perm.nodup_iff (hpf.map Prod.fst)).1 hn
    simp only [hm']
    rw [foldl_addFlow_fresh _ [] (by simpa [keys] using hn),
        foldl_addFlow_fresh _ [] (by simpa [keys] using hn')]
    refine ⟨by simp, outss'.flatten, by simp, hpf, fun k => dictGet_perm hpf hn k⟩

/-! ### non-vacuity and negative witnesses (kernel-checked on concrete data) -/

section Witness

/-- opaque data values are numbers here; the "compiler" returns the names bound in the context
and the text values, which is enough to tell instances apart -/
def showCtx (c : Ctx Nat) : List (Str × Str) :=
  c.map (fun p => (p.1, match p.2 with
    | .data n => (toString n).toList
    | .text s => s
    | .sheet rows => (String.intercalate "," (rows.map (fun q => String.ofList q.1))).toList))

abbrev WOut := Str × List (Str × Str)

def wEnv (ids : List Str) : Env Nat WOut where
  sheets := [("data".toList, ids.zipIdx.map (fun p => (p.1, [("word".toList, p.2)]))),
             ("other".toList, [("o1".toList, [("label".toList, 7)])])]
  templates := [("tmpl".toList, [{ name := "extra".toList, default := "dflt".toList },
                                { name := "sh".toList, type := sheetTy, default := "other".toList }])]
  compile := fun t n c => (t, showCtx c)

def wBulk : FlowRow := { sheetName := "tmpl".toList, dataSheet := "data".toList, args := ["X".toList] }

def wIds : List Str := ["r1".toList, "r2".toList, "r3".toList]

instance : DecidableEq (Except Err (Flows WOut)) := fun a b =>
  match a, b with
  | .ok x, .ok y => if h : x = y then isTrue (by rw [h]) else isFalse (by intro e; cases e; exact h rfl)
  | .error x, .error y => if h : x = y then isTrue (by rw [h]) else isFalse (by intro e; cases e; exact h rfl)
  | .ok _, .error _ => isFalse (by intro e; cases e)
  | .error _, .ok _ => isFalse (by intro e; cases e)

/-- the hypotheses of `bulk_eq_singles` / `bulk_names` are satisfiable with a successful,
three-instance run whose contexts hold the data field, the positional argument and the default
`sheet` argument -/
example : parseAllFlows (wEnv wIds) [wBulk] = .ok [
    ("tmpl - r1".toList, ("tmpl".toList, [("word".toList, "0".toList), ("extra".toList, "X".toList), ("sh".toList, "o1".toList)])),
    ("tmpl - r2".toList, ("tmpl".toList, [("word".toList, "1".toList), ("extra".toList, "X".toList), ("sh".toList, "o1".toList)])),
    ("tmpl - r3".toList, ("tmpl".toList, [("word".toList, "2".toList), ("extra".toList, "X".toList), ("sh".toList, "o1".toList)]))] := by
  decide

example : parseAllFlows (wEnv wIds) [wBulk] = parseAllFlows (wEnv wIds) (singles wBulk wIds) := by decide

/-- `bulk_names` needs "no blank row ID": a data row with a blank ID is instantiated by the bulk
row as a flow called `tmpl` (not `tmpl - `) with an EMPTY context — the code's
`if data_sheet and data_row_id` is false for it, so the data row is never looked up.
(`bulk_eq_singles` keeps the same hypothesis because "the single row naming a blank ID" is not a
single row at all: it is the bulk row again.) -/
theorem needs_nonblank_ids :
    parseAllFlows (wEnv ["r1".toList, []]) [wBulk] = .ok [
      ("tmpl - r1".toList, ("tmpl".toList, [("word".toList, "0".toList), ("extra".toList, "X".toList), ("sh".toList, "o1".toList)])),
      ("tmpl".toList, ("tmpl".toList, [("extra".toList, "X".toList), ("sh".toList, "o1".toList)]))] ∧
    ¬ (∀ fl, parseAllFlows (wEnv ["r1".toList, []]) [wBulk] = .ok fl →
        keys fl = ["r1".toList, []].map (flowName "tmpl".toList)) := by
  refine ⟨by decide, ?_⟩
  intro h
  have := h _ (by decide : parseAllFlows (wEnv ["r1".toList, []]) [wBulk] = .ok [
      ("tmpl - r1".toList, ("tmpl".toList, [("word".toList, "0".toList), ("extra".toList, "X".toList), ("sh".toList, "o1".toList)])),
      ("tmpl".toList, ("tmpl".toList, [("extra".toList, "X".toList), ("sh".toList, "o1".toList)]))])
  revert this
  decide

/-- `bulk_order_independent` needs "no name defined twice": two single rows for the same data
row with different arguments — the later one wins, so the order matters. -/
theorem needs_distinct_names :
    let a : FlowRow := { wBulk with dataRowId := "r1".toList, args := ["A".toList] }
    let b : FlowRow := { wBulk with dataRowId := "r1".toList, args := ["B".toList] }
    parseAllFlows (wEnv wIds) [a, b] ≠ parseAllFlows (wEnv wIds) [b, a] := by
  decide

/-- the error clauses of `args_spec` fire on concrete inputs: a declared argument named like a
data column, a required argument left blank, an unregistered sheet; extras are ignored -/
example : mapArgs (V := Nat) [] [{ name := "word".toList }] ["x".toList] [("word".toList, .data 1)]
    = .error (.argDoublyDefined "word".toList) := by rfl
example : mapArgs (V := Nat) [] [{ name := "a".toList }] [[], "x".toList] [] = .error (.argMissing "a".toList) := by rfl
example : mapArgs (V := Nat) [] [{ name := "s".toList, type := sheetTy }] ["nope".toList] []
    = .error (.sheetNotFound "nope".toList) := by rfl
example : tooManyWarn [{ name := "a".toList }] ["x".toList, [], []] = false ∧
    tooManyWarn [{ name := "a".toList }] ["x".toList, [], "y".toList] = true := by decide

end Witness

end Rpft.Props.C12
