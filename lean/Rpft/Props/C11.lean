/-
C11 — Data-sheet concat, filter and sort do exactly that, and never touch their source.

Property theorems only (helpers: `Rpft/Lemmas/Dict.lean`, `Rpft/Lemmas/DataOps.lean`).
All statements are for sheets of any length, any IDs / payloads / key functions, and chains
of operations of any length.  A `Sheet` is Python's `OrderedDict` ID → row; `WF s` (IDs
pairwise distinct) is the dict invariant, shown to hold for everything the model ever builds
(`result_nodup`, `wf_runOps`).
-/
import Rpft.Lemmas.DataOps
import Rpft.Gen.Tables
import Rpft.Canon
set_option linter.unusedSimpArgs false
set_option linter.unusedVariables false
namespace Rpft.Props.C11
open Rpft Rpft.DataOps

/-- T1: the operation names / order word / `Operation` fields of the model are those of the source.
Operation names and single-source operations are sets (distinct constants of an equality dispatch /
a membership test): compared up to order.  The field order of `Operation` is exact (an operation
written in one cell is read positionally). -/
theorem tables_agree :
    Canon.sameSet Gen.dataOpTypeNames opTypeNames ∧
    Canon.sameSet Gen.dataOpSingleSource singleSourceTypes ∧
    Gen.dataOpOrderWords = [descendingWord] ∧
    Gen.dataOpFields = ["type".toList, "expression".toList, "order".toList] := by decide

/-- the dict invariant: every row ID appears once -/
abbrev WF (s : Sheet) : Prop := (Dict.keys s).Nodup

/-- all registered names distinct, all registered sheets are dicts -/
def WFSt (st : St) : Prop := (Dict.keys st.data).Nodup ∧ ∀ n s, st.data.get n = some s → WF s

/-! ### concat -/

/-- **concat**: the IDs of the result are the IDs of the sources' rows, in source order, each at
the position of its FIRST occurrence; the content of an ID is that of its LAST occurrence;
every ID appears once. -/
theorem concat_spec (ss : List Sheet) :
    Dict.keys (concatSheets ss) = firstOcc (ss.flatten.map (·.1)) ∧
    (∀ i, Dict.get (concatSheets ss) i = lastVal ss.flatten i) ∧
    WF (concatSheets ss) := by
  rw [concatSheets_eq]
  exact ⟨Dict.keys_ofList _, Dict.get_ofList _, Dict.nodup_ofList _⟩

/-- sources with pairwise distinct IDs are simply appended -/
theorem concat_disjoint (ss : List Sheet) (h : (ss.flatten.map (·.1)).Nodup) :
    concatSheets ss = ss.flatten := by
  rw [concatSheets_eq, Dict.ofList_of_nodup h]

/-- a fresh sheet is parsed the same way (`OrderedDict((row.ID, row) …)`) -/
theorem fresh_spec (rows : List Row) :
    Dict.keys (Dict.ofList rows) = firstOcc (rows.map (·.1)) ∧
    (∀ i, Dict.get (Dict.ofList rows) i = lastVal rows i) ∧ WF (Dict.ofList rows) :=
  ⟨Dict.keys_ofList _, Dict.get_ofList _, Dict.nodup_ofList _⟩

example : concatSheets [[("a".toList, 0), ("b".toList, 1)], [("c".toList, 2), ("a".toList, 3)]]
    = [("a".toList, 3), ("b".toList, 1), ("c".toList, 2)] := by decide

/-! ### filter -/

/-- **filter**: exactly the rows whose expression value `is True`, in original order. -/
theorem filter_spec (p : Payload → FKey) (s : Sheet) (hs : WF s) :
    filterSheet p s = s.filter (fun r => p r.2 = .isTrue) := by
  unfold filterSheet
  rw [filter_foldl p s [] hs (by simp [Dict.keys])]
  simp

example : WF [("a".toList, 0), ("b".toList, 1)] := by decide

/-- without the dict invariant the statement is false (a list with a repeated ID is not a dict) -/
theorem filter_needs_wf :
    ¬ (filterSheet (fun _ => .isTrue) [("a".toList, 0), ("a".toList, 1)]
        = [("a".toList, 0), ("a".toList, 1)].filter (fun r => (fun _ => FKey.isTrue) r.2 = .isTrue)) := by
  decide

/-- a truthy value that is not the object `True` keeps nothing -/
theorem filter_other_drops (s : Sheet) (hs : WF s) : filterSheet (fun _ => .other) s = [] := by
  rw [filter_spec _ s hs]; simp

theorem filter_sublist (p : Payload → FKey) (s : Sheet) (hs : WF s) :
    List.Sublist (filterSheet p s) s := by
  rw [filter_spec p s hs]; exact List.filter_sublist

/-! ### sort -/

/-- **sort** (ascending): a permutation of the rows, ordered by key, and stable: the rows having
any given key value appear in their input order. -/
theorem sort_spec (k : Payload → Key) (s : Sheet) (hs : WF s) :
    (sortSheet k false s).Perm s ∧
    (sortSheet k false s).Pairwise (fun a b => (k a.2).le (k b.2) = true) ∧
    (∀ v, (sortSheet k false s).filter (fun r => k r.2 = v) = s.filter (fun r => k r.2 = v)) := by
  rw [sortSheet_eq k false s hs]
  refine ⟨List.mergeSort_perm _ _, ?_, ?_⟩
  · have := List.pairwise_mergeSort (le := sortLe k false) (sortLe_trans k false)
      (sortLe_total k false) s
    simpa [sortLe] using this
  · intro v
    apply mergeSort_filter_eq _ (sortLe_trans k false) (sortLe_total k false)
    intro a b ha hb
    simp only [decide_eq_true_eq] at ha hb
    simp [sortLe, ha, hb, Key.le_refl]

/-- **sort descending**: a permutation, ordered by key from large to small, and ties STILL in
input order (`sorted(reverse=True)` does not reverse equal elements). -/
theorem sort_desc_spec (k : Payload → Key) (s : Sheet) (hs : WF s) :
    (sortSheet k true s).Perm s ∧
    (sortSheet k true s).Pairwise (fun a b => (k b.2).le (k a.2) = true) ∧
    (∀ v, (sortSheet k true s).filter (fun r => k r.2 = v) = s.filter (fun r => k r.2 = v)) := by
  rw [sortSheet_eq k true s hs]
  refine ⟨List.mergeSort_perm _ _, ?_, ?_⟩
  · have := List.pairwise_mergeSort (le := sortLe k true) (sortLe_trans k true)
      (sortLe_total k true) s
    simpa [sortLe] using this
  · intro v
    apply mergeSort_filter_eq _ (sortLe_trans k true) (sortLe_total k true)
    intro a b ha hb
    simp only [decide_eq_true_eq] at ha hb
    simp [sortLe, ha, hb, Key.le_refl]

/-- a sheet that is already in order is returned unchanged (both directions) -/
theorem sort_sorted_id (k : Payload → Key) (desc : Bool) (s : Sheet) (hs : WF s)
    (h : s.Pairwise (fun a b => sortLe k desc a b = true)) : sortSheet k desc s = s := by
  rw [sortSheet_eq k desc s hs, List.mergeSort_of_pairwise h]

/-- descending is NOT "ascending, then reversed": on a tie the two differ -/
theorem desc_is_not_reverse :
    sortSheet (fun _ => .int 0) true [("a".toList, 0), ("b".toList, 1)]
      ≠ (sortSheet (fun _ => .int 0) false [("a".toList, 0), ("b".toList, 1)]).reverse := by
  rw [sort_sorted_id _ _ _ (by decide) (by decide), sort_sorted_id _ _ _ (by decide) (by decide)]
  decide

/-! ### every ID once -/

/-- whatever a `data_sheet` row computes is a dict: every row ID appears once -/
theorem result_nodup (env : Env) (st : St) (op : Op) (c : Nat) (s : Sheet)
    (h : opResult env st op = .ok (c, s)) : WF s := by
  have hconcat : ∀ s, dataSheetsConcat env st op.sources = .ok s → WF s := by
    intro s hs
    unfold dataSheetsConcat at hs
    cases hm : List.mapM (getDataSheet env st) op.sources with
    | error e => simp [hm, bind, Except.bind] at hs
    | ok ss =>
      simp only [hm, bind, Except.bind, pure, Except.pure, Except.ok.injEq] at hs
      subst hs
      exact (concat_spec ss).2.2
  unfold opResult at h
  cases hk : op.kind with
  | none =>
    simp only [hk] at h
    cases hc : dataSheetsConcat env st op.sources with
    | error e => simp [hc, bind, Except.bind] at h
    | ok s' =>
      simp only [hc, bind, Except.bind, pure, Except.pure, Except.ok.injEq, Prod.mk.injEq] at h
      exact h.2 ▸ hconcat s' hc
  | concat =>
    simp only [hk] at h
    cases hc : dataSheetsConcat env st op.sources with
    | error e => simp [hc, bind, Except.bind] at h
    | ok s' =>
      simp only [hc, bind, Except.bind, pure, Except.pure, Except.ok.injEq, Prod.mk.injEq] at h
      exact h.2 ▸ hconcat s' hc
  | filter p =>
    simp only [hk] at h
    cases hf : firstSource op with
    | error e => simp [hf, bind, Except.bind] at h
    | ok n =>
      cases hg : getDataSheet env st n with
      | error e => simp [hf, hg, bind, Except.bind] at h
      | ok s' =>
        simp only [hf, hg, bind, Except.bind, pure, Except.pure, Except.ok.injEq,
          Prod.mk.injEq] at h
        rw [← h.2]
        exact nodup_filter_foldl _ _ _ (by simp [Dict.keys])
  | sort k desc =>
    simp only [hk] at h
    cases hf : firstSource op with
    | error e => simp [hf, bind, Except.bind] at h
    | ok n =>
      cases hg : getDataSheet env st n with
      | error e => simp [hf, hg, bind, Except.bind] at h
      | ok s' =>
        simp only [hf, hg, bind, Except.bind] at h
        split at h
        · simp only [pure, Except.pure, Except.ok.injEq, Prod.mk.injEq] at h
          rw [← h.2]
          exact Dict.nodup_ofList _
        · cases h
  | unknown => simp [hk, throw, throwThe, MonadExceptOf.throw] at h

/-- **nodup_preserved**: each of the three operations maps a dict to a dict -/
theorem nodup_preserved (p : Payload → FKey) (k : Payload → Key) (desc : Bool) (ss : List Sheet)
    (s : Sheet) :
    WF (concatSheets ss) ∧ WF (filterSheet p s) ∧ WF (sortSheet k desc s) :=
  ⟨(concat_spec ss).2.2, nodup_filter_foldl _ _ _ (by simp [Dict.keys]), Dict.nodup_ofList _⟩

/-! ### registration, sources untouched -/

/-- unfolding of one step: the result is registered under `new_name or sheet_name[0]` -/
theorem process_ok {env : Env} {st st' : St} {op : Op}
    (h : processDataSheet env st op = .ok st') :
    ∃ c s t, opResult env st op = .ok (c, s) ∧ targetName op = .ok t ∧
      st'.data = st.data.set t s := by
  unfold processDataSheet at h
  cases hr : opResult env st op with
  | error e => simp [hr, bind, Except.bind] at h
  | ok cs =>
    obtain ⟨c, s⟩ := cs
    cases ht : targetName op with
    | error e => simp [hr, ht, bind, Except.bind] at h
    | ok t =>
      simp only [hr, ht, bind, Except.bind, pure, Except.pure, Except.ok.injEq] at h
      exact ⟨c, s, t, rfl, rfl, by rw [← h]⟩

/-- **registered under the new name**: after the step, the new name holds exactly the computed
sheet, and the set of registered names grew by at most that name (earlier names keep their
position). -/
theorem registered_spec {env : Env} {st st' : St} {op : Op}
    (h : processDataSheet env st op = .ok st') :
    ∃ c s t, opResult env st op = .ok (c, s) ∧ targetName op = .ok t ∧
      st'.data.get t = some s ∧
      Dict.keys st'.data = (if t ∈ Dict.keys st.data then Dict.keys st.data
                            else Dict.keys st.data ++ [t]) := by
  obtain ⟨c, s, t, h1, h2, h3⟩ := process_ok h
  exact ⟨c, s, t, h1, h2, by rw [h3, Dict.get_set_self], by rw [h3, Dict.keys_set]; split <;> simp [*]⟩

/-- the new name is the given `new_name` whenever there is one -/
theorem target_is_new_name (op : Op) (h : op.newName ≠ []) : targetName op = .ok op.newName := by
  simp [targetName, h, pure, Except.pure]

/-- **sources_untouched** (one step): every other registered name — in particular every source
of the operation — still holds the same rows in the same order. -/
theorem sources_untouched {env : Env} {st st' : St} {op : Op}
    (h : processDataSheet env st op = .ok st') (n : Str) (hn : targetName op ≠ .ok n) :
    st'.data.get n = st.data.get n := by
  obtain ⟨c, s, t, _, h2, h3⟩ := process_ok h
  rw [h3]
  apply Dict.get_set_ne
  intro e
  exact hn (e ▸ h2)

/-- **sources_untouched** (chains): after any chain of operations, a name that no operation of
the chain registers under holds what it held before. -/
theorem chain_untouched {env : Env} (ops : List Op) {st st' : St}
    (h : runOps env st ops = .ok st') (n : Str) (hn : ∀ op ∈ ops, targetName op ≠ .ok n) :
    st'.data.get n = st.data.get n := by
  induction ops generalizing st with
  | nil => simp only [runOps, pure, Except.pure, Except.ok.injEq] at h; rw [h]
  | cons op ops ih =>
    simp only [runOps] at h
    cases hp : processDataSheet env st op with
    | error e => simp [hp, bind, Except.bind] at h
    | ok st1 =>
      simp only [hp, bind, Except.bind] at h
      rw [ih h (fun o ho => hn o (List.mem_cons_of_mem _ ho))]
      exact sources_untouched hp n (hn op (List.mem_cons_self))

/-- **chains**: the sheet registered by step `op` of a chain `pre ++ op :: post`, if no later
step re-registers its name, is still exactly that sheet at the end — whatever the later steps
(which may use it as a source, repeatedly, directly or through derived sheets) do. -/
theorem registered_persists {env : Env} (pre post : List Op) (op : Op) {st0 st1 st3 : St}
    (h1 : runOps env st0 pre = .ok st1)
    (h3 : runOps env st0 (pre ++ op :: post) = .ok st3)
    (t : Str) (ht : targetName op = .ok t) (hpost : ∀ o ∈ post, targetName o ≠ .ok t) :
    ∃ c s, opResult env st1 op = .ok (c, s) ∧ st3.data.get t = some s := by
  rw [runOps_append, h1] at h3
  simp only [Except.bind, runOps] at h3
  cases hp : processDataSheet env st1 op with
  | error e => simp [hp, bind, Except.bind] at h3
  | ok st2 =>
    simp only [hp, bind, Except.bind] at h3
    obtain ⟨c, s, t', hr, ht', hg, _⟩ := registered_spec hp
    have : t' = t := by rw [ht] at ht'; cases ht'; rfl
    subst this
    exact ⟨c, s, hr, by rw [chain_untouched post h3 t' hpost, hg]⟩

/-- the dict invariants hold along every chain -/
theorem wf_process {env : Env} {st st' : St} {op : Op} (hst : WFSt st)
    (h : processDataSheet env st op = .ok st') : WFSt st' := by
  obtain ⟨c, s, t, h1, h2, h3⟩ := process_ok h
  constructor
  · rw [h3]; exact Dict.nodup_set hst.1 _ _
  · intro n s' hs'
    rw [h3, Dict.get_set] at hs'
    split at hs'
    · cases hs'; exact result_nodup env st op c s h1
    · exact hst.2 n s' hs'

theorem wf_runOps {env : Env} (ops : List Op) {st st' : St} (hst : WFSt st)
    (h : runOps env st ops = .ok st') : WFSt st' := by
  induction ops generalizing st with
  | nil => simp only [runOps, pure, Except.pure, Except.ok.injEq] at h; exact h ▸ hst
  | cons op ops ih =>
    simp only [runOps] at h
    cases hp : processDataSheet env st op with
    | error e => simp [hp, bind, Except.bind] at h
    | ok st1 =>
      simp only [hp, bind, Except.bind] at h
      exact ih (wf_process hst hp) h

theorem wf_init : WFSt {} := by
  constructor
  · simp [Dict.keys]
  · intro n s h; simp [Dict.get] at h

/-- **every row ID appears once** in every sheet registered after any chain from the start -/
theorem ids_once {env : Env} (ops : List Op) {st : St} (h : runOps env {} ops = .ok st)
    (n : Str) (s : Sheet) (hs : st.data.get n = some s) : WF s :=
  (wf_runOps ops wf_init h).2 n s hs

/-! ### source lookup -/

/-- `_get_data_sheet`: a registered name is reused as is … -/
theorem source_registered (env : Env) (st : St) (n : Str) (s : Sheet)
    (h : st.data.get n = some s) : getDataSheet env st n = .ok s := by
  simp [getDataSheet, h, pure, Except.pure]

/-- … an unregistered one is parsed fresh from the reader (and not registered: `getDataSheet`
returns no state). -/
theorem source_fresh (env : Env) (st : St) (n : Str) (rows : List Row)
    (h : st.data.get n = none) (hr : env n = some rows) :
    getDataSheet env st n = .ok (Dict.ofList rows) := by
  simp [getDataSheet, getNew, h, hr, pure, Except.pure]

/-! ### save_data_sheets -/

/-- **to_dict**: the saved document lists exactly the registered names, in registration order,
and per name exactly its rows in sheet order. -/
theorem to_dict_spec (st : St) :
    (dataSheetsToDict st).map (·.1) = Dict.keys st.data ∧
    (dataSheetsToDict st).map (·.2) = st.data.map (fun ns => ns.2.map (·.2)) ∧
    (∀ n, Dict.get (dataSheetsToDict st) n = (st.data.get n).map (fun s => s.map (·.2))) := by
  refine ⟨by simp [dataSheetsToDict, Dict.keys], by simp [dataSheetsToDict], ?_⟩
  intro n
  unfold dataSheetsToDict
  induction st.data with
  | nil => rfl
  | cons kv d ih =>
    obtain ⟨k, v⟩ := kv
    by_cases h : k = n <;> simp [Dict.get, h, ih]

end Rpft.Props.C11
