/-
C03, the inserted block — `insert_as_block` is sugar for a block.

On the compiler model (`Rpft/Compile.lean`, tied to the real FlowParser by the exact comparison
of C01): an `insert_as_block` row `r` whose template instantiates to the events `body` compiles
to the same flow as the sheet in which the row is replaced by its TWIN

    begin_block (same edges)  ·  the template's rows, `start` edges made blank  ·  end_block (same row_id)

— the same flow up to an injective renaming of the invented identifiers, hence the same
behaviour for every contact input sequence at every observation level (`insert_twin_traces`).
Proved for ALL sheets around the row (`pre`, `post`) and all templates of the covered class
(`InsertCovered`): universally quantified, no bound.

The proof (Lemmas/CompileInsert*.lean) is a simulation between the two runs of the compiler
machine: the nested parser of the insert row against the outer parser inside the twin's block.
The two runs create the nodes and groups in different orders (the twin connects the edges into
the block when the template's first row is read, the insert row after the template is parsed), so
identifiers, node indices and group indices are related by explicit injective maps that change
from phase to phase.

What the statement does NOT cover is kept visible in `insert_twin_full`.
-/
import Rpft.Lemmas.CompileInsertMainG
import Rpft.Lemmas.FlowRename
import Rpft.FlowSys
set_option linter.unusedSimpArgs false
set_option linter.unusedVariables false
namespace Rpft.Props.C03
open Rpft Rpft.Flow Function

/-! ### stage 1: behaviour does not depend on the identifiers chosen -/

/-- **Traces are invariant under injective renaming of identifiers**: a flow and the flow with all
its node / exit / category / case / action identifiers renamed by an injective function make the
same observations, for every observation level, every environment (sequence of contact inputs,
random draws, sub-flow outcomes) and every length. -/
theorem insert_trace_rename {ρ : Id → Id} (h : Injective ρ) (lvl : ObsLevel) (f : Flow.Flow)
    (env : Nat → Nat) (n : Nat) : trace lvl (f.rename ρ) env n = trace lvl f env n :=
  Flow.trace_rename h lvl f env n

/-! ### the twin of an insert row -/

/-- `start`-attached rows of the template take the block's incoming edges: their `from` is blank -/
abbrev insertRetarget (body : List Compile.Event) : List Compile.Event := Compile.retarget body

/-- the block that replaces the insert row -/
abbrev insertTwin (r : Compile.Row) (body : List Compile.Event) : List Compile.Event := Compile.twin r body

theorem insertTwin_eq (r : Compile.Row) (body : List Compile.Event) :
    insertTwin r body = [.openGroup r.edges false] ++ insertRetarget body ++ [.closeGroup r.rowId] := rfl

theorem insertRetarget_row (r : Compile.Row) (es : List Compile.Event) :
    insertRetarget (.row r :: es) =
      .row { r with edges := r.edges.map fun e => if e.from_ = "start".toList then { e with from_ := [] } else e }
        :: insertRetarget es := rfl

/-! ### the covered class -/

/-- The sheets and templates the theorem covers.
* `entry`: the template starts with an ordinary row that creates a node (any action or router row,
  no `_nodeId` / node name), attached to `start` unconditionally; no later row read by the
  template's own parser is attached to `start` (`needs_single_start`), and none of them gives or
  uses a `_nodeId` / node name.  Everything else is free: routers, conditional edges, `go_to`,
  `no_op`, hard and loose exits, blocks to any depth, further `insert_as_block` rows (with
  arbitrary templates of their own).
* `ids`: no `_nodeId` given in the sheet has the shape of an identifier the model invents (`~n`).
* `top`: the insert row is not inside a block (as many `end_` as `begin_` rows before it).
* `apart`: the rows after the block name neither the block nor a row id of the template (the twin
  is the template "with ids renamed apart"), and no edge with a blank `from` is read while the
  block is the most recent node group (`needs_post_avoids_block`: F-C03-a). -/
structure InsertCovered (pre : List Compile.Event) (r : Compile.Row) (body post : List Compile.Event) : Prop where
  entry : ∃ r₁ rest, body = .row r₁ :: rest ∧ Compile.EntryRow r₁ ∧ Compile.noStartL rest = true ∧
    Compile.noNamesL rest = true
  ids : Compile.okIdsL (pre ++ [.insert r body] ++ post) = true
  top : Compile.opens pre = Compile.closes pre
  apart : Compile.avoids (Compile.hidden r body) true 0 post = true

/-! ### the theorem -/

/-- **An insert row and its twin compile to the same nodes up to an injective renaming of
identifiers** — for all sheets `pre`, `post` around the row and all covered templates. -/
theorem insert_twin_nodes_partial (noArgs testTypes : List Str) (pre post body : List Compile.Event)
    (r : Compile.Row) (hc : InsertCovered pre r body post) {o₁ o₂ : Compile.Out}
    (h₁ : Compile.compile noArgs testTypes (pre ++ [.insert r body] ++ post) = .ok o₁)
    (h₂ : Compile.compile noArgs testTypes (pre ++ insertTwin r body ++ post) = .ok o₂) :
    ∃ ρ : Compile.Uid → Compile.Uid, Injective ρ ∧ o₂.nodes = o₁.nodes.map (Compile.rnNode ρ) := by
  obtain ⟨r₁, rest, rfl, he, hns, hnn⟩ := hc.entry
  exact Compile.insert_twin_nodes' noArgs testTypes pre post rest r r₁ he hns hnn hc.ids hc.top hc.apart h₁ h₂

/-- **…hence to the same flow up to that renaming** -/
theorem insert_twin_renaming_partial (noArgs testTypes : List Str) (pre post body : List Compile.Event)
    (r : Compile.Row) (hc : InsertCovered pre r body post) {o₁ o₂ : Compile.Out}
    (h₁ : Compile.compile noArgs testTypes (pre ++ [.insert r body] ++ post) = .ok o₁)
    (h₂ : Compile.compile noArgs testTypes (pre ++ insertTwin r body ++ post) = .ok o₂) :
    ∃ ρ : Id → Id, Injective ρ ∧ Compile.renderOut o₂ = (Compile.renderOut o₁).rename ρ := by
  obtain ⟨ρ, hρ, e⟩ := insert_twin_nodes_partial noArgs testTypes pre post body r hc h₁ h₂
  refine ⟨ρ, hρ, ?_⟩
  have e2 : o₂ = { nodes := o₁.nodes.map (Compile.rnNode ρ) } := by cases o₂; simp only [] at e; rw [e]
  rw [e2]
  exact Compile.renderOut_rn o₁.nodes

/-- **…hence to behaviourally equal flows**: the same observations for every environment and every
length, at every observation level (in particular the full level of C03: operands, tests,
arguments, order, category names, timeouts, result names, action content). -/
theorem insert_twin_traces_partial (noArgs testTypes : List Str) (pre post body : List Compile.Event)
    (r : Compile.Row) (hc : InsertCovered pre r body post) {o₁ o₂ : Compile.Out}
    (h₁ : Compile.compile noArgs testTypes (pre ++ [.insert r body] ++ post) = .ok o₁)
    (h₂ : Compile.compile noArgs testTypes (pre ++ insertTwin r body ++ post) = .ok o₂) :
    ∀ (lvl : ObsLevel) (env : Nat → Nat) (n : Nat),
      trace lvl (Compile.renderOut o₁) env n = trace lvl (Compile.renderOut o₂) env n := by
  obtain ⟨ρ, hρ, e⟩ := insert_twin_renaming_partial noArgs testTypes pre post body r hc h₁ h₂
  intro lvl env n
  rw [e, Flow.trace_rename hρ]

/-! ### example sheets -/

def insBlank : Compile.Cond := { value := [], var := [], type := [], name := [] }

def insEdge (f : String) (v : String := "") : Compile.Edge :=
  { from_ := f.toList, cond := { insBlank with value := v.toList } }

def insRow (id type : String) (edges : List Compile.Edge) (action : Option String := none)
    (nodeName : String := "") : Compile.Row :=
  { rowId := id.toList, type := type.toList, edges := edges, action := action.map String.toList,
    actionOk := true, ownAction := none, nodeUuid := [], nodeName := nodeName.toList, saveName := [],
    noResponse := [], expression := [], flowName := [], dests := [], resultKey := none, nodeOk := true }

def insTests : List Str := ["has_any_word".toList]

/-- a message and a wait; the block is entered on "yes" -/
def exPre : List Compile.Event :=
  [ .row (insRow "m1" "send_message" [insEdge "start"] (some "hello")),
    .row (insRow "m2" "wait_for_response" [insEdge "m1"]) ]

def exIns : Compile.Row := insRow "I" "insert_as_block" [insEdge "m2" "yes"]

/-- the instantiated template: a message, a wait with three branches — one into a block of the
template, one to a hard exit, the default one and the block's exit into a further inserted
template -/
def exBody : List Compile.Event :=
  [ .row (insRow "t1" "send_message" [insEdge "start"] (some "a")),
    .row (insRow "t2" "wait_for_response" [insEdge "t1"]),
    .openGroup [insEdge "t2" "go"] false,
    .row (insRow "t3" "send_message" [insEdge ""] (some "in block")),
    .closeGroup "tb".toList,
    .row (insRow "t4" "hard_exit" [insEdge "t2" "stop"]),
    .insert (insRow "ti" "insert_as_block" [insEdge "tb"])
      [ .row (insRow "u1" "send_message" [insEdge "start"] (some "nested")) ] ]

/-- the sheet goes on from the wait before the block -/
def exPost : List Compile.Event :=
  [ .row (insRow "p1" "send_message" [insEdge "m2" "no"] (some "bye")) ]

theorem exCovered : InsertCovered exPre exIns exBody exPost :=
  ⟨⟨_, _, rfl, by decide, by decide, by decide⟩, by decide, by decide, by decide⟩

/-- both sheets compile (and give seven nodes): `some n` = both compile to `n` nodes -/
def bothCompile (a b : List Compile.Event) : Option Nat :=
  match Compile.compile [] insTests a, Compile.compile [] insTests b with
  | .ok o₁, .ok o₂ => if o₁.nodes.length = o₂.nodes.length then some o₁.nodes.length else none
  | _, _ => none

theorem bothCompile_some {a b : List Compile.Event} {n : Nat} (h : bothCompile a b = some n) :
    ∃ o₁ o₂, Compile.compile [] insTests a = .ok o₁ ∧ Compile.compile [] insTests b = .ok o₂ := by
  unfold bothCompile at h
  split at h
  · rename_i o₁ o₂ h1 h2; exact ⟨o₁, o₂, h1, h2⟩
  · cases h

/-- non-vacuity: the example is covered, the sheet with the insert row and the sheet with its twin
both compile, and they behave alike -/
example : ∃ o₁ o₂, Compile.compile [] insTests (exPre ++ [.insert exIns exBody] ++ exPost) = .ok o₁ ∧
    Compile.compile [] insTests (exPre ++ insertTwin exIns exBody ++ exPost) = .ok o₂ ∧
    ∀ lvl env n, trace lvl (Compile.renderOut o₁) env n = trace lvl (Compile.renderOut o₂) env n := by
  obtain ⟨o₁, o₂, h₁, h₂⟩ := bothCompile_some
    (show bothCompile (exPre ++ [.insert exIns exBody] ++ exPost) (exPre ++ insertTwin exIns exBody ++ exPost) = some 7 by
      decide +kernel)
  exact ⟨o₁, o₂, h₁, h₂, insert_twin_traces_partial [] insTests _ _ _ _ exCovered h₁ h₂⟩

/-! ### the hypotheses are needed -/

/-- `some true` / `some false`: both sheets compile and make the same / different observations along
`env` for `n` steps at the full level -/
def sameTrace (a b : List Compile.Event) (env : Nat → Nat) (n : Nat) : Option Bool :=
  match Compile.compile [] insTests a, Compile.compile [] insTests b with
  | .ok o₁, .ok o₂ =>
    some (decide (trace ⟨true, true⟩ (Compile.renderOut o₁) env n = trace ⟨true, true⟩ (Compile.renderOut o₂) env n))
  | _, _ => none

theorem sameTrace_false {a b : List Compile.Event} {env : Nat → Nat} {n : Nat} (h : sameTrace a b env n = some false) :
    ∃ o₁ o₂, Compile.compile [] insTests a = .ok o₁ ∧ Compile.compile [] insTests b = .ok o₂ ∧
      trace ⟨true, true⟩ (Compile.renderOut o₁) env n ≠ trace ⟨true, true⟩ (Compile.renderOut o₂) env n := by
  unfold sameTrace at h
  split at h
  · rename_i o₁ o₂ h1 h2
    refine ⟨o₁, o₂, h1, h2, ?_⟩
    injection h with h
    simpa using h
  · cases h

/-- the block is entered from a wait on "yes" (the wait's default exit stays unconnected) -/
def wPre : List Compile.Event := [ .row (insRow "m1" "wait_for_response" [insEdge "start"]) ]
def wIns : Compile.Row := insRow "I" "insert_as_block" [insEdge "m1" "yes"]
def wBody : List Compile.Event := [ .row (insRow "t1" "send_message" [insEdge "start"] (some "in")) ]
/-- the next row continues from the block: blank `from` / naming the block -/
def wPostBlank : List Compile.Event := [ .row (insRow "p1" "send_message" [insEdge ""] (some "after")) ]
def wPostNamed : List Compile.Event := [ .row (insRow "p1" "send_message" [insEdge "I"] (some "after")) ]

/-- **`apart` is needed — finding F-C03-a seen from the insert row**: when the sheet continues
from the block while a row leading INTO the block still has an unconnected exit, the twin block
also wires that exit (the wait's "Other") to the next row — through the begin row kept as a
`no_op` inside the block — and the insert row does not.  Everything else of `InsertCovered` holds;
both sheets compile; a contact answering anything but "yes" is sent "after" by the twin only.
(Same on the real compiler: replayed through `harness/flows.py compile_index`.) -/
theorem needs_post_avoids_block :
    (∃ r₁ rest, wBody = .row r₁ :: rest ∧ Compile.EntryRow r₁ ∧ Compile.noStartL rest = true ∧
      Compile.noNamesL rest = true) ∧
    Compile.okIdsL (wPre ++ [.insert wIns wBody] ++ wPostBlank) = true ∧ Compile.opens wPre = Compile.closes wPre ∧
    Compile.avoids (Compile.hidden wIns wBody) true 0 wPostBlank = false ∧
    Compile.avoids (Compile.hidden wIns wBody) true 0 wPostNamed = false ∧
    (∃ o₁ o₂, Compile.compile [] insTests (wPre ++ [.insert wIns wBody] ++ wPostBlank) = .ok o₁ ∧
      Compile.compile [] insTests (wPre ++ insertTwin wIns wBody ++ wPostBlank) = .ok o₂ ∧
      trace ⟨true, true⟩ (Compile.renderOut o₁) (fun _ => 1) 3 ≠ trace ⟨true, true⟩ (Compile.renderOut o₂) (fun _ => 1) 3) ∧
    (∃ o₁ o₂, Compile.compile [] insTests (wPre ++ [.insert wIns wBody] ++ wPostNamed) = .ok o₁ ∧
      Compile.compile [] insTests (wPre ++ insertTwin wIns wBody ++ wPostNamed) = .ok o₂ ∧
      trace ⟨true, true⟩ (Compile.renderOut o₁) (fun _ => 1) 3 ≠ trace ⟨true, true⟩ (Compile.renderOut o₂) (fun _ => 1) 3) :=
  ⟨⟨_, _, rfl, by decide, by decide, by decide⟩, by decide, by decide, by decide, by decide,
    sameTrace_false (by decide +kernel), sameTrace_false (by decide +kernel)⟩

/-- a template with two rows attached to `start` -/
def sPre : List Compile.Event := [ .row (insRow "m1" "send_message" [insEdge "start"] (some "hello")) ]
def sIns : Compile.Row := insRow "I" "insert_as_block" [insEdge "m1"]
def sBody : List Compile.Event :=
  [ .row (insRow "t1" "send_message" [insEdge "start"] (some "a")),
    .row (insRow "t2" "send_message" [insEdge "start"] (some "b")) ]

/-- **only the first row of the template may be attached to `start`**: a second `start` row is
left unconnected by the template's own parser, while in the twin its blank `from` connects it
behind the previous row — the twin sends "b", the insert row does not. -/
theorem needs_single_start :
    Compile.noStartL (sBody.drop 1) = false ∧ Compile.okIdsL (sPre ++ [.insert sIns sBody]) = true ∧
    Compile.opens sPre = Compile.closes sPre ∧ Compile.avoids (Compile.hidden sIns sBody) true 0 [] = true ∧
    ∃ o₁ o₂, Compile.compile [] insTests (sPre ++ [.insert sIns sBody] ++ []) = .ok o₁ ∧
      Compile.compile [] insTests (sPre ++ insertTwin sIns sBody ++ []) = .ok o₂ ∧
      trace ⟨true, true⟩ (Compile.renderOut o₁) (fun _ => 0) 4 ≠ trace ⟨true, true⟩ (Compile.renderOut o₂) (fun _ => 0) 4 :=
  ⟨by decide, by decide, by decide, by decide, sameTrace_false (by decide +kernel)⟩

/-- the template has a row with the id of a row of the sheet, and the sheet goes on from that id -/
def hBody : List Compile.Event := [ .row (insRow "m1" "send_message" [insEdge "start"] (some "a")) ]
def hPost : List Compile.Event := [ .row (insRow "p1" "send_message" [insEdge "m1"] (some "z")) ]

/-- **the twin's row ids must be apart from those the rest of the sheet uses**: a row id of the
template is invisible after the insert row (the template has its own parser) but visible after
the twin block — "z" follows the template's row in the twin, the sheet's row in the other. -/
theorem needs_ids_apart :
    Compile.avoids (Compile.hidden sIns hBody) true 0 hPost = false ∧
    ∃ o₁ o₂, Compile.compile [] insTests (sPre ++ [.insert sIns hBody] ++ hPost) = .ok o₁ ∧
      Compile.compile [] insTests (sPre ++ insertTwin sIns hBody ++ hPost) = .ok o₂ ∧
      (Compile.renderOut o₁).nodes.map (·.exits.map (·.dest.isSome)) ≠
        (Compile.renderOut o₂).nodes.map (·.exits.map (·.dest.isSome)) := by
  refine ⟨by decide, ?_⟩
  have h : (match Compile.compile [] insTests (sPre ++ [.insert sIns hBody] ++ hPost),
      Compile.compile [] insTests (sPre ++ insertTwin sIns hBody ++ hPost) with
      | .ok o₁, .ok o₂ => decide ((Compile.renderOut o₁).nodes.map (·.exits.map (·.dest.isSome)) ≠
          (Compile.renderOut o₂).nodes.map (·.exits.map (·.dest.isSome)))
      | _, _ => false) = true := by decide +kernel
  split at h
  · rename_i o₁ o₂ h1 h2
    exact ⟨o₁, o₂, h1, h2, by simpa using h⟩
  · cases h

/-! ### what remains -/

/-- (F-C03-a) once the template's first row is read in the twin, no row leading into the block has
an unconnected exit left — so an edge that leaves the block later cannot pick one up -/
def NoParentLeak (noArgs testTypes : List Str) (pre : List Compile.Event) (r : Compile.Row)
    (body : List Compile.Event) : Prop :=
  ∀ s₀ s, (Compile.steps pre).run (Compile.initSt noArgs testTypes) = .ok ((), s₀) →
    (Compile.steps ([.openGroup r.edges false] ++ (insertRetarget body).take 1)).run s₀ = .ok ((), s) →
    ∀ e ∈ Compile.dropTrivial r.edges, ∀ g s', (Compile.groupOfEdge e).run s₀ = .ok (some g, s') →
      ∀ b s'', (Compile.hasLoose (2 * s.groups.size + 8) g).run s = .ok (b, s'') → b = false

/-- The clause on the model at the strength aimed at (the statement the model-level fuzzing
supports: about 10,000 random sheets, no counterexample): for ALL sheets — the insert row at any
block depth — and all templates that start with a `start` row creating a node and have no other
`start` row: if both sheets compile, they behave alike, provided the rest of the sheet names no
row id of the template and EITHER does not continue from the block (`apart`, proved) OR no row
leading into the block has an unconnected exit (`NoParentLeak`; without it F-C03-a shows,
`needs_post_avoids_block`).

Proved of it: `insert_twin_traces_partial` — the first alternative, for insert rows outside
blocks and templates without `_nodeId`s / node names.  Not proved:
* the sheet continuing from the block (blank `from` / naming the block / `go_to` the block) under
  `NoParentLeak` — the case the harness's twin workbooks exercise on the real compiler;
* insert rows inside blocks or loops; `_nodeId`s / node names in the template;
* a template starting with a block, a `no_op`, a nested insert row or several `start` rows (the
  twin of the clause is wrong for several `start` rows: `needs_single_start`);
* "one sheet compiles ⇒ the other compiles": false as it stands (a template row naming a row of
  the sheet is an error for the insert row only; in the `NoParentLeak` case "Block has no loose
  exit to connect to" can be raised by one side only), so not part of the statement. -/
def insert_twin_full : Prop :=
  ∀ (noArgs testTypes : List Str) (pre post body : List Compile.Event) (r : Compile.Row),
    (∃ r₁ rest, body = .row r₁ :: rest ∧ Compile.EntryRow r₁ ∧ Compile.noStartL rest = true) →
    Compile.okIdsL (pre ++ [.insert r body] ++ post) = true →
    (Compile.avoids (Compile.hidden r body) true 0 post = true ∨
      (Compile.avoids (Compile.defsL body) false 0 post = true ∧ NoParentLeak noArgs testTypes pre r body)) →
    ∀ o₁ o₂, Compile.compile noArgs testTypes (pre ++ [.insert r body] ++ post) = .ok o₁ →
      Compile.compile noArgs testTypes (pre ++ insertTwin r body ++ post) = .ok o₂ →
      ∀ lvl env n, trace lvl (Compile.renderOut o₁) env n = trace lvl (Compile.renderOut o₂) env n

end Rpft.Props.C03
