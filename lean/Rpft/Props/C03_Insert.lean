/-
C03, the inserted block — `insert_as_block` is sugar for a block.

On the compiler model (`Rpft/Compile.lean`, tied to the real FlowParser by the exact comparison
of C01): an `insert_as_block` row `r` whose template instantiates to the events `body` compiles
to the same flow as the sheet in which the row is replaced by its TWIN

    begin_block (same edges)  ·  the template's rows, `start` edges made blank  ·  end_block (same row_id)

— the same flow up to an injective renaming of the invented identifiers, hence the same
behaviour for every contact input sequence at every observation level (`insert_twin_traces`).
Proved for ALL sheets around the row (`pre`, `post`) and all templates of the covered class
(`InsertCovered`): universally quantified, no bound.

The proof (Lemmas/CompileInsert*.lean) is a simulation between the two runs of the compiler
machine: the nested parser of the insert row against the outer parser inside the twin's block.
The two runs create the nodes and groups in different orders (the twin connects the edges into
the block when the template's first row is read, the insert row after the template is parsed), so
identifiers, node indices and group indices are related by explicit injective maps that change
from phase to phase.

Two cases:
* the rest of the sheet does not continue from the block (`InsertCovered`, `insert_twin_traces_partial`);
* the rest of the sheet CONTINUES from the block — a later row with a blank `from` right after the
  block, or naming the block's row id, any number of them; the insert row at any block depth (inside
  blocks and loops: `exInside`) — provided no row leading into the block
  has an unconnected exit left (without this F-C03-a separates the two forms:
  `needs_post_avoids_block`): on the run (`InsertContinues`, `insert_twin_continues_traces_partial`)
  and, on the EVENTS, for an insert row that directly follows a plain action row it is attached to
  (`InsertFollows`, `insert_twin_follows_traces_partial`) — the shape of the harness's twin workbooks,
  repeated insertions of one template included (`exHarness…`).

What the statement does NOT cover is kept visible in `insert_twin_full`.
-/
import Rpft.Lemmas.CompileInsertMainG
import Rpft.Lemmas.CompileInsertTight
import Rpft.Lemmas.FlowRename
import Rpft.FlowSys
set_option linter.unusedSimpArgs false
set_option linter.unusedVariables false
namespace Rpft.Props.C03
open Rpft Rpft.Flow Function

/-! ### stage 1: behaviour does not depend on the identifiers chosen -/

/-- **Traces are invariant under injective renaming of identifiers**: a flow and the flow with all
its node / exit / category / case / action identifiers renamed by an injective function make the
same observations, for every observation level, every environment (sequence of contact inputs,
random draws, sub-flow outcomes) and every length. -/
theorem insert_trace_rename {ρ : Id → Id} (h : Injective ρ) (lvl : ObsLevel) (f : Flow.Flow)
    (env : Nat → Nat) (n : Nat) : trace lvl (f.rename ρ) env n = trace lvl f env n :=
  Flow.trace_rename h lvl f env n

/-! ### the twin of an insert row -/

/-- `start`-attached rows of the template take the block's incoming edges: their `from` is blank -/
abbrev insertRetarget (body : List Compile.Event) : List Compile.Event := Compile.retarget body

/-- the block that replaces the insert row -/
abbrev insertTwin (r : Compile.Row) (body : List Compile.Event) : List Compile.Event := Compile.twin r body

theorem insertTwin_eq (r : Compile.Row) (body : List Compile.Event) :
    insertTwin r body = [.openGroup r.edges false] ++ insertRetarget body ++ [.closeGroup r.rowId] := rfl

theorem insertRetarget_row (r : Compile.Row) (es : List Compile.Event) :
    insertRetarget (.row r :: es) =
      .row { r with edges := r.edges.map fun e => if e.from_ = "start".toList then { e with from_ := [] } else e }
        :: insertRetarget es := rfl

/-! ### the covered class -/

/-- The sheets and templates the theorem covers.
* `entry`: the template starts with an ordinary row that creates a node (any action or router row,
  no `_nodeId` / node name), attached to `start` unconditionally; no later row read by the
  template's own parser is attached to `start` (`needs_single_start`), and none of them gives or
  uses a `_nodeId` / node name.  Everything else is free: routers, conditional edges, `go_to`,
  `no_op`, hard and loose exits, blocks to any depth, further `insert_as_block` rows (with
  arbitrary templates of their own).
* `ids`: no `_nodeId` given in the sheet has the shape of an identifier the model invents (`~n`).
* `top`: the insert row is not inside a block (as many `end_` as `begin_` rows before it).
* `apart`: the rows after the block name neither the block nor a row id of the template (the twin
  is the template "with ids renamed apart"), and no edge with a blank `from` is read while the
  block is the most recent node group (`needs_post_avoids_block`: F-C03-a). -/
structure InsertCovered (pre : List Compile.Event) (r : Compile.Row) (body post : List Compile.Event) : Prop where
  entry : ∃ r₁ rest, body = .row r₁ :: rest ∧ Compile.EntryRow r₁ ∧ Compile.noStartL rest = true ∧
    Compile.noNamesL rest = true
  ids : Compile.okIdsL (pre ++ [.insert r body] ++ post) = true
  top : Compile.opens pre = Compile.closes pre
  apart : Compile.avoids (Compile.hidden r body) true 0 post = true

/-! ### the theorem -/

/-- **An insert row and its twin compile to the same nodes up to an injective renaming of
identifiers** — for all sheets `pre`, `post` around the row and all covered templates. -/
theorem insert_twin_nodes_partial (noArgs testTypes : List Str) (pre post body : List Compile.Event)
    (r : Compile.Row) (hc : InsertCovered pre r body post) {o₁ o₂ : Compile.Out}
    (h₁ : Compile.compile noArgs testTypes (pre ++ [.insert r body] ++ post) = .ok o₁)
    (h₂ : Compile.compile noArgs testTypes (pre ++ insertTwin r body ++ post) = .ok o₂) :
    ∃ ρ : Compile.Uid → Compile.Uid, Injective ρ ∧ o₂.nodes = o₁.nodes.map (Compile.rnNode ρ) := by
  obtain ⟨r₁, rest, rfl, he, hns, hnn⟩ := hc.entry
  exact Compile.insert_twin_nodes' noArgs testTypes pre post rest r r₁ he hns hnn hc.ids hc.top hc.apart h₁ h₂

/-- **…hence to the same flow up to that renaming** -/
theorem insert_twin_renaming_partial (noArgs testTypes : List Str) (pre post body : List Compile.Event)
    (r : Compile.Row) (hc : InsertCovered pre r body post) {o₁ o₂ : Compile.Out}
    (h₁ : Compile.compile noArgs testTypes (pre ++ [.insert r body] ++ post) = .ok o₁)
    (h₂ : Compile.compile noArgs testTypes (pre ++ insertTwin r body ++ post) = .ok o₂) :
    ∃ ρ : Id → Id, Injective ρ ∧ Compile.renderOut o₂ = (Compile.renderOut o₁).rename ρ := by
  obtain ⟨ρ, hρ, e⟩ := insert_twin_nodes_partial noArgs testTypes pre post body r hc h₁ h₂
  refine ⟨ρ, hρ, ?_⟩
  have e2 : o₂ = { nodes := o₁.nodes.map (Compile.rnNode ρ) } := by cases o₂; simp only [] at e; rw [e]
  rw [e2]
  exact Compile.renderOut_rn o₁.nodes

/-- **…hence to behaviourally equal flows**: the same observations for every environment and every
length, at every observation level (in particular the full level of C03: operands, tests,
arguments, order, category names, timeouts, result names, action content). -/
theorem insert_twin_traces_partial (noArgs testTypes : List Str) (pre post body : List Compile.Event)
    (r : Compile.Row) (hc : InsertCovered pre r body post) {o₁ o₂ : Compile.Out}
    (h₁ : Compile.compile noArgs testTypes (pre ++ [.insert r body] ++ post) = .ok o₁)
    (h₂ : Compile.compile noArgs testTypes (pre ++ insertTwin r body ++ post) = .ok o₂) :
    ∀ (lvl : ObsLevel) (env : Nat → Nat) (n : Nat),
      trace lvl (Compile.renderOut o₁) env n = trace lvl (Compile.renderOut o₂) env n := by
  obtain ⟨ρ, hρ, e⟩ := insert_twin_renaming_partial noArgs testTypes pre post body r hc h₁ h₂
  intro lvl env n
  rw [e, Flow.trace_rename hρ]

/-! ### example sheets -/

def insBlank : Compile.Cond := { value := [], var := [], type := [], name := [] }

def insEdge (f : String) (v : String := "") : Compile.Edge :=
  { from_ := f.toList, cond := { insBlank with value := v.toList } }

def insRow (id type : String) (edges : List Compile.Edge) (action : Option String := none)
    (nodeName : String := "") : Compile.Row :=
  { rowId := id.toList, type := type.toList, edges := edges, action := action.map String.toList,
    actionOk := true, ownAction := none, nodeUuid := [], nodeName := nodeName.toList, saveName := [],
    noResponse := [], expression := [], flowName := [], dests := [], resultKey := none, nodeOk := true }

def insTests : List Str := ["has_any_word".toList]

/-- a message and a wait; the block is entered on "yes" -/
def exPre : List Compile.Event :=
  [ .row (insRow "m1" "send_message" [insEdge "start"] (some "hello")),
    .row (insRow "m2" "wait_for_response" [insEdge "m1"]) ]

def exIns : Compile.Row := insRow "I" "insert_as_block" [insEdge "m2" "yes"]

/-- the instantiated template: a message, a wait with three branches — one into a block of the
template, one to a hard exit, the default one and the block's exit into a further inserted
template -/
def exBody : List Compile.Event :=
  [ .row (insRow "t1" "send_message" [insEdge "start"] (some "a")),
    .row (insRow "t2" "wait_for_response" [insEdge "t1"]),
    .openGroup [insEdge "t2" "go"] false,
    .row (insRow "t3" "send_message" [insEdge ""] (some "in block")),
    .closeGroup "tb".toList,
    .row (insRow "t4" "hard_exit" [insEdge "t2" "stop"]),
    .insert (insRow "ti" "insert_as_block" [insEdge "tb"])
      [ .row (insRow "u1" "send_message" [insEdge "start"] (some "nested")) ] ]

/-- the sheet goes on from the wait before the block -/
def exPost : List Compile.Event :=
  [ .row (insRow "p1" "send_message" [insEdge "m2" "no"] (some "bye")) ]

theorem exCovered : InsertCovered exPre exIns exBody exPost :=
  ⟨⟨_, _, rfl, by decide, by decide, by decide⟩, by decide, by decide, by decide⟩

/-- both sheets compile (and give seven nodes): `some n` = both compile to `n` nodes -/
def bothCompile (a b : List Compile.Event) : Option Nat :=
  match Compile.compile [] insTests a, Compile.compile [] insTests b with
  | .ok o₁, .ok o₂ => if o₁.nodes.length = o₂.nodes.length then some o₁.nodes.length else none
  | _, _ => none

theorem bothCompile_some {a b : List Compile.Event} {n : Nat} (h : bothCompile a b = some n) :
    ∃ o₁ o₂, Compile.compile [] insTests a = .ok o₁ ∧ Compile.compile [] insTests b = .ok o₂ := by
  unfold bothCompile at h
  split at h
  · rename_i o₁ o₂ h1 h2; exact ⟨o₁, o₂, h1, h2⟩
  · cases h

/-- non-vacuity: the example is covered, the sheet with the insert row and the sheet with its twin
both compile, and they behave alike -/
example : ∃ o₁ o₂, Compile.compile [] insTests (exPre ++ [.insert exIns exBody] ++ exPost) = .ok o₁ ∧
    Compile.compile [] insTests (exPre ++ insertTwin exIns exBody ++ exPost) = .ok o₂ ∧
    ∀ lvl env n, trace lvl (Compile.renderOut o₁) env n = trace lvl (Compile.renderOut o₂) env n := by
  obtain ⟨o₁, o₂, h₁, h₂⟩ := bothCompile_some
    (show bothCompile (exPre ++ [.insert exIns exBody] ++ exPost) (exPre ++ insertTwin exIns exBody ++ exPost) = some 7 by
      decide +kernel)
  exact ⟨o₁, o₂, h₁, h₂, insert_twin_traces_partial [] insTests _ _ _ _ exCovered h₁ h₂⟩

/-! ### the hypotheses are needed -/

/-- `some true` / `some false`: both sheets compile and make the same / different observations along
`env` for `n` steps at the full level -/
def sameTrace (a b : List Compile.Event) (env : Nat → Nat) (n : Nat) : Option Bool :=
  match Compile.compile [] insTests a, Compile.compile [] insTests b with
  | .ok o₁, .ok o₂ =>
    some (decide (trace ⟨true, true⟩ (Compile.renderOut o₁) env n = trace ⟨true, true⟩ (Compile.renderOut o₂) env n))
  | _, _ => none

theorem sameTrace_false {a b : List Compile.Event} {env : Nat → Nat} {n : Nat} (h : sameTrace a b env n = some false) :
    ∃ o₁ o₂, Compile.compile [] insTests a = .ok o₁ ∧ Compile.compile [] insTests b = .ok o₂ ∧
      trace ⟨true, true⟩ (Compile.renderOut o₁) env n ≠ trace ⟨true, true⟩ (Compile.renderOut o₂) env n := by
  unfold sameTrace at h
  split at h
  · rename_i o₁ o₂ h1 h2
    refine ⟨o₁, o₂, h1, h2, ?_⟩
    injection h with h
    simpa using h
  · cases h

/-- the block is entered from a wait on "yes" (the wait's default exit stays unconnected) -/
def wPre : List Compile.Event := [ .row (insRow "m1" "wait_for_response" [insEdge "start"]) ]
def wIns : Compile.Row := insRow "I" "insert_as_block" [insEdge "m1" "yes"]
def wBody : List Compile.Event := [ .row (insRow "t1" "send_message" [insEdge "start"] (some "in")) ]
/-- the next row continues from the block: blank `from` / naming the block -/
def wPostBlank : List Compile.Event := [ .row (insRow "p1" "send_message" [insEdge ""] (some "after")) ]
def wPostNamed : List Compile.Event := [ .row (insRow "p1" "send_message" [insEdge "I"] (some "after")) ]

/-- **`apart` is needed — finding F-C03-a seen from the insert row**: when the sheet continues
from the block while a row leading INTO the block still has an unconnected exit, the twin block
also wires that exit (the wait's "Other") to the next row — through the begin row kept as a
`no_op` inside the block — and the insert row does not.  Everything else of `InsertCovered` holds;
both sheets compile; a contact answering anything but "yes" is sent "after" by the twin only.
(Same on the real compiler: replayed through `harness/flows.py compile_index`.) -/
theorem needs_post_avoids_block :
    (∃ r₁ rest, wBody = .row r₁ :: rest ∧ Compile.EntryRow r₁ ∧ Compile.noStartL rest = true ∧
      Compile.noNamesL rest = true) ∧
    Compile.okIdsL (wPre ++ [.insert wIns wBody] ++ wPostBlank) = true ∧ Compile.opens wPre = Compile.closes wPre ∧
    Compile.avoids (Compile.hidden wIns wBody) true 0 wPostBlank = false ∧
    Compile.avoids (Compile.hidden wIns wBody) true 0 wPostNamed = false ∧
    (∃ o₁ o₂, Compile.compile [] insTests (wPre ++ [.insert wIns wBody] ++ wPostBlank) = .ok o₁ ∧
      Compile.compile [] insTests (wPre ++ insertTwin wIns wBody ++ wPostBlank) = .ok o₂ ∧
      trace ⟨true, true⟩ (Compile.renderOut o₁) (fun _ => 1) 3 ≠ trace ⟨true, true⟩ (Compile.renderOut o₂) (fun _ => 1) 3) ∧
    (∃ o₁ o₂, Compile.compile [] insTests (wPre ++ [.insert wIns wBody] ++ wPostNamed) = .ok o₁ ∧
      Compile.compile [] insTests (wPre ++ insertTwin wIns wBody ++ wPostNamed) = .ok o₂ ∧
      trace ⟨true, true⟩ (Compile.renderOut o₁) (fun _ => 1) 3 ≠ trace ⟨true, true⟩ (Compile.renderOut o₂) (fun _ => 1) 3) :=
  ⟨⟨_, _, rfl, by decide, by decide, by decide⟩, by decide, by decide, by decide, by decide,
    sameTrace_false (by decide +kernel), sameTrace_false (by decide +kernel)⟩

/-- a template with two rows attached to `start` -/
def sPre : List Compile.Event := [ .row (insRow "m1" "send_message" [insEdge "start"] (some "hello")) ]
def sIns : Compile.Row := insRow "I" "insert_as_block" [insEdge "m1"]
def sBody : List Compile.Event :=
  [ .row (insRow "t1" "send_message" [insEdge "start"] (some "a")),
    .row (insRow "t2" "send_message" [insEdge "start"] (some "b")) ]

/-- **only the first row of the template may be attached to `start`**: a second `start` row is
left unconnected by the template's own parser, while in the twin its blank `from` connects it
behind the previous row — the twin sends "b", the insert row does not. -/
theorem needs_single_start :
    Compile.noStartL (sBody.drop 1) = false ∧ Compile.okIdsL (sPre ++ [.insert sIns sBody]) = true ∧
    Compile.opens sPre = Compile.closes sPre ∧ Compile.avoids (Compile.hidden sIns sBody) true 0 [] = true ∧
    ∃ o₁ o₂, Compile.compile [] insTests (sPre ++ [.insert sIns sBody] ++ []) = .ok o₁ ∧
      Compile.compile [] insTests (sPre ++ insertTwin sIns sBody ++ []) = .ok o₂ ∧
      trace ⟨true, true⟩ (Compile.renderOut o₁) (fun _ => 0) 4 ≠ trace ⟨true, true⟩ (Compile.renderOut o₂) (fun _ => 0) 4 :=
  ⟨by decide, by decide, by decide, by decide, sameTrace_false (by decide +kernel)⟩

/-- the template has a row with the id of a row of the sheet, and the sheet goes on from that id -/
def hBody : List Compile.Event := [ .row (insRow "m1" "send_message" [insEdge "start"] (some "a")) ]
def hPost : List Compile.Event := [ .row (insRow "p1" "send_message" [insEdge "m1"] (some "z")) ]

/-- **the twin's row ids must be apart from those the rest of the sheet uses**: a row id of the
template is invisible after the insert row (the template has its own parser) but visible after
the twin block — "z" follows the template's row in the twin, the sheet's row in the other. -/
theorem needs_ids_apart :
    Compile.avoids (Compile.hidden sIns hBody) true 0 hPost = false ∧
    ∃ o₁ o₂, Compile.compile [] insTests (sPre ++ [.insert sIns hBody] ++ hPost) = .ok o₁ ∧
      Compile.compile [] insTests (sPre ++ insertTwin sIns hBody ++ hPost) = .ok o₂ ∧
      (Compile.renderOut o₁).nodes.map (·.exits.map (·.dest.isSome)) ≠
        (Compile.renderOut o₂).nodes.map (·.exits.map (·.dest.isSome)) := by
  refine ⟨by decide, ?_⟩
  have h : (match Compile.compile [] insTests (sPre ++ [.insert sIns hBody] ++ hPost),
      Compile.compile [] insTests (sPre ++ insertTwin sIns hBody ++ hPost) with
      | .ok o₁, .ok o₂ => decide ((Compile.renderOut o₁).nodes.map (·.exits.map (·.dest.isSome)) ≠
          (Compile.renderOut o₂).nodes.map (·.exits.map (·.dest.isSome)))
      | _, _ => false) = true := by decide +kernel
  split at h
  · rename_i o₁ o₂ h1 h2
    exact ⟨o₁, o₂, h1, h2, by simpa using h⟩
  · cases h

/-! ### the sheet continues from the inserted block -/

/-- the twin block is tight: once the template's first row is read in the twin, the begin row (kept
as a `no_op` group, first child of the block) has row groups as parents all of whose nodes are
without unconnected exit — so an edge that leaves the block later finds nothing there to pick up -/
def InsertTight (noArgs testTypes : List Str) (pre : List Compile.Event) (r r₁ : Compile.Row) : Prop :=
  ∀ a₂, (Compile.steps (pre ++ [.openGroup r.edges false, .row (Compile.retargetRow r₁)])).run
    (Compile.initSt noArgs testTypes) = .ok ((), a₂) → Compile.TightAt a₂

/-- The sheets that continue from the block, condition on the run of the twin: as `InsertCovered`, but
the insert row may be at ANY block depth (inside blocks and loops), and the rows after the block may
use a blank `from` right after it and may name its row id (`apart` only forbids the template's own
row ids, by an edge or as a `go_to` destination); instead the twin block is tight (`InsertTight`) and
no later row — also of later inserted templates — is a `loose_exit` row (`needs_no_loose_exit_after`). -/
structure InsertContinues (noArgs testTypes : List Str) (pre : List Compile.Event) (r : Compile.Row)
    (body post : List Compile.Event) : Prop where
  entry : ∃ r₁ rest, body = .row r₁ :: rest ∧ Compile.EntryRow r₁ ∧ Compile.noStartL rest = true ∧
    Compile.noNamesL rest = true ∧ InsertTight noArgs testTypes pre r r₁
  ids : Compile.okIdsL (pre ++ [.insert r body] ++ post) = true
  noLoose : Compile.noLooseL post = true
  apart : Compile.avoidsOpen (Compile.defsL body) post = true

theorem insert_twin_continues_nodes_partial (noArgs testTypes : List Str) (pre post body : List Compile.Event)
    (r : Compile.Row) (hc : InsertContinues noArgs testTypes pre r body post) {o₁ o₂ : Compile.Out}
    (h₁ : Compile.compile noArgs testTypes (pre ++ [.insert r body] ++ post) = .ok o₁)
    (h₂ : Compile.compile noArgs testTypes (pre ++ insertTwin r body ++ post) = .ok o₂) :
    ∃ ρ : Compile.Uid → Compile.Uid, Injective ρ ∧ o₂.nodes = o₁.nodes.map (Compile.rnNode ρ) := by
  obtain ⟨r₁, rest, rfl, he, hns, hnn, ht⟩ := hc.entry
  exact Compile.insert_twin_nodes_open noArgs testTypes pre post rest r r₁ he hns hnn hc.ids ht hc.noLoose
    hc.apart h₁ h₂

theorem traces_of_nodes {o₁ o₂ : Compile.Out}
    (h : ∃ ρ : Compile.Uid → Compile.Uid, Injective ρ ∧ o₂.nodes = o₁.nodes.map (Compile.rnNode ρ)) :
    ∀ (lvl : ObsLevel) (env : Nat → Nat) (n : Nat),
      trace lvl (Compile.renderOut o₁) env n = trace lvl (Compile.renderOut o₂) env n := by
  obtain ⟨ρ, hρ, e⟩ := h
  intro lvl env n
  have e2 : o₂ = { nodes := o₁.nodes.map (Compile.rnNode ρ) } := by cases o₂; simp only [] at e; rw [e]
  rw [e2, Compile.renderOut_rn o₁.nodes, Flow.trace_rename hρ]

/-- **A sheet that continues from the inserted block behaves like the sheet with the twin block**,
when the twin block is tight. -/
theorem insert_twin_continues_traces_partial (noArgs testTypes : List Str) (pre post body : List Compile.Event)
    (r : Compile.Row) (hc : InsertContinues noArgs testTypes pre r body post) {o₁ o₂ : Compile.Out}
    (h₁ : Compile.compile noArgs testTypes (pre ++ [.insert r body] ++ post) = .ok o₁)
    (h₂ : Compile.compile noArgs testTypes (pre ++ insertTwin r body ++ post) = .ok o₂) :
    ∀ (lvl : ObsLevel) (env : Nat → Nat) (n : Nat),
      trace lvl (Compile.renderOut o₁) env n = trace lvl (Compile.renderOut o₂) env n :=
  traces_of_nodes (insert_twin_continues_nodes_partial noArgs testTypes pre post body r hc h₁ h₂)

/-- The same, condition on the EVENTS (again at any block depth): the insert row directly follows a plain action row `q`
(`send_message`, `save_value`, `add_to_group`, `remove_from_group`, `save_flow_result`; no `_nodeId`)
and is attached to it — and to nothing else — unconditionally, by a blank `from` or by `q`'s row id.
Then `q`'s node is a basic node whose only exit the edge into the block connects: the twin is tight. -/
structure InsertFollows (pre' : List Compile.Event) (q r : Compile.Row) (body post : List Compile.Event) : Prop where
  parent : Compile.PlainRow q
  attached : Compile.Follows q r
  entry : ∃ r₁ rest, body = .row r₁ :: rest ∧ Compile.EntryRow r₁ ∧ Compile.noStartL rest = true ∧
    Compile.noNamesL rest = true
  ids : Compile.okIdsL ((pre' ++ [.row q]) ++ [.insert r body] ++ post) = true
  noLoose : Compile.noLooseL post = true
  apart : Compile.avoidsOpen (Compile.defsL body) post = true

/-- **…for every sheet of the shape the harness's twin workbooks have** -/
theorem insert_twin_follows_traces_partial (noArgs testTypes : List Str) (pre' post body : List Compile.Event)
    (q r : Compile.Row) (hc : InsertFollows pre' q r body post) {o₁ o₂ : Compile.Out}
    (h₁ : Compile.compile noArgs testTypes ((pre' ++ [.row q]) ++ [.insert r body] ++ post) = .ok o₁)
    (h₂ : Compile.compile noArgs testTypes ((pre' ++ [.row q]) ++ insertTwin r body ++ post) = .ok o₂) :
    ∀ (lvl : ObsLevel) (env : Nat → Nat) (n : Nat),
      trace lvl (Compile.renderOut o₁) env n = trace lvl (Compile.renderOut o₂) env n := by
  obtain ⟨r₁, rest, rfl, he, hns, hnn⟩ := hc.entry
  exact traces_of_nodes (Compile.insert_twin_nodes_follows noArgs testTypes pre' post rest q r r₁ hc.parent
    hc.attached he hns hnn hc.ids hc.noLoose hc.apart h₁ h₂)

/-- the condition on the events implies the condition on the run -/
theorem insertFollows_tight (noArgs testTypes : List Str) (pre' : List Compile.Event) (q r r₁ : Compile.Row)
    (hq : Compile.PlainRow q) (hf : Compile.Follows q r) (he : Compile.EntryRow r₁)
    (hid : Compile.okIdsL (pre' ++ [.row q]) = true) : InsertTight noArgs testTypes (pre' ++ [.row q]) r r₁ :=
  Compile.tight_of_follows noArgs testTypes pre' q r r₁ hq hf he hid

/-! #### the harness's workbook: one template inserted twice, each insertion followed by a row
that continues from it; the template ends in a hard exit on one branch -/

def exM1 : Compile.Row := insRow "m1" "send_message" [insEdge "start"] (some "main")

def exTmpl : List Compile.Event :=
  [ .row (insRow "t1" "send_message" [insEdge "start"] (some "T")),
    .row (insRow "t2" "send_message" [insEdge "t1"] (some "second")),
    .row (insRow "t3" "wait_for_response" [insEdge ""]),
    .row (insRow "t4" "send_message" [insEdge "t3" "yes"] (some "yes")),
    .row (insRow "" "hard_exit" [insEdge "t4"]) ]

def exB0 : Compile.Row := insRow "b0" "insert_as_block" [insEdge "m1"]
def exAft0 : Compile.Row := insRow "aft0" "send_message" [insEdge "b0"] (some "after block 0")
def exB1 : Compile.Row := insRow "b1" "insert_as_block" [insEdge "aft0"]
def exAft1 : Compile.Row := insRow "aft1" "send_message" [insEdge "b1"] (some "after block 1")

/-- the first insertion: the sheet goes on with a row continuing from it, the second insertion and
a row continuing from that -/
theorem exHarness1 : InsertFollows [] exM1 exB0 exTmpl [.row exAft0, .insert exB1 exTmpl, .row exAft1] :=
  ⟨by decide, ⟨insEdge "m1", by decide, by decide, .inr ⟨by decide, by decide, by decide⟩⟩,
    ⟨_, _, rfl, by decide, by decide, by decide⟩, by decide, by decide, by decide⟩

/-- the second insertion, the first one already replaced by its twin block -/
theorem exHarness2 : InsertFollows ([.row exM1] ++ insertTwin exB0 exTmpl) exAft0 exB1 exTmpl [.row exAft1] :=
  ⟨by decide, ⟨insEdge "aft0", by decide, by decide, .inr ⟨by decide, by decide, by decide⟩⟩,
    ⟨_, _, rfl, by decide, by decide, by decide⟩, by decide, by decide, by decide⟩

/-- the three sheets: both insert rows / the first one replaced / both replaced -/
def exSheet0 : List Compile.Event :=
  ([] ++ [.row exM1]) ++ [.insert exB0 exTmpl] ++ [.row exAft0, .insert exB1 exTmpl, .row exAft1]
def exSheet1 : List Compile.Event :=
  ([] ++ [.row exM1]) ++ insertTwin exB0 exTmpl ++ [.row exAft0, .insert exB1 exTmpl, .row exAft1]
def exSheet1' : List Compile.Event :=
  (([.row exM1] ++ insertTwin exB0 exTmpl) ++ [.row exAft0]) ++ [.insert exB1 exTmpl] ++ [.row exAft1]
def exSheet2 : List Compile.Event :=
  (([.row exM1] ++ insertTwin exB0 exTmpl) ++ [.row exAft0]) ++ insertTwin exB1 exTmpl ++ [.row exAft1]

theorem exSheet1_eq : exSheet1' = exSheet1 := by
  simp only [exSheet1, exSheet1', List.append_assoc, List.nil_append, List.cons_append]

/-- the exits of the nodes that send "yes" (the template's hard exit): `some true` = all without destination -/
def yesExitsHard (evs : List Compile.Event) : Option Bool :=
  match Compile.compile [] insTests evs with
  | .ok o => some (((Compile.renderOut o).nodes.filter (fun n => n.actions.any (fun a => a.obs == "yes".toList))).all
      (fun n => n.exits.all (fun e => e.dest.isNone)))
  | .error _ => none

theorem exStep1 {o₀ o₁ : Compile.Out} (h₀ : Compile.compile [] insTests exSheet0 = .ok o₀)
    (h₁ : Compile.compile [] insTests exSheet1 = .ok o₁) :
    ∀ lvl env n, trace lvl (Compile.renderOut o₀) env n = trace lvl (Compile.renderOut o₁) env n :=
  insert_twin_follows_traces_partial [] insTests [] _ _ exM1 exB0 exHarness1 h₀ h₁

theorem exStep2 {o₁ o₂ : Compile.Out} (h₁ : Compile.compile [] insTests exSheet1' = .ok o₁)
    (h₂ : Compile.compile [] insTests exSheet2 = .ok o₂) :
    ∀ lvl env n, trace lvl (Compile.renderOut o₁) env n = trace lvl (Compile.renderOut o₂) env n :=
  insert_twin_follows_traces_partial [] insTests _ _ _ exAft0 exB1 exHarness2 h₁ h₂

/-- non-vacuity, and the repeated insertion: the workbook with two insertions of one template
behaves like the workbook with two twin blocks (two applications of the theorem), all three sheets
compile (11 nodes), and the hard exit of BOTH insertions is still an exit without destination —
the rows continuing from the blocks did not pick it up (seeded bug C03c) -/
example : ∃ o₀ o₂, Compile.compile [] insTests exSheet0 = .ok o₀ ∧ Compile.compile [] insTests exSheet2 = .ok o₂ ∧
    (∀ lvl env n, trace lvl (Compile.renderOut o₀) env n = trace lvl (Compile.renderOut o₂) env n) ∧
    yesExitsHard exSheet0 = some true := by
  obtain ⟨o₀, o₁, h₀, h₁⟩ := bothCompile_some (show bothCompile exSheet0 exSheet1 = some 11 by decide +kernel)
  obtain ⟨o₁', o₂, h₁', h₂⟩ := bothCompile_some (show bothCompile exSheet1' exSheet2 = some 11 by decide +kernel)
  have e2 : (Except.ok o₁ : Except Compile.Err Compile.Out) = .ok o₁' := by
    rw [← h₁, ← exSheet1_eq]; exact h₁'
  have e : o₁' = o₁ := (Except.ok.inj e2).symm
  subst e
  refine ⟨o₀, o₂, h₀, h₂, ?_, by decide +kernel⟩
  intro lvl env n
  rw [exStep1 h₀ h₁ lvl env n, exStep2 h₁' h₂ lvl env n]

/-! #### inside a block -/

/-- a block entered from the first row; in it a row and the insert row attached to it by a blank `from` -/
def exInPre : List Compile.Event :=
  [ .row exM1, .openGroup [insEdge "m1"] false ]
def exInQ : Compile.Row := insRow "q" "send_message" [insEdge ""] (some "in the outer block")
def exInIns : Compile.Row := insRow "I" "insert_as_block" [insEdge ""]
/-- a row continuing from the inserted block inside the outer block, the end of the outer block, a
row continuing from the outer block -/
def exInPost : List Compile.Event :=
  [ .row (insRow "c1" "send_message" [insEdge ""] (some "continues")), .closeGroup "B".toList,
    .row (insRow "z" "send_message" [insEdge "B"] (some "after the outer block")) ]

theorem exInside : InsertFollows exInPre exInQ exInIns exTmpl exInPost :=
  ⟨by decide, ⟨insEdge "", by decide, by decide, .inl rfl⟩,
    ⟨_, _, rfl, by decide, by decide, by decide⟩, by decide, by decide, by decide⟩

/-- non-vacuity at depth 1: both sheets compile (8 nodes) and behave alike -/
example : ∃ o₁ o₂, Compile.compile [] insTests ((exInPre ++ [.row exInQ]) ++ [.insert exInIns exTmpl] ++ exInPost) = .ok o₁ ∧
    Compile.compile [] insTests ((exInPre ++ [.row exInQ]) ++ insertTwin exInIns exTmpl ++ exInPost) = .ok o₂ ∧
    ∀ lvl env n, trace lvl (Compile.renderOut o₁) env n = trace lvl (Compile.renderOut o₂) env n := by
  obtain ⟨o₁, o₂, h₁, h₂⟩ := bothCompile_some
    (show bothCompile ((exInPre ++ [.row exInQ]) ++ [.insert exInIns exTmpl] ++ exInPost)
      ((exInPre ++ [.row exInQ]) ++ insertTwin exInIns exTmpl ++ exInPost) = some 8 by decide +kernel)
  exact ⟨o₁, o₂, h₁, h₂, insert_twin_follows_traces_partial [] insTests _ _ _ _ _ exInside h₁ h₂⟩

/-! #### the hypotheses are needed -/

/-- **tightness is needed** (F-C03-a): the insert row of `needs_post_avoids_block` is attached to a wait
on "yes" — `InsertFollows.parent` and `.attached` fail, everything else holds — and the sheet that
continues from the block behaves differently from the twin -/
theorem needs_tight :
    ¬ Compile.PlainRow (insRow "m1" "wait_for_response" [insEdge "start"]) ∧
    ¬ Compile.Follows (insRow "m1" "wait_for_response" [insEdge "start"]) wIns ∧
    Compile.noLooseL wPostNamed = true ∧ Compile.avoidsOpen (Compile.defsL wBody) wPostNamed = true ∧
    Compile.avoidsOpen (Compile.defsL wBody) wPostBlank = true ∧
    (∃ o₁ o₂, Compile.compile [] insTests (wPre ++ [.insert wIns wBody] ++ wPostNamed) = .ok o₁ ∧
      Compile.compile [] insTests (wPre ++ insertTwin wIns wBody ++ wPostNamed) = .ok o₂ ∧
      trace ⟨true, true⟩ (Compile.renderOut o₁) (fun _ => 1) 3 ≠ trace ⟨true, true⟩ (Compile.renderOut o₂) (fun _ => 1) 3) := by
  refine ⟨by decide, ?_, by decide, by decide, by decide, sameTrace_false (by decide +kernel)⟩
  rintro ⟨e, he, hc, _⟩
  have : Compile.dropTrivial wIns.edges = [insEdge "m1" "yes"] := by decide
  rw [this] at he
  injection he with he _
  subst he
  revert hc; decide

/-- a `loose_exit` row after the block, attached to the row leading into it -/
def lPost : List Compile.Event :=
  [ .row (insRow "" "loose_exit" [insEdge "m1"]), .row (insRow "p1" "send_message" [insEdge "I"] (some "after")) ]

/-- **no `loose_exit` row after the block**: it can disconnect the exit that led into the block; the
row continuing from the block then picks that exit up in the twin only (F-C03-a again) -/
theorem needs_no_loose_exit_after :
    Compile.PlainRow (insRow "m1" "send_message" [insEdge "start"] (some "hello")) ∧
    Compile.noLooseL lPost = false ∧ Compile.avoidsOpen (Compile.defsL (sBody.take 1)) lPost = true ∧
    ∃ o₁ o₂, Compile.compile [] insTests (sPre ++ [.insert sIns (sBody.take 1)] ++ lPost) = .ok o₁ ∧
      Compile.compile [] insTests (sPre ++ insertTwin sIns (sBody.take 1) ++ lPost) = .ok o₂ ∧
      trace ⟨true, true⟩ (Compile.renderOut o₁) (fun _ => 0) 4 ≠ trace ⟨true, true⟩ (Compile.renderOut o₂) (fun _ => 0) 4 :=
  ⟨by decide, by decide, by decide, sameTrace_false (by decide +kernel)⟩

/-! ### what remains -/

/-- The clause on the model at the strength aimed at: as the theorems above, with `_nodeId`s / node
names allowed in the template, and the not-continuing alternative (`InsertCovered`) at any block
depth too.

Proved of it: the alternative "the sheet does not continue from the block" for insert rows outside
blocks (`insert_twin_traces_partial`); the alternative "the sheet may continue from the block, the
twin block is tight" at ANY block depth, on the run (`InsertTight`,
`insert_twin_continues_traces_partial`) and on the events (`InsertFollows`,
`insert_twin_follows_traces_partial`); templates without `_nodeId`s.  Not proved:
* `_nodeId`s / node names in the template;
* the not-continuing alternative for insert rows inside blocks or loops when the twin block is not
  tight (F-C03-a-prone sheets that stay away from the block and from the blocks around it);
* a template starting with a block, a `no_op`, a nested insert row or several `start` rows (the
  twin of the clause is wrong for several `start` rows: `needs_single_start`);
* tightness on the events beyond "directly follows a plain action row" (e.g. a router all of whose
  exits are connected before the insert row — covered by `InsertTight` on the run only);
* the harness's twin renames the template's row ids apart, the twin here keeps them and asks the
  rest of the sheet not to use them (`apart`): that renaming unused row ids does not change the
  compiled flow is not proved;
* "one sheet compiles ⇒ the other compiles": false as it stands (a template row naming a row of
  the sheet is an error for the insert row only; "Block has no loose exit to connect to" can be
  raised by one side only), so not part of the statement. -/
def insert_twin_full : Prop :=
  ∀ (noArgs testTypes : List Str) (pre post body : List Compile.Event) (r : Compile.Row),
    (∃ r₁ rest, body = .row r₁ :: rest ∧ Compile.EntryRow r₁ ∧ Compile.noStartL rest = true ∧
      (Compile.avoids (Compile.hidden r body) true 0 post = true ∨
        (Compile.avoidsOpen (Compile.defsL body) post = true ∧ Compile.noLooseL post = true ∧
          InsertTight noArgs testTypes pre r r₁))) →
    Compile.okIdsL (pre ++ [.insert r body] ++ post) = true →
    ∀ o₁ o₂, Compile.compile noArgs testTypes (pre ++ [.insert r body] ++ post) = .ok o₁ →
      Compile.compile noArgs testTypes (pre ++ insertTwin r body ++ post) = .ok o₂ →
      ∀ lvl env n, trace lvl (Compile.renderOut o₁) env n = trace lvl (Compile.renderOut o₂) env n

end Rpft.Props.C03
