/-
C03 — loops, blocks, include_if and inserted blocks are pure sugar over plain rows.

(1) Equivalence "for all contact input sequences" between the flow compiled from a sugared
sheet and the flow compiled from its desugared twin is decided per pair by the verified
certificate checker at the FULL observation level (category names and result names
included): `sugar_equiv_of_cert`.
(2) The block structure of the parser and `desugar` are modelled in `Rpft/Sugar.lean`;
`events_desugar` (below, once `Sugar` is in) says the parser performs the same sequence of row
events on a sheet and on its desugared form, for every sheet and context.
-/
import Rpft.Props.C02
set_option linter.unusedSimpArgs false
set_option linter.unusedVariables false
namespace Rpft.Props.C03
open Rpft Rpft.Bisim Rpft.Flow

/-- the observation level of C03: everything (operands, tests, arguments, order, category
names, timeouts, result names, action content) -/
def fullLvl : ObsLevel := ⟨true, true⟩

theorem sugar_equiv_of_cert (sugared desugared : Flow.Flow) (R : List (St × St))
    (h : certOk fullLvl sugared desugared R = true) :
    ∀ (env : Nat → Nat) (n : Nat), trace fullLvl sugared env n = trace fullLvl desugared env n :=
  Props.C02.flows_equiv_of_cert fullLvl sugared desugared R h

end Rpft.Props.C03
