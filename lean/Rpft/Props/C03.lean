/-
C03 — loops, blocks, include_if and inserted blocks are pure sugar over plain rows.

(1) Equivalence "for all contact input sequences" between the flow compiled from a sugared
sheet and the flow compiled from its desugared twin is decided per pair by the verified
certificate checker at the FULL observation level (category names and result names
included): `sugar_equiv_of_cert`.
(2) The block structure of the parser and the desugaring are modelled in `Rpft/Sugar.lean`
(row instantiation and the NodeGroup machinery are abstract parameters).  `events_desugar`:
for EVERY sheet tree, context and interface satisfying `Laws`, the parser performs exactly
the same sequence of row / open-group / close-group events on the sheet and on its desugared
form, and fails with the same error when it fails — loops unrolled in order with the loop and
index variables bound, rows and blocks with a false include_if dropped without their contents
being instantiated, nesting to any depth.
(3) The block clause ("an edge that names a block leaves from every still-unconnected ordinary
exit of the block but never from a hard exit") on the compiler model (`Rpft/Compile.lean`, tied to
the real parser in C01), for ALL machine states: node level `block_edge_exits`; group level
`connect_loose_group`, `block_edge_group` (frame + exactly the nodes of `Compile.Reach` are
connected), `block_edge_frame`, `block_edge_connects_reach`; `block_edge_inside` (only nodes of the
block's subtree when no begin row leaks) and the kernel-checked witness
`block_edge_reaches_outside` for the open finding F-C03-a (`Reach` of a block leaves the block
through the parents of the begin row's `no_op` group).
-/
import Rpft.Props.C02
import Rpft.Lemmas.Sugar
import Rpft.Compile
import Rpft.Lemmas.CompileExits
import Rpft.Lemmas.CompileConnect
import Rpft.Props.C01
set_option linter.unusedSimpArgs false
set_option linter.unusedVariables false
namespace Rpft.Props.C03
open Rpft Rpft.Bisim Rpft.Flow Rpft.Sugar

/-- the observation level of C03: everything (operands, tests, arguments, order, category
names, timeouts, result names, action content) -/
def fullLvl : ObsLevel := ⟨true, true⟩

theorem sugar_equiv_of_cert (sugared desugared : Flow.Flow) (R : List (St × St))
    (h : certOk fullLvl sugared desugared R = true) :
    ∀ (env : Nat → Nat) (n : Nat), trace fullLvl sugared env n = trace fullLvl desugared env n :=
  Props.C02.flows_equiv_of_cert fullLvl sugared desugared R h

variable {Raw Inst Ctx Val Hdr Err : Type}

/-- **Desugaring preserves what the parser does**: if the desugared form of `its` in context
`ctx` is `its'`, then parsing `its` in `ctx` succeeds with some event sequence `es`, and
parsing `its'` gives the same `es` in ANY context (the desugared rows are literal). -/
theorem events_desugar (I : Iface Raw Inst Ctx Val Hdr Err) (L : Laws I)
    (its its' : List (Item Raw)) (ctx : Ctx) (h : dsItems I ctx its = .ok its') :
    ∃ es, evItems I ctx its = .ok es ∧ ∀ ctx', evItems I ctx' its' = .ok es := by
  have := agree_items I L its ctx
  unfold Agree at this
  simpa [h] using this

/-- …and when desugaring fails (a row cannot be instantiated, a loop has no variable), parsing
the sugared sheet fails with the same error. -/
theorem errors_desugar (I : Iface Raw Inst Ctx Val Hdr Err) (L : Laws I)
    (its : List (Item Raw)) (ctx : Ctx) (e : Err) (h : dsItems I ctx its = .error e) :
    evItems I ctx its = .error e := by
  have := agree_items I L its ctx
  unfold Agree at this
  simpa [h] using this

/-- A block whose include_if is false contributes nothing, whatever it contains: its contents
are never instantiated (replace them by anything). -/
theorem omitted_block_unevaluated (I : Iface Raw Inst Ctx Val Hdr Err) (ctx : Ctx) (b : Raw) (i : Inst)
    (body body' : List (Item Raw)) (hi : I.inst ctx b = .ok i) (hinc : I.includeIf i = false) :
    evItem I ctx (.block b body) = .ok [] ∧ evItem I ctx (.block b body') = .ok [] ∧
    evItem I ctx (.forLoop b body) = .ok [] := by
  simp [evItem, hi, hinc]

/-- A loop over the empty list is an empty group: it opens and closes, nothing in between,
and its body is not instantiated. -/
theorem zero_iterations (I : Iface Raw Inst Ctx Val Hdr Err) (ctx : Ctx) (b : Raw) (i : Inst)
    (body : List (Item Raw)) (v : Str) (idx : Option Str)
    (hi : I.inst ctx b = .ok i) (hinc : I.includeIf i = true) (hv : I.loopVars i = some (v, idx))
    (h0 : I.iterList i = []) :
    evItem I ctx (.forLoop b body) = .ok [.open_ (I.hdr i), .close (I.hdr i)] := by
  simp [evItem, hi, hinc, hv, h0, sequence]

/-- Loop variables are gone after `end_for`: the items after a loop are parsed in the context
before the loop (the loop's bindings are visible to its body only). -/
theorem for_scope (I : Iface Raw Inst Ctx Val Hdr Err) (ctx : Ctx) (b : Raw)
    (body rest : List (Item Raw)) (a r : List (Ev Inst Hdr))
    (ha : evItem I ctx (.forLoop b body) = .ok a) (hr : evItems I ctx rest = .ok r) :
    evItems I ctx (.forLoop b body :: rest) = .ok (a ++ r) := by
  rw [evItems_cons]; simp [ha, hr]

/-- A begin_for without a loop variable is an error (when the row is included). -/
theorem loop_without_variable (I : Iface Raw Inst Ctx Val Hdr Err) (ctx : Ctx) (b : Raw) (i : Inst)
    (body : List (Item Raw)) (hi : I.inst ctx b = .ok i) (hinc : I.includeIf i = true)
    (hv : I.loopVars i = none) :
    evItem I ctx (.forLoop b body) = .error I.noVarErr := by
  simp [evItem, hi, hinc, hv]

/-! ### end to end on the models: parser structure ∘ compiler -/

/-- what the compiler model reads of a begin row -/
structure BeginHdr where
  edges : List Compile.Edge
  starting : Bool
  rowId : Str
  deriving DecidableEq, Repr

/-! ### the block clause on the compiler model (node level) -/

/-- **An edge that names a block leaves from the still-unconnected ordinary exits, never from a
hard exit** — at the level of one node of the compiler model (`connect_loose_exits` of the node's
exits, reached from `add_exit` of a block through `NodeGroup.connect_loose_exits`): the exits that
lead nowhere are re-targeted to the edge's destination, every other exit keeps its destination
(a hard exit stays a hard exit, an exit into a node stays there), and number and order of the exits
are unchanged.  Which nodes of the block are visited is the group recursion of `Compile.connectLoose`
(tied to the real parser by the exact comparison of C01; decided on the real code by the
with/without-edge oracle). -/
theorem block_edge_exits (n : Compile.NodeM) (d : Compile.Dest) :
    (n.connectLoose d).exitDests = n.exitDests.map (Compile.fillLoose d) ∧
    Compile.fillLoose d .hard = .hard ∧ (∀ u, Compile.fillLoose d (.node u) = .node u) ∧
    Compile.fillLoose d .none = d :=
  ⟨Compile.connectLoose_exitDests n d, Compile.fillLoose_hard d, Compile.fillLoose_node d,
   Compile.fillLoose_none d⟩

/-- …and afterwards the node has no loose exit left (so a second edge naming the block finds
"no loose exit to connect to", as the real parser reports). -/
theorem block_edge_consumes_loose (n : Compile.NodeM) (d : Compile.Dest) (hd : d ≠ .none) :
    (n.connectLoose d).hasLoose = false := Compile.connectLoose_no_loose n d hd


/-! ### the block clause on the compiler model (group level) -/

/-- **Group recursion of `connect_loose_exits`** (`Compile.connectLoose`), for ALL machine states,
groups, destinations and fuels: when it succeeds (running out of fuel is a failure of the model,
so a successful run had enough), nothing but the contents of the node arena changes, and an arena
node is replaced by `n.connectLoose d` exactly when the recursion reaches it (`Compile.Reach`: the
last node of a row group; the router node of a `no_op` group or else what its parents reach; what
the children of a block reach) — every other node is untouched. -/
theorem connect_loose_group (fuel g : Nat) (d : Compile.Dest) (s s' : Compile.St)
    (hr : (Compile.connectLoose fuel g d).run s = .ok ((), s')) :
    s' = { s with nodes := s'.nodes } ∧ s'.nodes.size = s.nodes.size ∧
    ∀ (i : Nat) (n : Compile.NodeM), s.nodes[i]? = some n →
      (Compile.Reach s.groups g i → s'.nodes[i]? = some (n.connectLoose d)) ∧
      (¬ Compile.Reach s.groups g i → s'.nodes[i]? = some n) := by
  have := Compile.wp_of_run (Compile.connectLoose_conn d fuel g s) hr
  exact ⟨this.1.1, this.1.2, this.2⟩

/-- **An edge that names a block, group level** (`add_exit` of a block group), for ALL machine
states: it is accepted only with a blank condition and when some reached node has an exit that
leads nowhere; then groups, stack, row ids, node names and the identifier counter are unchanged,
the arena keeps its size, and a node is replaced by `n.connectLoose d` exactly when it is reached
from the block — nothing outside `Reach` changes.  (A child without loose exit is skipped by the
real code; connecting it would not change it.) -/
theorem block_edge_group (fuel g : Nat) (d : Compile.Dest) (c : Compile.Cond) (s s' : Compile.St)
    (children : List Nat) (hg : s.groups[g]? = some (.block children))
    (hr : (Compile.addExit fuel g d c).run s = .ok ((), s')) :
    c.blank = true ∧
    (s'.groups = s.groups ∧ s'.stack = s.stack ∧ s'.rowIds = s.rowIds ∧ s'.names = s.names ∧
      s'.next = s.next ∧ s'.nodes.size = s.nodes.size) ∧
    (∀ (i : Nat) (n : Compile.NodeM), s.nodes[i]? = some n →
      (Compile.Reach s.groups g i → s'.nodes[i]? = some (n.connectLoose d)) ∧
      (¬ Compile.Reach s.groups g i → s'.nodes[i]? = some n)) ∧
    (∃ (i : Nat) (n : Compile.NodeM), Compile.Reach s.groups g i ∧ s.nodes[i]? = some n ∧ n.hasLoose = true) := by
  obtain ⟨hc, hconn, hl⟩ := Compile.wp_of_run (Compile.addExit_block_conn fuel g d c s children hg) hr
  refine ⟨hc, ?_, hconn.2, hl⟩
  have e := hconn.1.1
  refine ⟨?_, ?_, ?_, ?_, ?_, hconn.1.2⟩ <;> rw [e]

/-- **Frame**: after an edge naming a block every arena node has the same identifier, actions and
router (operand, cases, categories, timeout) and the same exits in the same order as before; an
exit that led somewhere — a hard exit, an exit into a node — keeps its destination, everywhere in
the arena; only exits that led nowhere may now lead to `d`. -/
theorem block_edge_frame (fuel g : Nat) (d : Compile.Dest) (c : Compile.Cond) (s s' : Compile.St)
    (children : List Nat) (hg : s.groups[g]? = some (.block children))
    (hr : (Compile.addExit fuel g d c).run s = .ok ((), s')) :
    ∀ (i : Nat) (n : Compile.NodeM), s.nodes[i]? = some n → ∃ n', s'.nodes[i]? = some n' ∧
      (Compile.renderNode n').uuid = (Compile.renderNode n).uuid ∧
      (Compile.renderNode n').actions = (Compile.renderNode n).actions ∧
      (Compile.renderNode n').router = (Compile.renderNode n).router ∧
      (Compile.renderNode n').exits.map (·.uuid) = (Compile.renderNode n).exits.map (·.uuid) ∧
      (n'.exitDests = n.exitDests ∨ n'.exitDests = n.exitDests.map (Compile.fillLoose d)) ∧
      (∀ (k : Nat) (x : Compile.Dest), n.exitDests[k]? = some x → x ≠ .none → n'.exitDests[k]? = some x) := by
  obtain ⟨_, _, hn, _⟩ := block_edge_group fuel g d c s s' children hg hr
  intro i n hi
  by_cases hreach : Compile.Reach s.groups g i
  · obtain ⟨h1, h2, h3, h4⟩ := Compile.connectLoose_render n d
    refine ⟨_, (hn i n hi).1 hreach, h1, h2, h3, h4, .inr (Compile.connectLoose_exitDests n d), ?_⟩
    intro k x hk hx
    rw [Compile.connectLoose_exitDests, List.getElem?_map, hk]
    cases x <;> simp_all [Compile.fillLoose]
  · exact ⟨n, (hn i n hi).2 hreach, rfl, rfl, rfl, rfl, .inl rfl, fun k x hk _ => hk⟩

/-- **Every still-unconnected exit of every reached node now leads to the edge's destination**
(when the edge has one), hard exits and connected exits as before; afterwards the node has no
loose exit left. -/
theorem block_edge_connects_reach (fuel g : Nat) (d : Compile.Dest) (c : Compile.Cond) (s s' : Compile.St)
    (children : List Nat) (hg : s.groups[g]? = some (.block children))
    (hr : (Compile.addExit fuel g d c).run s = .ok ((), s')) (hd : d ≠ .none) :
    ∀ (i : Nat) (n : Compile.NodeM), Compile.Reach s.groups g i → s.nodes[i]? = some n →
      ∃ n', s'.nodes[i]? = some n' ∧ n'.exitDests = n.exitDests.map (Compile.fillLoose d) ∧
        n'.hasLoose = false := by
  obtain ⟨_, _, hn, _⟩ := block_edge_group fuel g d c s s' children hg hr
  intro i n hreach hi
  exact ⟨_, (hn i n hi).1 hreach, Compile.connectLoose_exitDests n d, Compile.connectLoose_no_loose n d hd⟩

/-- **Only nodes of the block are touched — when no begin row leaks**: if every `no_op` group in
the block's subtree that has no router node has all its parents inside the subtree
(`Compile.NoParentLeak`), every node reached from the block — hence every node an edge naming the
block changes — is held by a group of the block's subtree. -/
theorem block_edge_inside (gs : Array Compile.Grp) (b : Nat) (h : Compile.NoParentLeak gs b)
    (i : Nat) (hr : Compile.Reach gs b i) : Compile.InSubtree gs b i :=
  Compile.reach_in_subtree h hr (.refl b)

/-- a sufficient, decidable condition: no router-less `no_op` group of the arena has a parent -/
def noNoopParents (gs : Array Compile.Grp) : Bool :=
  gs.toList.all fun g => match g with
    | .noop (_ :: _) none => false
    | _ => true

theorem noParentLeak_of_noNoopParents (gs : Array Compile.Grp) (b : Nat) (h : noNoopParents gs = true) :
    Compile.NoParentLeak gs b := by
  intro x ps p _ hx hp
  have hm : Compile.Grp.noop ps none ∈ gs.toList := by
    rw [Array.mem_toList_iff]
    exact Array.mem_of_getElem? hx
  unfold noNoopParents at h
  rw [List.all_eq_true] at h
  have := h _ hm
  cases ps with
  | nil => cases hp
  | cons q qs => simp at this

/-! #### finding F-C03-a: the begin row, kept as a `no_op` group INSIDE the block, has the row that
leads into the block as its parent — so `Reach` of the block leaves the block -/

/-- `w` waits for a response; the block `B` is entered on the answer "yes" and contains the row `x` -/
def leakPrefix : List Compile.Event :=
  [ .row (C01.mkRow "w" "wait_for_response" [C01.edgeFrom "start"]),
    .openGroup [C01.edgeFrom "w" "yes"] false,
    .row (C01.mkRow "x" "send_message" [C01.edgeFrom ""] (some "in block")),
    .closeGroup "B".toList ]

/-- the row after the block, with an edge that names the block -/
def leakRow : Compile.Event :=
  .row (C01.mkRow "R" "send_message" [C01.edgeFrom "B"] (some "after the block"))

/-- the machine state after the events (when they succeed) -/
def runEvents (noArgs testTypes : List Str) (evs : List Compile.Event) : Option Compile.St :=
  match (Compile.steps evs).run (Compile.initSt noArgs testTypes) with
  | .ok (_, s) => some s
  | .error _ => none

theorem runEvents_some {noArgs testTypes : List Str} {evs : List Compile.Event} {s : Compile.St}
    (h : runEvents noArgs testTypes evs = some s) :
    (Compile.steps evs).run (Compile.initSt noArgs testTypes) = .ok ((), s) := by
  unfold runEvents at h
  split at h
  · rename_i u s0 hs; injection h with h; subst h; exact hs
  · cases h

/-- **F-C03-a, kernel-checked on the model** (the real code behaves the same, tied in C01): in the
state reached before the row after the block, group 2 is the block (children: the begin row's
`no_op` group 3 and the row group 4 of `x`), group 3 has the row group 1 of `w` — OUTSIDE the block —
as its parent, so node 0 (the router of `w`) is reached from the block although no group of the
block's subtree holds it; and the compiled flow shows it: without the row `R` the default exit of
`w` leads nowhere, with it that exit leads to `R`'s node. -/
theorem block_edge_reaches_outside :
    ∃ s, runEvents [] C01.exTests leakPrefix = some s ∧
      s.groups[2]? = some (.block [3, 4]) ∧ Compile.Reach s.groups 2 0 ∧
      ¬ Compile.InSubtree s.groups 2 0 ∧ ¬ Compile.NoParentLeak s.groups 2 ∧
      (Compile.compile [] C01.exTests leakPrefix).toOption.map
          (fun o => (Compile.renderOut o).nodes.map (fun n => n.exits.map (·.dest))) =
        some [[some "~5".toList, none], [none]] ∧
      (Compile.compile [] C01.exTests (leakPrefix ++ [leakRow])).toOption.map
          (fun o => (Compile.renderOut o).nodes.map (fun n => n.exits.map (·.dest))) =
        some [[some "~5".toList, some "~12".toList], [some "~12".toList], [none]] := by
  have h : (match runEvents [] C01.exTests leakPrefix with
      | some s => decide (s.groups[2]? = some (.block [3, 4]) ∧
          s.groups[3]? = some (.noop [(1, (C01.edgeFrom "w" "yes").cond)] none) ∧
          s.groups[1]? = some (.row [0] "wait_for_response".toList) ∧
          s.groups[4]? = some (.row [1] "send_message".toList))
      | none => false) = true := by decide +kernel
  split at h
  · rename_i s hs
    simp only [decide_eq_true_eq] at h
    obtain ⟨h2, h3, h1, h4⟩ := h
    have hreach : Compile.Reach s.groups 2 0 :=
      .child h2 (by simp) (.parent h3 (List.mem_singleton.mpr rfl) (.row h1 rfl))
    have hb := Compile.final_binv (runEvents_some hs)
    have hnot : ¬ Compile.InSubtree s.groups 2 0 := by
      rintro ⟨y, grp, hd, hy, hm⟩
      have : y = 1 := hb.n.huniq y 1 (Compile.held grp) [0] 0 (by simp [Compile.heldF, hy])
        (by simp [Compile.heldF, h1, Compile.held]) hm (by simp)
      subst this
      have := hd.le hb.g
      omega
    refine ⟨s, hs, h2, hreach, hnot, fun hnl => hnot (block_edge_inside _ _ hnl 0 hreach), ?_, ?_⟩
    · decide +kernel
    · decide +kernel
  · cases h

/-- non-vacuity of `block_edge_group` / `block_edge_frame` / `block_edge_connects_reach`: in the
state of `block_edge_reaches_outside` the edge naming the block (group 2) is accepted with the
machine's own fuel -/
example : ∃ s s', runEvents [] C01.exTests leakPrefix = some s ∧
    s.groups[2]? = some (.block [3, 4]) ∧
    (Compile.addExit (2 * s.groups.size + 8) 2 (.node "R".toList) C01.blankCond).run s = .ok ((), s') := by
  have h : (match runEvents [] C01.exTests leakPrefix with
      | some s => decide (s.groups[2]? = some (.block [3, 4])) &&
          (match (Compile.addExit (2 * s.groups.size + 8) 2 (.node "R".toList) C01.blankCond).run s with
           | .ok _ => true
           | .error _ => false)
      | none => false) = true := by decide +kernel
  split at h
  · rename_i s hs
    simp only [Bool.and_eq_true, decide_eq_true_eq] at h
    obtain ⟨h2, h3⟩ := h
    split at h3
    · rename_i u hu
      exact ⟨s, u.2, hs, h2, hu⟩
    · cases h3
  · cases h

/-- a block that is not entered through an edge: nothing leaks, `block_edge_inside` applies -/
def tightPrefix : List Compile.Event :=
  [ .openGroup [] true,
    .row (C01.mkRow "x" "send_message" [C01.edgeFrom ""] (some "in block")),
    .closeGroup "B".toList ]

example : ∃ s, runEvents [] C01.exTests tightPrefix = some s ∧ s.groups[1]? = some (.block [2]) ∧
    Compile.NoParentLeak s.groups 1 ∧ Compile.Reach s.groups 1 0 := by
  have h : (match runEvents [] C01.exTests tightPrefix with
      | some s => decide (s.groups[1]? = some (.block [2]) ∧
          s.groups[2]? = some (.row [0] "send_message".toList) ∧ noNoopParents s.groups = true)
      | none => false) = true := by decide +kernel
  split at h
  · rename_i s hs
    simp only [decide_eq_true_eq] at h
    obtain ⟨h1, h2, h3⟩ := h
    exact ⟨s, hs, h1, noParentLeak_of_noNoopParents _ _ h3, .child h1 (by simp) (.row h2 rfl)⟩
  · cases h

def toCompileEvent : Ev Compile.Row BeginHdr → Compile.Event
  | .row r => .row r
  | .open_ h => .openGroup h.edges h.starting
  | .close h => .closeGroup h.rowId

/-- the flow the models assign to a sheet tree in a context: parser events, then the compiler
machine (`Rpft/Compile.lean`, tied to the real FlowParser by exact comparison) -/
def compileSheet {Raw Ctx Val Err : Type} (I : Iface Raw Compile.Row Ctx Val BeginHdr Err)
    (noArgs testTypes : List Str) (ctx : Ctx) (its : List (Item Raw)) :
    Except Err (Except Compile.Err Compile.Out) :=
  match evItems I ctx its with
  | .error e => .error e
  | .ok es => .ok (Compile.compile noArgs testTypes (es.map toCompileEvent))

/-- **compile ∘ desugar = compile**: on the models, for every sheet tree, context and template
interface satisfying `Laws`, the sugared sheet and its desugared form compile to the SAME flow
(the same final machine output, identifier counter included) — not merely to equivalent ones. -/
theorem compile_desugar {Raw Ctx Val Err : Type} (I : Iface Raw Compile.Row Ctx Val BeginHdr Err)
    (L : Laws I) (noArgs testTypes : List Str) (its its' : List (Item Raw)) (ctx ctx' : Ctx)
    (h : dsItems I ctx its = .ok its') :
    compileSheet I noArgs testTypes ctx' its' = compileSheet I noArgs testTypes ctx its := by
  obtain ⟨es, h1, h2⟩ := events_desugar I L its its' ctx h
  simp [compileSheet, h1, h2 ctx']

/-! ### a concrete interface: non-vacuity of `Laws` and a worked unrolling -/

/-- toy raw rows: a number, optionally "plus the loop variable" -/
structure TRaw where
  base : Nat
  useVar : Bool
  incl : Bool
  loop : Option (List Nat)  -- a begin_for row: the list it iterates over
  deriving DecidableEq, Repr

structure TRow where
  text : Nat
  incl : Bool
  loop : Option (List Nat)
  deriving DecidableEq, Repr

def toy : Iface TRaw TRow (Option Nat) Nat Nat Unit :=
  { inst := fun ctx r => .ok { text := if r.useVar then r.base + ctx.getD 0 else r.base, incl := r.incl, loop := r.loop }
    includeIf := fun i => i.incl
    loopVars := fun i => if i.loop.isSome then some ("v".toList, none) else none
    iterList := fun i => i.loop.getD []
    bind := fun _ _ x => some x
    bindIdx := fun c _ _ => c
    hdr := fun i => i.text
    noVarErr := ()
    lit := fun i => { base := i.text, useVar := false, incl := i.incl, loop := i.loop }
    asBlock := fun i => { i with loop := none } }

theorem toy_laws : Laws toy := by
  refine ⟨?_, ?_, ?_⟩
  · intro ctx i; rfl
  · intro i; rfl
  · intro i h; exact h

def toySheet : List (Item TRaw) :=
  [.forLoop ⟨5, false, true, some [7, 8]⟩ [.row ⟨100, true, true, none⟩, .row ⟨2, false, false, none⟩]]

def toyEvents : List (Ev TRow Nat) :=
  [.open_ 5, .row ⟨107, true, none⟩, .row ⟨108, true, none⟩, .close 5]

/-- a loop over [7, 8] around two rows (one excluded) unrolls into a block of two literal rows,
and the parser performs the same events on the sheet and on its desugared form -/
example : (evItems toy none toySheet).toOption = some toyEvents := by decide

example : (dsItems toy none toySheet).toOption.bind (fun tw => (evItems toy (some 3) tw).toOption) =
    some toyEvents := by decide

end Rpft.Props.C03
