/-
C03 — loops, blocks, include_if and inserted blocks are pure sugar over plain rows.

(1) Equivalence "for all contact input sequences" between the flow compiled from a sugared
sheet and the flow compiled from its desugared twin is decided per pair by the verified
certificate checker at the FULL observation level (category names and result names
included): `sugar_equiv_of_cert`.
(2) The block structure of the parser and the desugaring are modelled in `Rpft/Sugar.lean`
(row instantiation and the NodeGroup machinery are abstract parameters).  `events_desugar`:
for EVERY sheet tree, context and interface satisfying `Laws`, the parser performs exactly
the same sequence of row / open-group / close-group events on the sheet and on its desugared
form, and fails with the same error when it fails — loops unrolled in order with the loop and
index variables bound, rows and blocks with a false include_if dropped without their contents
being instantiated, nesting to any depth.
-/
import Rpft.Props.C02
import Rpft.Lemmas.Sugar
import Rpft.Compile
import Rpft.Lemmas.CompileExits
set_option linter.unusedSimpArgs false
set_option linter.unusedVariables false
namespace Rpft.Props.C03
open Rpft Rpft.Bisim Rpft.Flow Rpft.Sugar

/-- the observation level of C03: everything (operands, tests, arguments, order, category
names, timeouts, result names, action content) -/
def fullLvl : ObsLevel := ⟨true, true⟩

theorem sugar_equiv_of_cert (sugared desugared : Flow.Flow) (R : List (St × St))
    (h : certOk fullLvl sugared desugared R = true) :
    ∀ (env : Nat → Nat) (n : Nat), trace fullLvl sugared env n = trace fullLvl desugared env n :=
  Props.C02.flows_equiv_of_cert fullLvl sugared desugared R h

variable {Raw Inst Ctx Val Hdr Err : Type}

/-- **Desugaring preserves what the parser does**: if the desugared form of `its` in context
`ctx` is `its'`, then parsing `its` in `ctx` succeeds with some event sequence `es`, and
parsing `its'` gives the same `es` in ANY context (the desugared rows are literal). -/
theorem events_desugar (I : Iface Raw Inst Ctx Val Hdr Err) (L : Laws I)
    (its its' : List (Item Raw)) (ctx : Ctx) (h : dsItems I ctx its = .ok its') :
    ∃ es, evItems I ctx its = .ok es ∧ ∀ ctx', evItems I ctx' its' = .ok es := by
  have := agree_items I L its ctx
  unfold Agree at this
  simpa [h] using this

/-- …and when desugaring fails (a row cannot be instantiated, a loop has no variable), parsing
the sugared sheet fails with the same error. -/
theorem errors_desugar (I : Iface Raw Inst Ctx Val Hdr Err) (L : Laws I)
    (its : List (Item Raw)) (ctx : Ctx) (e : Err) (h : dsItems I ctx its = .error e) :
    evItems I ctx its = .error e := by
  have := agree_items I L its ctx
  unfold Agree at this
  simpa [h] using this

/-- A block whose include_if is false contributes nothing, whatever it contains: its contents
are never instantiated (replace them by anything). -/
theorem omitted_block_unevaluated (I : Iface Raw Inst Ctx Val Hdr Err) (ctx : Ctx) (b : Raw) (i : Inst)
    (body body' : List (Item Raw)) (hi : I.inst ctx b = .ok i) (hinc : I.includeIf i = false) :
    evItem I ctx (.block b body) = .ok [] ∧ evItem I ctx (.block b body') = .ok [] ∧
    evItem I ctx (.forLoop b body) = .ok [] := by
  simp [evItem, hi, hinc]

/-- A loop over the empty list is an empty group: it opens and closes, nothing in between,
and its body is not instantiated. -/
theorem zero_iterations (I : Iface Raw Inst Ctx Val Hdr Err) (ctx : Ctx) (b : Raw) (i : Inst)
    (body : List (Item Raw)) (v : Str) (idx : Option Str)
    (hi : I.inst ctx b = .ok i) (hinc : I.includeIf i = true) (hv : I.loopVars i = some (v, idx))
    (h0 : I.iterList i = []) :
    evItem I ctx (.forLoop b body) = .ok [.open_ (I.hdr i), .close (I.hdr i)] := by
  simp [evItem, hi, hinc, hv, h0, sequence]

/-- Loop variables are gone after `end_for`: the items after a loop are parsed in the context
before the loop (the loop's bindings are visible to its body only). -/
theorem for_scope (I : Iface Raw Inst Ctx Val Hdr Err) (ctx : Ctx) (b : Raw)
    (body rest : List (Item Raw)) (a r : List (Ev Inst Hdr))
    (ha : evItem I ctx (.forLoop b body) = .ok a) (hr : evItems I ctx rest = .ok r) :
    evItems I ctx (.forLoop b body :: rest) = .ok (a ++ r) := by
  rw [evItems_cons]; simp [ha, hr]

/-- A begin_for without a loop variable is an error (when the row is included). -/
theorem loop_without_variable (I : Iface Raw Inst Ctx Val Hdr Err) (ctx : Ctx) (b : Raw) (i : Inst)
    (body : List (Item Raw)) (hi : I.inst ctx b = .ok i) (hinc : I.includeIf i = true)
    (hv : I.loopVars i = none) :
    evItem I ctx (.forLoop b body) = .error I.noVarErr := by
  simp [evItem, hi, hinc, hv]

/-! ### end to end on the models: parser structure ∘ compiler -/

/-- what the compiler model reads of a begin row -/
structure BeginHdr where
  edges : List Compile.Edge
  starting : Bool
  rowId : Str
  deriving DecidableEq, Repr

/-! ### the block clause on the compiler model (node level) -/

/-- **An edge that names a block leaves from the still-unconnected ordinary exits, never from a
hard exit** — at the level of one node of the compiler model (`connect_loose_exits` of the node's
exits, reached from `add_exit` of a block through `NodeGroup.connect_loose_exits`): the exits that
lead nowhere are re-targeted to the edge's destination, every other exit keeps its destination
(a hard exit stays a hard exit, an exit into a node stays there), and number and order of the exits
are unchanged.  Which nodes of the block are visited is the group recursion of `Compile.connectLoose`
(tied to the real parser by the exact comparison of C01; decided on the real code by the
with/without-edge oracle). -/
theorem block_edge_exits (n : Compile.NodeM) (d : Compile.Dest) :
    (n.connectLoose d).exitDests = n.exitDests.map (Compile.fillLoose d) ∧
    Compile.fillLoose d .hard = .hard ∧ (∀ u, Compile.fillLoose d (.node u) = .node u) ∧
    Compile.fillLoose d .none = d :=
  ⟨Compile.connectLoose_exitDests n d, Compile.fillLoose_hard d, Compile.fillLoose_node d,
   Compile.fillLoose_none d⟩

/-- …and afterwards the node has no loose exit left (so a second edge naming the block finds
"no loose exit to connect to", as the real parser reports). -/
theorem block_edge_consumes_loose (n : Compile.NodeM) (d : Compile.Dest) (hd : d ≠ .none) :
    (n.connectLoose d).hasLoose = false := Compile.connectLoose_no_loose n d hd


def toCompileEvent : Ev Compile.Row BeginHdr → Compile.Event
  | .row r => .row r
  | .open_ h => .openGroup h.edges h.starting
  | .close h => .closeGroup h.rowId

/-- the flow the models assign to a sheet tree in a context: parser events, then the compiler
machine (`Rpft/Compile.lean`, tied to the real FlowParser by exact comparison) -/
def compileSheet {Raw Ctx Val Err : Type} (I : Iface Raw Compile.Row Ctx Val BeginHdr Err)
    (noArgs testTypes : List Str) (ctx : Ctx) (its : List (Item Raw)) :
    Except Err (Except Compile.Err Compile.Out) :=
  match evItems I ctx its with
  | .error e => .error e
  | .ok es => .ok (Compile.compile noArgs testTypes (es.map toCompileEvent))

/-- **compile ∘ desugar = compile**: on the models, for every sheet tree, context and template
interface satisfying `Laws`, the sugared sheet and its desugared form compile to the SAME flow
(the same final machine output, identifier counter included) — not merely to equivalent ones. -/
theorem compile_desugar {Raw Ctx Val Err : Type} (I : Iface Raw Compile.Row Ctx Val BeginHdr Err)
    (L : Laws I) (noArgs testTypes : List Str) (its its' : List (Item Raw)) (ctx ctx' : Ctx)
    (h : dsItems I ctx its = .ok its') :
    compileSheet I noArgs testTypes ctx' its' = compileSheet I noArgs testTypes ctx its := by
  obtain ⟨es, h1, h2⟩ := events_desugar I L its its' ctx h
  simp [compileSheet, h1, h2 ctx']

/-! ### a concrete interface: non-vacuity of `Laws` and a worked unrolling -/

/-- toy raw rows: a number, optionally "plus the loop variable" -/
structure TRaw where
  base : Nat
  useVar : Bool
  incl : Bool
  loop : Option (List Nat)  -- a begin_for row: the list it iterates over
  deriving DecidableEq, Repr

structure TRow where
  text : Nat
  incl : Bool
  loop : Option (List Nat)
  deriving DecidableEq, Repr

def toy : Iface TRaw TRow (Option Nat) Nat Nat Unit :=
  { inst := fun ctx r => .ok { text := if r.useVar then r.base + ctx.getD 0 else r.base, incl := r.incl, loop := r.loop }
    includeIf := fun i => i.incl
    loopVars := fun i => if i.loop.isSome then some ("v".toList, none) else none
    iterList := fun i => i.loop.getD []
    bind := fun _ _ x => some x
    bindIdx := fun c _ _ => c
    hdr := fun i => i.text
    noVarErr := ()
    lit := fun i => { base := i.text, useVar := false, incl := i.incl, loop := i.loop }
    asBlock := fun i => { i with loop := none } }

theorem toy_laws : Laws toy := by
  refine ⟨?_, ?_, ?_⟩
  · intro ctx i; rfl
  · intro i; rfl
  · intro i h; exact h

def toySheet : List (Item TRaw) :=
  [.forLoop ⟨5, false, true, some [7, 8]⟩ [.row ⟨100, true, true, none⟩, .row ⟨2, false, false, none⟩]]

def toyEvents : List (Ev TRow Nat) :=
  [.open_ 5, .row ⟨107, true, none⟩, .row ⟨108, true, none⟩, .close 5]

/-- a loop over [7, 8] around two rows (one excluded) unrolls into a block of two literal rows,
and the parser performs the same events on the sheet and on its desugared form -/
example : (evItems toy none toySheet).toOption = some toyEvents := by decide

example : (dsItems toy none toySheet).toOption.bind (fun tw => (evItems toy (some 3) tw).toOption) =
    some toyEvents := by decide

end Rpft.Props.C03
