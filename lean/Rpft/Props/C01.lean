/-
C01 — every compiled flow is a referentially closed RapidPro definition.

`Closed` (Rpft/Flow.lean) is the statement of C01 for one flow, written with the
quantifiers of the property; `closedB` is the decision procedure run on EVERY real
compiler output by the driver; `closedB_iff` says the procedure is the statement.
`closed_exits_resolve` / `closed_choice_defined` connect closure to the transition system:
in a closed flow no path ends because of a structural fault.

The compiler model (`Rpft/Compile.lean`, an arena state machine driven by the parser's events,
tied to the real `FlowParser` by exact comparison of outputs) is proved closed BY CONSTRUCTION,
for ALL event sequences (unbounded; rows, nested groups, inserted blocks), by invariants of the
machine's execution (`Lemmas/CompileWp`, `CompileInvA*`, `CompileInvB*`, `CompileEmit`,
`CompileFinal*`):
* `compile_cases_resolve`  — every case names a category of its own router   (no hypothesis)
* `compile_dests_resolve`  — every destination is a node of the EMITTED flow   (no hypothesis)
* `compile_closed_iff`     — `Closed (renderOut out) ↔` node identifiers pairwise different, for
  sheets WITH `_nodeId`s (that do not look like invented identifiers: `PlainGivenIds`,
  `needs_plain_given_ids`): a duplicated node identifier is the only way to a non-closed flow
* `compile_closed`         — `Closed (renderOut out)`, the full C01 statement, under `NoGivenIds`
  (no `_nodeId` given in the sheet; `needs_no_given_ids` shows the hypothesis is needed: it is
  the known finding F-C01-a of the real code)
* `compile_ids_invented`   — under `NoGivenIds` every identifier of the document came from the counter.
-/
import Rpft.Flow
import Rpft.Lemmas.Compile
import Rpft.CompileRender
import Rpft.Lemmas.CompileFinalB
set_option linter.unusedSimpArgs false
set_option linter.unusedVariables false
namespace Rpft.Props.C01
open Rpft Rpft.Flow

/-- The decision procedure is the property, for every flow document. -/
theorem closedB_iff (f : Flow.Flow) : closedB f = true ↔ Closed f := by
  simp [closedB]

/-- In a closed flow every exit that leads somewhere leads to a node the interpreter finds. -/
theorem closed_exits_resolve (f : Flow.Flow) (h : Closed f) :
    ∀ n ∈ f.nodes, ∀ e ∈ n.exits, ∀ d, e.dest = some d → (findNode f d).isSome = true := by
  intro n hn e he d hd
  have hnc := (h.2.1 n hn).1 e he d (by simp [hd])
  simp only [List.mem_map] at hnc
  obtain ⟨m, hm, hmu⟩ := hnc
  unfold findNode
  rw [List.findIdx?_isSome]
  simp only [List.any_eq_true, decide_eq_true_eq]
  exact ⟨m, hm, hmu⟩

theorem mem_uuids_find {cats : List Category} {u : Id} (h : u ∈ cats.map (·.uuid)) :
    ∃ c, cats.find? (·.uuid = u) = some c ∧ c ∈ cats ∧ c.uuid = u := by
  simp only [List.mem_map] at h
  obtain ⟨c, hc, hcu⟩ := h
  cases hf : cats.find? (·.uuid = u) with
  | none =>
    have := List.find?_eq_none.mp hf c hc
    simp [hcu] at this
  | some c' =>
    refine ⟨c', rfl, List.mem_of_find?_eq_some hf, ?_⟩
    have := List.find?_some hf
    simpa using this

/-- In a closed flow every admissible answer at a decision selects a category that exists
and owns an exit of the node: the decision always has a well-defined continuation. -/
theorem closed_choice_defined (f : Flow.Flow) (h : Closed f) :
    ∀ n ∈ f.nodes, ∀ r, n.router = some r → ∀ c, c < routerArity r →
      ∃ cat, routerChoice r c = some cat ∧
        ∃ k ∈ r.cats, k.uuid = cat ∧ ∃ e ∈ n.exits, e.uuid = k.exitUuid := by
  intro n hn r hr c hc
  have hrc : RouterClosed r n.exits := (h.2.1 n hn).2.1 r (by simp [hr])
  obtain ⟨⟨_, _, hce, _⟩, _, hcases, hdef, htime⟩ := hrc
  have fin : ∀ cat, cat ∈ r.cats.map (·.uuid) →
      ∃ k ∈ r.cats, k.uuid = cat ∧ ∃ e ∈ n.exits, e.uuid = k.exitUuid := by
    intro cat hcat
    simp only [List.mem_map] at hcat
    obtain ⟨k, hk, hku⟩ := hcat
    have := hce k hk
    simp only [List.mem_map] at this
    obtain ⟨e, he, heu⟩ := this
    exact ⟨k, hk, hku, e, he, heu⟩
  cases r with
  | random cats rn =>
    simp only [routerArity] at hc
    refine ⟨(cats[c]).uuid, ?_, ?_⟩
    · simp [routerChoice, hc]
    · exact fin _ (by simp [Router.cats]; exact ⟨cats[c], List.getElem_mem _, rfl⟩)
  | «switch» o cases cats d w rn =>
    simp only [routerArity] at hc
    by_cases h1 : c < cases.length
    · refine ⟨(cases[c]).catUuid, by simp [routerChoice, h1], ?_⟩
      exact fin _ (hcases (cases[c]) (by simp [Router.cases]))
    · by_cases h2 : c = cases.length
      · refine ⟨d, by simp [routerChoice, h2], ?_⟩
        exact fin _ (hdef d (by simp [Router.defaultCats]))
      · match w, hc, htime with
        | some (some (secs, t)), hc, htime =>
          refine ⟨t, by simp [routerChoice, h1, h2], ?_⟩
          exact fin _ (htime t (by simp [Router.timeoutCats]))
        | some none, hc, _ => simp at hc; omega
        | none, hc, _ => simp at hc; omega

/-! ### the compiler model (Rpft/Compile.lean, tied to the real parser by exact comparison) -/

/-- No internal marker reaches the document: the hard-exit sentinel renders as "leads nowhere",
and whatever an exit renders to is the identifier of the node it points to. -/
theorem render_no_sentinel (d : Compile.Dest) :
    Compile.renderDest .hard = none ∧
    (∀ u, Compile.renderDest d = some u → d = .node u) := by
  refine ⟨rfl, ?_⟩
  intro u h
  cases d with
  | none => simp [Compile.renderDest] at h
  | hard => simp [Compile.renderDest] at h
  | node v => simp [Compile.renderDest] at h; rw [h]

/-- Identifiers the compiler model invents are `~n` for the value of its counter, the counter
only grows, and different counter values give different identifiers: an invented identifier
is never handed out twice. -/
theorem invented_ids_distinct (s : Compile.St) (a b : Nat) (h : a ≠ b) :
    ('~' :: Compile.natStr a) ≠ ('~' :: Compile.natStr b) ∧
    Compile.fresh.run s = .ok ('~' :: Compile.natStr s.next, { s with next := s.next + 1 }) := by
  refine ⟨?_, Compile.fresh_spec s⟩
  intro he
  injection he with _ ht
  exact h (Compile.natStr_injective ht)

/-- Updating destinations never changes which categories a router has, so cases keep naming
categories of their own router (`mapCats` is the only way the model rewrites categories). -/
theorem case_categories_stable (r : Compile.SwitchR) (f : Compile.Cat → Compile.Cat)
    (hf : ∀ c, (f c).uid = c.uid) (h : Compile.CaseCatsOk r) : Compile.CaseCatsOk (r.mapCats f) :=
  Compile.caseCatsOk_mapCats r f hf h

/-- **Closure by the shape of the data**: whatever the compiler machine did, every node it
renders has its categories and exits in one-to-one positional correspondence (category k owns
exit k), its default category — and with a timeout its no-response category — among its
categories, and exactly one exit when it has no router.  The remaining clauses of C01
(uniqueness of identifiers, destinations inside the flow, case → category) are invariants of the
machine's execution: `compile_cases_resolve`, `compile_dests_resolve`, `compile_closed` below. -/
theorem rendered_node_shape (n : Compile.NodeM) :
    let m := Compile.renderNode n
    (∀ r, m.router = some r → r.cats.map (·.exitUuid) = m.exits.map (·.uuid)) ∧
    (∀ r, m.router = some r → ∀ d ∈ r.defaultCats, d ∈ r.cats.map (·.uuid)) ∧
    (∀ r, m.router = some r → ∀ t ∈ r.timeoutCats, t ∈ r.cats.map (·.uuid)) ∧
    (m.router = none → m.exits.length = 1) := by
  cases hn : n.router with
  | none => simp [Compile.renderNode, hn]
  | some rt =>
    cases rt with
    | rnd r =>
      simp [Compile.renderNode, hn, Compile.renderRouter, Flow.Router.cats, Flow.Router.defaultCats,
        Flow.Router.timeoutCats, Compile.renderCat, Compile.renderExit, List.map_map, Function.comp]
    | sw r =>
      refine ⟨?_, ?_, ?_, ?_⟩
      · intro r' hr'
        simp only [Compile.renderNode, hn, Option.map_some, Option.some.injEq] at hr'
        subst hr'
        simp [Compile.renderNode, hn, Compile.renderRouter, Flow.Router.cats, Compile.renderCat,
          Compile.renderExit, List.map_map, Function.comp]
      · intro r' hr' d hd
        simp only [Compile.renderNode, hn, Option.map_some, Option.some.injEq] at hr'
        subst hr'
        simp only [Compile.renderRouter, Flow.Router.defaultCats, List.mem_singleton] at hd
        subst hd
        simp [Compile.renderRouter, Flow.Router.cats, Compile.SwitchR.allCats, Compile.renderCat,
          List.map_map, Function.comp]
      · intro r' hr' t ht
        simp only [Compile.renderNode, hn, Option.map_some, Option.some.injEq] at hr'
        subst hr'
        simp only [Compile.renderRouter] at ht
        cases hw : r.wait with
        | none => simp [hw, Flow.Router.timeoutCats] at ht
        | some w =>
          cases w with
          | zero => simp [hw, Flow.Router.timeoutCats] at ht
          | succ k =>
            cases hnr : r.noResp with
            | none => simp [hw, hnr, Flow.Router.timeoutCats] at ht
            | some nr =>
              simp only [hw, hnr, Flow.Router.timeoutCats, List.mem_singleton] at ht
              subst ht
              simp [Compile.renderRouter, Flow.Router.cats, Compile.SwitchR.allCats, hnr,
                Compile.renderCat, List.map_map, Function.comp]
      · intro h
        simp [Compile.renderNode, hn] at h

/-! #### example sheets (used by the non-vacuity examples and the negative witness below) -/

def blankCond : Compile.Cond := { value := [], var := [], type := [], name := [] }

def edgeFrom (f : String) (v : String := "") : Compile.Edge :=
  { from_ := f.toList, cond := { blankCond with value := v.toList } }

def mkRow (id type : String) (edges : List Compile.Edge) (action : Option String := none)
    (dests : List String := []) (nodeUuid : String := "") : Compile.Row :=
  { rowId := id.toList, type := type.toList, edges := edges, action := action.map String.toList,
    actionOk := true, ownAction := none, nodeUuid := nodeUuid.toList, nodeName := [], saveName := [],
    noResponse := [], expression := [], flowName := [], dests := dests.map String.toList,
    resultKey := none, nodeOk := true }

/-- a message, a router (`wait_for_response` with two conditional edges), a block entered on one
answer, a `go_to` from the block back to the first row, an inserted block (its own row ids; a
random split inside) and a sub-flow node behind it -/
def exEvents : List Compile.Event :=
  [ .row (mkRow "1" "send_message" [edgeFrom ""] (some "hello")),
    .row (mkRow "2" "wait_for_response" [edgeFrom ""]),
    .openGroup [edgeFrom "2" "yes"] false,
    .row (mkRow "3" "send_message" [edgeFrom ""] (some "in block")),
    .closeGroup "b".toList,
    .row (mkRow "4" "go_to" [edgeFrom "b"] none ["1"]),
    .row (mkRow "5" "send_message" [edgeFrom "2" "no"] (some "bye")),
    .insert (mkRow "6" "insert_as_block" [edgeFrom "5"])
      [ .row (mkRow "1" "send_message" [edgeFrom ""] (some "inner")),
        .row (mkRow "2" "split_random" [edgeFrom ""]),
        .row (mkRow "3" "send_message" [edgeFrom "2" "a"] (some "A")) ],
    .row (mkRow "7" "start_new_flow" [edgeFrom "6"]) ]

/-- finding F-C01-a: an action row and a following router row give the same `_nodeId` -/
def badEvents : List Compile.Event :=
  [ .row (mkRow "1" "send_message" [edgeFrom ""] (some "hello") [] "X"),
    .row (mkRow "2" "wait_for_response" [edgeFrom "1"] none [] "X") ]

/-- legitimate use of `_nodeId`: two action rows merge into node `N1`, the router is `N2` -/
def mergeEvents : List Compile.Event :=
  [ .row (mkRow "1" "send_message" [edgeFrom ""] (some "hello") [] "N1"),
    .row (mkRow "2" "send_message" [edgeFrom "1"] (some "again") [] "N1"),
    .row (mkRow "3" "wait_for_response" [edgeFrom "2"] none [] "N2"),
    .row (mkRow "4" "send_message" [edgeFrom "3" "yes"] (some "bye")) ]

/-- a given `_nodeId` that looks like an identifier the model invents (`~0` is the uuid of the
first row's action) -/
def tildeEvents : List Compile.Event :=
  [ .row (mkRow "1" "send_message" [edgeFrom ""] (some "hello")),
    .row (mkRow "2" "send_message" [edgeFrom "1"] (some "again") [] "~0") ]

def exTests : List Str := ["has_any_word".toList, "has_only_text".toList]

/-- `some true` / `some false`: compiles, and the output is / is not closed; `none`: error -/
def outcome (noArgs testTypes : List Str) (evs : List Compile.Event) : Option Bool :=
  match Compile.compile noArgs testTypes evs with
  | .ok out => some (decide (Closed (Compile.renderOut out)))
  | .error _ => none

theorem outcome_some {noArgs testTypes : List Str} {evs : List Compile.Event} {b : Bool}
    (h : outcome noArgs testTypes evs = some b) :
    ∃ out, Compile.compile noArgs testTypes evs = .ok out ∧ (Closed (Compile.renderOut out) ↔ b = true) := by
  unfold outcome at h
  split at h
  · rename_i out ho
    injection h with h
    exact ⟨out, ho, by rw [← h]; simp⟩
  · cases h

/-- **Cases resolve, for ALL event sequences**: whatever rows, groups and inserted blocks the
parser is fed, if the compiler model succeeds then every case of every router of the emitted flow
names a category of that same router (invariant `CaseCatsOk` of the machine, by induction over
the event sequence; no hypothesis on the sheet). -/
theorem compile_cases_resolve (noArgs testTypes : List Str) (evs : List Compile.Event) (out : Compile.Out)
    (h : Compile.compile noArgs testTypes evs = .ok out) :
    ∀ n ∈ (Compile.renderOut out).nodes, ∀ r, n.router = some r →
      ∀ k ∈ r.cases, k.catUuid ∈ r.cats.map (·.uuid) := by
  obtain ⟨s, hr, _, ho⟩ := Compile.compile_ok h
  intro n hn
  simp only [Compile.renderOut, List.mem_map] at hn
  obtain ⟨m, hm, rfl⟩ := hn
  rw [ho] at hm
  obtain ⟨i, hi⟩ := Compile.out_nodes_arena hm
  have a := Compile.final_ainv Compile.Flags.none ⟨fun hf => hf.elim, fun hf => hf.elim⟩ hr
  exact Compile.rendered_cases_ok (a.ok i m hi).cases

/-- non-vacuity: the example sheet (router, block, `go_to`, inserted block) compiles, and its cases name categories -/
example : ∃ out, Compile.compile [] exTests exEvents = .ok out ∧
    ∀ n ∈ (Compile.renderOut out).nodes, ∀ r, n.router = some r →
      ∀ k ∈ r.cases, k.catUuid ∈ r.cats.map (·.uuid) := by
  obtain ⟨out, ho, _⟩ := outcome_some (show outcome [] exTests exEvents = some true by decide +kernel)
  exact ⟨out, ho, compile_cases_resolve _ _ _ _ ho⟩

/-- **Destinations resolve, for ALL event sequences**: if the compiler model succeeds, every
destination named by an exit of the emitted flow is the identifier of a node OF THE EMITTED FLOW.
Two invariants of the machine, both by induction over the event sequence (no bound, no hypothesis
on the sheet): every destination stored in the arena is the identifier of an arena node, and the
group tree reachable from the root covers the whole arena once all blocks are closed (so every
arena node is emitted; the fuel of `emit` suffices because children have larger indices than
their parent). -/
theorem compile_dests_resolve (noArgs testTypes : List Str) (evs : List Compile.Event) (out : Compile.Out)
    (h : Compile.compile noArgs testTypes evs = .ok out) :
    ∀ n ∈ (Compile.renderOut out).nodes, ∀ e ∈ n.exits, ∀ d, e.dest = some d →
      d ∈ (Compile.renderOut out).nodes.map (·.uuid) := by
  obtain ⟨s, hr, hl, ho⟩ := Compile.compile_ok h
  intro n hn e he d hd
  simp only [Compile.renderOut, List.mem_map] at hn
  obtain ⟨m, hm, rfl⟩ := hn
  rw [ho] at hm
  obtain ⟨j, m', hj, hu⟩ := Compile.compile_dests_resolve_arena hr hm he hd
  have hjlt : j < s.nodes.size := (Array.getElem?_eq_some_iff.mp hj).1
  have hje := Compile.emit_all (Compile.final_binv hr) hl j hjlt
  simp only [Compile.renderOut, List.map_map, List.mem_map, Function.comp]
  refine ⟨m', ?_, by simp [Compile.renderNode, hu]⟩
  rw [ho, List.mem_filterMap]
  exact ⟨j, hje, hj⟩

/-- non-vacuity: the example sheet compiles; all its destinations are nodes of the output -/
example : ∃ out, Compile.compile [] exTests exEvents = .ok out ∧
    ∀ n ∈ (Compile.renderOut out).nodes, ∀ e ∈ n.exits, ∀ d, e.dest = some d →
      d ∈ (Compile.renderOut out).nodes.map (·.uuid) := by
  obtain ⟨out, ho, _⟩ := outcome_some (show outcome [] exTests exEvents = some true by decide +kernel)
  exact ⟨out, ho, compile_dests_resolve _ _ _ _ ho⟩

/-- "No identifiers are given in the sheet": every row, also inside inserted blocks, has an
empty `_nodeId` (the hypothesis of `compile_closed`; needed, see `needs_no_given_ids`). -/
def NoGivenIds (evs : List Compile.Event) : Prop := Compile.noIdsL evs = true

instance (evs : List Compile.Event) : Decidable (NoGivenIds evs) := by
  unfold NoGivenIds; exact inferInstance

/-- "Given identifiers do not look like invented ones": no `_nodeId` of any row (also inside
inserted blocks) starts with `~`, the shape of the identifiers the MODEL invents (the real ones
are random UUID-4; a given identifier colliding with one of them is the same accident).  The
hypothesis of `compile_closed_iff`; needed, see `needs_plain_given_ids`. -/
def PlainGivenIds (evs : List Compile.Event) : Prop := Compile.okIdsL evs = true

instance (evs : List Compile.Event) : Decidable (PlainGivenIds evs) := by
  unfold PlainGivenIds; exact inferInstance

theorem NoGivenIds.plain {evs : List Compile.Event} (h : NoGivenIds evs) : PlainGivenIds evs :=
  Compile.okIdsL_of_noIdsL evs h

/-- **C01 for the compiler model, for ALL event sequences, sheets with `_nodeId`s included**
(`compile_closed_iff`): whatever identifiers the sheet gives (node merging, exported sheets), the
emitted flow is referentially closed EXACTLY WHEN its node identifiers are pairwise different.
So a duplicated node identifier — which only a sheet-given `_nodeId` can cause, finding F-C01-a —
is the ONLY way the compiler model can emit a flow that is not closed: destinations always lead
into the flow, categories / exits / cases always correspond, and every invented identifier is
used for one object only.  Proof: three invariants of the machine's execution (arena closure;
freshness, w.r.t. the counter, of every stored identifier other than given node identifiers;
well-formed group tree ⇒ the emission covers the arena exactly once), each preserved by every
parser event, by induction over the (unbounded, nested) event sequence. -/
theorem compile_closed_iff (noArgs testTypes : List Str) (evs : List Compile.Event) (out : Compile.Out)
    (hplain : PlainGivenIds evs) (h : Compile.compile noArgs testTypes evs = .ok out) :
    Flow.Closed (Compile.renderOut out) ↔ ((Compile.renderOut out).nodes.map (·.uuid)).Nodup := by
  refine ⟨fun hc => hc.1, fun hU => ?_⟩
  obtain ⟨s, hr, hl, ho⟩ := Compile.compile_ok h
  have a := Compile.final_ainv ⟨True, False⟩ ⟨fun _ => hplain, fun hf => hf.elim⟩ hr
  have hI := a.ids trivial
  have hb := Compile.final_binv hr
  -- every identifier of the document is used once
  have hids3 : (Compile.renderOut out).ids.Nodup := by
    have e : (Compile.renderOut out).ids = out.nodes.flatMap Compile.NodeM.ids := by
      simp only [Compile.renderOut, Flow.Flow.ids, List.flatMap_map, Compile.renderNode_ids]
    have hU' : (out.nodes.map (·.uid)).Nodup := by
      simpa [Compile.renderOut, List.map_map, Function.comp_def, Compile.renderNode] using hU
    rw [e, ho]
    rw [ho] at hU'
    exact Compile.ids_nodup_of_idsInv hI _ (Compile.emit_nodup hb hl) hU'
  refine ⟨hU, ?_, hids3⟩
  intro n hn
  have hn' := hn
  simp only [Compile.renderOut, List.mem_map] at hn'
  obtain ⟨m, hm, rfl⟩ := hn'
  have hnd : (Compile.renderNode m).ids.Nodup :=
    (List.pairwise_flatMap.mp hids3).1 _ hn
  obtain ⟨sh1, sh2, sh3, sh4⟩ := rendered_node_shape m
  refine ⟨?_, ?_, sh4⟩
  · intro e he d hd
    exact compile_dests_resolve noArgs testTypes evs out h _ hn e he d (by
      cases hde : e.dest <;> simp [hde] at hd; rw [hd])
  · intro r hr'
    have hr : (Compile.renderNode m).router = some r := by
      cases hrr : (Compile.renderNode m).router <;> simp [hrr] at hr'; rw [hr']
    have hex : r.cats.map (·.exitUuid) = (Compile.renderNode m).exits.map (·.uuid) := sh1 r hr
    -- exits and categories are sub-lists of the node's identifiers
    have hE : ((Compile.renderNode m).exits.map (·.uuid)).Nodup := by
      refine List.Sublist.nodup ?_ hnd
      unfold Flow.Node.ids
      exact ((List.sublist_append_right _ _).trans (List.sublist_append_left _ _)).cons _
    have hC : (r.cats.map (·.uuid)).Nodup := by
      refine List.Sublist.nodup ?_ hnd
      unfold Flow.Node.ids
      rw [hr]
      exact ((List.sublist_append_left _ _).trans (List.sublist_append_right _ _)).cons _
    refine ⟨⟨?_, hE, ?_, ?_⟩, hC, ?_, sh2 r hr, sh3 r hr⟩
    · rw [hex]; exact hE
    · intro c hc; rw [← hex]; exact List.mem_map_of_mem hc
    · intro e he; rw [hex]; exact List.mem_map_of_mem he
    · exact compile_cases_resolve noArgs testTypes evs out h _ hn r hr

/-- non-vacuity of `compile_closed_iff` with identifiers given in the sheet: two rows merging
into the node `N1` and a router `N2` — plain identifiers, compiles (three nodes, the first with
two actions), node identifiers are unique, and the output is closed -/
example : PlainGivenIds mergeEvents ∧ ¬ NoGivenIds mergeEvents ∧
    ∃ out, Compile.compile [] exTests mergeEvents = .ok out ∧
      ((Compile.renderOut out).nodes.map (·.uuid)).Nodup ∧ Closed (Compile.renderOut out) := by
  refine ⟨by decide +kernel, by decide +kernel, ?_⟩
  obtain ⟨out, ho, hc⟩ := outcome_some (show outcome [] exTests mergeEvents = some true by decide +kernel)
  exact ⟨out, ho, (hc.mpr rfl).1, hc.mpr rfl⟩

/-- the hypothesis of `compile_closed_iff` is needed: a given `_nodeId` equal to an identifier the
model invents (`~0`, the uuid of an action) leaves the node identifiers pairwise different, yet
one identifier names two objects -/
theorem needs_plain_given_ids :
    ¬ PlainGivenIds tildeEvents ∧
    ∃ out, Compile.compile [] exTests tildeEvents = .ok out ∧
      ((Compile.renderOut out).nodes.map (·.uuid)).Nodup ∧ ¬ Closed (Compile.renderOut out) := by
  refine ⟨by decide +kernel, ?_⟩
  have h : (match Compile.compile [] exTests tildeEvents with
      | .ok out => decide (((Compile.renderOut out).nodes.map (·.uuid)).Nodup ∧ ¬ Closed (Compile.renderOut out))
      | .error _ => false) = true := by decide +kernel
  split at h
  · rename_i out ho
    exact ⟨out, ho, by simpa using h⟩
  · cases h

/-- **C01 for the compiler model, for ALL event sequences** (`compile_closed`): when the sheet
gives no node identifiers, every flow the compiler model emits is referentially closed —
node identifiers are unique, every exit leads nowhere or to a node of the same flow, categories
and exits correspond one to one, every case names a category of its own router, default and
no-response categories exist, a router-less node has exactly one exit, and every identifier of
the document is used for one object only.  (`compile_closed_iff` plus: without given
identifiers every node identifier comes from the counter, which never repeats.) -/
theorem compile_closed (noArgs testTypes : List Str) (evs : List Compile.Event) (out : Compile.Out)
    (hids : NoGivenIds evs) (h : Compile.compile noArgs testTypes evs = .ok out) :
    Flow.Closed (Compile.renderOut out) := by
  rw [compile_closed_iff noArgs testTypes evs out hids.plain h]
  obtain ⟨s, hr, hl, ho⟩ := Compile.compile_ok h
  have a := Compile.final_ainv ⟨True, True⟩ ⟨fun _ => hids.plain, fun _ => hids⟩ hr
  have hU := Compile.uids_nodup_of_invented (a.ids trivial) (a.inv trivial) _
    (Compile.emit_nodup (Compile.final_binv hr) hl)
  rw [← ho] at hU
  simpa [Compile.renderOut, List.map_map, Function.comp_def, Compile.renderNode] using hU

/-- Under the same hypothesis every identifier of the emitted document was invented by the
model's `generate_new_uuid` (it is `~k` for a value `k` the counter went through): together with
`compile_closed` — each such identifier is handed out for one object only. -/
theorem compile_ids_invented (noArgs testTypes : List Str) (evs : List Compile.Event) (out : Compile.Out)
    (hids : NoGivenIds evs) (h : Compile.compile noArgs testTypes evs = .ok out) :
    ∀ x ∈ (Compile.renderOut out).ids, ∃ k, x = '~' :: Compile.natStr k := by
  obtain ⟨s, hr, hl, ho⟩ := Compile.compile_ok h
  have hI := (Compile.final_ainv ⟨True, True⟩ ⟨fun _ => hids.plain, fun _ => hids⟩ hr).ids trivial
  have hV := (Compile.final_ainv ⟨True, True⟩ ⟨fun _ => hids.plain, fun _ => hids⟩ hr).inv trivial
  intro x hx
  have e : (Compile.renderOut out).ids = out.nodes.flatMap Compile.NodeM.ids := by
    simp only [Compile.renderOut, Flow.Flow.ids, List.flatMap_map, Compile.renderNode_ids]
  rw [e, List.mem_flatMap] at hx
  obtain ⟨m, hm, hxm⟩ := hx
  rw [ho] at hm
  obtain ⟨i, hi⟩ := Compile.out_nodes_arena hm
  obtain ⟨k, _, hk⟩ := hI.below i m hi x (by
    rw [Compile.NodeM.ids_eq, List.mem_cons] at hxm
    rcases hxm with e | e
    · rw [e]; exact Compile.uid_mem_fids m (hV i m hi)
    · exact Compile.innerIds_sub_fids m e)
  exact ⟨k, hk⟩

/-! ### non-vacuity of `compile_closed` and the negative witness for its hypothesis -/

/-- non-vacuity of `compile_closed`: a sheet with a router, a block, a `go_to` and an inserted
block satisfies the hypotheses (no given identifiers, compiles: eight nodes, three of them
routers) — and, as the theorem says, its output is closed -/
example : NoGivenIds exEvents ∧
    ∃ out, Compile.compile [] exTests exEvents = .ok out ∧ Closed (Compile.renderOut out) ∧
      out.nodes.length = 8 ∧ (out.nodes.filter (·.router.isSome)).length = 3 := by
  refine ⟨by decide +kernel, ?_⟩
  have h : outcome [] exTests exEvents = some true := by decide +kernel
  obtain ⟨out, ho, hc⟩ := outcome_some h
  refine ⟨out, ho, hc.mpr rfl, ?_⟩
  have h2 : (match Compile.compile [] exTests exEvents with
      | .ok out => decide (out.nodes.length = 8 ∧ (out.nodes.filter (·.router.isSome)).length = 3)
      | .error _ => false) = true := by decide +kernel
  rw [ho] at h2
  simpa using h2

/-- the hypothesis of `compile_closed` is needed (finding F-C01-a of the real code, reproduced by
the model): the same `_nodeId` on an action row and a following router row compiles without
error into two nodes sharing one uuid — not a closed flow (by `compile_closed_iff` the duplicated
node identifier is the only thing wrong with it) -/
theorem needs_no_given_ids :
    ¬ NoGivenIds badEvents ∧ PlainGivenIds badEvents ∧
    ∃ out, Compile.compile [] exTests badEvents = .ok out ∧ ¬ Closed (Compile.renderOut out) := by
  refine ⟨by decide +kernel, by decide +kernel, ?_⟩
  have h : outcome [] exTests badEvents = some false := by decide +kernel
  obtain ⟨out, ho, hc⟩ := outcome_some h
  exact ⟨out, ho, fun hcl => by have := hc.mp hcl; cases this⟩

/-! ### the statement itself: non-vacuity and negative witnesses -/

def n1 : Node :=
  { uuid := "n1".toList, actions := [{ uuid := "a1".toList, obs := "hi".toList }],
    router := none, exits := [{ uuid := "e1".toList, dest := some "n2".toList }] }

def n2 : Node :=
  { uuid := "n2".toList, actions := [],
    router := some (.switch "@input.text".toList
      [{ uuid := "k1".toList, type := "has_any_word".toList, args := ["y".toList], catUuid := "c1".toList }]
      [{ uuid := "c1".toList, name := "Y".toList, exitUuid := "e2".toList },
       { uuid := "c2".toList, name := "Other".toList, exitUuid := "e3".toList }]
      "c2".toList (some none) none),
    exits := [{ uuid := "e2".toList, dest := some "n1".toList }, { uuid := "e3".toList, dest := none }] }

/-- a two-node flow with a cycle satisfies the statement -/
example : Closed { uuid := [], name := [], nodes := [n1, n2] } := by decide

/-- the defect shape of finding F-C01-a (two nodes sharing one uuid) is rejected -/
theorem duplicate_node_uuid_not_closed :
    ¬ Closed { uuid := [], name := [], nodes := [n1, { n2 with uuid := "n1".toList }] } := by decide

/-- an exit into another flow's node is rejected -/
theorem dangling_exit_not_closed :
    ¬ Closed { uuid := [], name := [], nodes := [n1] } := by decide

/-- a category without exit is rejected -/
theorem category_without_exit_not_closed :
    ¬ Closed { uuid := [], name := [], nodes := [n1, { n2 with exits := n2.exits.take 1 }] } := by decide

end Rpft.Props.C01
