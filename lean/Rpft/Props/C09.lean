/-
C09 — The same data in different column layouts parses to the same row.
-/
import Rpft.Props.C07
set_option linter.unusedSimpArgs false
set_option linter.unusedVariables false
namespace Rpft.Props.C09
open Rpft Rpft.Row

end Rpft.Props.C09
