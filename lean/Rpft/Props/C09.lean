/-
C09 — The same data in different column layouts parses to the same row.

Property theorems only (model: Rpft/RowParse.lean; lemmas: Rpft/Lemmas/RowStar.lean and the
C07 development).
-/
import Rpft.Props.C07
import Rpft.Lemmas.RowStar
set_option linter.unusedSimpArgs false
set_option linter.unusedVariables false
namespace Rpft.Props.C09
open Rpft Rpft.Row Rpft.Props.C07

/-! ### spread vs packed -/

/-- general statement: the parsed row does not depend on the (admissible) layout -/
def layout_independent_full : Prop :=
  ∀ (fs : List Field) (l₁ l₂ : Layout) (v : Val) (c₁ c₂ : Out),
    wfFieldNames fs = true → Representable (plainTop fs) v = true →
    Admissible { top := plainTop fs } l₁ = true → Admissible { top := plainTop fs } l₂ = true →
    unparseRow { top := plainTop fs } l₁ v = .ok c₁ → unparseRow { top := plainTop fs } l₂ v = .ok c₂ →
    parseRow { top := plainTop fs } c₁ = parseRow { top := plainTop fs } c₂

/-- **Layout independence** (corollary of C07 for its proved family): a list given as
`f.1, f.2, …` or as one `f` cell, a sub-record given as `f.a, f.b` or as one cell — per
field independently — parse to the same row. -/
theorem layout_independent_partial (fs : List Field) (l₁ l₂ : Layout) (v : Val) (c₁ c₂ : Out)
    (hwf : wfFieldNames fs = true) (hfam : family fs = true)
    (hr : Representable (plainTop fs) v = true)
    (h₁ : Admissible { top := plainTop fs } l₁ = true) (h₂ : Admissible { top := plainTop fs } l₂ = true)
    (hc₁ : unparseRow { top := plainTop fs } l₁ v = .ok c₁)
    (hc₂ : unparseRow { top := plainTop fs } l₂ v = .ok c₂) :
    parseRow { top := plainTop fs } c₁ = parseRow { top := plainTop fs } c₂ := by
  obtain ⟨d₁, e₁, p₁⟩ := parse_unparse_partial fs l₁ v hwf hfam hr h₁
  obtain ⟨d₂, e₂, p₂⟩ := parse_unparse_partial fs l₂ v hwf hfam hr h₂
  rw [hc₁] at e₁; rw [hc₂] at e₂
  cases e₁; cases e₂
  rw [p₁, p₂]

/-- non-vacuity: the example of C07 in two different layouts gives two different cell rows
that parse to the same value -/
example :
    (match unparseRow { top := plainTop exFam } {} exFamVal,
           unparseRow { top := plainTop exFam } { targets := ["xs".toList, "s".toList] } exFamVal with
      | .ok c₁, .ok c₂ => c₁.length != c₂.length
      | _, _ => false) = true := by decide +kernel

/-! ### `*` columns -/

/-- **Asterisk expansion**: a `*` column holding the list `[x₁ … xₙ]` stands for the `n`
entries `….1.… ↦ x₁, …, ….n.… ↦ xₙ` (every `*` replaced by the index) -/
theorem asterisk_expand (all : List (Str × ColVal)) (k : Str) (xs : List PV) :
    expandCol all (k, Sum.inr (.list xs)) =
      (enumFrom1 1 xs).map fun ie => (replace1 '*' (printNat ie.1) k, Sum.inr ie.2) := rfl

/-- **Asterisk broadcast**, for every schema and every row: a single value in a `*` column
is the same as the list of `n` copies of it, where `n` is the longest list among the `*`
columns with the same prefix (at least 1) -/
theorem asterisk_broadcast (pre post : List (Str × ColVal)) (k s : Str) :
    expandAll (pre ++ [(k, Sum.inr (.atom s))] ++ post) =
    expandAll (pre ++ [(k, Sum.inr (.list (List.replicate
      (starLen (starPrefix k) (pre ++ [(k, Sum.inr (.atom s))] ++ post)) (.atom s))))] ++ post) := by
  have hlen := fun pfx => (starLen_broadcast pre post k s pfx).symm
  unfold expandAll
  simp only [List.flatMap_append, List.flatMap_cons, List.flatMap_nil, List.append_nil]
  rw [flatMap_congr_mem pre (fun a _ => expandCol_congr _ _ hlen a),
    flatMap_congr_mem post (fun a _ => expandCol_congr _ _ hlen a)]
  congr 2

/-- non-vacuity / concrete instance: `from = "a"` with two conditions is `from = "a|a"` -/
example :
    expandAll [("e.*.f".toList, Sum.inr (.atom "a".toList)),
      ("e.*.c".toList, Sum.inr (.list [.atom "x".toList, .atom "y".toList]))] =
    [("e.1.f".toList, Sum.inr (.atom "a".toList)), ("e.2.f".toList, Sum.inr (.atom "a".toList)),
     ("e.1.c".toList, Sum.inr (.atom "x".toList)), ("e.2.c".toList, Sum.inr (.atom "y".toList))] := by
  decide +kernel

/-- the broadcast length is taken per prefix: a longer list under another prefix is ignored -/
example : starLen "e.".toList [("g.*".toList, Sum.inr (.list [.atom [], .atom [], .atom []])),
    ("e.*.c".toList, Sum.inr (.list [.atom [], .atom []]))] = 2 := by decide

/-! ### the flow sheet's short headers -/

def msgHdr : Str := "message_text".toList
def typeCol : Str := "type".toList

/-- is `path` (segments; `*` or a number for a list index) a position of the schema? -/
def validPath : Ty → List Str → Bool
  | _, [] => true
  | ty, seg :: rest =>
    match ty with
    | .list t => (seg = "*".toList || (pyInt seg).isSome) && validPath t rest
    | .anyList => (seg = "*".toList || (pyInt seg).isSome) && rest.isEmpty
    | .model fs h2f _ =>
      match fieldLookup (remap h2f seg) fs with
      | some f => validPath f.2.1 rest
      | none => false
    | _ => false

/-- T1 side conditions (re-checked against the regenerated tables on every run): every short
header of `basic_header_dict` leads to a position of the flow row schema; every target of
`row_type_to_main_arg` is a position of the schema; the long forms are not themselves
remapped; keys are unique; the type column is not a short header. -/
theorem short_headers_are_valid_paths :
    (∀ p ∈ Gen.flowBasicHeaderDict, validPath flowRowTy (splitDot p.2) = true) ∧
    (∀ p ∈ Gen.flowRowTypeToMainArg, validPath flowRowTy (splitDot p.2) = true) ∧
    (∀ p ∈ Gen.flowF2H, p.1 ∈ Gen.fieldNamesFlowRowModel ∨ p.1 = "webhook.body".toList) := by
  decide +kernel

theorem remap_tables_side_conditions :
    (∀ p ∈ flowBasicHeaders, alookup p.1 flowBasicHeaders = some p.2 ∧
      alookup p.2 flowBasicHeaders = none ∧ p.2 ≠ msgHdr ∧ p.1 ≠ typeCol ∧ p.2 ≠ typeCol ∧ p.1 ≠ msgHdr) ∧
    (∀ p ∈ flowMainArg, alookup p.1 flowMainArg = some p.2 ∧
      alookup p.2 flowBasicHeaders = none ∧ p.2 ≠ msgHdr ∧ p.2 ≠ typeCol) ∧
    alookup msgHdr flowBasicHeaders = none ∧ msgHdr ≠ typeCol := by
  decide +kernel

theorem flow_main : flowRowSchema.ctxMain = some (msgHdr, typeCol, flowMainArg) := rfl
theorem flow_basic : flowRowSchema.ctxBasic = flowBasicHeaders := rfl

theorem flow_ctx (d₁ d₂ : List (Str × Str)) (h : alookup typeCol d₁ = alookup typeCol d₂) (k : Str) :
    ctxRemap flowRowSchema d₁ k = ctxRemap flowRowSchema d₂ k := by
  apply ctxRemap_ctx_congr
  intro hd tcol tb hm
  rw [flow_main] at hm
  simp only [Option.some.injEq, Prod.mk.injEq] at hm
  rw [← hm.2.1]
  exact h

theorem flow_id (d : List (Str × Str)) (k : Str) (h1 : alookup k flowBasicHeaders = none)
    (h2 : k ≠ msgHdr) : ctxRemap flowRowSchema d k = .ok k := by
  apply ctxRemap_id _ _ _ h1
  intro hd tc tb hm
  rw [flow_main] at hm
  simp only [Option.some.injEq, Prod.mk.injEq] at hm
  rw [← hm.1]
  exact h2

/-- **Short = long (context-free headers)**: for every entry `short ↦ long` of the source's
`basic_header_dict` (`from ↦ edges.*.from_`, `condition ↦ edges.*.condition.value`,
`condition_var ↦ edges.*.condition.variable`, `_nodeId ↦ node_uuid`, …), any cell text and any
other columns, a row written with the short header parses exactly as the row written with
the long header. (The long `*` forms are in turn the indexed columns `edges.k.…` by
`asterisk_expand` / `asterisk_broadcast`.) -/
theorem short_eq_long (p : Str × Str) (hp : p ∈ flowBasicHeaders) (pre post : List (Str × Str))
    (c : Str) :
    parseRow flowRowSchema (pre ++ [(p.1, c)] ++ post) =
    parseRow flowRowSchema (pre ++ [(p.2, c)] ++ post) := by
  obtain ⟨h1, h2, h3, h4, h5, _⟩ := remap_tables_side_conditions.1 p hp
  apply parseRow_of_rekey_eq
  apply rekey_header_swap
  · exact flow_ctx _ _ (alookup_swap_key pre post p.1 p.2 typeCol c h4 h5)
  · rw [ctxRemap_basic flowRowSchema _ p.1 p.2 h1, flow_id _ p.2 h2 h3]

/-- **Short = long (main argument)**: `message_text` is the main-argument field selected by
the row's `type` cell through the source's `row_type_to_main_arg` table. -/
theorem message_text_eq_main_arg (p : Str × Str) (hp : p ∈ flowMainArg)
    (pre post : List (Str × Str)) (c : Str)
    (htype : alookup typeCol (pre ++ post) = some p.1) :
    parseRow flowRowSchema (pre ++ [(msgHdr, c)] ++ post) =
    parseRow flowRowSchema (pre ++ [(p.2, c)] ++ post) := by
  obtain ⟨h1, h2, h3, h4⟩ := remap_tables_side_conditions.2.1 p hp
  obtain ⟨h5, h6⟩ := remap_tables_side_conditions.2.2
  apply parseRow_of_rekey_eq
  apply rekey_header_swap
  · exact flow_ctx _ _ (alookup_swap_key pre post msgHdr p.2 typeCol c h6 h4)
  · have ht : alookup typeCol (pre ++ [(p.2, c)] ++ post) = some p.1 := by
      rw [← htype]
      simp [alookup_append, alookup, h4]
    rw [ctxRemap_main flowRowSchema _ msgHdr typeCol flowMainArg flow_main h5 p.1 p.2 ht h1,
      flow_id _ p.2 h2 h3]

/-- non-vacuity: the tables are not empty and a concrete short row parses to an edge -/
example : ("from".toList, "edges.*.from_".toList) ∈ flowBasicHeaders ∧
    ("send_message".toList, "mainarg_message_text".toList) ∈ flowMainArg := by decide +kernel

example :
    (match parseRow flowRowSchema [("type".toList, "send_message".toList),
        ("from".toList, "start".toList), ("condition".toList, "a|b".toList),
        ("message_text".toList, "hi; there".toList)],
      parseRow flowRowSchema [("type".toList, "send_message".toList),
        ("edges.1.from".toList, "start".toList), ("edges.2.from".toList, "start".toList),
        ("edges.1.condition.value".toList, "a".toList), ("edges.2.condition.value".toList, "b".toList),
        ("mainarg_message_text".toList, "hi; there".toList)] with
    | .ok a, .ok b => a == b
    | _, _ => false) = true := by decide +kernel

end Rpft.Props.C09
