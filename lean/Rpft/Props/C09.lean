/-
C09 — The same data in different column layouts parses to the same row.

Property theorems only (model: Rpft/RowParse.lean; lemmas: Rpft/Lemmas/RowStar.lean and the
C07 development).
-/
import Rpft.Props.C07
import Rpft.Lemmas.RowFlow
import Rpft.Lemmas.RowShort
import Rpft.Lemmas.RowMixed
import Rpft.Lemmas.RowEnc
set_option linter.unusedSimpArgs false
set_option linter.unusedVariables false
namespace Rpft.Props.C09
open Rpft Rpft.Row Rpft.Props.C07

/-! ### spread vs packed -/

/-- **Layout independence (general)**: for every row model of the family `goodTop` (any
nesting, remapped headers), any two layouts that are `LayoutOk` for the value give rows that
parse equally — a list as `f.1, f.2, …` or one `f` cell, a sub-record as `f.a, f.b` or one
cell, list elements packed or spread one by one, at every depth.  Corollary of
`C07.parse_unparse`. -/
theorem layout_independent (sch : Schema) (l₁ l₂ : Layout) (v : Val) (c₁ c₂ : Out)
    (hg : goodTop sch.top = true) (hr : Representable sch.top v = true)
    (h₁ : LayoutOk sch l₁ v = true) (h₂ : LayoutOk sch l₂ v = true)
    (r₁ : RemapConsistent sch l₁ v = true) (r₂ : RemapConsistent sch l₂ v = true)
    (hc₁ : unparseRow sch l₁ v = .ok c₁) (hc₂ : unparseRow sch l₂ v = .ok c₂) :
    parseRow sch c₁ = parseRow sch c₂ := by
  obtain ⟨d₁, e₁, p₁⟩ := parse_unparse sch l₁ v hg hr h₁ r₁
  obtain ⟨d₂, e₂, p₂⟩ := parse_unparse sch l₂ v hg hr h₂ r₂
  rw [hc₁] at e₁; rw [hc₂] at e₂
  cases e₁; cases e₂
  rw [p₁, p₂]

/-- the same for flow rows (`FlowRowModel` with its remapped headers) -/
theorem layout_independent_flow (l₁ l₂ : Layout) (kvs : List (Str × Val)) (c₁ c₂ : Out)
    (hr : Representable flowRowSchema.top (.model kvs) = true) (hm : flowMainOk kvs = true)
    (h₁ : LayoutOk flowRowSchema l₁ (.model kvs) = true)
    (h₂ : LayoutOk flowRowSchema l₂ (.model kvs) = true)
    (hc₁ : unparseRow flowRowSchema l₁ (.model kvs) = .ok c₁)
    (hc₂ : unparseRow flowRowSchema l₂ (.model kvs) = .ok c₂) :
    parseRow flowRowSchema c₁ = parseRow flowRowSchema c₂ := by
  obtain ⟨d₁, e₁, p₁⟩ := flow_row_roundtrip l₁ kvs hr h₁ hm
  obtain ⟨d₂, e₂, p₂⟩ := flow_row_roundtrip l₂ kvs hr h₂ hm
  rw [hc₁] at e₁; rw [hc₂] at e₂
  cases e₁; cases e₂
  rw [p₁, p₂]

/-- non-vacuity: the deep example of C07 in two layouts gives two different rows (19 and 15
cells) that parse to the same value; the flow row example likewise -/
example :
    (match unparseRow exDeepSch exDeepLays[0]! exDeepVal, unparseRow exDeepSch exDeepLays[2]! exDeepVal with
      | .ok c₁, .ok c₂ => c₁.length != c₂.length && (match parseRow exDeepSch c₁, parseRow exDeepSch c₂ with
        | .ok a, .ok b => a == b
        | _, _ => false)
      | _, _ => false) = true := by decide +kernel

/-- **Layout independence, first round** (corollary of C07's `parse_unparse_partial`, with the
static `Admissible`): a list given as
`f.1, f.2, …` or as one `f` cell, a sub-record given as `f.a, f.b` or as one cell — per
field independently — parse to the same row. -/
theorem layout_independent_partial (fs : List Field) (l₁ l₂ : Layout) (v : Val) (c₁ c₂ : Out)
    (hwf : wfFieldNames fs = true) (hfam : family fs = true)
    (hr : Representable (plainTop fs) v = true)
    (h₁ : Admissible { top := plainTop fs } l₁ = true) (h₂ : Admissible { top := plainTop fs } l₂ = true)
    (ha₁ : AnySpreadOk { top := plainTop fs } l₁ v = true)
    (ha₂ : AnySpreadOk { top := plainTop fs } l₂ v = true)
    (hc₁ : unparseRow { top := plainTop fs } l₁ v = .ok c₁)
    (hc₂ : unparseRow { top := plainTop fs } l₂ v = .ok c₂) :
    parseRow { top := plainTop fs } c₁ = parseRow { top := plainTop fs } c₂ := by
  obtain ⟨d₁, e₁, p₁⟩ := parse_unparse_partial fs l₁ v hwf hfam hr h₁ ha₁
  obtain ⟨d₂, e₂, p₂⟩ := parse_unparse_partial fs l₂ v hwf hfam hr h₂ ha₂
  rw [hc₁] at e₁; rw [hc₂] at e₂
  cases e₁; cases e₂
  rw [p₁, p₂]

/-- non-vacuity: the example of C07 in two different layouts gives two different cell rows
that parse to the same value -/
example :
    (match unparseRow { top := plainTop exFam } {} exFamVal,
           unparseRow { top := plainTop exFam } { targets := ["xs".toList, "s".toList] } exFamVal with
      | .ok c₁, .ok c₂ => c₁.length != c₂.length
      | _, _ => false) = true := by decide +kernel

/-! ### `*` columns -/

/-- **Asterisk expansion**: a `*` column holding the list `[x₁ … xₙ]` stands for the `n`
entries `….1.… ↦ x₁, …, ….n.… ↦ xₙ` (every `*` replaced by the index) -/
theorem asterisk_expand (all : List (Str × ColVal)) (k : Str) (xs : List PV) :
    expandCol all (k, Sum.inr (.list xs)) =
      (enumFrom1 1 xs).map fun ie => (replace1 '*' (printNat ie.1) k, Sum.inr ie.2) := rfl

/-- **Asterisk broadcast**, for every schema and every row: a single value in a `*` column
is the same as the list of `n` copies of it, where `n` is the longest list among the `*`
columns with the same prefix (at least 1) -/
theorem asterisk_broadcast (pre post : List (Str × ColVal)) (k s : Str) :
    expandAll (pre ++ [(k, Sum.inr (.atom s))] ++ post) =
    expandAll (pre ++ [(k, Sum.inr (.list (List.replicate
      (starLen (starPrefix k) (pre ++ [(k, Sum.inr (.atom s))] ++ post)) (.atom s))))] ++ post) := by
  have hlen := fun pfx => (starLen_broadcast pre post k s pfx).symm
  unfold expandAll
  simp only [List.flatMap_append, List.flatMap_cons, List.flatMap_nil, List.append_nil]
  rw [flatMap_congr_mem pre (fun a _ => expandCol_congr _ _ hlen a),
    flatMap_congr_mem post (fun a _ => expandCol_congr _ _ hlen a)]
  congr 2

/-- non-vacuity / concrete instance: `from = "a"` with two conditions is `from = "a|a"` -/
example :
    expandAll [("e.*.f".toList, Sum.inr (.atom "a".toList)),
      ("e.*.c".toList, Sum.inr (.list [.atom "x".toList, .atom "y".toList]))] =
    [("e.1.f".toList, Sum.inr (.atom "a".toList)), ("e.2.f".toList, Sum.inr (.atom "a".toList)),
     ("e.1.c".toList, Sum.inr (.atom "x".toList)), ("e.2.c".toList, Sum.inr (.atom "y".toList))] := by
  decide +kernel

/-- the broadcast length is taken per prefix: a longer list under another prefix is ignored -/
example : starLen "e.".toList [("g.*".toList, Sum.inr (.list [.atom [], .atom [], .atom []])),
    ("e.*.c".toList, Sum.inr (.list [.atom [], .atom []]))] = 2 := by decide

/-! ### the flow sheet's short headers -/

/-- is `path` (segments; `*` or a number for a list index) a position of the schema? -/
def validPath : Ty → List Str → Bool
  | _, [] => true
  | ty, seg :: rest =>
    match ty with
    | .list t => (seg = "*".toList || (pyInt seg).isSome) && validPath t rest
    | .anyList => (seg = "*".toList || (pyInt seg).isSome) && rest.isEmpty
    | .model fs h2f _ =>
      match fieldLookup (remap h2f seg) fs with
      | some f => validPath f.2.1 rest
      | none => false
    | _ => false

/-- T1 side conditions (re-checked against the regenerated tables on every run): every short
header of `basic_header_dict` leads to a position of the flow row schema; every target of
`row_type_to_main_arg` is a position of the schema; the long forms are not themselves
remapped; keys are unique; the type column is not a short header. -/
theorem short_headers_are_valid_paths :
    (∀ p ∈ Gen.flowBasicHeaderDict, validPath flowRowTy (splitDot p.2) = true) ∧
    (∀ p ∈ Gen.flowRowTypeToMainArg, validPath flowRowTy (splitDot p.2) = true) ∧
    (∀ p ∈ Gen.flowF2H, p.1 ∈ Gen.fieldNamesFlowRowModel ∨ p.1 = "webhook.body".toList) := by
  decide +kernel

theorem remap_tables_side_conditions :
    (∀ p ∈ flowBasicHeaders, alookup p.1 flowBasicHeaders = some p.2 ∧
      alookup p.2 flowBasicHeaders = none ∧ p.2 ≠ msgHdr ∧ p.1 ≠ typeCol ∧ p.2 ≠ typeCol ∧ p.1 ≠ msgHdr) ∧
    (∀ p ∈ flowMainArg, alookup p.1 flowMainArg = some p.2 ∧
      alookup p.2 flowBasicHeaders = none ∧ p.2 ≠ msgHdr ∧ p.2 ≠ typeCol) ∧
    alookup msgHdr flowBasicHeaders = none ∧ msgHdr ≠ typeCol := by
  decide +kernel

/-- **Short = long (context-free headers)**: for every entry `short ↦ long` of the source's
`basic_header_dict` (`from ↦ edges.*.from_`, `condition ↦ edges.*.condition.value`,
`condition_var ↦ edges.*.condition.variable`, `_nodeId ↦ node_uuid`, …), any cell text and any
other columns, a row written with the short header parses exactly as the row written with
the long header. (The long `*` forms are in turn the indexed columns `edges.k.…` by
`asterisk_expand` / `asterisk_broadcast`.) -/
theorem short_eq_long (p : Str × Str) (hp : p ∈ flowBasicHeaders) (pre post : List (Str × Str))
    (c : Str) :
    parseRow flowRowSchema (pre ++ [(p.1, c)] ++ post) =
    parseRow flowRowSchema (pre ++ [(p.2, c)] ++ post) := by
  obtain ⟨h1, h2, h3, h4, h5, _⟩ := remap_tables_side_conditions.1 p hp
  apply parseRow_of_rekey_eq
  apply rekey_header_swap
  · exact flow_ctx _ _ (alookup_swap_key pre post p.1 p.2 typeCol c h4 h5)
  · rw [ctxRemap_basic flowRowSchema _ p.1 p.2 h1, flow_id _ p.2 h2 h3]

/-- **Short = long (main argument)**: `message_text` is the main-argument field selected by
the row's `type` cell through the source's `row_type_to_main_arg` table — by the TRIMMED text of that
cell (fix 7d69602: a type cell with surrounding whitespace is trimmed like every other cell; before, the
raw text was looked up and `"send_message "` raised KeyError under the short header only). -/
theorem message_text_eq_main_arg (p : Str × Str) (hp : p ∈ flowMainArg)
    (pre post : List (Str × Str)) (c t : Str)
    (htype : alookup typeCol (pre ++ post) = some t) (htrim : strip pyWs t = p.1) :
    parseRow flowRowSchema (pre ++ [(msgHdr, c)] ++ post) =
    parseRow flowRowSchema (pre ++ [(p.2, c)] ++ post) := by
  obtain ⟨h1, h2, h3, h4⟩ := remap_tables_side_conditions.2.1 p hp
  obtain ⟨h5, h6⟩ := remap_tables_side_conditions.2.2
  apply parseRow_of_rekey_eq
  apply rekey_header_swap
  · exact flow_ctx _ _ (alookup_swap_key pre post msgHdr p.2 typeCol c h6 h4)
  · have ht : alookup typeCol (pre ++ [(p.2, c)] ++ post) = some t := by
      rw [← htype]
      simp [alookup_append, alookup, h4]
    rw [ctxRemap_main flowRowSchema _ msgHdr typeCol flowMainArg flow_main h5 t p.2 ht (by rw [htrim]; exact h1),
      flow_id _ p.2 h2 h3]

/-- non-vacuity of the trimming: a padded type cell (spaces, a no-break space, a tab) still selects the
main argument; computed by the kernel on the regenerated table -/
example : strip pyWs " send_message\u00a0\t".toList = "send_message".toList ∧
    ("send_message".toList, "mainarg_message_text".toList) ∈ flowMainArg := by decide +kernel

/-- non-vacuity: the tables are not empty and a concrete short row parses to an edge -/
example : ("from".toList, "edges.*.from_".toList) ∈ flowBasicHeaders ∧
    ("send_message".toList, "mainarg_message_text".toList) ∈ flowMainArg := by decide +kernel

example :
    (match parseRow flowRowSchema [("type".toList, "send_message".toList),
        ("from".toList, "start".toList), ("condition".toList, "a|b".toList),
        ("message_text".toList, "hi; there".toList)],
      parseRow flowRowSchema [("type".toList, "send_message".toList),
        ("edges.1.from".toList, "start".toList), ("edges.2.from".toList, "start".toList),
        ("edges.1.condition.value".toList, "a".toList), ("edges.2.condition.value".toList, "b".toList),
        ("mainarg_message_text".toList, "hi; there".toList)] with
    | .ok a, .ok b => a == b
    | _, _ => false) = true := by decide +kernel

/-! ### from the `*` forms to the indexed columns -/

theorem edgeLeaves_are_the_long_forms :
    (flowBasicHeaders.filter (fun p => p.2.take 8 == "edges.*.".toList)).all
      (fun p => edgeLeaves.contains (p.2.drop 8)) = true ∧
    edgeLeaves.all (fun b => flowBasicHeaders.any (fun p => p.2 == "edges.*.".toList ++ b)) = true := by
  decide +kernel

/-- **From `*` to indexed columns**: the `k`-th element `x` of a `*` column
`edges.*.b` (what `from`, `condition`, `condition_var`, … expand to by `short_eq_long` and
`asterisk_expand`) is assigned exactly like the cell `t` of the long-form column
`edges.k.b`, for any cell text `t` that reads as `x` — the entries are string fields
(`leafTy` computed on the T1-tied schema). -/
theorem star_element_eq_indexed_cell (k : Nat) (b : Str) (hb : b ∈ edgeLeaves) (out : Tree)
    (x t : Str) (h : parseAsString t = .ok x) :
    parseEntry flowRowTy out (idxKey k b, Sum.inr (.atom x)) =
    parseEntry flowRowTy out (idxKey k b, Sum.inl t) :=
  star_elem_eq_cell k b hb out x t h

/-! ### whole rows: short headers and `*` columns = the fully indexed row -/

/-- the fully indexed form of a flow row: headers renamed by the context remap
(`from` ↦ `edges.*.from_`, `message_text` ↦ the main argument of the row type, …), then
every `*` column split into one column per element (`edges.1.from_`, `edges.2.from_`, …; a
single value broadcast to the longest list with the same prefix) -/
def indexedOf (d : List (Str × Str)) : List (Str × Str) :=
  match rekey flowRowSchema d with
  | .ok d1 =>
    match preParse d1 with
    | .ok cols => indexedRow cols
    | .error _ => []
  | .error _ => []

/-- the rows covered: the header remap succeeds (a `message_text` column needs a known row
type); the `*` columns are those the short headers stand for (`edges.*.b`, `b` a string leaf of
an edge) and hold one string or a flat list of strings; the indexed columns are pairwise
different (the indexed row is a row, i.e. a Python `dict`) -/
def shortRowOk (d : List (Str × Str)) : Bool :=
  match rekey flowRowSchema d with
  | .ok d1 =>
    match preParse d1 with
    | .ok cols => flowStarOk cols && decide (((indexedRow cols).map Prod.fst).Nodup)
    | .error _ => false
  | .error _ => false

/-- **Short row = fully indexed row**, as ONE statement about whole rows: a flow row given
with short headers and `*` columns (any mixture with long and plain headers, any cell texts,
any number of edges) parses exactly like its fully indexed form, whose headers are all long,
`*`-free and untouched by the context remap.  Composes `short_eq_long`,
`message_text_eq_main_arg`, `asterisk_expand`, `asterisk_broadcast` and
`star_element_eq_indexed_cell` through the fold of `parse_row`. -/
theorem short_row_eq_indexed_row (d : List (Str × Str)) (h : shortRowOk d = true) :
    parseRow flowRowSchema d = parseRow flowRowSchema (indexedOf d) ∧
    ∀ kv ∈ indexedOf d, hasStar kv.1 = false ∧
      ctxRemap flowRowSchema (indexedOf d) kv.1 = .ok kv.1 := by
  unfold shortRowOk at h
  unfold indexedOf
  cases h1 : rekey flowRowSchema d with
  | error e => simp [h1] at h
  | ok d1 =>
    simp only [h1] at h ⊢
    cases h2 : preParse d1 with
    | error e => simp [h2] at h
    | ok cols =>
      simp only [h2, Bool.and_eq_true, decide_eq_true_eq] at h ⊢
      exact flow_short_eq_indexed d d1 cols h1 h2 h.1 h.2

def exShortRow : List (Str × Str) :=
  [("type".toList, "send_message".toList), ("from".toList, "start".toList),
   ("condition".toList, "a\\|x|b".toList), ("condition_type".toList, "has_phrase".toList),
   ("message_text".toList, "hi; there".toList), ("_nodeId".toList, "n1".toList)]

/-- non-vacuity: a short row with two edges (one broadcast `from`, a two-element `condition`
with an escaped separator, a broadcast `condition_type`) is covered, and its indexed form is
the expected row -/
example : shortRowOk exShortRow = true ∧
    indexedOf exShortRow =
      [("type".toList, "send_message".toList),
       ("edges.1.from_".toList, "start".toList), ("edges.2.from_".toList, "start".toList),
       ("edges.1.condition.value".toList, "a|x".toList), ("edges.2.condition.value".toList, "b".toList),
       ("edges.1.condition.type".toList, "has_phrase".toList),
       ("edges.2.condition.type".toList, "has_phrase".toList),
       ("mainarg_message_text".toList, "hi; there".toList), ("node_uuid".toList, "n1".toList)] ∧
    (parseRow flowRowSchema exShortRow).toOption.isSome = true := by decide +kernel

/-- the `*` columns must be string leaves: an element of `edges.*.condition` is taken as ONE
value, the cell `edges.1.condition` with the same text is split again -/
theorem short_row_needs_string_leaves :
    let d := [("type".toList, "send_message".toList), ("edges.*.condition".toList, "a\\;b|c".toList)]
    shortRowOk d = false ∧
    (match parseRow flowRowSchema d, parseRow flowRowSchema (indexedOf d) with
      | .ok a, .ok b => a != b
      | _, _ => false) = true := by decide +kernel

/-- the `*` cells must be flat: an element that is itself a list is not a string cell -/
theorem short_row_needs_flat_star_cells :
    let d := [("type".toList, "send_message".toList), ("from".toList, "a;b|c".toList)]
    shortRowOk d = false ∧ (parseRow flowRowSchema d).toOption.isSome = false ∧
    (parseRow flowRowSchema (indexedOf d)).toOption.isSome = true := by decide +kernel

/-! ### positional vs keyword records -/

def kwSub0 : List Field :=
  [("word".toList, .str, some (.str [])), ("number".toList, .int, some (.int 0))]

/-- **Positional = keyword = mixed, in general** (the statement that was
`positional_eq_keyword_full`): `Enc ty v pv` says that the parsed cell value `pv` — strings
and nested lists, what `CellParser.parse` returns or what a `*` column / spread layout
delivers — is AN encoding of `v : ty`: lists element by element (or a single value), records
by entries that are each positional (at the index of their field) or `key;value` (any field,
the key remapped by `header_name_to_field_name`), every field at most once and the others at
their defaults, entries being encodings of the field values in turn — to any depth (a
sub-record or a list given positionally inside a record, a list of records, …); with the
side condition that no positional entry and not the whole value looks like a `key;value` pair
(the keyword-first rule of `assign_value`, finding F-C09-a).  Any two encodings of the same
value decode equally — to the value.  By rule induction on `Enc`. -/
theorem positional_eq_keyword {ty : Ty} {v : Val} {pv₁ pv₂ : PV}
    (h₁ : Enc ty v pv₁) (h₂ : Enc ty v pv₂) :
    decode ty pv₁ = decode ty pv₂ ∧ decode ty pv₁ = .ok v :=
  enc_decode_eq h₁ h₂

/-- the same on cell texts -/
theorem positional_eq_keyword_cells {ty : Ty} {v : Val} {t₁ t₂ : Str} {pv₁ pv₂ : PV}
    (c₁ : cellParse t₁ = .ok pv₁) (c₂ : cellParse t₂ = .ok pv₂)
    (h₁ : Enc ty v pv₁) (h₂ : Enc ty v pv₂) :
    readCell ty t₁ = readCell ty t₂ ∧ readCell ty t₁ = .ok v := by
  have := enc_decode_eq h₁ h₂
  have e₁ : readCell ty t₁ = decode ty pv₁ := by
    simp only [readCell, decode, c₁]; cases assignValue ty pv₁ <;> rfl
  have e₂ : readCell ty t₂ = decode ty pv₂ := by
    simp only [readCell, decode, c₂]; cases assignValue ty pv₂ <;> rfl
  rw [e₁, e₂]
  exact this

def exOuter : List Field :=
  [("a".toList, .str, some (.str [])),
   ("s".toList, plainTop kwSub0, some (.model [("word".toList, .str []), ("number".toList, .int 0)])),
   ("xs".toList, .list .str, some (.list []))]
def exOuterVal : Val :=
  .model [("a".toList, .str "v".toList),
    ("s".toList, .model [("word".toList, .str "x".toList), ("number".toList, .int 7)]),
    ("xs".toList, .list [])]

/-- non-vacuity of `positional_eq_keyword`: `Outer(a="v", s=Sub(word="x", number=7))` — the
sub-record given positionally inside the positional record (`v|x;7`) and given by keyword with
its own fields by keyword (`s;(number;7|word;x)|a;v`, three levels: not a cell, but what
spread `*` columns deliver) are both encodings -/
example :
    Enc (plainTop exOuter) exOuterVal
      (.list [.atom "v".toList, .list [.atom "x".toList, .atom "7".toList]]) ∧
    Enc (plainTop exOuter) exOuterVal
      (.list [.list [.atom "s".toList, .list [.list [.atom "number".toList, .atom "7".toList],
        .list [.atom "word".toList, .atom "x".toList]]], .list [.atom "a".toList, .atom "v".toList]]) := by
  let fA : Field := ("a".toList, .str, some (.str []))
  let fS : Field := ("s".toList, plainTop kwSub0,
    some (.model [("word".toList, .str []), ("number".toList, .int 0)]))
  let fW : Field := ("word".toList, .str, some (.str []))
  let fN : Field := ("number".toList, .int, some (.int 0))
  let sv : Val := .model [("word".toList, .str "x".toList), ("number".toList, .int 7)]
  have hW : Enc Ty.str (.str "x".toList) (.atom "x".toList) := Enc.basic (v := .str "x".toList) rfl (by decide)
  have hN : Enc Ty.int (.int 7) (.atom "7".toList) := Enc.basic (v := .int 7) rfl (by decide)
  have hA : Enc Ty.str (.str "v".toList) (.atom "v".toList) := Enc.basic (v := .str "v".toList) rfl (by decide)
  -- the sub-record, positionally and by keyword
  have hSpos : Enc (plainTop kwSub0) sv (.list [.atom "x".toList, .atom "7".toList]) :=
    Enc.model (sfs := kwSub0) (h2f := []) (f2h := [])
      [⟨false, [], fW, .str "x".toList, .atom "x".toList⟩, ⟨false, [], fN, .int 7, .atom "7".toList⟩]
      rfl (by decide) (by intro e he; simp at he; rcases he with rfl | rfl <;> simp [kwSub0, fW, fN])
      ⟨fun _ => rfl, fun _ => rfl, trivial⟩ (by decide)
      (by intro e he; simp at he; rcases he with rfl | rfl; exact hW; exact hN)
      (by intro e he; simp at he; rcases he with rfl | rfl <;> simp)
      (by intro e he; simp at he; rcases he with rfl | rfl <;> simp [tryKwarg])
      (by decide)
      (by intro p hp; simp [kwSub0] at hp; rcases hp with rfl | rfl
          · exact Or.inl ⟨⟨false, [], fW, .str "x".toList, .atom "x".toList⟩, by simp, rfl⟩
          · exact Or.inl ⟨⟨false, [], fN, .int 7, .atom "7".toList⟩, by simp, rfl⟩)
  have hSkw : Enc (plainTop kwSub0) sv (.list [.list [.atom "number".toList, .atom "7".toList],
      .list [.atom "word".toList, .atom "x".toList]]) :=
    Enc.model (sfs := kwSub0) (h2f := []) (f2h := [])
      [⟨true, "number".toList, fN, .int 7, .atom "7".toList⟩, ⟨true, "word".toList, fW, .str "x".toList, .atom "x".toList⟩]
      rfl (by decide) (by intro e he; simp at he; rcases he with rfl | rfl <;> simp [kwSub0, fW, fN])
      ⟨fun h => by simp at h, fun h => by simp at h, trivial⟩ (by decide)
      (by intro e he; simp at he; rcases he with rfl | rfl; exact hN; exact hW)
      (by intro e he; simp at he; rcases he with rfl | rfl <;> intro _ <;> rfl)
      (by intro e he; simp at he; rcases he with rfl | rfl <;> simp)
      (by decide)
      (by intro p hp; simp [kwSub0] at hp; rcases hp with rfl | rfl
          · exact Or.inl ⟨⟨true, "word".toList, fW, .str "x".toList, .atom "x".toList⟩, by simp, rfl⟩
          · exact Or.inl ⟨⟨true, "number".toList, fN, .int 7, .atom "7".toList⟩, by simp, rfl⟩)
  constructor
  · exact Enc.model (sfs := exOuter) (h2f := []) (f2h := [])
      [⟨false, [], fA, .str "v".toList, .atom "v".toList⟩,
       ⟨false, [], fS, sv, .list [.atom "x".toList, .atom "7".toList]⟩]
      rfl (by decide) (by intro e he; simp at he; rcases he with rfl | rfl <;> simp [exOuter, exOuterVal, fA, fS, sv])
      ⟨fun _ => rfl, fun _ => rfl, trivial⟩ (by decide)
      (by intro e he; simp at he; rcases he with rfl | rfl; exact hA; exact hSpos)
      (by intro e he; simp at he; rcases he with rfl | rfl <;> simp)
      (by intro e he; simp at he; rcases he with rfl | rfl <;> intro _ <;> decide)
      (by decide)
      (by intro p hp; simp [exOuter, exOuterVal] at hp; rcases hp with rfl | rfl | rfl
          · exact Or.inl ⟨⟨false, [], fA, .str "v".toList, .atom "v".toList⟩, by simp, rfl⟩
          · exact Or.inl ⟨⟨false, [], fS, sv, .list [.atom "x".toList, .atom "7".toList]⟩, by simp, rfl⟩
          · exact Or.inr rfl)
  · exact Enc.model (sfs := exOuter) (h2f := []) (f2h := [])
      [⟨true, "s".toList, fS, sv, .list [.list [.atom "number".toList, .atom "7".toList],
          .list [.atom "word".toList, .atom "x".toList]]⟩,
       ⟨true, "a".toList, fA, .str "v".toList, .atom "v".toList⟩]
      rfl (by decide) (by intro e he; simp at he; rcases he with rfl | rfl <;> simp [exOuter, exOuterVal, fA, fS, sv])
      ⟨fun h => by simp at h, fun h => by simp at h, trivial⟩ (by decide)
      (by intro e he; simp at he; rcases he with rfl | rfl; exact hSkw; exact hA)
      (by intro e he; simp at he; rcases he with rfl | rfl <;> intro _ <;> rfl)
      (by intro e he; simp at he; rcases he with rfl | rfl <;> simp)
      (by decide)
      (by intro p hp; simp [exOuter, exOuterVal] at hp; rcases hp with rfl | rfl | rfl
          · exact Or.inl ⟨⟨true, "a".toList, fA, .str "v".toList, .atom "v".toList⟩, by simp, rfl⟩
          · exact Or.inl ⟨⟨true, "s".toList, fS, sv, .list [.list [.atom "number".toList, .atom "7".toList],
              .list [.atom "word".toList, .atom "x".toList]]⟩, by simp, rfl⟩
          · exact Or.inr rfl)

/-- **Positional = keyword** for records of basic-typed fields: the cell `v1|…|vm` with the
values of the first `m` fields (the remaining fields at their defaults) decodes to the same
record as the key/value cell `a;va|b;vb|…` of its non-default fields written by `unparse`
— namely to the record itself — whenever `Unambiguous`. -/
theorem positional_eq_keyword_partial {sfs : List Field} {skvs : List (Str × Val)}
    (hfam : subFamily sfs = true)
    (hr : reprOk false (plainTop sfs) (.model skvs) = true)
    (hfo : fieldOk false (plainTop sfs) (.model skvs) = true)
    (pm pr : List SPair) (hpairs : pm ++ pr = sfs.zip (skvs.map Prod.snd)) (hne : pm ≠ [])
    (hok : ∀ p ∈ pm, reprOk false p.1.2.1 p.2 = true)
    (hlast : ∀ p, pm.getLast? = some p → printBasic p.2 ≠ [])
    (hdef : ∀ p ∈ pr, p.1.2.2 = some p.2)
    (hun : Unambiguous sfs (pm.map fun p => printBasic p.2) = true) :
    readCell (plainTop sfs) (Cell.joinCell (.list (pm.map posElem))) = .ok (.model skvs) ∧
    readCell (plainTop sfs)
      (Cell.joinCell (.list (((sfs.zip (skvs.map Prod.snd)).filter nonDefault).map subElem))) =
        .ok (.model skvs) := by
  obtain ⟨D⟩ := subData_of_repr hfam hr hfo
  have hfam' := hfam
  simp only [subFamily, Bool.and_eq_true, List.all_eq_true, decide_eq_true_eq] at hfam'
  constructor
  · apply readCell_positional pm pr hpairs D.hnames hfam'.2 hne ?_ hlast hdef
      (tryKwarg_of_unambiguous sfs pm hun)
    intro p hp
    have hmem : p ∈ sfs.zip (skvs.map Prod.snd) := by rw [← hpairs]; exact List.mem_append_left _ hp
    exact ⟨(hfam'.1 p.1 (List.of_mem_zip hmem).1).2, hok p hp⟩
  · rw [← D.hpairs]
    have hokf := subOk_filter D.hok
    have hndall : ∀ p ∈ D.pairs.filter nonDefault, nonDefault p = true :=
      fun p hp => (List.mem_filter.mp hp).2
    obtain ⟨hwf, hcok⟩ := wfCell_pairs D.hne hokf hndall
      (fun p hp => D.hfok p (List.mem_filter.mp hp).1 (hndall p hp))
    unfold readCell
    rw [cellParse_joinCell hwf hcok]
    have hpv : PV.ofCell (.list ((D.pairs.filter nonDefault).map subElem)) =
        .list ((D.pairs.filter nonDefault).map subEntry) := by
      simp [PV.ofCell, List.map_map, PV.ofElem, subElem, subEntry, Function.comp]
    simp only [hpv, assignValue, assignModel, tryKwarg_pairs_none]
    rw [assignEntries_kw sfs skvs _ _ [] hokf hndall (fun p _ => rfl)]
    simp only [List.nil_append, Option.getD_some]
    exact validate_sub D

/-- the key/value cell written by `unparse` for a record of basic fields decodes to the record -/
theorem keyword_cell_reads {sfs : List Field} {skvs : List (Str × Val)}
    (hfam : subFamily sfs = true)
    (hr : reprOk false (plainTop sfs) (.model skvs) = true)
    (hfo : fieldOk false (plainTop sfs) (.model skvs) = true) :
    readCell (plainTop sfs)
      (Cell.joinCell (.list (((sfs.zip (skvs.map Prod.snd)).filter nonDefault).map subElem))) =
        .ok (.model skvs) := by
  obtain ⟨D⟩ := subData_of_repr hfam hr hfo
  rw [← D.hpairs]
  have hokf := subOk_filter D.hok
  have hndall : ∀ p ∈ D.pairs.filter nonDefault, nonDefault p = true :=
    fun p hp => (List.mem_filter.mp hp).2
  obtain ⟨hwf, hcok⟩ := wfCell_pairs D.hne hokf hndall
    (fun p hp => D.hfok p (List.mem_filter.mp hp).1 (hndall p hp))
  unfold readCell
  rw [cellParse_joinCell hwf hcok]
  have hpv : PV.ofCell (.list ((D.pairs.filter nonDefault).map subElem)) =
      .list ((D.pairs.filter nonDefault).map subEntry) := by
    simp [PV.ofCell, List.map_map, PV.ofElem, subElem, subEntry, Function.comp]
  simp only [hpv, assignValue, assignModel, tryKwarg_pairs_none]
  rw [assignEntries_kw sfs skvs _ _ [] hokf hndall (fun p _ => rfl)]
  simp only [List.nil_append, Option.getD_some]
  exact validate_sub D

/-- **Mixed positional / keyword = keyword** for records of basic-typed fields: a cell whose
`i`-th entry is either the plain value of the `i`-th field (`MEntry.pos`; the index counts the
keyword entries too, as `enumerate` does) or a `name;value` pair for ANY field (`MEntry.kw`),
every field given at most once and the fields not given at their defaults, decodes to the
same record as the key/value cell written by `unparse` — namely to the record itself —
whenever the whole-cell keyword rule does not fire (`UnambiguousM`).  All-positional and
all-keyword cells are the special cases. -/
theorem mixed_eq_keyword {sfs : List Field} {skvs : List (Str × Val)}
    (hfam : subFamily sfs = true)
    (hr : reprOk false (plainTop sfs) (.model skvs) = true)
    (hfo : fieldOk false (plainTop sfs) (.model skvs) = true)
    (es : List MEntry) (hne : es ≠ [])
    (hmem : ∀ e ∈ es, e.pair ∈ sfs.zip (skvs.map Prod.snd))
    (hat : PosAt sfs 0 es) (hndE : (es.map (·.pair.1.1)).Nodup)
    (hok : ∀ e ∈ es, reprOk false e.pair.1.2.1 e.pair.2 = true)
    (hkwnb : ∀ p, MEntry.kw p ∈ es → printBasic p.2 ≠ [])
    (hlast : ∀ p, es.getLast? = some (.pos p) → printBasic p.2 ≠ [])
    (hrest : ∀ p ∈ sfs.zip (skvs.map Prod.snd), (∃ e ∈ es, e.pair = p) ∨ p.1.2.2 = some p.2)
    (hun : UnambiguousM sfs es = true) :
    readCell (plainTop sfs) (Cell.joinCell (.list (es.map (·.elem)))) =
      readCell (plainTop sfs)
        (Cell.joinCell (.list (((sfs.zip (skvs.map Prod.snd)).filter nonDefault).map subElem))) ∧
    readCell (plainTop sfs) (Cell.joinCell (.list (es.map (·.elem)))) = .ok (.model skvs) := by
  have hnames : skvs.map Prod.fst = sfs.map (·.1) := by
    simp only [reprOk, Bool.and_eq_true, decide_eq_true_eq] at hr
    exact hr.1.1
  have h1 := readCell_mixed es hnames hfam hne hmem hat hndE hok hkwnb hlast hrest
    (tryKwarg_of_unambiguousM sfs es hun)
  exact ⟨by rw [h1, keyword_cell_reads hfam hr hfo], h1⟩

def kwSub : List Field :=
  [("word".toList, .str, some (.str [])), ("number".toList, .int, some (.int 0))]

/-- Boolean form of `readCell ty text = .ok v` for the kernel-evaluated witnesses -/
def readsAs (ty : Ty) (text : Str) (v : Val) : Bool :=
  match readCell ty text with
  | .ok v' => v' == v
  | .error _ => false

/-- **`Unambiguous` is needed** (finding F-C09-a): for `Sub(word: str, number: int)` the
positional cell `number;5` (or `number|5`) of `Sub(word="number", number=5)` is decoded as
the keyword argument `number=5`, leaving `word` at its default; the keyword cell of the same
data decodes to the data. -/
theorem positional_needs_Unambiguous :
    Unambiguous kwSub ["number".toList, "5".toList] = false ∧
    readsAs (plainTop kwSub) "number;5".toList
      (.model [("word".toList, .str []), ("number".toList, .int 5)]) = true ∧
    readsAs (plainTop kwSub) "number|5".toList
      (.model [("word".toList, .str []), ("number".toList, .int 5)]) = true ∧
    readsAs (plainTop kwSub) "word;number|number;5".toList
      (.model [("word".toList, .str "number".toList), ("number".toList, .int 5)]) = true := by
  decide +kernel

/-- non-vacuity of `positional_eq_keyword_partial`: `Sub(word="x|y", number=5)` as `x\|y|5` -/
example :
    readsAs (plainTop kwSub) "x\\|y|5".toList
      (.model [("word".toList, .str "x|y".toList), ("number".toList, .int 5)]) = true ∧
    Unambiguous kwSub ["x|y".toList, "5".toList] = true := by decide +kernel

/-- non-vacuity of `mixed_eq_keyword`: `Sub(word="x|y", number=5)` as `x\|y|number;5`
(positional then keyword); `Sub4(q=7, z="end")` as `z;end|7` (keyword first, then the value
of the field at index 1) -/
example :
    readsAs (plainTop kwSub) "x\\|y|number;5".toList
      (.model [("word".toList, .str "x|y".toList), ("number".toList, .int 5)]) = true ∧
    readsAs (plainTop exSub) "z;end|7".toList
      (.model [("p".toList, .str []), ("q".toList, .int 7), ("w".toList, .bool false),
        ("z".toList, .str "end".toList)]) = true := by decide +kernel

/-- `UnambiguousM` is needed: `number|number;5` (positional `word="number"`, keyword
`number=5`) is taken as the ONE keyword argument `number=[number,5]` -/
theorem mixed_needs_UnambiguousM :
    UnambiguousM kwSub [.pos (("word".toList, .str, some (.str [])), .str "number".toList),
      .kw (("number".toList, .int, some (.int 0)), .int 5)] = false ∧
    readsAs (plainTop kwSub) "number|number;5".toList
      (.model [("word".toList, .str "number".toList), ("number".toList, .int 5)]) = false := by
  decide +kernel

/-- the entry-level side condition is needed (finding F-C09-a again): in `v|a;y` the entry
`a;y`, meant as the sub-record `Sub(word="a", number=…)` given positionally, is taken as the
keyword argument `a="y"` of the outer record; the cell `v|x;7` of the example decodes as
intended -/
theorem positional_entry_needs_unambiguous :
    readsAs (plainTop exOuter) "v|x;7".toList exOuterVal = true ∧
    readsAs (plainTop exOuter) "v|a;7".toList
      (.model [("a".toList, .str "v".toList),
        ("s".toList, .model [("word".toList, .str "a".toList), ("number".toList, .int 7)]),
        ("xs".toList, .list [])]) = false := by decide +kernel

/-! ### column order -/

/-- **Column permutation**, for every schema (with or without header remaps, `*` columns
and context remap already applied): reordering the entries of a row by swaps of adjacent
entries that belong to different top-level fields — i.e. any permutation that keeps the
relative order of the entries of each field — does not change the parsed row.  Frame
lemma of `find_entry` (`parseEntry_eff`): an entry reads and writes only the dictionary
slot of its own top-level field. -/
theorem column_perm (fs : List Field) (h2f f2h : List (Str × Str))
    {cols cols' : List (Str × ColVal)} (h : FieldPerm h2f cols cols') :
    parseEntries (.model fs h2f f2h) cols = parseEntries (.model fs h2f f2h) cols' :=
  column_perm_entries fs h2f f2h h

/-- the same on `parse_row` itself -/
theorem column_perm_parseRow (sch : Schema) (fs : List Field) (h2f f2h : List (Str × Str))
    (htop : sch.top = .model fs h2f f2h) (d d' : List (Str × Str)) (es es' : List (Str × ColVal))
    (he : rowEntries sch d = .ok es) (he' : rowEntries sch d' = .ok es')
    (h : FieldPerm h2f es es') : toOpt (parseRow sch d) = toOpt (parseRow sch d') := by
  rw [parseRow_obs sch d es he, parseRow_obs sch d' es' he', htop]
  exact column_perm fs h2f f2h h

def exPerm : List Field :=
  [("a".toList, .str, some (.str [])), ("xs".toList, .list .str, some (.list [])),
   ("b".toList, .int, some (.int 0))]

/-- non-vacuity: `a, xs.1, xs.2, b` reordered to `xs.1, b, xs.2, a` (the two `xs` columns keep
their order) is a `FieldPerm`, and both parse -/
example : FieldPerm []
    [("a".toList, Sum.inl "x".toList), ("xs.1".toList, Sum.inl "p".toList),
     ("xs.2".toList, Sum.inl "q".toList), ("b".toList, Sum.inl "5".toList)]
    [("xs.1".toList, Sum.inl "p".toList), ("b".toList, Sum.inl "5".toList),
     ("xs.2".toList, Sum.inl "q".toList), ("a".toList, Sum.inl "x".toList)] := by
  refine .trans (.swap [] _ _ _ (by decide)) ?_
  refine .trans (.swap [_] _ _ _ (by decide)) ?_
  refine .trans (.swap [_, _] _ _ _ (by decide)) ?_
  exact .swap [_] _ _ _ (by decide)

/-- columns of ONE list field must stay in index order (the code asserts it): swapping `xs.1`
and `xs.2` turns a row that parses into an error — "belong to different fields" is needed -/
theorem column_perm_needs_different_fields :
    (parseEntries (plainTop exPerm)
      [("xs.1".toList, Sum.inl "p".toList), ("xs.2".toList, Sum.inl "q".toList)]).isSome = true ∧
    (parseEntries (plainTop exPerm)
      [("xs.2".toList, Sum.inl "q".toList), ("xs.1".toList, Sum.inl "p".toList)]).isSome = false := by
  decide +kernel

end Rpft.Props.C09
