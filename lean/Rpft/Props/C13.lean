/-
C13 — output is a function of the input: deterministic, repeatable, history-free (PARTIAL).
-/
import Rpft.Lemmas.Determinism
import Rpft.Gen.Tables
import Rpft.Canon
set_option linter.unusedSimpArgs false
set_option linter.unusedVariables false
namespace Rpft.Props.C13
open Rpft Rpft.Det

/-! ## (a) the logging context is a balanced stack -/

/-- a body leaves both module-global lists as it found them, whatever its outcome -/
def Balanced {α : Type} (body : LState → Except Err α × LState) : Prop :=
  ∀ s, (body s).2.stack = s.stack ∧ (body s).2.vars = s.vars

theorem withCtx_balanced {α : Type} (n : Str) (kv : Vars) (body : LState → Except Err α × LState)
    (hb : Balanced body) (st : LState) :
    (withCtx n kv body st).2.stack = st.stack ∧ (withCtx n kv body st).2.vars = st.vars ∧
    (withCtx n kv body st).1 = (body (add n kv st)).1 := by
  have h := hb (add n kv st)
  simp only [withCtx, pop, h.1, h.2]
  simp [add]

mutual
  theorem exec_den : ∀ (p : Prog) (st : LState),
      exec p st = ((den p st.stack).1, { st with seen := st.seen ++ (den p st.stack).2 })
    | .work m, st => by simp [exec, den]
    | .fail m, st => by simp [exec, den]
    | .call n body, st => by
        have h := execList_den body (add n [] st)
        simp only [exec, den, withCtx, h, pop]
        simp [add]
    | .attempt body, st => by
        simp [exec, den, execList_den body st]
  theorem execList_den : ∀ (ps : List Prog) (st : LState),
      execList ps st = ((denList ps st.stack).1, { st with seen := st.seen ++ (denList ps st.stack).2 })
    | [], st => by simp [execList, denList]
    | p :: ps, st => by
        rw [execList, exec_den p st, denList]
        rcases h : den p st.stack with ⟨r, recs⟩
        cases r with
        | ok u => simp [execList_den ps, List.append_assoc]
        | error e => simp
end

/-- every nesting / sequence of `with logging_context` blocks, failing or not, restores both
module-global lists: the stack an API call leaves behind is the stack it found -/
theorem stack_restored (p : Prog) (st : LState) :
    (exec p st).2.stack = st.stack ∧ (exec p st).2.vars = st.vars := by
  simp [exec_den]

theorem stack_restored_list (ps : List Prog) (st : LState) :
    (execList ps st).2.stack = st.stack ∧ (execList ps st).2.vars = st.vars := by
  simp [execList_den]

/-- the body of a `call` is balanced, so `withCtx_balanced` applies at every level -/
theorem body_balanced (ps : List Prog) : Balanced (execList ps) :=
  fun s => stack_restored_list ps s

/-- a whole process history of survived calls leaves the logger as it was at import time -/
theorem history_stack_restored (calls : List Prog) (st : LState) :
    (runHistory calls st).stack = st.stack ∧ (runHistory calls st).vars = st.vars := by
  induction calls generalizing st with
  | nil => simp [runHistory]
  | cons p ps ih =>
    have h := stack_restored (.attempt [p]) st
    have := ih (exec (.attempt [p]) st).2
    simp only [runHistory, List.foldl_cons] at this ⊢
    rw [this.1, this.2, h.1, h.2]; exact ⟨rfl, rfl⟩

/-- what the observed call raises and logs (with the processing stack on each record) does not
depend on the history that preceded it -/
theorem observed_history_free (p : Prog) (calls : List Prog) (st : LState) :
    (exec p (runHistory calls st)).1 = (exec p st).1 ∧
    records p (runHistory calls st) = records p st := by
  have h := (history_stack_restored calls st).1
  simp [records, exec_den, h]

/-- depth 0 after every call of a fresh process: the prediction the global-state audit checks -/
theorem depth_zero_after_history (calls : List Prog) :
    (runHistory calls LState.empty).stack = [] ∧ (runHistory calls LState.empty).vars = [] :=
  history_stack_restored calls LState.empty

example : Balanced (execList [.work "w".toList, .call "inner".toList [.fail "boom".toList], .work "never".toList]) :=
  body_balanced _

/-- `withCtx_balanced` needs a balanced body: a body that calls `add` itself leaks -/
theorem withCtx_needs_balanced_body :
    ¬ ((withCtx "n".toList [] (fun s => ((.ok () : Except Err Unit), add "x".toList [] s)) LState.empty).2.stack
        = LState.empty.stack) := by decide

/-- the theorem is about *this* `__exit__`: one that does not pop on exceptions leaks an entry
into the next call (the mutation the audit is meant to catch) -/
theorem leaky_exit_not_restored :
    (execLeaky (.attempt [.call "a".toList [.fail "x".toList]]) LState.empty).2.stack = ["a".toList] ∧
    (execLeaky (.work "w".toList)
        (execLeaky (.attempt [.call "a".toList [.fail "x".toList]]) LState.empty).2).2.seen
      = [(["a".toList], "w".toList)] := by decide

/-! ## (b) fresh ids: never reused, given ids verbatim -/

/-- ids invented along ANY sequence of calls that share the id source are pairwise distinct —
between objects of one run and between runs — provided the source never repeats itself
(injective stream; `uuid4` entropy is the unmodelled assumption behind that) -/
theorem invented_never_reused {I : Type} (f : Nat → I) (hf : Injective f) (ss : List Shape) (c : Nat) :
    (inventedAll (fillAll f ss c).1).Nodup := by
  rw [fillAll_invented]
  exact nodup_map_of_injective f hf _ (List.nodup_range' (step := 1))

example : (inventedAll (fillAll (fun k => k + 100) [.node [] .hole (.given "g".toList), .hole] 3).1).Nodup :=
  invented_never_reused _ (by intro a b h; simpa using h) _ _

example : (inventedAll (fillAll id [.node [] .hole (.given "g".toList), .hole, .node [] .hole .hole] 0).1)
    = [0, 1, 2, 3] := by decide

/-- a repeating source does repeat ids: injectivity is forced -/
theorem invented_needs_injective :
    ¬ (inventedAll (fillAll (fun _ => 7) [.hole, .hole] 0).1).Nodup := by decide

/-- every id present in the input appears unchanged in the output position it belongs to:
erasing the invented ids from the output gives back the input, so in particular the given ids
are the same, in the same order -/
theorem given_ids_verbatim {I : Type} (f : Nat → I) (s : Shape) (c : Nat) :
    (fillWith f s c).1.erase = s ∧ (fillWith f s c).1.givens = s.givens := by
  refine ⟨fillWith_erase f s c, ?_⟩
  rw [← erase_givens, fillWith_erase]

/-! ## (c) two runs differ by a bijection on invented ids -/

/-- for injective streams the induced correspondence is one-to-one in both directions -/
theorem induced_bijective {I J : Type} (f : Nat → I) (g : Nat → J) (hf : Injective f) (hg : Injective g) :
    (∀ a b b', Induced f g a b → Induced f g a b' → b = b') ∧
    (∀ a a' b, Induced f g a b → Induced f g a' b → a = a') := by
  constructor
  · rintro a b b' ⟨k, hk, hb⟩ ⟨k', hk', hb'⟩
    have : k = k' := hf _ _ (hk ▸ hk')
    subst this; rw [hb, hb']
  · rintro a a' b ⟨k, hk, hb⟩ ⟨k', hk', hb'⟩
    have : k = k' := hg _ _ (hb ▸ hb')
    subst this; rw [hk, hk']

/-- injectivity is forced: a repeating stream relates one id of run 1 to two ids of run 2 -/
theorem induced_needs_injective :
    ¬ (∀ a b b', Induced (fun _ : Nat => (0 : Nat)) (id : Nat → Nat) a b →
        Induced (fun _ : Nat => (0 : Nat)) id a b' → b = b') := by
  intro h
  have := h 0 1 2 ⟨1, rfl, rfl⟩ ⟨2, rfl, rfl⟩
  omega

/-- two runs of the same id-consuming program on the same input with different fresh-id
streams produce outputs that agree everywhere except on invented ids, which correspond through
the induced relation — a bijection when both streams are injective (`induced_bijective`) -/
theorem renaming_class {I J : Type} (f : Nat → I) (g : Nat → J) (s : Shape) (c c' : Nat) :
    TreeRel (Induced (fun k => f (c + k)) (fun k => g (c' + k)))
      (fillWith f s c).1 (fillWith g s c').1 := by
  induction s generalizing c c' with
  | given x => exact .given x
  | hole => exact .inv ⟨0, rfl, rfl⟩
  | node lb l r ihl ihr =>
    simp only [fillWith]
    refine .node lb (ihl c c') ?_
    have h := ihr (fillWith f l c).2 (fillWith g l c').2
    rw [fillWith_counter, fillWith_counter] at h
    -- shift the witness index by the number of ids the left subtree consumed
    have shift : ∀ {t : Tree I} {u : Tree J},
        TreeRel (Induced (fun k => f (c + l.holes + k)) (fun k => g (c' + l.holes + k))) t u →
        TreeRel (Induced (fun k => f (c + k)) (fun k => g (c' + k))) t u := by
      intro t u hr
      induction hr with
      | given x => exact .given x
      | inv hij =>
        rcases hij with ⟨k, hk, hk'⟩
        exact .inv ⟨l.holes + k, by simp [hk, Nat.add_assoc], by simp [hk', Nat.add_assoc]⟩
      | node lb _ _ ih1 ih2 => exact .node lb ih1 ih2
    rw [fillWith_counter, fillWith_counter]
    exact shift h

example : TreeRel (Induced (fun k => 10 + k) (fun k => 20 + k))
    (fillWith (fun k => 10 + k) (.node [] .hole (.node [] (.given "g".toList) .hole)) 0).1
    (fillWith (fun k => 20 + k) (.node [] .hole (.node [] (.given "g".toList) .hole)) 0).1 := by
  simpa using renaming_class (fun k => 10 + k) (fun k => 20 + k) (.node [] .hole (.node [] (.given "g".toList) .hole)) 0 0

/-- the relation is not vacuous: outputs of different inputs are not related -/
theorem treeRel_distinguishes :
    ¬ TreeRel (Induced (id : Nat → Nat) id) (fill (.given "a".toList) 0).1 (fill (.given "b".toList) 0).1 := by
  intro h; cases h

/-- … hence two runs with different injective id streams have the SAME canonical output, equal
to the counter run: comparing canonical forms (as the check does) decides the renaming class -/
theorem canon_run_independent {I : Type} [DecidableEq I] (f : Nat → I) (hf : Injective f) (s : Shape) :
    canon (fillWith f s 0).1 = (fill s 0).1 := by
  rw [fillWith_map]; simp only []
  rw [canon_map f hf, canon_fill]

/-- injectivity is forced: a repeating stream is canonicalised differently -/
theorem canon_needs_injective :
    canon (fillWith (fun _ => (7 : Nat)) (.node [] .hole .hole) 0).1 ≠ (fill (.node [] .hole .hole) 0).1 := by
  decide

/-! ## (d) UUIDDict: `validate` is idempotent -/

/-- `generate_missing_uuids` twice = once: the second pass changes nothing and draws no id -/
theorem generate_idem (d : PyDict) (c c' : Nat) :
    generateMissing (generateMissing d c).1 c' = ((generateMissing d c).1, c') :=
  generateMissing_of_allTruthy _ _ (generateMissing_allTruthy d c)

/-- recording a reference again after `generate` is a no-op when it is consistent with what is
recorded (blank, or the recorded uuid itself) -/
theorem record_after_generate_noop (d : PyDict) (n : Str) (u : Option Str)
    (ht : allTruthy d = true) (hn : n ∈ keys d) (hc : truthy u = false ∨ u = d.get n) :
    recordUuid d n u = .ok d := by
  have := truthy_get_of_mem d n ht hn
  unfold recordUuid
  simp only [this, if_true]
  rcases hc with hc | hc
  · simp [hc]
  · simp [hc]

example : recordUuid [("g".toList, some "u1".toList)] "g".toList none = .ok [("g".toList, some "u1".toList)] :=
  record_after_generate_noop _ _ _ (by decide) (by decide) (Or.inl rfl)

/-- consistency is forced: a different uuid for a recorded name is an error, not a no-op -/
theorem record_needs_consistent :
    recordUuid [("g".toList, some "u1".toList)] "g".toList (some "u2".toList) = .error "multiple uuids".toList := by
  rfl

theorem recordAll_assigned (d : PyDict) (refs : List (Str × Option Str))
    (ht : allTruthy d = true) (hk : ∀ r, r ∈ refs → r.1 ∈ keys d) :
    recordAll d (assign d refs) = .ok d := by
  induction refs with
  | nil => simp [assign, recordAll]
  | cons r rs ih =>
    have h1 := record_after_generate_noop d r.1 (d.get r.1) ht (hk r (by simp)) (Or.inr rfl)
    have h2 := ih (fun r' hr' => hk r' (by simp [hr']))
    simp only [assign, List.map_cons, recordAll, h1] at h2 ⊢
    exact h2

/-- the second `validate()` changes nothing: same dictionary, same assigned references, no id
drawn — so `render(); render()` and `render(); to_rows()` see the same object state -/
theorem validate_idem (d d' : PyDict) (refs refs' : List (Str × Option Str)) (c c' c2 : Nat)
    (h : validate d refs c = .ok (d', refs', c')) :
    validate d' refs' c2 = .ok (d', refs', c2) := by
  unfold validate at h
  split at h
  · cases h
  · next d1 h1 =>
    simp only [Except.ok.injEq, Prod.mk.injEq] at h
    obtain ⟨hd, hr, hc⟩ := h
    have hk := recordAll_keys d d1 refs h1
    have ht : allTruthy d' = true := hd ▸ generateMissing_allTruthy d1 c
    have hkeys : ∀ r, r ∈ refs → r.1 ∈ keys d' := by
      intro r hr'
      rw [← hd, generateMissing_keys]
      exact hk.1 r hr'
    subst hr
    rw [hd]
    unfold validate
    rw [recordAll_assigned d' refs ht hkeys]
    simp only [generateMissing_of_allTruthy d' c2 ht, assign_idem]

example : validate [("f".toList, none)] [("f".toList, none), ("g".toList, some "u".toList)] 0
    = .ok ([("f".toList, some "#0".toList), ("g".toList, some "u".toList)],
           [("f".toList, some "#0".toList), ("g".toList, some "u".toList)], 1) := by rfl

/-! ### render / to_rows commute exactly when every reference carries its uuid

`to_rows` exports the uuid of a group / flow reference as `obj_id`; `render` = `validate` then a
pure function.  So `to_rows` before and after `render` agree iff `validate` leaves the references
as they are.  The hypothesis forced by the proof is the trigger of known finding F-C13-a. -/

/-- `to_rows(); render(); to_rows()` — the export sees the same references before and after,
PROVIDED every reference carries a uuid in the input -/
theorem render_toRows_commute (d d' : PyDict) (refs refs' : List (Str × Option Str)) (c c' : Nat)
    (h : validate d refs c = .ok (d', refs', c')) (hall : ∀ r, r ∈ refs → truthy r.2 = true) :
    refs' = refs := by
  unfold validate at h
  split at h
  · cases h
  · next d1 h1 =>
    simp only [Except.ok.injEq, Prod.mk.injEq] at h
    obtain ⟨hd, hr, _⟩ := h
    subst hr
    have hrec := recordAll_records d d1 refs h1 hall
    have key : ∀ r, r ∈ refs → (r.1, d'.get r.1) = r := by
      intro r hr
      have e1 := hrec r hr
      have := generateMissing_keeps d1 c r.1 (by rw [e1]; exact hall r hr)
      rw [← hd, this, e1]
    rw [hd]
    simp only [assign]
    calc refs.map (fun r => (r.1, d'.get r.1)) = refs.map id := List.map_congr_left (by intro r hr; simpa using key r hr)
      _ = refs := by simp

example : validate [] [("g".toList, some "u".toList)] 0 = .ok ([("g".toList, some "u".toList)], [("g".toList, some "u".toList)], 0) := by rfl

/-- the hypothesis is forced (known finding F-C13-a): a reference without uuid comes back from
`render` with an invented one, which the next `to_rows` exports -/
theorem render_toRows_commute_needs_given :
    validate [] [("g".toList, none)] 0 = .ok ([("g".toList, some "#0".toList)], [("g".toList, some "#0".toList)], 1) := by rfl

/-! ## (e) export scratch state (thin: the DFS is an arbitrary function) -/

/-- `to_rows` twice gives the same rows, whatever the DFS computes, because the scratch state is
reset at entry and the nodes are not written -/
theorem toRows_idem {N S : Type} (empty : S) (dfs : N → S → S) (fl : Flow N S) :
    (toRows empty dfs (toRows empty dfs fl).2).1 = (toRows empty dfs fl).1 := by
  simp [toRows]

/-- … and whatever an earlier export (or anything else) left in the scratch attributes -/
theorem toRows_scratch_free {N S : Type} (empty : S) (dfs : N → S → S) (fl : Flow N S) (junk : S) :
    (toRows empty dfs { fl with scratch := junk }).1 = (toRows empty dfs fl).1 := by
  simp [toRows]

/-- the reset is what carries it: without it a DFS that accumulates returns more the second time -/
theorem toRows_needs_clear :
    (toRowsNoClear (fun (n : Nat) (s : List Nat) => s ++ [n]) (toRowsNoClear (fun n s => s ++ [n]) ⟨1, []⟩).2).1
      ≠ (toRowsNoClear (fun (n : Nat) (s : List Nat) => s ++ [n]) ⟨1, []⟩).1 := by decide

/-! ## T1: the behaviour of the source the model stands for -/

/-- T1 (`harness/tables/t13_determinism.py`, behaviour probes re-run on every check): `add` grows and
`pop` restores exactly the two observables of the model's stack state (a set: compared up to order);
entering a `logging_context` block pushes one frame, leaving it pops one, also when it is left by an
exception, which is not swallowed; `to_rows` gives the same rows whatever junk its scratch attributes
hold at entry and empties the row models of every node. -/
theorem tables_agree :
    Canon.sameSet Gen.loggerAddAppends stackFields ∧ Canon.sameSet Gen.loggerPopPops stackFields ∧
    Gen.loggerEnterAdds = 1 ∧ Gen.loggerExitPops = 1 ∧ Gen.loggerExitConditionalPops = 0 ∧
    Gen.loggerExitSwallows = 0 ∧
    Gen.toRowsScratchReset = true ∧ Gen.toRowsClearsRowModels = 1 := by decide

/-! ## What is NOT proved (kept visible)

The property is about the REAL process: every API call answers as a function of its arguments, up
to the renaming class, whatever the process did before — including hash randomisation, import-time
side effects and `uuid4` entropy.  Those are runtime facts no Lean model exhibits.  `C13_full` is
that statement as a predicate of an arbitrary process (state space `S`, transition `api`); it is
proved below for the MODEL process, whose cross-call state is exactly {logging stacks, id counter}
(`C13_model_partial`).  That the real process has no other cross-call state is what the
global-state audit and the history differential of `harness/props/c13.py` decide per explored
history. -/

/-- a process answers history-free: the observation of a call after any history of other calls is
equivalent to its observation in the initial state -/
def C13_full {S Call Out : Type} (api : Call → S → Out × S) (init : S) (eqv : Out → Out → Prop) : Prop :=
  ∀ (hist : List Call) (c : Call),
    eqv (api c (hist.foldl (fun s h => (api h s).2) init)).1 (api c init).1

/-- not a triviality: a process that caches its first argument in a global is not history-free -/
theorem C13_full_fails_for_a_cache :
    ¬ C13_full (fun (c : Nat) (s : Option Nat) => (s.getD c, some (s.getD c))) none Eq := by
  intro h
  have := h [1] 2
  simp at this

/-- abstract process state: logger, id counter -/
structure Proc where
  log : LState
  ctr : Nat

/-- an API call in the model: a logger program plus an id-consuming program on the same input -/
structure Call where
  prog : Prog
  shape : Shape

/-- observation of a call: outcome, output tree, records emitted (with processing stacks) -/
abbrev Obs := Except Err Unit × Tree Str × List (List Str × Str)

def Call.run (f : Nat → Str) (c : Call) (p : Proc) : Obs × Proc :=
  let r := exec c.prog p.log
  let t := fillWith f c.shape p.ctr
  ((r.1, t.1, (r.2.seen).drop p.log.seen.length), ⟨r.2, t.2⟩)

def runCalls (f : Nat → Str) (cs : List Call) (p : Proc) : Proc :=
  cs.foldl (fun s c => (c.run f s).2) p

/-- same outcome, same records, outputs in the same renaming class (equal canonical forms) -/
def ObsEquiv (a b : Obs) : Prop := a.1 = b.1 ∧ a.2.2 = b.2.2 ∧ canon a.2.1 = canon b.2.1

theorem runCalls_log_stack (f : Nat → Str) (hist : List Call) (p : Proc) :
    (runCalls f hist p).log.stack = p.log.stack := by
  induction hist generalizing p with
  | nil => simp [runCalls]
  | cons c cs ih =>
    have := ih (c.run f p).2
    simp only [runCalls, List.foldl_cons] at this ⊢
    rw [this]
    simp [Call.run, (stack_restored c.prog p.log).1]

theorem canon_fillWith_any (f : Nat → Str) (hf : Injective f) (s : Shape) (c : Nat) :
    canon (fillWith f s c).1 = (fill s 0).1 := by
  have h1 : (fillWith f s c).1 = (fillWith (fun k => f (c + k)) s 0).1 := by
    have key : ∀ (s : Shape) (a b : Nat), (fillWith f s (a + b)).1 = (fillWith (fun k => f (a + k)) s b).1 := by
      intro s
      induction s with
      | given g => intro a b; simp [fillWith]
      | hole => intro a b; simp [fillWith]
      | node lb l r ihl ihr =>
        intro a b
        simp only [fillWith, fillWith_counter]
        rw [ihl a b, ← ihr a (b + l.holes), Nat.add_assoc]
    simpa using key s c 0
  rw [h1]
  exact canon_run_independent _ (shift_injective f hf c) s

/-- the modelled part of C13, for ALL histories, calls, initial states and injective id sources:
what the observed call raises, the records it logs (with their processing stacks) and its output up
to the renaming of invented ids are the same in a used process as in a fresh one. -/
theorem C13_model_partial (f : Nat → Str) (hf : Injective f) (p : Proc) :
    C13_full (fun c s => Call.run f c s) p ObsEquiv := by
  intro hist c
  have hs : (runCalls f hist p).log.stack = p.log.stack := runCalls_log_stack f hist p
  show ObsEquiv (c.run f (runCalls f hist p)).1 (c.run f p).1
  refine ⟨?_, ?_, ?_⟩
  · simp [Call.run, exec_den, hs]
  · simp [Call.run, exec_den, hs]
  · simp only [Call.run]
    rw [canon_fillWith_any f hf, canon_fillWith_any f hf]

example : C13_full (fun c s => Call.run (fun k => List.replicate k 'a') c s) ⟨LState.empty, 0⟩ ObsEquiv :=
  C13_model_partial _ (by intro a b h; simpa using congrArg List.length h) _

end Rpft.Props.C13
