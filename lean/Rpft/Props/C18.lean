/-
C18 — A model inferred from headers reads data like the explicit model it denotes.

Model: `Rpft/Infer.lean` (model_inference.py line by line).  Lemmas: `Rpft/Lemmas/Infer.lean`.

What is proved for ALL inputs (no bounds):
* `header_roundtrip`  — one annotated header: for every name the syntax can carry and every
  basic / `list` / `List[T]` type (T nested to any depth) with any default of the family, the
  header `name:type=default` is read back as exactly (name, type, default);
* `infer_render_flat_partial` — every family schema whose fields are written as one header
  each (any number of fields, any such types and defaults) is inferred back exactly;
* `infer_cells_independent` — the inferred model is a function of the headers alone.
`C18_full` (any nesting depth: records, indexed lists, lists of records) stays visible below;
it is kernel-checked on the nested instances `nested_instances` (depth 1–3, every construct)
and tied to the real code by the harness on thousands of generated schemas per run.
-/
import Rpft.Lemmas.InferNested
import Rpft.Gen.Tables
set_option linter.unusedSimpArgs false
set_option linter.unusedVariables false
namespace Rpft.Props.C18
open Rpft Rpft.Infer

/-- T1: separators, refused field names and the interpreter's decimal digits are those of the
source / running interpreter (regenerated on every run). -/
theorem tables_agree :
    Gen.headerSeparators = [sepField, sepType, sepDefault] ∧
    Gen.parserModelAttrs = shadowNames ∧ Gen.uniDigitZeros = uniDigitZeros := by decide

/-- The full statement: every schema of the family, rendered to annotated headers, is inferred
back exactly — names, types, defaults, nesting to any depth. -/
def C18_full : Prop :=
  ∀ sch : Schema, InFamily sch → infer (renderHeaders sch) = .ok (.model sch)

/-- all fields written as one annotated header each (no `f.1`, no `f.a`) -/
def Flat (sch : Schema) : Prop := ∀ f ∈ sch, isSimple f.2.1 f.2.2 = true

/-- **One header.**  `name`, `name:int`, `name:List[List[bool]]`, `name=v`, `name:float=-3` …:
the field name, the type and the default come back exactly. -/
theorem header_roundtrip {n : Str} (hn : nameOk n = true) (t : Ty) (d : Val)
    (hs : isSimple t d = true) (hf : famTD t d = true) :
    getFieldName (n ++ (annOf t ++ dflOf d)) = n ∧
    parseHeaderAnnotations (n ++ (annOf t ++ dflOf d)) = .ok (t, d) := by
  have hn' : NameFits n := by
    simp only [nameOk, Bool.and_eq_true, Bool.not_eq_true', beq_iff_eq, List.contains_eq_mem,
      decide_eq_false_iff_not] at hn
    obtain ⟨⟨⟨⟨⟨a1, a2⟩, a3⟩, a4⟩, _⟩, _⟩ := hn
    exact ⟨a1, a2, a3, a4⟩
  exact (leaf_roundtrip hn' t d hs hf).2

example : nameOk "my field".toList = true ∧ isSimple (.list (.list .int)) (.list []) = true ∧
    famTD (.list (.list .int)) (.list []) = true := by decide

/-- **Flat schemas** (proved part of `C18_full`): any number of fields, each `str`/`int`/`float`/
`bool` with any default of the family, `list`, or `List[T]` for any annotation type `T`. -/
theorem infer_render_flat_partial (sch : Schema) (h : InFamily sch) (hflat : Flat sch) :
    infer (renderHeaders sch) = .ok (.model sch) := by
  unfold InFamily inFamilyB at h
  simp only [Bool.and_eq_true] at h
  obtain ⟨hfam, hnames⟩ := h
  obtain ⟨n1, n2, n3, n4, n5, _⟩ := namesOk_unpack hnames
  have p1 := pass1_simples sch [] [] []
    (fun f hf => ⟨n1 f hf, hflat f hf, famFs_mem hfam f hf⟩) n5 (by simp)
  simp only [List.append_nil, List.nil_append] at p1
  unfold infer renderHeaders inferRec
  rw [p1]
  simp [pass1, pass2, finish_model sch n2 n3 n4]

example : InFamily [("a".toList, .int, .int 5), ("b c".toList, .list .bool, .list []),
    ("s".toList, .str, .str "x=y".toList)] ∧
    Flat [("a".toList, .int, .int 5), ("b c".toList, .list .bool, .list []),
    ("s".toList, .str, .str "x=y".toList)] := by
  refine ⟨by decide, ?_⟩
  unfold Flat
  decide

/-- **The nested round trip (main theorem, all schemas).**  Every schema of the family — basic
fields with defaults, `list` / `List[T]`, sub-records `a.b`, indexed lists `a.1, a.2` with
per-index defaults, lists of records `a.1.x`, lists of lists, nested to ANY depth and of any
width — rendered to its canonical header list is inferred back as exactly that schema: same
field names in the same order, same types, same defaults.  By induction on the size of the
type (`Lemmas/InferNested.lean`: `nested_roundtrip`, `level_exact`), no bound on depth. -/
theorem infer_render (sch : Schema) (h : InFamily sch) :
    infer (renderHeaders sch) = .ok (.model sch) :=
  infer_render_family sch h

/-- the full statement is proved -/
theorem C18_full_holds : C18_full := infer_render

/-- **Cell independence**: with a blank `data_model` the row model is computed from the header
row only; two sheets with the same headers get the same model whatever their cells. -/
theorem infer_cells_independent (headers : List Str) (cells₁ cells₂ : List (List Str)) :
    inferSheet headers cells₁ = inferSheet headers cells₂ := rfl

/-! ### `C18_full` on nested instances (kernel-checked) -/

def subAB : List Field := [("a".toList, .str, .str []), ("b".toList, .int, .int 5)]

/-- depth 1–3: record, indexed list with per-index defaults, list of records, list of lists,
record in record in list -/
def nestedInstances : List Schema :=
  [ [("f".toList, .model subAB, defaultRecord subAB)],
    [("f".toList, .list .int, .list [.int 0, .int 5])],
    [("f".toList, .list (.model subAB), .list [defaultRecord subAB, defaultRecord subAB])],
    [("f".toList, .list (.list .str), .list [.list [.str [], .str "a".toList], .list [.str "b".toList]])],
    [("x".toList, .bool, .bool true),
     ("r".toList, .model [("k".toList, .float, .float (-3)),
        ("l".toList, .list (.model [("m".toList, .model subAB, defaultRecord subAB)]),
          .list [defaultRecord [("m".toList, .model subAB, defaultRecord subAB)]])],
      defaultRecord [("k".toList, .float, .float (-3)),
        ("l".toList, .list (.model [("m".toList, .model subAB, defaultRecord subAB)]),
          .list [defaultRecord [("m".toList, .model subAB, defaultRecord subAB)]])])] ]

theorem nested_instances :
    nestedInstances.all (fun sch => inFamilyB sch && roundtripB sch) = true := by decide +kernel

/-! ### the clauses of `InFamily` are forced: one negative witness each -/

/-- a default containing `.` (former finding F-C18-a, fixed in /repo): nesting is decided on
the field name, so the dotted default is read back exactly (the family predicate is still
conservative about it) -/
theorem dotted_default_roundtrips :
    let sch : Schema := [("s".toList, .str, .str "a.b".toList)]
    roundtripB sch = true := by decide +kernel

/-- `:` in a name -/
theorem needs_no_colon_in_name :
    let sch : Schema := [("a:b".toList, .str, .str [])]
    inFamilyB sch = false ∧ roundtripB sch = false := by decide +kernel

/-- `=` in a name -/
theorem needs_no_equals_in_name :
    let sch : Schema := [("a=b".toList, .int, .int 0)]
    inFamilyB sch = false ∧ roundtripB sch = false := by decide +kernel

/-- a name that reads as an integer turns the record into a list -/
theorem needs_non_integer_name :
    let sch : Schema := [("1".toList, .str, .str [])]
    inFamilyB sch = false ∧ roundtripB sch = false ∧
    inferIs (renderHeaders sch) (.list .str) = true := by decide +kernel

/-- list elements share one element type: the code keeps the LAST one and the per-index
defaults of all (`f.1:int, f.2` is a `List[str]` with default `[0, ""]`) -/
theorem mixed_element_types_take_last :
    inferIs ["f.1:int".toList, "f.2".toList]
      (.model [("f".toList, .list .str, .list [.int 0, .str []])]) = true := by decide +kernel

/-- a list of records cannot default to `[]`: its default is `[default record × n]` -/
theorem needs_list_of_record_default :
    let sub : List Field := [("a".toList, .str, .str [])]
    let bad : Schema := [("f".toList, .list (.model sub), .list [])]
    let good : Schema := [("f".toList, .list (.model sub), .list [defaultRecord sub, defaultRecord sub])]
    inFamilyB bad = false ∧ roundtripB bad = false ∧ inFamilyB good = true ∧ roundtripB good = true := by
  decide +kernel

/-- the code lists simple fields before complex ones -/
theorem needs_simple_first :
    let sch : Schema := [("r".toList, .model [("a".toList, .str, .str [])],
      defaultRecord [("a".toList, .str, .str [])]), ("b".toList, .str, .str [])]
    inFamilyB sch = false ∧ roundtripB sch = false := by decide +kernel

/-- a text default with leading/trailing blanks is stripped -/
theorem needs_stripped_default :
    let sch : Schema := [("s".toList, .str, .str " x".toList)]
    inFamilyB sch = false ∧ roundtripB sch = false := by decide +kernel

end Rpft.Props.C18
