import Rpft.Infer
import Rpft.Gen.Tables
namespace Rpft.Props.C18
open Rpft Rpft.Infer

end Rpft.Props.C18
