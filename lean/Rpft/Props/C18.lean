/-
C18 — A model inferred from headers reads data like the explicit model it denotes.

Model: `Rpft/Infer.lean` (model_inference.py line by line).  Lemmas: `Rpft/Lemmas/Infer.lean`
(strings, one header), `Lemmas/InferNested.lean` (the two loops, list detection, induction on the
type), `Lemmas/InferNorm.lean` (equivalence up to field order), `Lemmas/InferPerm.lean` (any
column order).

Proved for ALL inputs (structural induction, no bound on depth or width):
* `header_roundtrip`  — one annotated header `name:type=default` is read back exactly;
* **`infer_render`** (= `C18_full`, main theorem) — every schema of the family (basic fields,
  `list`/`List[T]`, sub-records, indexed lists with per-index defaults, lists of records, lists
  of lists, nested to any depth) rendered to its canonical headers is inferred back EXACTLY;
* **`infer_order_insensitive`** — for every schema of the family with its fields in ANY order
  (`InFamilyU`) and ANY permutation of its header list (interleaved fields, column-major lists of
  records, split sub-records/lists, list entries out of order) the inferred model is the schema
  up to the order of the fields (`TyEquiv`: equal after sorting the fields of every record by
  name; an equivalence relation, `tyEquiv_equivalence`); corollaries for the column orders the
  harness generates (`infer_column_moved`, `infer_adjacent_swap`, `infer_sorted_columns`) and
  `infer_perm_agree` (two orders of the same columns give equivalent models);
* `infer_cells_independent` — the inferred model is a function of the headers alone.
The index-order condition "entries of one list are opened in increasing order" is asserted by
`RowParser.find_entry` (rowparser.py), NOT by model_inference.py: inference does not need it
(`index_order_not_needed`).
-/
import Rpft.Lemmas.InferPerm
import Rpft.Lemmas.InferRow
import Rpft.Gen.Tables
set_option linter.unusedSimpArgs false
set_option linter.unusedVariables false
namespace Rpft.Props.C18
open Rpft Rpft.Infer

/-- T1: separators, refused field names and the interpreter's decimal digits are those of the
source / running interpreter (regenerated on every run). -/
theorem tables_agree :
    Gen.headerSeparators = [sepField, sepType, sepDefault] ∧
    Gen.parserModelAttrs = shadowNames ∧ Gen.uniDigitZeros = uniDigitZeros := by decide

def subAB0 : List Field := [("a".toList, .str, .str []), ("b".toList, .int, .int 5)]

/-- The full statement: every schema of the family, rendered to annotated headers, is inferred
back exactly — names, types, defaults, nesting to any depth. -/
def C18_full : Prop :=
  ∀ sch : Schema, InFamily sch → infer (renderHeaders sch) = .ok (.model sch)

/-- all fields written as one annotated header each (no `f.1`, no `f.a`) -/
def Flat (sch : Schema) : Prop := ∀ f ∈ sch, isSimple f.2.1 f.2.2 = true

/-- **One header.**  `name`, `name:int`, `name:List[List[bool]]`, `name=v`, `name:float=-3` …:
the field name, the type and the default come back exactly. -/
theorem header_roundtrip {n : Str} (hn : nameOk n = true) (t : Ty) (d : Val)
    (hs : isSimple t d = true) (hf : famTD t d = true) :
    getFieldName (n ++ (annOf t ++ dflOf d)) = n ∧
    parseHeaderAnnotations (n ++ (annOf t ++ dflOf d)) = .ok (t, d) := by
  have hn' : NameFits n := by
    simp only [nameOk, Bool.and_eq_true, Bool.not_eq_true', beq_iff_eq, List.contains_eq_mem,
      decide_eq_false_iff_not] at hn
    obtain ⟨⟨⟨⟨⟨a1, a2⟩, a3⟩, a4⟩, _⟩, _⟩ := hn
    exact ⟨a1, a2, a3, a4⟩
  exact (leaf_roundtrip hn' t d hs hf).2

example : nameOk "my field".toList = true ∧ isSimple (.list (.list .int)) (.list []) = true ∧
    famTD (.list (.list .int)) (.list []) = true := by decide

/-- **Flat schemas** (the first level of `infer_render`, proved directly): any number of fields,
each `str`/`int`/`float`/`bool` with any default of the family, `list`, or `List[T]`. -/
theorem infer_render_flat (sch : Schema) (h : InFamily sch) (hflat : Flat sch) :
    infer (renderHeaders sch) = .ok (.model sch) := by
  unfold InFamily inFamilyB at h
  simp only [Bool.and_eq_true] at h
  obtain ⟨hfam, hnames⟩ := h
  obtain ⟨n1, n2, n3, n4, n5, _⟩ := namesOk_unpack hnames
  have p1 := pass1_simples sch [] [] []
    (fun f hf => ⟨n1 f hf, hflat f hf, famFs_mem hfam f hf⟩) n5 (by simp)
  simp only [List.append_nil, List.nil_append] at p1
  unfold infer renderHeaders inferRec
  rw [p1]
  simp [pass1, pass2, finish_model sch n2 n3 n4]

example : InFamily [("a".toList, .int, .int 5), ("b c".toList, .list .bool, .list []),
    ("s".toList, .str, .str "x=y".toList)] ∧
    Flat [("a".toList, .int, .int 5), ("b c".toList, .list .bool, .list []),
    ("s".toList, .str, .str "x=y".toList)] := by
  refine ⟨by decide, ?_⟩
  unfold Flat
  decide

/-- **The nested round trip (main theorem, all schemas).**  Every schema of the family — basic
fields with defaults, `list` / `List[T]`, sub-records `a.b`, indexed lists `a.1, a.2` with
per-index defaults, lists of records `a.1.x`, lists of lists, nested to ANY depth and of any
width — rendered to its canonical header list is inferred back as exactly that schema: same
field names in the same order, same types, same defaults.  By induction on the size of the
type (`Lemmas/InferNested.lean`: `nested_roundtrip`, `level_exact`), no bound on depth. -/
theorem infer_render (sch : Schema) (h : InFamily sch) :
    infer (renderHeaders sch) = .ok (.model sch) :=
  infer_render_family sch h

/-- the full statement is proved -/
theorem C18_full_holds : C18_full := infer_render

/-- non-vacuity: a depth-3 schema with every construct is in the family -/
example : InFamily [("x".toList, .bool, .bool true),
    ("r".toList, .model [("k".toList, .float, .float (-3)),
        ("l".toList, .list (.model [("m".toList, .str, .str "d".toList)]),
          .list [defaultRecord [("m".toList, .str, .str "d".toList)]])],
      defaultRecord [("k".toList, .float, .float (-3)),
        ("l".toList, .list (.model [("m".toList, .str, .str "d".toList)]),
          .list [defaultRecord [("m".toList, .str, .str "d".toList)]])])] := by decide

/-! ### the same model up to the order of the fields -/

theorem tyEquiv_refl (a : Ty) : TyEquiv a a := rfl
theorem tyEquiv_symm {a b : Ty} (h : TyEquiv a b) : TyEquiv b a := Eq.symm h
theorem tyEquiv_trans {a b c : Ty} (h₁ : TyEquiv a b) (h₂ : TyEquiv b c) : TyEquiv a c :=
  Eq.trans h₁ h₂

/-- `TyEquiv` (equal after sorting the fields of every record — type and default value, at every
depth — by name) is an equivalence relation. -/
theorem tyEquiv_equivalence : Equivalence TyEquiv :=
  ⟨tyEquiv_refl, tyEquiv_symm, tyEquiv_trans⟩

/-- it identifies what it should: records whose field lists are permutations of each other
(distinct names) … -/
theorem tyEquiv_of_perm {as bs : List Field} (hp : as.Perm bs)
    (hd : (as.map (fun f => f.1)).Nodup) : TyEquiv (.model as) (.model bs) := by
  unfold TyEquiv
  simp only [Ty.norm, Ty.normF_eq_map]
  congr 1
  apply isortK_eq_of_perm _ (hp.map normField)
  simpa [List.map_map, Function.comp_def, normField] using hd

example : [("a".toList, Ty.int, Val.int 1), ("b".toList, Ty.str, Val.str [])].Perm
    [("b".toList, Ty.str, Val.str []), ("a".toList, Ty.int, Val.int 1)] ∧
    ([("a".toList, Ty.int, Val.int 1), ("b".toList, Ty.str, Val.str [])].map (fun f => f.1)).Nodup :=
  ⟨List.Perm.swap _ _ _, by decide⟩

/-- … and nothing more: equivalent records have the same field names, … -/
theorem tyEquiv_model_names {as bs : List Field} (h : TyEquiv (.model as) (.model bs)) :
    (as.map (fun f => f.1)).Perm (bs.map (fun f => f.1)) := by
  unfold TyEquiv at h
  simp only [Ty.norm, Ty.normF_eq_map, Ty.model.injEq] at h
  have e : ∀ L : List Field, L.map (fun f => f.1) = (L.map normField).map (fun f => f.1) := by
    intro L; simp [List.map_map, Function.comp_def, normField]
  rw [e as, e bs]
  have p1 := isortK_perm (fun f : Field => f.1) (as.map normField)
  have p2 := isortK_perm (fun f : Field => f.1) (bs.map normField)
  rw [h] at p1
  exact (p1.symm.trans p2).map _

/-- … a different type or default of a field is a different model (kernel-checked). -/
theorem tyEquiv_distinguishes :
    ¬ TyEquiv (.model [("a".toList, .int, .int 0)]) (.model [("a".toList, .str, .str [])]) ∧
    ¬ TyEquiv (.model [("a".toList, .int, .int 0)]) (.model [("a".toList, .int, .int 1)]) ∧
    ¬ TyEquiv (.list (.model [("a".toList, .int, .int 0)])) (.model [("a".toList, .int, .int 0)]) := by
  decide +kernel

/-- **Order-insensitivity (all schemas, all column orders).**  Let `sch` be any schema of the
family with its fields in any order (`InFamilyU`: `InFamily` without "simple fields first") and
`hs` ANY permutation of its rendered headers — fields interleaved, a list of records written
column-major, a sub-record or a list split by other columns, list entries out of order, at any
depth.  Then inference succeeds and the inferred model is `sch` up to the order of the fields
of each record (types, defaults, nesting all equal).  By induction on the size of the type
(`Lemmas/InferPerm.lean`: `perm_roundtrip`, `level_perm`). -/
theorem infer_order_insensitive (sch : Schema) (h : InFamilyU sch) (hs : List Str)
    (hp : hs.Perm (renderHeaders sch)) : ∃ t, infer hs = .ok t ∧ TyEquiv t (.model sch) :=
  infer_perm_family sch h hs hp

/-- the schema of the non-vacuity examples: a complex field BEFORE a simple one (outside
`InFamily`), a list of two records, an indexed list -/
def orderDemo : Schema :=
  [("o".toList, .list (.model [("text".toList, .str, .str []), ("value".toList, .int, .int 5)]),
      .list [defaultRecord [("text".toList, .str, .str []), ("value".toList, .int, .int 5)],
             defaultRecord [("text".toList, .str, .str []), ("value".toList, .int, .int 5)]]),
   ("note".toList, .str, .str "n".toList),
   ("tag".toList, .list .str, .list [.str "a".toList, .str []])]

/-- column-major `o`, `tag` split by `note`, `tag.2` before `tag.1` -/
def orderDemoHeaders : List Str :=
  ["tag.2", "o.1.text", "o.2.text", "note=n", "o.2.value:int=5", "o.1.value:int=5", "tag.1=a"].map
    String.toList

/-- non-vacuity of `infer_order_insensitive` (hypotheses), and its conclusion evaluated by the
kernel on this instance -/
theorem order_demo : InFamilyU orderDemo ∧ ¬ InFamily orderDemo ∧
    orderDemoHeaders.Perm (renderHeaders orderDemo) ∧
    (match infer orderDemoHeaders with
      | .ok t => decide (TyEquiv t (.model orderDemo)) && !Ty.beq t (.model orderDemo)
      | .error _ => false) = true := by
  refine ⟨by decide, by decide, ?_, by decide +kernel⟩
  rw [List.perm_iff_count]
  intro a
  by_cases h : a ∈ orderDemoHeaders
  · revert a; decide +kernel
  · have h' : a ∉ renderHeaders orderDemo := by
      have e : ∀ x, x ∈ renderHeaders orderDemo → x ∈ orderDemoHeaders := by decide +kernel
      exact fun hx => h (e a hx)
    rw [List.count_eq_zero.mpr h, List.count_eq_zero.mpr h']

/-- the canonical headers of a schema whose fields are in any order -/
theorem infer_render_any_field_order (sch : Schema) (h : InFamilyU sch) :
    ∃ t, infer (renderHeaders sch) = .ok t ∧ TyEquiv t (.model sch) :=
  infer_order_insensitive sch h _ (List.Perm.refl _)

/-- the ordered family is part of the unordered one -/
theorem inFamily_inFamilyU {sch : Schema} (h : InFamily sch) : InFamilyU sch := inFamily_U h

/-- **Two column orders of the same sheet give equivalent models.** -/
theorem infer_perm_agree (sch : Schema) (h : InFamilyU sch) (hs₁ hs₂ : List Str)
    (h₁ : hs₁.Perm (renderHeaders sch)) (h₂ : hs₂.Perm hs₁) :
    ∃ t₁ t₂, infer hs₁ = .ok t₁ ∧ infer hs₂ = .ok t₂ ∧ TyEquiv t₁ t₂ := by
  obtain ⟨t₁, e₁, q₁⟩ := infer_order_insensitive sch h hs₁ h₁
  obtain ⟨t₂, e₂, q₂⟩ := infer_order_insensitive sch h hs₂ (h₂.trans h₁)
  exact ⟨t₁, t₂, e₁, e₂, tyEquiv_trans q₁ (tyEquiv_symm q₂)⟩

example : InFamilyU orderDemo ∧ orderDemoHeaders.Perm (renderHeaders orderDemo) ∧
    orderDemoHeaders.reverse.Perm orderDemoHeaders :=
  ⟨order_demo.1, order_demo.2.2.1, List.reverse_perm _⟩

/-- against the canonical order of an ordered schema: the permuted headers give the model of
`infer_render` up to field order -/
theorem infer_perm_vs_canonical (sch : Schema) (h : InFamily sch) (hs : List Str)
    (hp : hs.Perm (renderHeaders sch)) :
    ∃ t, infer hs = .ok t ∧ infer (renderHeaders sch) = .ok (.model sch) ∧
      TyEquiv t (.model sch) := by
  obtain ⟨t, e, q⟩ := infer_order_insensitive sch (inFamily_inFamilyU h) hs hp
  exact ⟨t, e, infer_render sch h, q⟩

example : InFamily subAB0 ∧ ["b:int=5".toList, "a".toList].Perm (renderHeaders subAB0) :=
  ⟨by decide, List.Perm.swap _ _ _⟩

/-- harness mode "split": ONE column moved somewhere else -/
theorem infer_column_moved (sch : Schema) (h : InFamilyU sch) (pre mid post : List Str) (x : Str)
    (hr : renderHeaders sch = pre ++ x :: mid ++ post) :
    ∃ t, infer (pre ++ mid ++ x :: post) = .ok t ∧ TyEquiv t (.model sch) := by
  apply infer_order_insensitive sch h
  rw [hr]
  simp only [List.append_assoc, List.cons_append]
  exact List.Perm.append_left pre List.perm_middle

example : InFamilyU orderDemo ∧ renderHeaders orderDemo =
    ["o.1.text".toList] ++ "o.1.value:int=5".toList :: ["o.2.text".toList] ++
      ["o.2.value:int=5", "note=n", "tag.1=a", "tag.2"].map String.toList :=
  ⟨order_demo.1, by decide +kernel⟩

/-- harness mode "shuffle": two adjacent columns swapped (any two; with `infer_perm_agree` /
transitivity of `TyEquiv` every interleaving is a chain of such swaps) -/
theorem infer_adjacent_swap (sch : Schema) (h : InFamilyU sch) (pre post : List Str) (x y : Str)
    (hr : renderHeaders sch = pre ++ x :: y :: post) :
    ∃ t, infer (pre ++ y :: x :: post) = .ok t ∧ TyEquiv t (.model sch) := by
  apply infer_order_insensitive sch h
  rw [hr]
  exact List.Perm.append_left pre (List.Perm.swap x y post)

example : InFamilyU orderDemo ∧ renderHeaders orderDemo =
    ["o.1.text".toList] ++ "o.1.value:int=5".toList :: "o.2.text".toList ::
      ["o.2.value:int=5", "note=n", "tag.1=a", "tag.2"].map String.toList :=
  ⟨order_demo.1, by decide +kernel⟩

/-- harness mode "column_major": the columns re-sorted by ANY key (stable merge sort by any
comparison — e.g. by the path without its indices, then by the indices) -/
theorem infer_sorted_columns (sch : Schema) (h : InFamilyU sch) (le : Str → Str → Bool) :
    ∃ t, infer ((renderHeaders sch).mergeSort le) = .ok t ∧ TyEquiv t (.model sch) :=
  infer_order_insensitive sch h _ (List.mergeSort_perm _ _)

example : InFamilyU orderDemo := order_demo.1

/-! ### what cannot be dropped or strengthened -/

/-- "up to field order" cannot be strengthened to equality: the fields come out in the order of
the columns (simple ones first) -/
theorem needs_up_to_field_order :
    let sch : Schema := [("a".toList, .str, .str []), ("b".toList, .str, .str [])]
    InFamily sch ∧ ["b".toList, "a".toList].Perm (renderHeaders sch) ∧
    inferIs ["b".toList, "a".toList] (.model sch) = false ∧
    inferIs ["b".toList, "a".toList] (.model sch.reverse) = true := by
  refine ⟨by decide, List.Perm.swap _ _ _, by decide +kernel, by decide +kernel⟩

/-- distinct field names are needed: with a repeated name the LAST column wins, so the order of
the columns changes the model beyond field order -/
theorem needs_distinct_names :
    let sch : Schema := [("a".toList, .int, .int 0), ("a".toList, .str, .str [])]
    inFamilyUB sch = false ∧ ["a".toList, "a:int".toList].Perm (renderHeaders sch) ∧
    inferIs (renderHeaders sch) (.model [("a".toList, .str, .str [])]) = true ∧
    inferIs ["a".toList, "a:int".toList] (.model [("a".toList, .int, .int 0)]) = true ∧
    ¬ TyEquiv (.model [("a".toList, .str, .str [])]) (.model [("a".toList, .int, .int 0)]) := by
  refine ⟨by decide, List.Perm.swap _ _ _, by decide +kernel, by decide +kernel, by decide +kernel⟩

/-- the same columns are needed (a permutation): a missing entry column changes the model -/
theorem needs_same_columns :
    let sch : Schema := [("f".toList, .list .str, .list [.str [], .str []])]
    InFamily sch ∧ renderHeaders sch = ["f.1".toList, "f.2".toList] ∧
    inferIs ["f.1".toList] (.model [("f".toList, .list .str, .list [.str []])]) = true ∧
    ¬ TyEquiv (.model [("f".toList, .list .str, .list [.str []])]) (.model sch) := by
  refine ⟨by decide, by decide +kernel, by decide +kernel, by decide +kernel⟩

/-- the condition "the entries of one list are opened in increasing index order" is asserted by
`RowParser.find_entry` when ROWS are parsed; `model_from_headers` does not need it: entry
columns in any order (even descending) give the same list type with the same per-index
defaults -/
theorem index_order_not_needed :
    let want : Ty := .model [("f".toList, .list .str, .list [.str "a".toList, .str "b".toList, .str "c".toList])]
    inferIs (["f.1=a", "f.2=b", "f.3=c"].map String.toList) want = true ∧
    inferIs (["f.3=c", "f.1=a", "f.2=b"].map String.toList) want = true ∧
    inferIs (["f.3=c", "f.2=b", "f.1=a"].map String.toList) want = true := by decide +kernel

/-- … whereas an index that is never written leaves a `None` hole in the default (not the
rendering of any schema) -/
theorem missing_index_leaves_hole :
    inferIs ["f.1=a".toList, "f.3=c".toList]
      (.model [("f".toList, .list .str, .list [.str "a".toList, .none, .str "c".toList])]) = true := by
  decide +kernel

/-! ### rows: the inferred model parses like the explicit one -/

/-- **Inferred = explicit on every row** (the property's own observable, over the `RowParser`
model `Rpft/RowParse.lean`).  For every schema of the family and EVERY row (any cells: valid,
blank, malformed, columns missing or unknown), parsing the row with the model inferred from the
schema's headers gives exactly the outcome — value or error — of parsing it with the explicit
model: `infer_render` composed with the row parser (same model ⇒ same parse). -/
theorem inferred_parses_like_explicit (sch : Schema) (h : InFamily sch) (row : List (Str × Str)) :
    parseInferred (renderHeaders sch) row = some (Row.parseRow (rowSchema (.model sch)) row) := by
  unfold parseInferred
  rw [infer_render sch h]

/-- a sheet of the non-vacuity example: simple field, list of records, indexed list -/
def rowDemo : Schema :=
  [("note".toList, .str, .str "n".toList),
   ("o".toList, .list (.model [("text".toList, .str, .str []), ("value".toList, .int, .int 5)]),
      .list [defaultRecord [("text".toList, .str, .str []), ("value".toList, .int, .int 5)],
             defaultRecord [("text".toList, .str, .str []), ("value".toList, .int, .int 5)]]),
   ("tag".toList, .list .str, .list [.str "a".toList, .str []])]

/-- non-vacuity: the schema is in the family and a row (column `o.2.value` left out) parses to
a value under the inferred model — cells converted, the missing entry filled with the default
`5` of the header `o.2.value:int=5` (evaluated by the kernel) -/
theorem row_demo : InFamily rowDemo ∧
    (match parseInferred (renderHeaders rowDemo)
        ([("note=n", "hello"), ("o.1.text", "t1"), ("o.1.value:int=5", "7"), ("o.2.text", "t2"),
          ("tag.1=a", "x"), ("tag.2", "")].map (fun p => (p.1.toList, p.2.toList))) with
      | some (.ok v) => Row.Val.beq v (.model
          [("note".toList, .str "hello".toList),
           ("o".toList, .list [.model [("text".toList, .str "t1".toList), ("value".toList, .int 7)],
                              .model [("text".toList, .str "t2".toList), ("value".toList, .int 5)]]),
           ("tag".toList, .list [.str "x".toList, .str []])])
      | _ => false) = true := by
  refine ⟨by decide, by decide +kernel⟩

/-- where the index-order condition lives: the MODEL is inferred from columns in any order
(`infer_order_insensitive`), but `RowParser.find_entry` asserts that the entries of one list
are opened in increasing order when a ROW is read — the same columns with `tag.2` before
`tag.1` are an `AssertionError` under the inferred and under the explicit model alike -/
theorem row_parser_asserts_index_order :
    let cols := [("tag.2", "y"), ("tag.1=a", "x")].map (fun p : String × String => (p.1.toList, p.2.toList))
    (match parseInferred (cols.map (fun c => c.1)) cols with
      | some (.error e) => decide (e = Row.Err.assertion)
      | _ => false) = true ∧
    (match Row.parseRow (rowSchema (.model [("tag".toList, .list .str, .list [.str "a".toList, .str []])])) cols with
      | .error e => decide (e = Row.Err.assertion)
      | _ => false) = true := by decide +kernel

/-- **Cell independence**: with a blank `data_model` the row model is computed from the header
row only; two sheets with the same headers get the same model whatever their cells. -/
theorem infer_cells_independent (headers : List Str) (cells₁ cells₂ : List (List Str)) :
    inferSheet headers cells₁ = inferSheet headers cells₂ := rfl

/-! ### `infer_render` on nested instances, evaluated by the kernel (sanity check of the model's
own round trip; the theorem above covers all schemas) -/

def subAB : List Field := subAB0

/-- depth 1–3: record, indexed list with per-index defaults, list of records, list of lists,
record in record in list -/
def nestedInstances : List Schema :=
  [ [("f".toList, .model subAB, defaultRecord subAB)],
    [("f".toList, .list .int, .list [.int 0, .int 5])],
    [("f".toList, .list (.model subAB), .list [defaultRecord subAB, defaultRecord subAB])],
    [("f".toList, .list (.list .str), .list [.list [.str [], .str "a".toList], .list [.str "b".toList]])],
    [("x".toList, .bool, .bool true),
     ("r".toList, .model [("k".toList, .float, .float (-3)),
        ("l".toList, .list (.model [("m".toList, .model subAB, defaultRecord subAB)]),
          .list [defaultRecord [("m".toList, .model subAB, defaultRecord subAB)]])],
      defaultRecord [("k".toList, .float, .float (-3)),
        ("l".toList, .list (.model [("m".toList, .model subAB, defaultRecord subAB)]),
          .list [defaultRecord [("m".toList, .model subAB, defaultRecord subAB)]])])] ]

theorem nested_instances :
    nestedInstances.all (fun sch => inFamilyB sch && roundtripB sch) = true := by decide +kernel

/-! ### the clauses of `InFamily` are forced: one negative witness each -/

/-- a default containing `.` (former finding F-C18-a, fixed in /repo): nesting is decided on
the field name, so the dotted default is read back exactly (the family predicate is still
conservative about it) -/
theorem dotted_default_roundtrips :
    let sch : Schema := [("s".toList, .str, .str "a.b".toList)]
    roundtripB sch = true := by decide +kernel

/-- `:` in a name -/
theorem needs_no_colon_in_name :
    let sch : Schema := [("a:b".toList, .str, .str [])]
    inFamilyB sch = false ∧ roundtripB sch = false ∧
    inFamilyUB sch = false ∧ inferEquivB (renderHeaders sch) (.model sch) = false := by decide +kernel

/-- `=` in a name -/
theorem needs_no_equals_in_name :
    let sch : Schema := [("a=b".toList, .int, .int 0)]
    inFamilyB sch = false ∧ roundtripB sch = false ∧
    inFamilyUB sch = false ∧ inferEquivB (renderHeaders sch) (.model sch) = false := by decide +kernel

/-- a name that reads as an integer turns the record into a list -/
theorem needs_non_integer_name :
    let sch : Schema := [("1".toList, .str, .str [])]
    inFamilyB sch = false ∧ roundtripB sch = false ∧
    inFamilyUB sch = false ∧ inferEquivB (renderHeaders sch) (.model sch) = false ∧
    inferIs (renderHeaders sch) (.list .str) = true := by decide +kernel

/-- list elements share one element type: the code keeps the LAST one and the per-index
defaults of all (`f.1:int, f.2` is a `List[str]` with default `[0, ""]`) -/
theorem mixed_element_types_take_last :
    inferIs ["f.1:int".toList, "f.2".toList]
      (.model [("f".toList, .list .str, .list [.int 0, .str []])]) = true := by decide +kernel

/-- a list of records cannot default to `[]`: its default is `[default record × n]` -/
theorem needs_list_of_record_default :
    let sub : List Field := [("a".toList, .str, .str [])]
    let bad : Schema := [("f".toList, .list (.model sub), .list [])]
    let good : Schema := [("f".toList, .list (.model sub), .list [defaultRecord sub, defaultRecord sub])]
    inFamilyB bad = false ∧ roundtripB bad = false ∧ inFamilyB good = true ∧ roundtripB good = true ∧
    inFamilyUB bad = false ∧ inferEquivB (renderHeaders bad) (.model bad) = false := by
  decide +kernel

/-- the code lists simple fields before complex ones (needed for EXACT equality only: the schema
is in `InFamilyU` and `infer_order_insensitive` applies) -/
theorem needs_simple_first :
    let sch : Schema := [("r".toList, .model [("a".toList, .str, .str [])],
      defaultRecord [("a".toList, .str, .str [])]), ("b".toList, .str, .str [])]
    inFamilyB sch = false ∧ roundtripB sch = false ∧
    inFamilyUB sch = true ∧ inferEquivB (renderHeaders sch) (.model sch) = true := by decide +kernel

/-- a text default with leading/trailing blanks is stripped -/
theorem needs_stripped_default :
    let sch : Schema := [("s".toList, .str, .str " x".toList)]
    inFamilyB sch = false ∧ roundtripB sch = false ∧
    inFamilyUB sch = false ∧ inferEquivB (renderHeaders sch) (.model sch) = false := by decide +kernel

/-- a sub-record needs at least one field (no column would mention it) -/
theorem needs_nonempty_subrecord :
    let sch : Schema := [("a".toList, .str, .str []), ("r".toList, .model [], defaultRecord [])]
    inFamilyB sch = false ∧ inFamilyUB sch = false ∧ roundtripB sch = false ∧
    inferEquivB (renderHeaders sch) (.model sch) = false := by decide +kernel

/-- `List[T]` in ONE column needs an annotation type `T` (no record inside) -/
theorem needs_annotation_type :
    let sch : Schema := [("l".toList, .list (.model [("a".toList, .str, .str [])]), .list [])]
    inFamilyB sch = false ∧ inFamilyUB sch = false ∧ roundtripB sch = false ∧
    inferEquivB (renderHeaders sch) (.model sch) = false := by decide +kernel

end Rpft.Props.C18
