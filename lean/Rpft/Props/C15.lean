/-
C15 — Invalid input stops the command: non-zero exit and no flow file (PARTIAL).

Proved here, for all inputs (sheets of unbounded length, nesting of unbounded depth, any
position of the fault): the *decision logic* — a run produces a file iff compilation
returned a document; an error at any flow ends the whole run whatever precedes it; every
block-structure fault is found wherever it sits and however deep (and is never masked by
omitted content), well-nested sheets are accepted (so the detectors are not vacuous, and in
fact `checkBlocks` accepts *exactly* the well-nested sheets); the value limits and the
template-argument binding faults are detected.

NOT proved (and not provable in this family): that `sys.exit(1)` inside a logging handler,
or an uncaught exception, really ends the Python process before `open(args.output, "w")`;
what a crash *during* `json.dump` leaves on disk.  Those are runtime mechanics; the check
`harness/props/c15.py` observes them on the real command for every fault class × position.
`C15_full` below states the end-to-end claim; the proved part is `C15_partial`.
-/
import Rpft.Cli
import Rpft.Gen.Tables
import Rpft.Canon
set_option linter.unusedSimpArgs false
set_option linter.unusedVariables false
namespace Rpft.Props.C15
open Rpft Rpft.Cli Rpft.Cell

/-! ### T1 -/

/-- the constants of the model are the constants of the source (regenerated each run: limits,
HTTP methods and the ShutdownHandler facts by probing the behaviour of the code, the block tables
and the shape facts of `cli.create_flows` that the model's `cliFs` relies on from the source text).
The HTTP methods are a set and the block tables lookups with distinct keys: compared up to order. -/
theorem tables_agree :
    Gen.cliMaxFieldValueLen = maxFieldValueLen ∧ Gen.cliMaxRunResultLen = maxRunResultLen ∧
    Gen.cliMaxCategoryLen = maxCategoryLen ∧ Gen.cliMaxFieldKeyLen = maxFieldKeyLen ∧
    Gen.cliEmptyTextChecked = true ∧
    Canon.sameSet Gen.cliHttpMethods httpMethods ∧ Gen.cliDefaultHttpMethod = defaultHttpMethod ∧
    Canon.sameMap Gen.cliBlockEndMap
      [(RowType.endBlock.name, BlockType.block.name), (RowType.endFor.name, BlockType.for_.name)] ∧
    Canon.sameMap Gen.cliBlockOpenMap
      [(RowType.beginBlock.name, BlockType.block.name), (RowType.beginFor.name, BlockType.for_.name)] ∧
    Gen.cliRootBlockName = BlockType.root.name ∧
    Gen.cliShutdownLevelName = "CRITICAL".toList ∧ Gen.cliShutdownLevelOp = "GtE".toList ∧
    Gen.cliShutdownLevel = shutdownLevel ∧ Gen.cliShutdownExit = shutdownExit ∧
    Gen.cliShutdownPrintsStderr = true ∧ Gen.cliShutdownHandlerInstalled = true ∧
    Gen.cliOutputOpenedAfterCompile = true ∧ Gen.cliConverterOutputArgIsNone = true ∧
    Gen.cliHasTryExcept = false := by decide

/-- `blockEndMap` is the table: a row type ends a block type iff the pair is listed. -/
theorem tables_agree_block_end_map (t : RowType) (b : BlockType) :
    blockEndMap t = some b ↔ (t.name, b.name) ∈ Gen.cliBlockEndMap := by
  cases t <;> cases b <;> decide

/-- the site of a fault class in the level table of T1 and the level the model gives it -/
def levelName (f : Fault) : Str := if f.viaLog then "CRITICAL".toList else "EXCEPTION".toList

/-- **The detection sites that used to be ERROR-level report at the level the model says** (and so stop
the command): the level of the first record ≥ ERROR that the real compiler emits on a minimal workbook
per site (regenerated each run by behaviour probes) against `Fault.viaLog`; plus the word lists those
sites test (index row types, keys of `row_type_to_main_arg`, the dispatch of `_get_row_action`, the
`set_contact_` properties, the outcome words of `add_exit`), all sets, compared up to order.  Turning one
of the `LOGGER.critical` calls back into `LOGGER.error` breaks this theorem. -/
theorem tables_agree_detection :
    Canon.sameMap Gen.cliDetectLevels
      [("badOutcomeAirtime".toList, levelName (.badOutcomeCondition false)),
       ("badOutcomeFlow".toList, levelName (.badOutcomeCondition true)),
       ("badOutcomeWebhook".toList, levelName (.badOutcomeCondition false)),
       ("noDefaultExitFromFlow".toList, levelName .noDefaultExitFromFlow),
       ("rowTypeWithoutMainArg".toList, levelName (.rowTypeWithoutMainArg [])),
       ("sheetNameCount".toList, levelName (.sheetNameCount [])),
       ("unknownContactProperty".toList, levelName (.unknownContactProperty [])),
       ("unknownIndexType".toList, levelName (.unknownIndexType [])),
       ("unknownRowType".toList, levelName (.unknownRowType []))] ∧
    Canon.sameSet Gen.indexRowTypes indexRowTypes ∧
    Canon.sameSet (Gen.flowRowTypeToMainArg.map (·.1)) mainArgTypes ∧
    Canon.sameSet Gen.cliActionRowTypes actionRowTypes ∧
    Canon.sameSet Gen.cliNodeRowTypes nodeRowTypes ∧
    Gen.cliSetContactPrefix = setContactPrefix ∧
    Canon.sameSet Gen.cliContactProperties contactProperties ∧
    Canon.sameSet Gen.cliFlowOutcomes flowOutcomes ∧
    Canon.sameSet Gen.cliHookOutcomes hookOutcomes ∧
    Canon.sameSet Gen.cliHookNodeClasses ["CallWebhookNode".toList, "TransferAirtimeNode".toList] := by
  decide

/-- the level does not depend on the value a fault names -/
theorem new_faults_via_log (t : Str) (b : Bool) :
    (Fault.unknownIndexType t).viaLog = true ∧ (Fault.sheetNameCount t).viaLog = true ∧
    (Fault.unknownContactProperty t).viaLog = true ∧ (Fault.unknownRowType t).viaLog = true ∧
    (Fault.badOutcomeCondition b).viaLog = true ∧ Fault.noDefaultExitFromFlow.viaLog = true ∧
    (Fault.rowTypeWithoutMainArg t).viaLog = false := ⟨rfl, rfl, rfl, rfl, rfl, rfl, rfl⟩

/-- the exit status of a stopped run is not the success status -/
theorem shutdown_exit_nonzero : shutdownExit ≠ 0 := by decide

/-! ### the command -/

/-- **A file appears iff compilation returned a document**; it is then the complete
encoding of that document and the status is 0; otherwise the status is non-zero and there
is no file. -/
theorem cli_file_iff {W D : Type} (create : W → Outcome D) (encode : D → Str) (w : W) :
    ((cli create encode w).file.isSome ↔ ∃ d, create w = .ok d) ∧
    (∀ d, create w = .ok d → cli create encode w = ⟨0, some (encode d)⟩) ∧
    (∀ e, create w = .error e →
      (cli create encode w).exit ≠ 0 ∧ (cli create encode w).file = none) := by
  unfold cli cliFs
  cases h : create w with
  | error e => simp [shutdownExit]
  | ok d => simp

/-- status 0 iff compilation returned a document -/
theorem cli_exit_zero_iff {W D : Type} (create : W → Outcome D) (encode : D → Str)
    (pre : Option Str) (w : W) :
    (cliFs create encode pre w).exit = 0 ↔ ∃ d, create w = .ok d := by
  unfold cliFs
  cases h : create w with
  | error e => simp [shutdownExit]
  | ok d => simp

/-- **An existing output file is not touched by a failing run** (byte-identical), and a
file that was not there is not created. -/
theorem cli_error_keeps_file {W D : Type} (create : W → Outcome D) (encode : D → Str)
    (pre : Option Str) (w : W) (e : Fault) (h : create w = .error e) :
    cliFs create encode pre w = ⟨1, pre⟩ := by
  unfold cliFs; rw [h]; rfl

/-- a successful run replaces whatever was there by the complete document -/
theorem cli_ok_writes_document {W D : Type} (create : W → Outcome D) (encode : D → Str)
    (pre : Option Str) (w : W) (d : D) (h : create w = .ok d) :
    cliFs create encode pre w = ⟨0, some (encode d)⟩ := by
  unfold cliFs; rw [h]

/-! ### error propagation through the sequence of flows -/

/-- generic form: `mapM` in `Except` stops at the first error, whatever precedes it. -/
theorem mapM_error_at {α β ε : Type} (f : α → Except ε β) (pre post : List α) (x : α) (e : ε)
    (hpre : ∀ a ∈ pre, ∃ b, f a = .ok b) (hx : f x = .error e) :
    (pre ++ x :: post).mapM f = .error e := by
  induction pre with
  | nil => simp [List.mapM_cons, hx, bind, Except.bind]
  | cons a pre ih =>
    obtain ⟨b, hb⟩ := hpre a (by simp)
    have := ih (fun a' h' => hpre a' (by simp [h']))
    simp [List.mapM_cons, hb, this, bind, Except.bind]

/-- **Valid flows before the faulty one do not change the outcome**: if flow definition `f`
fails with `e` and everything before it compiles, `parse_all_flows` fails with `e`,
whatever follows. -/
theorem valid_prefix_irrelevant (reg : DataReg) (pre post : List FlowDef) (f : FlowDef)
    (e : Fault) (hpre : ∀ g ∈ pre, g.compile reg = .ok ()) (hf : f.compile reg = .error e) :
    compileFlows reg (pre ++ f :: post) = .error e := by
  unfold compileFlows
  rw [mapM_error_at (FlowDef.compile reg) pre post f e (fun g hg => ⟨(), hpre g hg⟩) hf]
  rfl

example : compileFlows [] ([{ insts := [{ rows := [{ type := .other }] }] }] ++
    ({ dataRowId := "x".toList } : FlowDef) :: []) = .error .dataRowIdWithoutSheet := by decide

/-- … and therefore the command exits non-zero without a file, given the index itself is
fine. -/
theorem faulty_flow_stops_command {D : Type} (doc : Workbook → D) (encode : D → Str)
    (w : Workbook) (pre post : List FlowDef) (f : FlowDef) (e : Fault)
    (hidx : w.hasIndex = true)
    (hindex : checkIndex w.sheets w.hasModule w.models w.index = .ok ())
    (hflows : w.flows = pre ++ f :: post)
    (hpre : ∀ g ∈ pre, g.compile w.reg = .ok ()) (hf : f.compile w.reg = .error e)
    (prev : Option Str) :
    createFlows doc w = .error e ∧ cliFs (createFlows doc) encode prev w = ⟨1, prev⟩ := by
  have h : createFlows doc w = .error e := by
    unfold createFlows
    simp [hidx, hindex, hflows, valid_prefix_irrelevant w.reg pre post f e hpre hf]
  exact ⟨h, cli_error_keeps_file _ _ _ _ _ h⟩

/-- the same for instances inside one create_flow row (bulk instantiation over data rows) -/
theorem valid_instances_irrelevant (reg : DataReg) (pre post : List (FlowInst Probe1))
    (f : FlowInst Probe1) (e : Fault)
    (hpre : ∀ g ∈ pre, compileInst (Probe1.check reg) reg g = .ok ())
    (hf : compileInst (Probe1.check reg) reg f = .error e) :
    compileInsts reg (pre ++ f :: post) = .error e := by
  induction pre with
  | nil => simp [compileInsts, hf]
  | cons g pre ih =>
    have hg := hpre g (by simp)
    have := ih (fun a h => hpre a (by simp [h]))
    simp [compileInsts, hg, this]

/-! ### redefined flows: a replaced definition is checked like any other -/

theorem mapM_ok_iff {α ε : Type} (f : α → Except ε Unit) :
    ∀ (xs : List α), (∃ ys, xs.mapM f = .ok ys) ↔ ∀ x ∈ xs, f x = .ok () := by
  intro xs
  induction xs with
  | nil => simp [pure, Except.pure]
  | cons x xs ih =>
    cases hx : f x with
    | error e => simp [List.mapM_cons, hx, bind, Except.bind]
    | ok u =>
      cases u
      cases hm : xs.mapM f with
      | error e =>
        have : ¬ ∀ y ∈ xs, f y = .ok () := by
          intro h; obtain ⟨ys, hys⟩ := ih.2 h; rw [hm] at hys; cases hys
        simp [List.mapM_cons, hx, hm, bind, Except.bind, this]
      | ok ys =>
        have : ∀ y ∈ xs, f y = .ok () := ih.1 ⟨ys, hm⟩
        simp [List.mapM_cons, hx, hm, bind, Except.bind, pure, Except.pure]
        exact this

/-- **Every create_flow row is compiled**: `parse_all_flows` succeeds iff *each* definition
compiles — nothing is skipped because a later row defines the same flow again (the flow
names do not occur in the statement at all: `FlowDef.compile` never looks at them). -/
theorem compileFlows_ok_iff (reg : DataReg) (ds : List FlowDef) :
    compileFlows reg ds = .ok () ↔ ∀ d ∈ ds, d.compile reg = .ok () := by
  unfold compileFlows
  rw [← mapM_ok_iff]
  cases h : ds.mapM (FlowDef.compile reg) with
  | error e => simp [Except.map]
  | ok ys => simp [Except.map]

/-- **A faulty definition that a later row redefines is still detected**: `g` (and `mid`,
`post`) are arbitrary — in particular `g` may define exactly the flow names of `f`, so that
`f` never reaches the output (see the example below). -/
theorem redefined_later_detected (reg : DataReg) (pre mid post : List FlowDef) (f g : FlowDef)
    (e : Fault) (hpre : ∀ d ∈ pre, d.compile reg = .ok ()) (hf : f.compile reg = .error e) :
    compileFlows reg (pre ++ f :: (mid ++ g :: post)) = .error e :=
  valid_prefix_irrelevant reg pre (mid ++ g :: post) f e hpre hf

/-- **A faulty definition that redefines an earlier valid one is detected** (the earlier,
valid definition `g` of the same flow does not stand in for it). -/
theorem redefining_earlier_detected (reg : DataReg) (pre mid post : List FlowDef) (f g : FlowDef)
    (e : Fault) (hpre : ∀ d ∈ pre, d.compile reg = .ok ()) (hg : g.compile reg = .ok ())
    (hmid : ∀ d ∈ mid, d.compile reg = .ok ()) (hf : f.compile reg = .error e) :
    compileFlows reg (pre ++ g :: (mid ++ f :: post)) = .error e := by
  have := valid_prefix_irrelevant reg (pre ++ g :: mid) post f e
    (by intro d hd; simp at hd; rcases hd with h | rfl | h
        · exact hpre d h
        · exact hg
        · exact hmid d h) hf
  simpa using this

/-- needs `hg`: an earlier definition that is itself faulty stops the run with *its* fault
(still an error — `compileFlows_ok_iff` — but not the later one's) -/
theorem redefining_earlier_needs_valid_earlier :
    ¬ (∀ (f g : FlowDef) (e : Fault), f.compile [] = .error e →
        compileFlows [] ([] ++ g :: ([] ++ f :: [])) = .error e) := by
  intro h
  exact absurd (h { insts := [{ rows := [{ type := .beginBlock }] }] } { dataRowId := "x".toList }
    .unterminated (by decide)) (by decide)

/-- non-vacuity, both positions: flow `s` is defined by a sheet with an unterminated block
and by a valid sheet.  Only the valid definition survives when it comes last — and the run
is stopped all the same. -/
example :
    let bad : FlowDef := { insts := [{ name := "s".toList, rows := [{ type := .beginBlock }] }] }
    let good : FlowDef := { insts := [{ name := "s".toList, rows := [{ type := .other }], refs := ["r".toList] }] }
    let other : FlowDef := { insts := [{ name := "o".toList, rows := [{ type := .other }] }] }
    compileFlows [] ([other] ++ bad :: ([] ++ good :: [])) = .error .unterminated ∧
    compileFlows [] ([other] ++ good :: ([] ++ bad :: [])) = .error .unterminated ∧
    survivors [other, bad, good] = [("o".toList, []), ("s".toList, ["r".toList])] ∧
    compileFlows [] [other, good, good] = .ok () := by decide

/-- the `flows` dict: the last definition of a name is the one that survives (its
references are the ones that reach the UUID dictionary), at the place of the first -/
theorem putFlow_lookup (n : Str) (refs : List Str) (acc : List (Str × List Str)) :
    (putFlow n refs acc).lookup n = some refs := by
  induction acc with
  | nil => simp [putFlow, List.lookup]
  | cons a acc ih =>
    obtain ⟨n', r'⟩ := a
    by_cases h : n' = n
    · simp [putFlow, h, List.lookup]
    · have h' : (n == n') = false := by simp [Ne.symm h]
      simp [putFlow, h, List.lookup, h', ih]

theorem putFlow_keys (n : Str) (refs : List Str) (acc : List (Str × List Str)) :
    (putFlow n refs acc).map (·.1) = if n ∈ acc.map (·.1) then acc.map (·.1) else acc.map (·.1) ++ [n] := by
  induction acc with
  | nil => simp [putFlow]
  | cons a acc ih =>
    obtain ⟨n', r'⟩ := a
    by_cases h : n' = n
    · simp [putFlow, h]
    · have h2 : ¬ n = n' := Ne.symm h
      by_cases hm : n ∈ acc.map (·.1)
      · simp [putFlow, h, h2, ih, hm]
      · simp [putFlow, h, h2, ih, hm]

/-- a name that only a *replaced* definition refers to is not known when the triggers are
checked: a trigger for it stops the run (what the code does; `draft only` below), whereas
the surviving definition's references are known. -/
example :
    let draft : FlowDef := { insts := [{ name := "s".toList, rows := [{ type := .other }], refs := ["draft only".toList] }] }
    let final : FlowDef := { insts := [{ name := "s".toList, rows := [{ type := .other }], refs := ["kept".toList] }] }
    createFlows (fun _ => ()) { hasIndex := true, flows := [draft, final], triggers := ["draft only".toList] } =
      .error (.triggerUnknownFlow "draft only".toList) ∧
    createFlows (fun _ => ()) { hasIndex := true, flows := [draft, final], triggers := ["kept".toList, "s".toList] } = .ok () := by
  decide

/-! ### block structure -/

/-- well-nested row-type sequences -/
inductive Balanced : List RowType → Prop
  | nil : Balanced []
  | other {rs} : Balanced rs → Balanced (.other :: rs)
  | forBlk {b rs} : Balanced b → Balanced rs → Balanced (.beginFor :: b ++ .endFor :: rs)
  | blk {b rs} : Balanced b → Balanced rs → Balanced (.beginBlock :: b ++ .endBlock :: rs)

/-- a well-nested stretch is transparent for the block machine, at any depth -/
theorem runBlocks_balanced {b : List RowType} (hb : Balanced b) :
    ∀ (st : List BlockType) (rest : List RowType), runBlocks st (b ++ rest) = runBlocks st rest := by
  induction hb with
  | nil => intro st rest; rfl
  | other _ ih =>
    intro st rest
    cases st with
    | nil => simpa [runBlocks, isEndOfBlock, blockEndMap] using ih [] rest
    | cons x st => simpa [runBlocks, isEndOfBlock, blockEndMap] using ih (x :: st) rest
  | @forBlk b rs _ _ ihb ihr =>
    intro st rest
    have h1 := ihb (.for_ :: st) (.endFor :: (rs ++ rest))
    have h2 := ihr st rest
    simp only [List.cons_append, List.append_assoc]
    simp only [runBlocks, isEndOfBlock, blockEndMap]
    rw [h1]
    simpa [runBlocks, isEndOfBlock, blockEndMap, top] using h2
  | @blk b rs _ _ ihb ihr =>
    intro st rest
    have h1 := ihb (.block :: st) (.endBlock :: (rs ++ rest))
    have h2 := ihr st rest
    simp only [List.cons_append, List.append_assoc]
    simp only [runBlocks, isEndOfBlock, blockEndMap]
    rw [h1]
    simpa [runBlocks, isEndOfBlock, blockEndMap, top] using h2

/-- **Well-nested sheets are accepted** (the detectors below are not vacuous). -/
theorem balanced_accepted {rs : List RowType} (h : Balanced rs) : checkBlocks rs = .ok () := by
  have := runBlocks_balanced h [] []
  simp only [List.append_nil] at this
  unfold checkBlocks
  rw [this]
  rfl

example : Balanced [.other, .beginFor, .beginBlock, .other, .endBlock, .endFor, .other] :=
  .other (.forBlk (b := [.beginBlock, .other, .endBlock]) (.blk (b := [.other]) (.other .nil) .nil)
    (.other .nil))

def openRow : BlockType → RowType
  | .for_ => .beginFor
  | .block => .beginBlock
  | .root => .other

/-- rows that leave the blocks `st` (innermost first) open: well-nested stretches separated
by opening rows that are never closed.  Any position, any depth. -/
inductive LeavesOpen : List BlockType → List RowType → Prop
  | bal {b} : Balanced b → LeavesOpen [] b
  | openFor {st p b} : LeavesOpen st p → Balanced b →
      LeavesOpen (.for_ :: st) (p ++ .beginFor :: b)
  | openBlock {st p b} : LeavesOpen st p → Balanced b →
      LeavesOpen (.block :: st) (p ++ .beginBlock :: b)

theorem runBlocks_leavesOpen {st : List BlockType} {p : List RowType} (h : LeavesOpen st p) :
    ∀ (st0 : List BlockType) (rest : List RowType),
      runBlocks st0 (p ++ rest) = runBlocks (st ++ st0) rest := by
  induction h with
  | bal hb => intro st0 rest; simpa using runBlocks_balanced hb st0 rest
  | @openFor st p b _ hb ih =>
    intro st0 rest
    rw [List.append_assoc, ih st0]
    simp only [List.cons_append]
    have := runBlocks_balanced hb (.for_ :: (st ++ st0)) rest
    cases hst : st ++ st0 <;>
      simpa [runBlocks, isEndOfBlock, blockEndMap, hst] using this
  | @openBlock st p b _ hb ih =>
    intro st0 rest
    rw [List.append_assoc, ih st0]
    simp only [List.cons_append]
    have := runBlocks_balanced hb (.block :: (st ++ st0)) rest
    cases hst : st ++ st0 <;>
      simpa [runBlocks, isEndOfBlock, blockEndMap, hst] using this

theorem leavesOpen_no_root {st : List BlockType} {p : List RowType} (h : LeavesOpen st p) :
    ∀ b ∈ st, b ≠ .root := by
  induction h with
  | bal _ => simp
  | openFor _ _ ih => intro b hb; simp at hb; rcases hb with rfl | hb; · decide
                      exact ih b hb
  | openBlock _ _ ih => intro b hb; simp at hb; rcases hb with rfl | hb; · decide
                        exact ih b hb

/-- **Unterminated block**: any well-nested prefix followed by an opening row without its
terminator — at any position, at any depth, with any well-nested rows after it — is
rejected with "Sheet has unterminated block". -/
theorem unterminated_detected {st : List BlockType} {p : List RowType}
    (h : LeavesOpen st p) (hne : st ≠ []) : checkBlocks p = .error .unterminated := by
  have := runBlocks_leavesOpen h [] []
  simp only [List.append_nil] at this
  unfold checkBlocks
  rw [this]
  cases st with
  | nil => exact absurd rfl hne
  | cons b st =>
    have hb := leavesOpen_no_root h b (by simp)
    cases b <;> simp_all [runBlocks, isEndOfBlock, top]

example : LeavesOpen [.block, .for_] [.other, .beginFor, .other, .beginBlock, .other] :=
  .openBlock (p := [.other, .beginFor, .other]) (b := [.other])
    (.openFor (p := [.other]) (b := [.other]) (.bal (.other .nil)) (.other .nil)) (.other .nil)

/-- **Mismatched terminator**: a terminator that does not belong to the innermost open
block (including a stray terminator at root level) is rejected at that row, whatever
follows, with the message naming the terminator and the open block type. -/
theorem mismatched_detected {st : List BlockType} {p : List RowType} (h : LeavesOpen st p)
    (t : RowType) (b : BlockType) (hb : blockEndMap t = some b) (hne : b ≠ top st)
    (rest : List RowType) :
    checkBlocks (p ++ t :: rest) = .error (.wrongTerminator t (top st)) := by
  have := runBlocks_leavesOpen h [] (t :: rest)
  unfold checkBlocks
  rw [this]
  simp [runBlocks, isEndOfBlock, hb, hne]

example : checkBlocks ([.other, .beginFor, .other] ++ .endBlock :: [.other]) =
    .error (.wrongTerminator .endBlock .for_) := by decide
example : checkBlocks ([.other] ++ .endFor :: []) = .error (.wrongTerminator .endFor .root) := by
  decide

/-- needs `b ≠ top st`: the right terminator closes the block -/
theorem mismatched_needs_ne :
    ¬ (∀ (t : RowType) (b : BlockType), blockEndMap t = some b →
        checkBlocks ([.beginFor] ++ t :: []) = .error (.wrongTerminator t .for_)) := by
  intro h; exact absurd (h .endFor .for_ rfl) (by decide)

/-! #### completeness: exactly the well-nested sheets are accepted -/

def closeRow : BlockType → RowType
  | .for_ => .endFor
  | .block => .endBlock
  | .root => .other

/-- `rs` closes the open blocks `st` (innermost first) and is well-nested in between -/
def Closes : List BlockType → List RowType → Prop
  | [], rs => Balanced rs
  | b :: st, rs => ∃ body rest, rs = body ++ closeRow b :: rest ∧ Balanced body ∧ Closes st rest

theorem closes_other {st : List BlockType} {rs : List RowType} (h : Closes st rs) :
    Closes st (.other :: rs) := by
  cases st with
  | nil => exact .other h
  | cons b st =>
    obtain ⟨body, rest, rfl, hb, hr⟩ := h
    exact ⟨.other :: body, rest, rfl, .other hb, hr⟩

theorem closes_for {st : List BlockType} {body rest : List RowType} (hb : Balanced body)
    (h : Closes st rest) : Closes st (.beginFor :: body ++ .endFor :: rest) := by
  cases st with
  | nil => exact .forBlk hb h
  | cons b st =>
    obtain ⟨body2, rest2, rfl, hb2, hr⟩ := h
    refine ⟨.beginFor :: body ++ .endFor :: body2, rest2, by simp, .forBlk hb hb2, hr⟩

theorem closes_block {st : List BlockType} {body rest : List RowType} (hb : Balanced body)
    (h : Closes st rest) : Closes st (.beginBlock :: body ++ .endBlock :: rest) := by
  cases st with
  | nil => exact .blk hb h
  | cons b st =>
    obtain ⟨body2, rest2, rfl, hb2, hr⟩ := h
    refine ⟨.beginBlock :: body ++ .endBlock :: body2, rest2, by simp, .blk hb hb2, hr⟩

theorem runBlocks_ok_closes : ∀ (rs : List RowType) (st : List BlockType),
    (∀ b ∈ st, b ≠ .root) → runBlocks st rs = .ok () → Closes st rs := by
  intro rs
  induction rs with
  | nil =>
    intro st hst h
    cases st with
    | nil => exact .nil
    | cons b st =>
      have := hst b (by simp)
      cases b <;> simp_all [runBlocks, isEndOfBlock, top]
  | cons r rs ih =>
    intro st hst h
    cases r with
    | other =>
      have : runBlocks st rs = .ok () := by
        cases st <;> simpa [runBlocks, isEndOfBlock, blockEndMap] using h
      exact closes_other (ih st hst this)
    | beginFor =>
      have : runBlocks (.for_ :: st) rs = .ok () := by
        cases st <;> simpa [runBlocks, isEndOfBlock, blockEndMap] using h
      obtain ⟨body, rest, rfl, hb, hr⟩ :=
        ih (.for_ :: st) (by intro b hb; simp at hb; rcases hb with rfl | hb; · decide
                             exact hst b hb) this
      exact closes_for hb hr
    | beginBlock =>
      have : runBlocks (.block :: st) rs = .ok () := by
        cases st <;> simpa [runBlocks, isEndOfBlock, blockEndMap] using h
      obtain ⟨body, rest, rfl, hb, hr⟩ :=
        ih (.block :: st) (by intro b hb; simp at hb; rcases hb with rfl | hb; · decide
                              exact hst b hb) this
      exact closes_block hb hr
    | endFor =>
      cases st with
      | nil => simp [runBlocks, isEndOfBlock, blockEndMap, top] at h
      | cons b st =>
        cases b with
        | for_ =>
          have : runBlocks st rs = .ok () := by
            simpa [runBlocks, isEndOfBlock, blockEndMap, top] using h
          exact ⟨[], rs, rfl, .nil, ih st (fun b hb => hst b (by simp [hb])) this⟩
        | block => simp [runBlocks, isEndOfBlock, blockEndMap, top] at h
        | root => exact absurd rfl (hst .root (by simp))
    | endBlock =>
      cases st with
      | nil => simp [runBlocks, isEndOfBlock, blockEndMap, top] at h
      | cons b st =>
        cases b with
        | block =>
          have : runBlocks st rs = .ok () := by
            simpa [runBlocks, isEndOfBlock, blockEndMap, top] using h
          exact ⟨[], rs, rfl, .nil, ih st (fun b hb => hst b (by simp [hb])) this⟩
        | for_ => simp [runBlocks, isEndOfBlock, blockEndMap, top] at h
        | root => exact absurd rfl (hst .root (by simp))

/-- **Exactly the well-nested sheets pass**: every other row-type sequence is rejected. -/
theorem checkBlocks_ok_iff (rs : List RowType) : checkBlocks rs = .ok () ↔ Balanced rs :=
  ⟨fun h => runBlocks_ok_closes rs [] (by simp) h, balanced_accepted⟩

/-- every sheet that is not well-nested is stopped by one of the two block faults -/
theorem unbalanced_rejected (rs : List RowType) (h : ¬ Balanced rs) :
    ∃ f, checkBlocks rs = .error f := by
  cases hc : checkBlocks rs with
  | error f => exact ⟨f, rfl⟩
  | ok u => cases u; exact absurd ((checkBlocks_ok_iff rs).1 hc) h

/-! #### the full row machine never masks a block fault -/

theorem steps_append {P : Type} (chk : List Str → P → Except Fault Unit) :
    ∀ (pre : List (Row P)) (s : List Frame × List Str) (rest : List (Row P)),
      steps chk s (pre ++ rest) =
        match steps chk s pre with
        | .error f => .error f
        | .ok s' => steps chk s' rest := by
  intro pre
  induction pre with
  | nil => intro s rest; rfl
  | cons r pre ih =>
    intro s rest
    simp only [List.cons_append, steps]
    cases step chk s r with
    | error f => rfl
    | ok s' => exact ih s' rest

/-- If the bare block structure of a sheet is faulty, the sheet is rejected — whatever
`include_if` flags, empty loops or row contents say (content may be omitted, structure is
always scanned).  Stated for any stack so that it applies inside nested calls. -/
theorem block_fault_never_masked {P : Type} (chk : List Str → P → Except Fault Unit) :
    ∀ (rows : List (Row P)) (st : List Frame) (known : List Str) (f : Fault),
      runBlocks (st.map (·.bt)) (rows.map (·.type)) = .error f →
      ∃ f', runSheet chk st known rows = .error f' := by
  intro rows
  induction rows with
  | nil =>
    intro st known f h
    simp only [List.map_nil, runBlocks] at h
    unfold runSheet
    simp only [steps]
    cases hc : isEndOfBlock (top (st.map (·.bt))) none with
    | error f0 => exact ⟨f0, rfl⟩
    | ok b => rw [hc] at h; cases h
  | cons r rows ih =>
    intro st known f h
    simp only [List.map_cons, runBlocks] at h
    unfold runSheet
    simp only [steps, step]
    cases hk : r.keyError with
    | some t => exact ⟨_, rfl⟩
    | none =>
    simp only []
    cases hc : isEndOfBlock (top (st.map (·.bt))) (some r.type) with
    | error f0 => exact ⟨f0, rfl⟩
    | ok b =>
      rw [hc] at h
      cases b with
      | true =>
        cases st with
        | nil =>
          simp only [List.map_nil, List.tail_nil] at h
          have := ih [] known f (by simpa using h)
          simpa [runSheet] using this
        | cons fr st' =>
          simp only [List.map_cons, List.tail_cons] at h
          have := ih st' (if fr.skip then known else addId fr.id known) f h
          simpa [runSheet] using this
      | false =>
        simp only at h
        by_cases hs : (topOmit st || !r.includeIf) = true
        · simp only [hs, if_true]
          cases ht : r.type with
          | beginFor =>
            rw [ht] at h
            have := ih (⟨.for_, true, []⟩ :: st) known f (by simpa using h)
            simpa [runSheet] using this
          | beginBlock =>
            rw [ht] at h
            have := ih (⟨.block, true, []⟩ :: st) known f (by simpa using h)
            simpa [runSheet] using this
          | endFor => rw [ht] at h; have := ih st known f h; simpa [runSheet] using this
          | endBlock => rw [ht] at h; have := ih st known f h; simpa [runSheet] using this
          | other => rw [ht] at h; have := ih st known f h; simpa [runSheet] using this
        · simp only [hs, if_false, Bool.false_eq_true]
          cases hp : runProbes chk known r.probes with
          | error f0 => exact ⟨f0, rfl⟩
          | ok u =>
            cases ht : r.type with
            | beginFor =>
              rw [ht] at h
              have := ih (⟨.for_, r.iterEmpty, r.rowId⟩ :: st) known f (by simpa using h)
              simpa [runSheet] using this
            | beginBlock =>
              rw [ht] at h
              have := ih (⟨.block, false, r.rowId⟩ :: st) known f (by simpa using h)
              simpa [runSheet] using this
            | endFor =>
              rw [ht] at h; have := ih st (addId r.rowId known) f h; simpa [runSheet] using this
            | endBlock =>
              rw [ht] at h; have := ih st (addId r.rowId known) f h; simpa [runSheet] using this
            | other =>
              rw [ht] at h; have := ih st (addId r.rowId known) f h; simpa [runSheet] using this

/-- corollary at the top of a sheet: an accepted sheet has well-nested block rows -/
theorem accepted_sheet_is_balanced {P : Type} (chk : List Str → P → Except Fault Unit)
    (rows : List (Row P)) (h : runSheet chk [] [] rows = .ok ()) :
    Balanced (rows.map (·.type)) := by
  rw [← checkBlocks_ok_iff]
  cases hc : checkBlocks (rows.map (·.type)) with
  | ok u => rfl
  | error f =>
    obtain ⟨f', hf'⟩ := block_fault_never_masked chk rows [] [] f (by simpa [checkBlocks] using hc)
    rw [hf'] at h; cases h

/-- **A row-level fault is found wherever the row sits**: after any prefix that is
processed without a fault (leaving the machine in *some* state — any depth), a row that
is evaluated there and has a failing detector stops the sheet with that detector's fault,
whatever follows. -/
theorem row_fault_detected {P : Type} (chk : List Str → P → Except Fault Unit)
    (pre post : List (Row P)) (r : Row P) (s0 s : List Frame × List Str) (f : Fault)
    (hpre : steps chk s0 pre = .ok s) (hparsed : r.keyError = none)
    (hnotend : isEndOfBlock (top (s.1.map (·.bt))) (some r.type) = .ok false)
    (heval : topOmit s.1 = false ∧ r.includeIf = true)
    (hfault : runProbes chk s.2 r.probes = .error f) :
    runSheet chk s0.1 s0.2 (pre ++ r :: post) = .error f := by
  unfold runSheet
  rw [steps_append, hpre]
  simp [steps, step, hparsed, hnotend, heval.1, heval.2, hfault]

example : runSheet Probe0.check [] []
    ([{ type := .other, rowId := "a".toList }, { type := .beginFor, probes := [.loopVariable ["i".toList]] }] ++
      ({ type := .other, probes := [.edgeFrom "zz".toList] } : Row Probe0) :: [{ type := .endFor }]) =
    .error (.edgeFromUnknownRow "zz".toList) := by decide

/-- an omitted row (false `include_if`, or inside an omitted block) is *not* evaluated: the
hypothesis `heval` is needed. -/
theorem row_fault_needs_eval :
    runSheet Probe0.check [] []
      [({ type := .other, includeIf := false, probes := [.messageText []] } : Row Probe0)] = .ok () := by
  decide

/-! ### value limits -/

/-- a contact-field value or flow result longer than 640 characters is rejected -/
theorem overlong_value_detected (v : Str) (h : v.length > 640) :
    checkFieldValue v = .error .overlongValue ∧ checkRunResult v = .error .overlongValue := by
  simp [checkFieldValue, checkRunResult, maxFieldValueLen, maxRunResultLen, h]

theorem value_within_limit_accepted (v : Str) (h : v.length ≤ 640) :
    checkFieldValue v = .ok () ∧ checkRunResult v = .ok () := by
  have : ¬ v.length > 640 := by omega
  simp [checkFieldValue, checkRunResult, maxFieldValueLen, maxRunResultLen, this]

example : (List.replicate 641 'x').length > 640 := by rw [List.length_replicate]; decide

/-- a category name longer than 115 characters is rejected -/
theorem overlong_category_detected (n : Str) (h : n.length > 115) :
    checkCategoryName n = .error .overlongCategory := by
  simp [checkCategoryName, maxCategoryLen, h]

theorem category_within_limit_accepted (n : Str) (h : n.length ≤ 115) :
    checkCategoryName n = .ok () := by
  have : ¬ n.length > 115 := by omega
  simp [checkCategoryName, maxCategoryLen, this]

/-- empty message text is rejected, and only that -/
theorem empty_text_detected (t : Str) : checkMessageText t = .error .emptyText ↔ t = [] := by
  unfold checkMessageText; split <;> simp_all

/-- a method outside the list is rejected; blank means POST -/
theorem bad_method_detected (m : Str) (hne : m ≠ []) (h : m ∉ httpMethods) :
    checkMethod m = .error .badMethod := by
  simp [checkMethod, hne, h]

theorem listed_method_accepted (m : Str) (h : m ∈ httpMethods) : checkMethod m = .ok () := by
  have hne : m ≠ [] := by rintro rfl; revert h; decide
  simp [checkMethod, hne, h]

theorem blank_method_accepted : checkMethod [] = .ok () := by decide

example : "FETCH".toList ≠ [] ∧ "FETCH".toList ∉ httpMethods := by decide

/-- needs `m ≠ []`: the blank method is replaced by the default -/
theorem bad_method_needs_nonempty : ¬ (∀ m : Str, m ∉ httpMethods → checkMethod m = .error .badMethod) := by
  intro h; exact absurd (h [] (by decide)) (by decide)

/-- webhook headers that are not the empty marker and contain an element that is not a
two-element list are rejected -/
theorem malformed_headers_detected (h : List Elem) (e : Elem) (hne : h ≠ [.atom []])
    (he : e ∈ h) (hbad : isPair e = false) : checkHeaders h = .error .badHeaders := by
  have : h.all isPair = false := by
    rw [List.all_eq_false]; exact ⟨e, he, by simp [hbad]⟩
  simp [checkHeaders, hne, this]

theorem pair_headers_accepted (h : List Elem) (hp : ∀ e ∈ h, isPair e = true) :
    checkHeaders h = .ok () := by
  have : h.all isPair = true := by rw [List.all_eq_true]; exact hp
  unfold checkHeaders; split <;> simp [this]

example : checkHeaders [.list ["a".toList, "b".toList, "c".toList]] = .error .badHeaders := by decide
example : checkHeaders [.atom "abc".toList] = .error .badHeaders := by decide

/-- needs `h ≠ [""]`: the blank cell is the empty header dict -/
theorem malformed_headers_needs_ne : checkHeaders [.atom []] = .ok () ∧ isPair (.atom []) = false := by
  decide

/-- go_to: several destinations must match the number of edges -/
theorem goto_arity_detected (edges dests : Nat) (h1 : dests ≠ 1) (h2 : edges ≠ dests) :
    checkGotoArity edges dests = .error .gotoArity := by
  simp [checkGotoArity, h1, h2]

theorem goto_single_destination_accepted (edges : Nat) : checkGotoArity edges 1 = .ok () := by
  simp [checkGotoArity]

/-- begin_for without a (non-blank first) loop variable -/
theorem for_without_variable_detected (v : List Str) (h : v.head? = none ∨ v.head? = some []) :
    checkLoopVariable v = .error .forWithoutVariable := by
  cases v with
  | nil => rfl
  | cons x xs => simp at h; simp [checkLoopVariable, h]

/-- an edge from a row id that no earlier row registered -/
theorem edge_from_unknown_row_detected (known : List Str) (src : Str)
    (h1 : src ≠ []) (h2 : src ≠ "start".toList) (h3 : src ∉ known) :
    checkEdgeFrom known src = .error (.edgeFromUnknownRow src) := by
  unfold checkEdgeFrom
  rw [if_neg (by rintro (h | h); exact h1 h; exact h2 h), if_neg h3]

/-! ### the detection sites of the former finding F-C15-a (now `LOGGER.critical`) -/

/-- generic: the index is checked row by row, the first failing row decides -/
theorem checkIndex_error_at (sheets models : List Str) (m : Bool) (pre post : List IndexRow)
    (r : IndexRow) (e : Fault) (hpre : ∀ x ∈ pre, x.check sheets m models = .ok ())
    (hr : r.check sheets m models = .error e) :
    checkIndex sheets m models (pre ++ r :: post) = .error e := by
  induction pre with
  | nil => simp [checkIndex, hr]
  | cons x pre ih =>
    have hx := hpre x (by simp)
    simpa [checkIndex, hx] using ih (fun y hy => hpre y (by simp [hy]))

/-- **Index row of unknown type**: wherever it sits among valid rows, whatever sheet it names
(no sheet is looked up), the run stops with "invalid type". -/
theorem unknown_index_type_detected (sheets models : List Str) (m : Bool) (pre post : List IndexRow)
    (t : Str) (hpre : ∀ x ∈ pre, x.check sheets m models = .ok ()) (ht : t ∉ indexRowTypes) :
    checkIndex sheets m models (pre ++ .other t 1 :: post) = .error (.unknownIndexType t) :=
  checkIndex_error_at sheets models m pre post _ _ hpre (by simp [IndexRow.check, ht])

example : "create_flows".toList ∉ indexRowTypes ∧
    checkIndex ["main".toList] false [] ([.sheetRef "main".toList] ++ .other "create_flows".toList 1 :: []) =
      .error (.unknownIndexType "create_flows".toList) := by decide

/-- needs `t ∉ indexRowTypes`: a row of a known type without effect on the model (`ignore_row`) passes -/
theorem unknown_index_type_needs_unknown :
    (IndexRow.other "ignore_row".toList 1).check [] false [] = .ok () := by decide

/-- … and the `sheet_name` count comes first, whatever the type is -/
theorem sheet_name_count_first (sheets models : List Str) (m : Bool) (t : Str) (n : Nat) (hn : n ≠ 1) :
    (IndexRow.other t n).check sheets m models = .error (.sheetNameCount t) := by
  simp [IndexRow.check, hn]

/-- … and therefore the command exits non-zero and leaves the output path alone -/
theorem unknown_index_type_stops_command {D : Type} (doc : Workbook → D) (encode : D → Str)
    (w : Workbook) (pre post : List IndexRow) (t : Str) (prev : Option Str)
    (hidx : w.hasIndex = true) (hindex : w.index = pre ++ .other t 1 :: post)
    (hpre : ∀ x ∈ pre, x.check w.sheets w.hasModule w.models = .ok ()) (ht : t ∉ indexRowTypes) :
    createFlows doc w = .error (.unknownIndexType t) ∧
    cliFs (createFlows doc) encode prev w = ⟨1, prev⟩ := by
  have h : createFlows doc w = .error (.unknownIndexType t) := by
    unfold createFlows
    simp [hidx, hindex, unknown_index_type_detected w.sheets w.models w.hasModule pre post t hpre ht]
  exact ⟨h, cli_error_keeps_file _ _ _ _ _ h⟩

/-- **Outcome edges**: an edge leaving a start_new_flow row must say Complete(d) / Expired … -/
theorem bad_flow_outcome_detected (v : Str) (more : Bool) (hne : v ≠ [] ∨ more = true)
    (hv : lowerAscii v ∉ flowOutcomes) :
    checkOutcome .enterFlow v more = .error (.badOutcomeCondition true) := by
  have : ¬ (v = [] ∧ more = false) := by
    rintro ⟨h1, h2⟩; rcases hne with h | h
    · exact h h1
    · rw [h2] at h; cases h
  simp [checkOutcome, this, hv]

/-- … one leaving a call_webhook / transfer_airtime row Success / Failure (or nothing at all) -/
theorem bad_hook_outcome_detected (v : Str) (more : Bool) (hne : v ≠ [] ∨ more = true)
    (hv : lowerAscii v ∉ hookOutcomes) :
    checkOutcome .hook v more = .error (.badOutcomeCondition false) := by
  have : ¬ (v = [] ∧ more = false) := by
    rintro ⟨h1, h2⟩; rcases hne with h | h
    · exact h h1
    · rw [h2] at h; cases h
  simp [checkOutcome, this, hv]

example : lowerAscii "Maybe".toList ∉ flowOutcomes ∧ lowerAscii "Sucess".toList ∉ hookOutcomes ∧
    checkOutcome .enterFlow "Maybe".toList false = .error (.badOutcomeCondition true) ∧
    checkOutcome .hook [] true = .error (.badOutcomeCondition false) := by decide

/-- the outcome words are accepted in any ASCII capitalisation; an edge from any other row is not tested -/
theorem outcome_words_accepted :
    checkOutcome .enterFlow "Completed".toList false = .ok () ∧
    checkOutcome .enterFlow "EXPIRED".toList true = .ok () ∧
    checkOutcome .hook "Success".toList false = .ok () ∧ checkOutcome .hook "failure".toList false = .ok () ∧
    (∀ v m, checkOutcome .other v m = .ok ()) := by
  refine ⟨by decide, by decide, by decide, by decide, fun _ _ => rfl⟩

/-- needs `v ≠ [] ∨ more`: the unconditional edge takes the default-exit branch — an error of its own
for a start_new_flow row, fine for a webhook -/
theorem bad_outcome_needs_condition :
    checkOutcome .enterFlow [] false = .error .noDefaultExitFromFlow ∧ checkOutcome .hook [] false = .ok () := by
  decide

/-- **Row type**: outside the three lists `_get_row_action` knows, "not implemented" … -/
theorem unknown_row_type_detected (t : Str) (h1 : t ∉ actionRowTypes)
    (h2 : setContactPrefix.isPrefixOf t = false) (h3 : t ∉ nodeRowTypes) :
    checkRowType t = .error (.unknownRowType t) := by
  simp [checkRowType, h1, h2, h3]

/-- … and a `set_contact_` row whose property is not one of the five: "Unknown operation" -/
theorem unknown_contact_property_detected (t : Str) (h1 : t ∉ actionRowTypes)
    (h2 : setContactPrefix.isPrefixOf t = true) (h3 : removeAll setContactPrefix t ∉ contactProperties) :
    checkRowType t = .error (.unknownContactProperty (removeAll setContactPrefix t)) := by
  simp [checkRowType, h1, h2, h3]

example : checkRowType "send_mesage".toList = .error (.unknownRowType "send_mesage".toList) ∧
    checkRowType "set_contact_email".toList = .error (.unknownContactProperty "email".toList) ∧
    checkRowType "set_contact_name".toList = .ok () ∧
    -- `replace` removes every occurrence of the prefix (what the code does)
    checkRowType "set_contact_set_contact_name".toList = .ok () := by decide

/-- **"Not implemented" is out of reach in a sheet with a `message_text` column**: every type the row
parser lets through there (`mainArgKeyError true t = none`) is either handled before
`_get_row_action` (block rows, exits, go_to, no_op, insert_as_block) or known to it. -/
theorem main_arg_types_known (t : Str) (h : mainArgKeyError true t = none) :
    t ∈ ["begin_block".toList, "begin_for".toList, "end_block".toList, "end_for".toList, "go_to".toList,
         "hard_exit".toList, "insert_as_block".toList, "loose_exit".toList, "no_op".toList] ∨
    checkRowType t = .ok () := by
  have all : ∀ t ∈ mainArgTypes,
      t ∈ ["begin_block".toList, "begin_for".toList, "end_block".toList, "end_for".toList, "go_to".toList,
           "hard_exit".toList, "insert_as_block".toList, "loose_exit".toList, "no_op".toList] ∨
      checkRowType t = .ok () := by decide
  by_cases hm : t ∈ mainArgTypes
  · exact all t hm
  · simp [mainArgKeyError, hm] at h

/-- with a `message_text` column an unknown type is a `KeyError` of the row parser instead … -/
theorem mainArgKeyError_iff (b : Bool) (t : Str) :
    mainArgKeyError b t = some t ↔ (b = true ∧ t ∉ mainArgTypes) := by
  unfold mainArgKeyError
  by_cases hb : b = true <;> by_cases ht : t ∈ mainArgTypes <;> simp [hb, ht]

/-- … which stops the sheet at that row **whatever state the machine is in**: inside an omitted
block, with a false `include_if`, even where the row would have terminated a block. -/
theorem row_type_key_error_detected {P : Type} (chk : List Str → P → Except Fault Unit)
    (pre post : List (Row P)) (r : Row P) (s0 s : List Frame × List Str) (t : Str)
    (hpre : steps chk s0 pre = .ok s) (hr : r.keyError = some t) :
    runSheet chk s0.1 s0.2 (pre ++ r :: post) = .error (.rowTypeWithoutMainArg t) := by
  unfold runSheet
  rw [steps_append, hpre]
  simp [steps, step, hr]

example : runSheet Probe0.check [] []
    ([{ type := .other, rowId := "a".toList }, { type := .beginBlock, includeIf := false }] ++
      ({ type := .other, includeIf := false, keyError := mainArgKeyError true "send_mesage".toList } : Row Probe0) ::
        [{ type := .endBlock }]) = .error (.rowTypeWithoutMainArg "send_mesage".toList) := by decide

/-- the new row-level detectors inside a sheet, through `row_fault_detected` (any position, any depth):
the row type is looked at before the edges, the outcome after the source of the edge was found -/
example : runSheet Probe0.check [] []
    ([{ type := .other, rowId := "a".toList, probes := [.rowType "start_new_flow".toList, .edgeFrom "start".toList] },
      { type := .beginBlock, probes := [.edgeFrom "a".toList] }] ++
      ({ type := .other, probes := [.rowType "send_message".toList, .messageText "x".toList, .edgeFrom "a".toList,
                                   .outcome .enterFlow "maybe".toList false] } : Row Probe0) :: [{ type := .endBlock }]) =
    .error (.badOutcomeCondition true) ∧
  runSheet Probe0.check [] []
    [({ type := .other, probes := [.rowType "frobnicate".toList, .edgeFrom "nosuchrow".toList] } : Row Probe0)] =
    .error (.unknownRowType "frobnicate".toList) := by decide

/-! ### template arguments -/

theorem bindArgs_cons (d : ArgDef) (ds : List ArgDef) (args ctx : List Str) :
    bindArgs (d :: ds) args ctx =
      if d.name ∈ ctx then .error (.argDoublyDefined d.name)
      else if argValue (args.headD []) d.default = [] then .error (.argMissing d.name)
      else bindArgs ds args.tail (d.name :: ctx) := rfl

theorem bindArgs_append : ∀ (pre rest : List ArgDef) (args ctx : List Str),
    bindArgs (pre ++ rest) args ctx =
      match bindArgs pre args ctx with
      | .error f => .error f
      | .ok ctx' => bindArgs rest (args.drop pre.length) ctx' := by
  intro pre
  induction pre with
  | nil => intro rest args ctx; simp [bindArgs]
  | cons d pre ih =>
    intro rest args ctx
    have hdrop : args.tail.drop pre.length = args.drop (d :: pre).length := by
      cases args <;> simp
    rw [List.cons_append, bindArgs_cons, bindArgs_cons]
    split
    · rfl
    · split
      · rfl
      · rw [ih, hdrop]

/-- **Missing template argument**: after any prefix of definitions that binds, a definition
whose name is still free, with no default, and no (non-blank) argument at its position is
reported as not provided — at any position in the definition list. -/
theorem arg_missing_detected (pre post : List ArgDef) (d : ArgDef) (args ctx ctx' : List Str)
    (hpre : bindArgs pre args ctx = .ok ctx') (hfree : d.name ∉ ctx')
    (hdef : d.default = []) (harg : (args.drop pre.length).headD [] = []) :
    bindArgs (pre ++ d :: post) args ctx = .error (.argMissing d.name) := by
  rw [bindArgs_append, hpre]
  show bindArgs (d :: post) _ _ = _
  rw [bindArgs_cons, if_neg hfree, harg, hdef, if_pos (by rfl)]

example : bindArgs ([⟨"a".toList, [], []⟩] ++ ⟨"b".toList, [], []⟩ :: []) ["x".toList] ["w".toList] =
    .error (.argMissing "b".toList) := by decide

/-- **Doubly defined template argument**: a definition whose name is already in the context
(a data-row field, or an earlier argument) is rejected, whatever value it gets. -/
theorem arg_doubly_defined_detected (pre post : List ArgDef) (d : ArgDef)
    (args ctx ctx' : List Str) (hpre : bindArgs pre args ctx = .ok ctx') (hdup : d.name ∈ ctx') :
    bindArgs (pre ++ d :: post) args ctx = .error (.argDoublyDefined d.name) := by
  rw [bindArgs_append, hpre]
  show bindArgs (d :: post) _ _ = _
  rw [bindArgs_cons, if_pos hdup]

example : bindArgs ([⟨"a".toList, [], []⟩] ++ ⟨"word".toList, [], "d".toList⟩ :: [])
    ["x".toList, "y".toList] ["word".toList] = .error (.argDoublyDefined "word".toList) := by decide

theorem bindArgs_ok_mono : ∀ (ds : List ArgDef) (args ctx ctx' : List Str),
    bindArgs ds args ctx = .ok ctx' → ∀ x ∈ ctx, x ∈ ctx' := by
  intro ds
  induction ds with
  | nil => intro _ _ _ h x hx; simp [bindArgs] at h; subst h; exact hx
  | cons e es ihe =>
    intro args ctx ctx' h x hx
    rw [bindArgs_cons] at h
    split at h
    · cases h
    · split at h
      · cases h
      · exact ihe _ _ _ h x (by simp [hx])

/-- the bound names are added to the context, so a name defined twice in the definition
list itself is caught too -/
theorem bindArgs_ok_mem : ∀ (ds : List ArgDef) (args ctx ctx' : List Str),
    bindArgs ds args ctx = .ok ctx' → ∀ d ∈ ds, d.name ∈ ctx' := by
  intro ds
  induction ds with
  | nil => intro _ _ _ _ d hd; cases hd
  | cons d0 ds ih =>
    intro args ctx ctx' h d hd
    rw [bindArgs_cons] at h
    split at h
    · cases h
    · split at h
      · cases h
      · rcases List.mem_cons.1 hd with rfl | hd
        · exact bindArgs_ok_mono ds _ _ _ h _ (by simp)
        · exact ih _ _ _ h d hd

theorem arg_defined_twice_detected (pre post : List ArgDef) (d d' : ArgDef)
    (args ctx ctx' : List Str) (hpre : bindArgs pre args ctx = .ok ctx')
    (hd' : d' ∈ pre) (hsame : d.name = d'.name) :
    bindArgs (pre ++ d :: post) args ctx = .error (.argDoublyDefined d.name) :=
  arg_doubly_defined_detected pre post d args ctx ctx' hpre
    (hsame ▸ bindArgs_ok_mem pre args ctx ctx' hpre d' hd')

/-- non-vacuity: arguments that are all provided (or defaulted) and fresh bind -/
example : bindArgs [⟨"a".toList, [], []⟩, ⟨"b".toList, [], "dflt".toList⟩] ["x".toList] ["w".toList] =
    .ok ["b".toList, "a".toList, "w".toList] := by decide

/-! ### UUID dictionary, triggers, index -/

/-- two different non-empty uuids for one name are rejected, whenever the second arrives -/
theorem uuid_conflict_detected (d : List (Str × Str)) (name u1 u2 : Str)
    (h1 : lookup name d = some u1) (hu1 : u1 ≠ []) (hu2 : u2 ≠ []) (hne : u2 ≠ u1) :
    recordUuid d name u2 = .error (.uuidConflict name) := by
  simp [recordUuid, h1, hu1, hu2, hne]

example : recordAll [] [("G".toList, "u1".toList), ("H".toList, []), ("G".toList, "u2".toList)] =
    .error (.uuidConflict "G".toList) := by decide

/-- a trigger whose flow the dictionary does not know stops the run (the dictionary also
knows flows that are merely referenced — finding F-C06-b — hence `flowNames`, not "created") -/
theorem trigger_unknown_flow_detected (names pre post : List Str) (t : Str)
    (hpre : ∀ x ∈ pre, x ∈ names) (ht : t ∉ names) :
    checkTriggers names (pre ++ t :: post) = .error (.triggerUnknownFlow t) := by
  induction pre with
  | nil => simp [checkTriggers, ht]
  | cons x pre ih =>
    have hx := hpre x (by simp)
    simpa [checkTriggers, hx] using ih (fun y hy => hpre y (by simp [hy]))

theorem no_content_index_detected {D : Type} (doc : Workbook → D) (w : Workbook)
    (h : w.hasIndex = false) : createFlows doc w = .error .noContentIndex := by
  simp [createFlows, h]

/-- a sheet named by the index that the reader does not offer -/
theorem missing_sheet_detected (sheets models : List Str) (m : Bool) (pre post : List IndexRow)
    (n : Str) (hpre : ∀ r ∈ pre, r.check sheets m models = .ok ()) (hn : n ∉ sheets) :
    checkIndex sheets m models (pre ++ .sheetRef n :: post) = .error (.missingSheet n) := by
  induction pre with
  | nil => simp [checkIndex, IndexRow.check, hn]
  | cons r pre ih =>
    have hr := hpre r (by simp)
    simpa [checkIndex, hr] using ih (fun y hy => hpre y (by simp [hy]))

/-- an operation that is none of concat / filter / sort (with a new_name given) -/
theorem unknown_operation_detected (sheets models : List Str) (m : Bool) (op newName : Str)
    (srcs : List DataSource) (h1 : op ≠ []) (h2 : newName ≠ []) (h3 : op ∉ knownOps) :
    (IndexRow.dataSheet op newName srcs).check sheets m models = .error .unknownOperation := by
  have h4 : op ≠ "concat".toList := by
    intro h; apply h3; rw [h]; decide
  show (if op = [] then _ else _) = _
  rw [if_neg h1, if_neg h2, if_neg h4, if_neg h3]

theorem operation_without_new_name_detected (sheets models : List Str) (m : Bool) (op : Str)
    (srcs : List DataSource) (h1 : op ≠ []) :
    (IndexRow.dataSheet op [] srcs).check sheets m models = .error .operationWithoutNewName := by
  simp [IndexRow.check, h1]

/-- a data row the registered data sheet does not contain (create_flow or insert_as_block) -/
theorem missing_data_row_detected (reg : DataReg) (sheet id : Str) (ids : List Str)
    (hs : sheet ≠ []) (hi : id ≠ []) (hreg : lookupRows sheet reg = some ids) (hid : id ∉ ids) :
    checkDataRow reg sheet id = .error (.missingDataRow id) := by
  simp [checkDataRow, hs, hi, hreg, hid]

/-- the model name is looked up only when a module was given: with a module, an unknown
name is an error before the sheet is even read -/
theorem unknown_data_model_detected (sheets models : List Str) (s : DataSource)
    (hc : s.cached = false) (hm : s.dataModel ≠ []) (hu : s.dataModel ∉ models) :
    checkSource sheets true models s = .error (.unknownDataModel s.dataModel) := by
  simp [checkSource, hc, hm, hu]

/-- … and without a module the name is not looked at (what the code does) -/
theorem unknown_data_model_needs_module (sheets models : List Str) (s : DataSource)
    (hs : s.name ∈ sheets) : checkSource sheets false models s = .ok () := by
  simp [checkSource, hs]

/-! ### the end-to-end statement and what is proved of it -/

/-- Full statement (NOT proved; needs a model of the Python process): for every real
workbook `wb` and its abstraction `w`, the real command's observable (status, file) equals
`cliFs (createFlows doc) encode pre w`.  `real` is the uninterpreted behaviour of the
process; the check `c15.py` samples this equation on every fault class × position. -/
def C15_full {D : Type} (doc : Workbook → D) (encode : D → Str)
    (real : Workbook → Option Str → CliResult) : Prop :=
  ∀ (w : Workbook) (pre : Option Str), real w pre = cliFs (createFlows doc) encode pre w

/-- What is proved: *if* the process behaves like `cliFs` on the model's verdict (the
unproved tie), then every detected fault gives a non-zero status and leaves the output
path as it was, and a file only appears for a complete document. -/
theorem C15_partial {D : Type} (doc : Workbook → D) (encode : D → Str)
    (real : Workbook → Option Str → CliResult) (hfull : C15_full doc encode real)
    (w : Workbook) (pre : Option Str) :
    (∀ e, createFlows doc w = .error e → (real w pre).exit ≠ 0 ∧ (real w pre).file = pre) ∧
    (∀ d, createFlows doc w = .ok d → real w pre = ⟨0, some (encode d)⟩) := by
  rw [hfull w pre]
  constructor
  · intro e h; rw [cli_error_keeps_file _ _ _ _ e h]; exact ⟨by simp, rfl⟩
  · intro d h; exact cli_ok_writes_document _ _ _ _ d h

end Rpft.Props.C15
