/-
C08 — Cell syntax is an unambiguous, escapable encoding of nested lists.

Property theorems only (helper lemmas: `Rpft/Lemmas/Cell.lean`).  All statements are for
an arbitrary whitespace predicate `ws` that does not count `|`, `;`, `\` as whitespace
(`WsOk ws`), and for strings of unbounded length.  `pyWs_ok` instantiates `ws` with the
CPython table.
-/
import Rpft.Lemmas.Cell
import Rpft.Gen.Tables
set_option linter.unusedSimpArgs false
set_option linter.unusedVariables false
namespace Rpft.Props.C08
open Rpft Rpft.Cell

/-- the instance used by the driver satisfies the side conditions -/
theorem pyWs_ok : WsOk pyWs := by
  constructor <;> decide

/-- T1: the constants of the model are the constants of the source (regenerated each run). -/
theorem tables_agree :
    Gen.cellSeparators = [sep0, sep1] ∧ Gen.cellEscape = escC ∧ Gen.cellUnescapeSinglePass = true ∧
    Gen.pyWhitespace = pyWhitespaceCodes := by decide

/-- `escape_string` (three `replace` passes) is the single-pass encoder. -/
theorem escape_single_pass (s : Str) : escapeString s = esc s := escapeString_eq_esc s

/-- Escaped data never splits: substituted through `|escape` it is one piece. -/
theorem split_escaped_atom {sep : Char} (hs : sep = sep0 ∨ sep = sep1) (s : Str) :
    splitBySeparator sep (escapeString s) = .inl (escapeString s) := by
  rw [escapeString_eq_esc]
  unfold splitBySeparator
  simp [splitRaw_transparent (transparent_esc hs s)]

/-- `cleanse` of an escaped string is the trimmed original. -/
theorem cleanse_esc {ws : Char → Bool} (hw : WsOk ws) (s : Str) :
    cleanseStr ws (esc s) = strip ws s := by
  unfold cleanseStr
  rw [strip_esc hw, unescape_esc]

/-- **Strings**: parsing the joined text of any string gives the trimmed string — a plain
string, never a list — whatever mixture of separators and backslashes it contains. -/
theorem split_join_atom {ws : Char → Bool} (hw : WsOk ws) (s : Str) :
    splitIntoLists ws (joinCell (.atom s)) = .atom (strip ws s) := by
  unfold splitIntoLists splitIntoListsRaw
  simp only [joinCell]
  rw [split_escaped_atom (Or.inl rfl), split_escaped_atom (Or.inr rfl)]
  simp [Cell.map, escapeString_eq_esc, cleanse_esc hw s]

/-! ### well-formed two-level values -/

def WFElem : Elem → Prop
  | .atom _ => True
  | .list xs => xs ≠ [] ∧ (2 ≤ xs.length → xs.getLast? ≠ some [])

def WFCell : Cell → Prop
  | .atom _ => True
  | .list es => es ≠ [] ∧ (∀ e ∈ es, WFElem e) ∧
      (2 ≤ es.length → es.getLast? ≠ some (.atom []))

theorem transparent_joinWith {sep c : Char} (h1 : c ≠ escC) (h2 : c ≠ sep) :
    ∀ (ps : List Str), (∀ p ∈ ps, Transparent sep p) → Transparent sep (joinWith [c] ps)
  | [], _ => transparent_nil sep
  | [p], hp => by simpa [joinWith] using hp p (by simp)
  | p :: q :: ps, hp => by
    simp only [joinWith]
    exact transparent_append
      (transparent_append (hp p (by simp)) (transparent_plain h1 h2))
      (transparent_joinWith h1 h2 (q :: ps) (fun x hx => hp x (by simp [hx])))

theorem transparent0_joinElem (e : Elem) : Transparent sep0 (joinElem e) := by
  match e with
  | .atom s => simpa [joinElem, escapeString_eq_esc] using transparent_esc (Or.inl rfl) s
  | .list [] => simpa [joinElem, joinWith] using transparent_nil sep0
  | .list [x] =>
    simp only [joinElem, escapeString_eq_esc]
    exact transparent_append (transparent_esc (Or.inl rfl) x)
      (transparent_plain (by decide) (by decide))
  | .list (x :: y :: xs) =>
    simp only [joinElem]
    apply transparent_joinWith (by decide) (by decide)
    intro p hp
    simp only [List.mem_map] at hp
    obtain ⟨a, _, rfl⟩ := hp
    rw [escapeString_eq_esc]; exact transparent_esc (Or.inl rfl) a

theorem getLast?_map_esc (xs : List Str) :
    (xs.map escapeString).getLast? = some [] ↔ xs.getLast? = some [] := by
  rw [List.getLast?_map]
  cases h : xs.getLast? with
  | none => simp
  | some a => simp [escapeString_eq_esc, esc_eq_nil]

theorem splitBySeparator_of_pieces {sep : Char} {s : Str} {ps : List Str}
    (h : splitRaw sep s = ps) (h2 : 2 ≤ ps.length) (hl : ps.getLast? ≠ some []) :
    splitBySeparator sep s = .inr ps := by
  unfold splitBySeparator
  simp only [h]
  rw [if_neg (by omega), if_neg hl]

/-- splitting one joined depth-1 element by `;` gives back the element, still escaped -/
theorem split1_joinElem (e : Elem) (h : WFElem e) :
    elemOfSplit (splitBySeparator sep1 (joinElem e)) = e.map escapeString := by
  match e, h with
  | .atom s, _ =>
    simp [joinElem, split_escaped_atom (Or.inr rfl), elemOfSplit, Elem.map]
  | .list [], h => exact absurd rfl h.1
  | .list [x], _ =>
    have ht : Transparent sep1 (escapeString x) := by
      rw [escapeString_eq_esc]; exact transparent_esc (Or.inr rfl) x
    simp only [joinElem, splitBySeparator, splitRaw_single (by decide) ht]
    simp [elemOfSplit, Elem.map]
  | .list (x :: y :: xs), h =>
    have hps : ∀ p ∈ (x :: y :: xs).map escapeString, Transparent sep1 p := by
      intro p hp
      simp only [List.mem_map] at hp
      obtain ⟨a, _, rfl⟩ := hp
      rw [escapeString_eq_esc]; exact transparent_esc (Or.inr rfl) a
    have hl : ((x :: y :: xs).map escapeString).getLast? ≠ some [] := by
      rw [Ne, getLast?_map_esc]; exact h.2 (by simp)
    simp only [joinElem]
    rw [splitBySeparator_of_pieces
      (splitRaw_joinWith (by decide : sep1 ≠ escC) _ (by simp) hps) (by simp) hl]
    simp [elemOfSplit, Elem.map]

theorem joinElem_eq_nil {e : Elem} (h : WFElem e) : joinElem e = [] ↔ e = .atom [] := by
  match e, h with
  | .atom s, _ => simp [joinElem, escapeString_eq_esc, esc_eq_nil]
  | .list [], h => exact absurd rfl h.1
  | .list [x], _ => simp [joinElem]
  | .list (x :: y :: xs), _ => simp [joinElem, joinWith]

def normElem (ws : Char → Bool) (e : Elem) : Elem := e.map (strip ws)
def normalize (ws : Char → Bool) (v : Cell) : Cell := v.map (strip ws)

theorem cleanse_elem {ws : Char → Bool} (hw : WsOk ws) (e : Elem) (h : WFElem e) :
    (e.map escapeString).map (cleanseStr ws) = e.map (strip ws) := by
  match e, h with
  | .atom s, h => simp [Elem.map, escapeString_eq_esc, cleanse_esc hw s]
  | .list xs, h =>
    simp only [Elem.map, List.map_map, Elem.list.injEq]
    apply List.map_congr_left
    intro x hx
    simp [escapeString_eq_esc, cleanse_esc hw x]

/-- the `|`-level split of a joined well-formed list gives the joined elements -/
theorem split0_joinCell_list (es : List Elem) (h : WFCell (.list es)) :
    splitBySeparator sep0 (joinCell (.list es)) = .inr (es.map joinElem) := by
  match es, h with
  | [], h => exact absurd rfl h.1
  | [e], _ =>
    simp only [joinCell, splitBySeparator,
      splitRaw_single (by decide : sep0 ≠ escC) (transparent0_joinElem e)]
    simp
  | e :: f :: es, h =>
    have hps : ∀ p ∈ (e :: f :: es).map joinElem, Transparent sep0 p := by
      intro p hp
      simp only [List.mem_map] at hp
      obtain ⟨a, _, rfl⟩ := hp
      exact transparent0_joinElem a
    have hl : ((e :: f :: es).map joinElem).getLast? ≠ some [] := by
      rw [List.getLast?_map]
      intro hc
      cases hg : (e :: f :: es).getLast? with
      | none => simp [hg] at hc
      | some a =>
        rw [hg] at hc
        simp only [Option.map_some, Option.some.injEq] at hc
        have ha : a ∈ (e :: f :: es) := List.mem_of_getLast? hg
        have := (joinElem_eq_nil (h.2.1 a ha)).mp hc
        subst this
        exact h.2.2 (by simp) hg
    simp only [joinCell]
    rw [splitBySeparator_of_pieces
      (splitRaw_joinWith (by decide : sep0 ≠ escC) _ (by simp) hps) (by simp) hl]

/-- **Main round trip**: for every two-level value whose lists are non-empty and do not
end in a blank element, parsing the joined text gives back the same value with every
string trimmed. -/
theorem split_join {ws : Char → Bool} (hw : WsOk ws) (v : Cell) (h : WFCell v) :
    splitIntoLists ws (joinCell v) = normalize ws v := by
  match v, h with
  | .atom s, h => exact split_join_atom hw s
  | .list es, h =>
    unfold splitIntoLists splitIntoListsRaw
    rw [split0_joinCell_list es h]
    simp only [Cell.map, normalize, List.map_map, Cell.list.injEq]
    apply List.map_congr_left
    intro e he
    simp only [Function.comp]
    rw [split1_joinElem e (h.2.1 e he), cleanse_elem hw e (h.2.1 e he)]

/-- A cell without an unescaped separator is a plain string, never a list. -/
theorem no_sep_is_atom {ws : Char → Bool} (s : Str)
    (h0 : (splitRaw sep0 s).length = 1) (h1 : (splitRaw sep1 s).length = 1) :
    splitIntoLists ws s = .atom (cleanseStr ws s) := by
  unfold splitIntoLists splitIntoListsRaw splitBySeparator
  simp [h0, h1, Cell.map]

/-- Conversely a list result means an unescaped separator is present. -/
theorem list_has_sep {ws : Char → Bool} (s : Str) (es : List Elem)
    (h : splitIntoLists ws s = .list es) :
    1 < (splitRaw sep0 s).length ∨ 1 < (splitRaw sep1 s).length := by
  by_cases h0 : (splitRaw sep0 s).length ≤ 1
  · by_cases h1 : (splitRaw sep1 s).length ≤ 1
    · exfalso
      unfold splitIntoLists splitIntoListsRaw splitBySeparator at h
      simp [h0, h1, Cell.map] at h
    · right; omega
  · left; omega

/-! ### the `escape` filter makes substituted data inert -/

/-- piece structure when the scanner reaches a junction in the unescaped state -/
def glue (xs ys : List Str) : List Str :=
  xs.dropLast ++ headApp (xs.getLastD []) ys

/-- `Balanced sep a` — scanning `a` ends outside an escape: the text after it is scanned
from the unescaped state. -/
def Balanced (sep : Char) (a : Str) : Prop :=
  ∀ t, splitAux sep false (a ++ t) = glue (splitAux sep false a) (splitAux sep false t)

/-- **Inertness**: in any context `a … b` whose left part does not end in a dangling
escape, inserting escaped data `esc d` yields the pieces of `a ++ b` with `esc d`
spliced into the piece at the junction: no piece is created or destroyed. -/
theorem escape_inert {sep : Char} (hs : sep = sep0 ∨ sep = sep1) (a d b : Str)
    (ha : Balanced sep a) :
    splitRaw sep (a ++ escapeString d ++ b) =
      glue (splitRaw sep a) (headApp (esc d) (splitRaw sep b)) ∧
    splitRaw sep (a ++ b) = glue (splitRaw sep a) (splitRaw sep b) := by
  unfold splitRaw
  rw [escapeString_eq_esc, List.append_assoc, ha, ha, transparent_esc hs d]
  exact ⟨rfl, rfl⟩

theorem glue_length (xs ys : List Str) (hx : xs ≠ []) (hy : ys ≠ []) :
    (glue xs ys).length = xs.length + ys.length - 1 := by
  cases ys with
  | nil => exact absurd rfl hy
  | cons y ys =>
    have : 0 < xs.length := List.length_pos_iff.mpr hx
    simp [glue, headApp]; omega

/-- Corollary: substitution through `escape` never changes the number of list elements. -/
theorem escape_inert_count {sep : Char} (hs : sep = sep0 ∨ sep = sep1) (a d b : Str)
    (ha : Balanced sep a) :
    (splitRaw sep (a ++ escapeString d ++ b)).length = (splitRaw sep (a ++ b)).length := by
  obtain ⟨h1, h2⟩ := escape_inert hs a d b ha
  rw [h1, h2, glue_length _ _ (splitRaw_ne_nil _ _) (headApp_ne_nil _ _),
    glue_length _ _ (splitRaw_ne_nil _ _) (splitRaw_ne_nil _ _)]
  have : (headApp (esc d) (splitRaw sep b)).length = (splitRaw sep b).length := by
    cases hb : splitRaw sep b with
    | nil => exact absurd hb (splitRaw_ne_nil _ _)
    | cons y ys => simp [headApp]
  rw [this]

/-- without `escape`, data does change the structure (the filter is needed) -/
theorem unescaped_not_inert :
    (splitRaw sep1 ("a".toList ++ ";".toList ++ "b".toList)).length ≠
    (splitRaw sep1 ("a".toList ++ "b".toList)).length := by decide

/-- the empty context and every context of plain characters is balanced (non-vacuity) -/
theorem balanced_nil (sep : Char) : Balanced sep [] := by
  intro t
  have := splitAux_ne_nil sep false t
  simp [glue, splitAux, headApp_nil _ this]

example : Balanced sep1 "x;y".toList := by
  intro t
  have := splitAux_ne_nil sep1 false t
  cases ht : splitAux sep1 false t with
  | nil => exact absurd ht this
  | cons p ps =>
    have ht' : splitAux ';' false t = p :: ps := ht
    simp [splitAux, escC, sep1, glue, headApp, headCons, ht']

/-! ### depth limit -/

/-- Three levels of nesting are the error branch of `join_from_lists`. -/
theorem too_deep_is_error (x : Nested) (xs ys zs : List Nested) :
    joinNested 0 (.list (.list (.list zs :: ys) :: xs)) = .error .tooDeep := by
  cases xs <;> cases ys <;>
    simp [joinNested, joinNestedList, bind, Except.bind]

/-! ### negative witnesses: each hypothesis of `split_join` is needed -/

/-- a list (length ≥ 2) ending in a blank element does not survive -/
theorem needs_no_trailing_blank :
    splitIntoLists pyWs (joinCell (.list [.atom "a".toList, .atom []])) ≠
      normalize pyWs (.list [.atom "a".toList, .atom []]) := by decide

/-- an empty list does not survive (it becomes the empty string) -/
theorem needs_nonempty :
    splitIntoLists pyWs (joinCell (.list [])) ≠ normalize pyWs (.list []) := by decide

/-- former finding F-C08-a (fixed in /repo: `cleanse` no longer goes through a temporary
character): U+0001 survives like any other character -/
theorem control_character_survives :
    splitIntoLists pyWs (joinCell (.atom [Char.ofNat 1])) = normalize pyWs (.atom [Char.ofNat 1]) := by decide

/-! ### non-vacuity -/

example : WFCell (.list [.atom "a|b".toList, .list ["\\".toList, "c;".toList], .list [[]]]) := by
  refine ⟨by simp, ?_, by simp⟩
  intro e he
  simp only [List.mem_cons, List.not_mem_nil, or_false] at he
  rcases he with rfl | rfl | rfl
  · trivial
  · exact ⟨by simp, by decide⟩
  · exact ⟨by simp, by decide⟩

end Rpft.Props.C08
