/- C17 — placeholder until the exporter model lands (replaced in the next commit). -/
namespace Rpft.Props.C17
end Rpft.Props.C17
