/-
C17 — `--strip_uuids` sheets do not depend on the UUIDs in the flow file.

Property theorems only (helper lemmas: `Rpft/Lemmas/Export.lean`, `ExportIds.lean`,
`ExportDfs.lean`, `ExportFuel.lean`).  The exporter model `Rpft/Export.lean` is polymorphic in the identifier type
`U` (it only ever compares identifiers for equality / tests membership in sets of identifiers);
all statements are for ALL flows (any graph: joins, cycles, self loops, dangling exits,
duplicate node ids), unbounded.  Header order (`networkx.topological_sort`), `unparse_row` and
the file writer are uninterpreted functions of the uuid-free rows.
-/
import Rpft.Lemmas.ExportFuel
import Rpft.Gen.Tables
import Rpft.Canon
set_option linter.unusedSimpArgs false
set_option linter.unusedVariables false
namespace Rpft.Props.C17
open Rpft Rpft.Export Function

deriving instance DecidableEq for Except

/-- T1: the constants of the model are the constants of the source (regenerated each run):
the excluded headers are exactly the headers of the two uuid-carrying row fields the stripped row
type drops; `"start"`; the `"|goto."` literal and `go_to` type of back-edge rows; the `|` of temp ids.
The two header lists are sets (compared up to order). -/
theorem tables_agree :
    Canon.sameSet Gen.exportExcludedHeaders excludedHeaders ∧
    Canon.sameSet Gen.exportIdFieldHeaders idFieldHeaders ∧
    (∀ h ∈ idFieldHeaders, h ∈ excludedHeaders) ∧
    Gen.exportStartFrom = startStr ∧ Gen.exportStartDict = [(startStr, startStr)] ∧
    Gen.exportGotoIdLiteral = tempIdSeparator ++ gotoPrefix ∧ Gen.exportGotoType = gotoPayload ∧
    Gen.exportTempIdSeparator = tempIdSeparator := by decide

variable {U V : Type} [DecidableEq U] [DecidableEq V]

/-- `find_node` ("first node with this uuid") commutes with injective renamings — the front end. -/
theorem find_node_equivariant {ρ : U → V} (h : Injective ρ) (f : FlowX U) (u : U) :
    findNode (mapU ρ f) (ρ u) = (findNode f u).map (NodeX.map ρ) := findNode_map h f u

/-- The DFS `_to_rows_recurse` is equivariant: exporting the renamed flow gives the renamed rows
(same row order, same edges per row in the same order, same go_to rows, same errors). -/
theorem toRows_equivariant {ρ : U → V} (h : Injective ρ) (f : FlowX U) :
    toRowsT (mapU ρ f) = exMap (List.map (RowT.map ρ)) (toRowsT f) := toRowsT_map h f

/-- The remapping of temp ids (numbered or named) does not look inside a temp id. -/
theorem remap_equivariant {ρ : U → V} (h : Injective ρ) (numbered : Bool) (rows : List (RowT U)) :
    remap numbered (rows.map (RowT.map ρ)) = remap numbered rows := remap_map h numbered rows

/-- **C17** (rows): a consistent injective renaming of ALL identifiers of a flow does not change
the stripped rows — ids, payloads, `from`s, edge order, go_to targets — with and without
`numbered`. -/
theorem strip_renaming_invariant {ρ : U → V} (h : Injective ρ) (numbered : Bool) (f : FlowX U) :
    strippedRows numbered (mapU ρ f) = strippedRows numbered f := strippedRows_map h numbered f

/-- **C17** (file): for every `unparse_row`, every header-ordering function and every file writer,
the bytes written for the renamed flow are the bytes written for the flow. -/
theorem sheet_renaming_invariant {ρ : U → V} (h : Injective ρ) {Bytes : Type}
    (unparse : RowS → List (Str × Str)) (topo : List (List Str) → List Str)
    (write : List Str → List (List Str) → Bytes) (numbered : Bool) (f : FlowX U) :
    sheetBytes unparse topo write numbered (mapU ρ f) = sheetBytes unparse topo write numbered f := by
  simp only [sheetBytes, strip_renaming_invariant h]

/-- non-vacuity: a flow with a join, a back edge (go_to row) and a two-action node, renamed by the
injective `n ↦ n + 7`; the stripped rows are the expected five rows. -/
def exFlow : FlowX Nat :=
  [ ⟨0, "msg.hi".toList, [("a".toList, none), ("b".toList, some 9)], [([], some 1)]⟩,
    ⟨1, "wait_for.x".toList, [("w".toList, none)], [("yes".toList, some 2), ("no".toList, some 0), ([], some 2)]⟩,
    ⟨2, "msg.hi".toList, [("c".toList, none)], [([], none)]⟩ ]

example : Injective (fun n : Nat => n + 7) := fun a b h => by simpa using h

example : strippedRows false (mapU (fun n : Nat => n + 7) exFlow) = .ok
    [ ⟨"msg.hi".toList, "a".toList, [("start".toList, [])], []⟩,
      ⟨"msg.hi.1".toList, "b".toList, [("msg.hi".toList, [])], []⟩,
      ⟨"wait_for.x".toList, "w".toList, [("msg.hi.1".toList, [])], []⟩,
      ⟨"goto.msg.hi".toList, "go_to".toList, [("wait_for.x".toList, "no".toList)], ["msg.hi".toList]⟩,
      ⟨"msg.hi.2".toList, "c".toList, [("wait_for.x".toList, "yes".toList), ("wait_for.x".toList, [])], []⟩ ] := by
  decide +kernel

/-- The stripped output has no identifier component: for every identifier type `U` the result
lives in the one fixed type `Except Err (List RowS)`, and `RowS` is declared without `U`
(`obj_id`, `_nodeId`, temp ids and fresh go_to ids cannot occur in it — a typing fact). -/
theorem stripped_rows_U_free (numbered : Bool) :
    ∀ (U : Type) [DecidableEq U] (f : FlowX U), ∃ r : Except Err (List RowS), strippedRows numbered f = r :=
  fun _ _ f => ⟨strippedRows numbered f, rfl⟩

/-- The temp ids of the exported rows are pairwise distinct (every flow, any graph). -/
theorem toRows_temp_ids_nodup (f : FlowX U) (rows : List (RowT U)) (h : toRowsT f = .ok rows) :
    (rows.map (·.id)).Nodup := toRowsT_ids_nodup f rows h

/-- The recursion fuel of the model (`|nodes| + 1`) is never exhausted: every recursive call visits a
node of the flow that was not visited before (the termination argument of `_to_rows_recurse`). -/
theorem toRows_fuel_sufficient (f : FlowX U) : toRowsT f ≠ .error .fuel := toRowsT_no_fuel f

/-- The uniqueness counter always finds a free readable name (pigeonhole over `|used| + 1` pairwise
different candidates `base`, `base.1`, …): the only error the remapping can report is a failed
lookup. -/
theorem remap_only_key_error (numbered : Bool) (rows : List (RowT U)) (e : Err)
    (h : remap numbered rows = .error e) : e = .keyError := remap_error numbered rows e h

/-- With `numbered` the row ids are `1..n` in row order. -/
theorem numbered_ids (f : FlowX U) (out : List RowS) (h : strippedRows true f = .ok out) :
    out.map (·.id) = (List.range out.length).map (fun i => natStr (i + 1)) := by
  unfold strippedRows at h
  cases ht : toRowsT f with
  | error e => simp [ht] at h
  | ok rows =>
    simp only [ht] at h
    exact (remap_ids true rows out (toRowsT_ids_nodup f rows ht) h).1 rfl

/-- Without `numbered` the row ids are pairwise distinct and none of them is `"start"`. -/
theorem named_ids_nodup (f : FlowX U) (out : List RowS) (h : strippedRows false f = .ok out) :
    (out.map (·.id)).Nodup ∧ startStr ∉ out.map (·.id) := by
  unfold strippedRows at h
  cases ht : toRowsT f with
  | error e => simp [ht] at h
  | ok rows =>
    simp only [ht] at h
    have := (remap_ids false rows out (toRowsT_ids_nodup f rows ht) h).2 rfl
    rw [List.nodup_cons] at this
    exact ⟨this.2, this.1⟩

/-- non-vacuity of `numbered_ids` / `named_ids_nodup`: the example flow is exported without error -/
example : (strippedRows true exFlow).toOption.map List.length = some 5 := by decide +kernel

/-- Injectivity is needed: the renaming that merges the two nodes of `a → b` turns the edge into a
self loop, and the sheet gets a `go_to` row. -/
def mergeFlow : FlowX Nat :=
  [ ⟨0, "msg.a".toList, [("a".toList, none)], [([], some 1)]⟩,
    ⟨1, "msg.b".toList, [("b".toList, none)], [([], none)]⟩ ]

theorem needs_injective :
    ¬ (∀ (ρ : Nat → Nat) (numbered : Bool) (f : FlowX Nat),
        strippedRows numbered (mapU ρ f) = strippedRows numbered f) := by
  intro h
  have := h (fun _ => 0) false mergeFlow
  revert this
  decide +kernel

/-- … in both id modes. -/
theorem needs_injective_numbered :
    strippedRows true (mapU (fun _ : Nat => 0) mergeFlow) ≠ strippedRows true mergeFlow := by
  decide +kernel

end Rpft.Props.C17
