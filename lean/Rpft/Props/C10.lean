import Rpft.Index
namespace Rpft.Props.C10
end Rpft.Props.C10
