/-
C10 — Content index resolution is sequential with last definition winning.

Property theorems only (helpers: `Rpft/Lemmas/Index.lean`, `Rpft/Lemmas/Dict.lean`).  All
statements are for row histories of any length, any nesting, any reader list and any tag
filter; proofs are by induction over the history.
-/
import Rpft.Lemmas.Index
import Rpft.Props.C11
import Rpft.Gen.Tables
import Rpft.Canon
set_option linter.unusedSimpArgs false
set_option linter.unusedVariables false
namespace Rpft.Props.C10
open Rpft Rpft.Index

/-- T1: row types, the draft word and the index sheet name of the model are those of the source.
The row types are the distinct constants of an equality dispatch — a set, compared up to order
(which name goes with which kind is `kindOf_names`, and the tie decides what each kind does). -/
theorem tables_agree :
    Canon.sameSet Gen.indexRowTypes rowTypeNames ∧ Gen.indexDraftWord = draftWord ∧
    Gen.indexSheetName = Index.indexSheetName := by decide

/-- the `if/elif` chain of the model dispatches exactly on the tied names -/
theorem kindOf_names :
    rowTypeNames.map kindOf = [.contentIndex, .dataSheet, .templateDefinition, .createFlow,
      .createCampaign, .createTriggers, .ignoreRow] := by decide

/-! ### draft rows and rows failing the tag filter have no effect -/

/-- **inert_rows**: a `draft` row, or a row whose tags fail the tag filter, changes nothing —
whatever its type (also a nested index is then not opened). -/
theorem inert_rows (res : Resolve) (pats) (fuel : Nat) (st : St) (r : IndexRow)
    (rs : List IndexRow) (h : inert pats r = true) :
    processTable res pats fuel st (r :: rs) = processTable res pats fuel st rs := by
  rw [processTable_cons, rowStep_inert h]; rfl

example : inert [] { status := "draft".toList } = true := by decide
example : (tagPatterns ["1".toList, "foo".toList]).map
    (fun p => inert p { tags := ["bar".toList] }) = some true := by decide

/-- hence a history behaves as the history of its active rows -/
theorem process_filter_active (res : Resolve) (pats) (fuel : Nat) (st : St)
    (rows : List IndexRow) :
    processTable res pats fuel st rows =
      processTable res pats fuel st (rows.filter (fun r => !inert pats r)) := by
  induction rows generalizing st with
  | nil => rfl
  | cons r rs ih =>
    by_cases h : inert pats r = true
    · rw [inert_rows _ _ _ _ _ _ h, ih]
      simp [List.filter_cons, h]
    · have h' : inert pats r = false := by simpa using h
      simp only [List.filter_cons, h', Bool.not_false, if_true]
      rw [processTable_cons, processTable_cons]
      congr 1
      funext st'
      exact ih st'

/-! ### a nested index is expanded in place -/

/-- **nested_inline**: an active `content_index` row naming sheet `n` is processed exactly as
if the rows of (the active copy of) sheet `n` stood in its place. -/
theorem nested_inline (res : Resolve) (pats) (fuel : Nat) (st out : St)
    (pre post : List IndexRow) (r : IndexRow) (n : Str) (sh : Sheet)
    (hact : inert pats r = false) (hty : kindOf r.ty = .contentIndex)
    (hn : r.sheetNames = [n]) (hres : res n = some sh)
    (hok : processTable res pats (fuel + 1) st (pre ++ r :: post) = .ok out) :
    processTable res pats (fuel + 1) st (pre ++ sh.rows ++ post) = .ok out := by
  rw [processTable_append] at hok
  rw [List.append_assoc, processTable_append]
  cases hp : processTable res pats (fuel + 1) st pre with
  | error e => simp [hp, Except.bind] at hok
  | ok st1 =>
    simp only [hp, Except.bind] at hok ⊢
    rw [processTable_cons] at hok
    rw [processTable_append]
    have hrow : rowStep res pats (recur res pats (fuel + 1)) st1 r
        = processTable res pats fuel st1 sh.rows := by
      simp [rowStep, hact, hty, hn, firstName, resolveOrDie, hres, recur, bind, Except.bind,
        pure, Except.pure]
    rw [hrow] at hok
    cases hs : processTable res pats fuel st1 sh.rows with
    | error e => simp [hs, Except.bind] at hok
    | ok st2 =>
      simp only [hs, Except.bind] at hok
      rw [processTable_fuel_mono res pats fuel st1 sh.rows st2 hs]
      exact hok

example : inert [] { ty := "content_index".toList, sheetNames := ["I0".toList] } = false ∧
    kindOf "content_index".toList = .contentIndex := by decide

/-- a history without inert rows and without nested indexes is the plain left-to-right fold of
the row actions -/
theorem flat_process (res : Resolve) (pats) (fuel : Nat) (st : St) (rows : List IndexRow)
    (h : ∀ r ∈ rows, inert pats r = false ∧ kindOf r.ty ≠ .contentIndex) :
    processTable res pats fuel st rows = runFlat res st rows := by
  induction rows generalizing st with
  | nil => rw [processTable_nil]; rfl
  | cons r rs ih =>
    rw [processTable_cons, runFlat_cons]
    have hr := h r (List.mem_cons_self)
    have : rowStep res pats (recur res pats fuel) st r = step res st r := by
      simp [rowStep, hr.1, hr.2]
    rw [this]
    congr 1
    funext st'
    exact ih st' (fun x hx => h x (List.mem_cons_of_mem _ hx))

/-! ### last definition wins; ignore_row removes; templates are never removed -/

/-- **last_wins_campaign**: after a flat history the campaign registered under name `n` is what
the LAST row concerning `n` left: a `create_campaign` row (re)named `n` → that row's group and
the active copy of its sheet; an `ignore_row n` → nothing; no such row → what was there. -/
theorem last_wins_campaign (res : Resolve) (rows : List IndexRow) (st out : St)
    (hst : (Dict.keys st.campaigns).Nodup) (h : runFlat res st rows = .ok out) (n : Str) :
    out.campaigns.get n =
      lastOpResult (rows.map (campOp res)) n (st.campaigns.get n) := by
  rw [(runFlat_registries rows h).1]
  exact get_applyOps _ _ hst n

/-- **last_wins_trigger**: the same for trigger sheets (keyed by sheet name). -/
theorem last_wins_trigger (res : Resolve) (rows : List IndexRow) (st out : St)
    (hst : (Dict.keys st.triggers).Nodup) (h : runFlat res st rows = .ok out) (n : Str) :
    out.triggers.get n =
      lastOpResult (rows.map (trigOp res)) n (st.triggers.get n) := by
  rw [(runFlat_registries rows h).2.1]
  exact get_applyOps _ _ hst n

/-- **last_wins_template**: the template registered under sheet name `n` is that of the LAST
`template_definition` row for `n` — `tplOp` is `nop` for every other row type, so no
`ignore_row` can remove or change it. -/
theorem last_wins_template (res : Resolve) (rows : List IndexRow) (st out : St)
    (hst : (Dict.keys st.templates).Nodup) (h : runFlat res st rows = .ok out) (n : Str) :
    out.templates.get n =
      lastOpResult (rows.map (tplOp res)) n (st.templates.get n) := by
  rw [(runFlat_registries rows h).2.2]
  exact get_applyOps _ _ hst n

example : (Dict.keys ({} : St).campaigns).Nodup := by decide

/-- the dict invariant is needed: in a "dict" with a repeated key, `pop` would leave a copy -/
theorem last_wins_needs_nodup :
    ¬ ((applyOps [RegOp.pop "a".toList] [("a".toList, 1), ("a".toList, 2)]).get "a".toList =
      lastOpResult [RegOp.pop "a".toList] "a".toList
        (Dict.get [("a".toList, 1), ("a".toList, 2)] "a".toList)) := by decide

/-- and the invariant is kept by every history -/
theorem registries_nodup (res : Resolve) (rows : List IndexRow) (st out : St)
    (h : runFlat res st rows = .ok out)
    (h1 : (Dict.keys st.campaigns).Nodup) (h2 : (Dict.keys st.triggers).Nodup)
    (h3 : (Dict.keys st.templates).Nodup) :
    (Dict.keys out.campaigns).Nodup ∧ (Dict.keys out.triggers).Nodup ∧
    (Dict.keys out.templates).Nodup := by
  obtain ⟨e1, e2, e3⟩ := runFlat_registries rows h
  rw [e1, e2, e3]
  exact ⟨nodup_applyOps _ h1, nodup_applyOps _ h2, nodup_applyOps _ h3⟩

/-- **ignore_spares_templates**: an `ignore_row` is a no-op on the template registry (whatever
name it carries), while it pops that name from campaigns and triggers. -/
theorem ignore_spares_templates (res : Resolve) (st st' : St) (r : IndexRow)
    (hk : kindOf r.ty = .ignoreRow) (h : step res st r = .ok st') :
    st'.templates = st.templates ∧
    ∃ n, r.sheetNames.head? = some n ∧ st'.campaigns = st.campaigns.pop n ∧
      st'.triggers = st.triggers.pop n ∧
      st'.flowRows = st.flowRows.filter (fun x => decide (keyOf x ≠ n)) := by
  obtain ⟨e1, e2, e3, e4⟩ := step_effect h
  cases hs : r.sheetNames with
  | nil =>
    simp [step, hk, firstName, hs, bind, Except.bind, throw, throwThe, MonadExceptOf.throw] at h
  | cons n tl =>
    refine ⟨by rw [e3]; simp [tplOp, hk, applyOp], n, rfl, ?_, ?_, ?_⟩
    · rw [e1]; simp [campOp, hk, hs, applyOp]
    · rw [e2]; simp [trigOp, hk, hs, applyOp]
    · rw [e4]; simp [hk, hs]

example : kindOf "ignore_row".toList = .ignoreRow := by decide

/-- **flow_rows_spec**: the stored flow rows after a flat history are, in order, the earlier
stored rows and the `create_flow` rows of the history whose (new) name — `new_name or
sheet_name` — no LATER `ignore_row` names.  (An `ignore_row` matches the new name, not the
sheet name of a renamed flow, and never a row that comes after it.) -/
theorem flow_rows_spec (res : Resolve) (rows : List IndexRow) (st out : St)
    (h : runFlat res st rows = .ok out) :
    out.flowRows = st.flowRows.filter (fun x => !ignoredBy rows x) ++ survivors rows :=
  runFlat_flowRows rows h

/-- **flows keyed by output name** (`output_names_nodup`, order, last wins): the produced flows
have pairwise distinct names; the names appear in the order of the FIRST surviving definition
of each; the flow under a name is the LAST one produced under it. -/
theorem output_names_nodup (st : St) (flows : Dict Str FlowOut)
    (h : parseAllFlows st = .ok flows) :
    (Dict.keys flows).Nodup ∧
    ∃ parts, st.flowRows.mapM (expandFlowRow st) = .ok parts ∧
      Dict.keys flows = firstOcc (parts.flatten.map (·.1)) ∧
      ∀ n, flows.get n = lastVal parts.flatten n := by
  unfold parseAllFlows at h
  cases hp : st.flowRows.mapM (expandFlowRow st) with
  | error e => simp [hp, bind, Except.bind] at h
  | ok parts =>
    simp only [hp, bind, Except.bind, pure, Except.pure, Except.ok.injEq] at h
    subst h
    exact ⟨Dict.nodup_ofList _, parts, rfl, Dict.keys_ofList _, Dict.get_ofList _⟩

/-! ### several workbooks -/

/-- **sheet_resolves_last**: a sheet name resolves to its copy in the LAST workbook that has a
sheet of that name. -/
theorem sheet_resolves_last (rd : List Workbook) (n : Str) :
    getSheetOrDie rd n = ((rd.filter (fun wb => wb.has n)).getLast?).bind (fun wb => wb.get n) := by
  unfold getSheetOrDie getSheetsByName
  rw [getLast?_filterMap_eq]
  rfl

/-- **reader_order**: processing the index sheets of the workbooks one after the other, in
workbook order, is processing the concatenation of their rows. -/
theorem reader_order (res : Resolve) (pats) (fuel : Nat) (indices : List Sheet) (st : St) :
    indices.foldlM (fun st sh => processTable res pats fuel st sh.rows) st =
      processTable res pats fuel st (indices.flatMap (·.rows)) := by
  induction indices generalizing st with
  | nil => rw [List.flatMap_nil, processTable_nil]; rfl
  | cons sh rest ih =>
    rw [foldlM_cons', List.flatMap_cons, processTable_append]
    congr 1
    funext st'
    exact ih st'

/-- **split_invariance**: the result depends on the workbooks only through (i) what every sheet
name resolves to and (ii) the concatenated rows of the index sheets in workbook order (and
whether there is an index at all).  Any redistribution of the same sheets over 1..k workbooks
that keeps, for every duplicated name, the same last copy and the same index-sheet order gives
the same final state — and hence the same flows, campaigns and triggers. -/
theorem split_invariance (rd rd' : List Workbook) (pats) (fuel : Nat)
    (hres : ∀ n, getSheetOrDie rd n = getSheetOrDie rd' n)
    (hidx : (getSheetsByName rd Index.indexSheetName).flatMap (·.rows)
          = (getSheetsByName rd' Index.indexSheetName).flatMap (·.rows))
    (hnone : getSheetsByName rd Index.indexSheetName = [] ↔
             getSheetsByName rd' Index.indexSheetName = []) :
    processAll rd pats fuel = processAll rd' pats fuel := by
  have hfun : getSheetOrDie rd = getSheetOrDie rd' := funext hres
  unfold processAll
  simp only [reader_order, hfun, hidx]
  by_cases h0 : getSheetsByName rd Index.indexSheetName = []
  · simp [h0, hnone.mp h0]
  · have h0' : ¬ getSheetsByName rd' Index.indexSheetName = [] := fun e => h0 (hnone.mpr e)
    simp [h0, h0']

/-- splitting one workbook in two (every sheet of the first part is absent from the second, or
overridden identically) is the simplest instance: appending an empty workbook changes nothing -/
example (rd : List Workbook) (pats) (fuel : Nat) :
    processAll (rd ++ [[]]) pats fuel = processAll rd pats fuel := by
  apply split_invariance
  · intro n; simp [getSheetOrDie, getSheetsByName, List.filterMap_append, Dict.get]
  · simp [getSheetsByName, List.filterMap_append, Dict.get]
  · simp [getSheetsByName, List.filterMap_append, Dict.get]

/-! ### data sheets -/

/-- **last_wins_data**: along any flat history the data-sheet registry evolves exactly as the
C11 chain formed by the history's `data_sheet` rows: rows of every other type — `ignore_row`
included — leave it alone.  All chain theorems of C11 therefore apply (`registered_persists`:
the sheet under a name is the one computed by the LAST `data_sheet` row targeting it). -/
theorem last_wins_data (res : Resolve) (rows : List IndexRow) (st out : St)
    (h : runFlat res st rows = .ok out) :
    DataOps.runOps (dataEnv res) st.data (dataOpsOf rows) = .ok out.data :=
  runFlat_data rows h

/-- in particular a registered data sheet that no `data_sheet` row of the history targets is
untouched at the end -/
theorem data_untouched (res : Resolve) (rows : List IndexRow) (st out : St)
    (h : runFlat res st rows = .ok out) (n : Str)
    (hn : ∀ r ∈ rows, kindOf r.ty = .dataSheet → DataOps.targetName (dataOpOf r) ≠ .ok n) :
    out.data.data.get n = st.data.data.get n := by
  apply C11.chain_untouched _ (runFlat_data rows h)
  intro op hop
  simp only [dataOpsOf, List.mem_map, List.mem_filter, decide_eq_true_eq] at hop
  obtain ⟨r, ⟨hr, hk⟩, rfl⟩ := hop
  exact hn r hr hk

/-! ### the meaning of a cell is its trimmed text -/

/-- two raw rows whose cells differ only in surrounding whitespace -/
structure PaddedRow (r r' : RawIndexRow) : Prop where
  ty : Padded r.ty r'.ty
  sheetName : Padded r.sheetName r'.sheetName
  newName : Padded r.newName r'.newName
  dataSheet : Padded r.dataSheet r'.dataSheet
  dataRowId : Padded r.dataRowId r'.dataRowId
  group : Padded r.group r'.group
  status : Padded r.status r'.status
  tags : Pointwise Padded r.tags r'.tags
  tplArgs : r'.tplArgs = r.tplArgs

/-- **read_padded**: surrounding whitespace in any cell of an index row does not change the row read -/
theorem read_padded {r r' : RawIndexRow} (h : PaddedRow r r') : r'.read = r.read := by
  have ht : r'.tags.map cellText = r.tags.map cellText := map_cellText_padded h.tags
  simp only [RawIndexRow.read, cellText_padded h.ty, cellNames_padded h.sheetName,
    cellText_padded h.newName, cellText_padded h.dataSheet, cellText_padded h.dataRowId,
    cellText_padded h.group, cellText_padded h.status, ht, h.tplArgs]

/-- hence a history processes as the history with every cell trimmed does -/
theorem process_padded (res : Resolve) (pats) (fuel : Nat) (st : St) {rows rows' : List RawIndexRow}
    (h : Pointwise PaddedRow rows rows') :
    processTable res pats fuel st (rows'.map RawIndexRow.read) =
      processTable res pats fuel st (rows.map RawIndexRow.read) := by
  have : rows'.map RawIndexRow.read = rows.map RawIndexRow.read := by
    induction h with
    | nil => rfl
    | cons hp _ ih => simp [read_padded hp, ih]
  rw [this]

/-- **padded_draft_inert**: a row whose status cell is the draft word with surrounding whitespace
(`"draft "`, `" draft"`, `"draft\\t"`, `"draft\\u00a0"`, …) is a draft row: it has no effect, whatever
its type and its other cells -/
theorem padded_draft_inert (res : Resolve) (pats) (fuel : Nat) (st : St) (r : RawIndexRow)
    (rs : List IndexRow) (h : Padded draftWord r.status) :
    processTable res pats fuel st (r.read :: rs) = processTable res pats fuel st rs := by
  apply inert_rows
  have : r.read.status = draftWord := by
    show cellText r.status = draftWord
    rw [cellText_padded h]; decide
  simp [inert, this]

example : Padded draftWord ("draft  ".toList) := ⟨[], "  ".toList, by decide, by decide, by decide⟩
example : (RawIndexRow.read { status := " \tdraft \n".toList, sheetName := " T0 ; T1　".toList }) =
    { status := "draft".toList, sheetNames := ["T0".toList, "T1".toList] } := by decide

end Rpft.Props.C10
