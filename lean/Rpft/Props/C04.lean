/-
C04 — flow JSON → sheet file → flow JSON preserves behaviour.

The equivalence "for all contact input sequences" between an original flow and the flow
recompiled from the real exported file is decided per flow by the verified certificate
checker at C04's observation level: action content, operands, tests, arguments, test order,
category names, timeouts, destinations (result names of routers are not in the statement's list).
-/
import Rpft.Props.C02
import Rpft.Props.C17
set_option linter.unusedSimpArgs false
set_option linter.unusedVariables false
namespace Rpft.Props.C04
open Rpft Rpft.Bisim Rpft.Flow

def c04Lvl : ObsLevel := ⟨true, false⟩

theorem roundtrip_equiv_of_cert (original recompiled : Flow.Flow) (R : List (St × St))
    (h : certOk c04Lvl original recompiled R = true) :
    ∀ (env : Nat → Nat) (n : Nat), trace c04Lvl original env n = trace c04Lvl recompiled env n :=
  Props.C02.flows_equiv_of_cert c04Lvl original recompiled R h

/-! ### what recompilation needs of the exported rows (exporter model `Rpft/Export.lean`, tied to
the real `to_rows` on every flow by the C17 check) -/

open Rpft.Export in
/-- Exported row ids are pairwise distinct in BOTH id modes, for every flow the exporter accepts
(any graph: joins, cycles, duplicate short names, multi-action nodes): every `from` cell and
every `go_to` target of the sheet names exactly one row, so recompilation resolves it uniquely. -/
theorem exported_row_ids_unique {U : Type} [DecidableEq U] (numbered : Bool) (f : FlowX U)
    (out : List RowS) (h : strippedRows numbered f = .ok out) : (out.map (·.id)).Nodup := by
  cases numbered with
  | false => exact (Props.C17.named_ids_nodup f out h).1
  | true =>
    rw [Props.C17.numbered_ids f out h]
    unfold List.Nodup
    apply List.Pairwise.map _ _ (List.pairwise_lt_range (n := out.length))
    intro a b hlt hab
    have := natStr_inj hab
    omega

/-- The full statement: for every expressible flow and every export configuration, the flow
recompiled from the exported sheet is trace-equivalent to the original.  `roundtrip` stands for
the real exporter + file layer + compiler (their Lean models M5/M2/M4 are not complete);
per flow it is decided by `roundtrip_equiv_of_cert` on the real files. -/
def C04_full (Expressible : Flow.Flow → Prop) (roundtrip : Flow.Flow → Option Flow.Flow) : Prop :=
  ∀ f g, Expressible f → roundtrip f = some g →
    ∀ env n, trace c04Lvl f env n = trace c04Lvl g env n

end Rpft.Props.C04
