/-
C04 — flow JSON → sheet file → flow JSON preserves behaviour.

The equivalence "for all contact input sequences" between an original flow and the flow
recompiled from the real exported file is decided per flow by the verified certificate
checker at C04's observation level: action content, operands, tests, arguments, test order,
category names, timeouts, destinations (result names of routers are not in the statement's list).
-/
import Rpft.Props.C02
import Rpft.Props.C17
import Rpft.Lemmas.ActionCodec
import Rpft.Gen.Tables
import Rpft.Canon
set_option linter.unusedSimpArgs false
set_option linter.unusedVariables false
namespace Rpft.Props.C04
open Rpft Rpft.Bisim Rpft.Flow

def c04Lvl : ObsLevel := ⟨true, false⟩

theorem roundtrip_equiv_of_cert (original recompiled : Flow.Flow) (R : List (St × St))
    (h : certOk c04Lvl original recompiled R = true) :
    ∀ (env : Nat → Nat) (n : Nat), trace c04Lvl original env n = trace c04Lvl recompiled env n :=
  Props.C02.flows_equiv_of_cert c04Lvl original recompiled R h

/-! ### what recompilation needs of the exported rows (exporter model `Rpft/Export.lean`, tied to
the real `to_rows` on every flow by the C17 check) -/

open Rpft.Export in
/-- Exported row ids are pairwise distinct in BOTH id modes, for every flow the exporter accepts
(any graph: joins, cycles, duplicate short names, multi-action nodes): every `from` cell and
every `go_to` target of the sheet names exactly one row, so recompilation resolves it uniquely. -/
theorem exported_row_ids_unique {U : Type} [DecidableEq U] (numbered : Bool) (f : FlowX U)
    (out : List RowS) (h : strippedRows numbered f = .ok out) : (out.map (·.id)).Nodup := by
  cases numbered with
  | false => exact (Props.C17.named_ids_nodup f out h).1
  | true =>
    rw [Props.C17.numbered_ids f out h]
    unfold List.Nodup
    apply List.Pairwise.map _ _ (List.pairwise_lt_range (n := out.length))
    intro a b hlt hab
    have := natStr_inj hab
    omega

/-- The full statement: for every expressible flow and every export configuration, the flow
recompiled from the exported sheet is trace-equivalent to the original.  `roundtrip` stands for
the real exporter + file layer + compiler (their Lean models M5/M2/M4 are not complete);
per flow it is decided by `roundtrip_equiv_of_cert` on the real files. -/
def C04_full (Expressible : Flow.Flow → Prop) (roundtrip : Flow.Flow → Option Flow.Flow) : Prop :=
  ∀ f g, Expressible f → roundtrip f = some g →
    ∀ env n, trace c04Lvl f env n = trace c04Lvl g env n

/-! ### the action codec: "same actions with the same content"

`Rpft/ActionCodec.lean` models how ONE action becomes the fields of a sheet row
(`Action.get_row_model_fields` + `FlowRowModel(**fields)`) and how a row becomes the node's
actions again (`_get_row_action` / `_get_row_node`), tied to the real code by the differential
stream of the C04 check.  The cell layer between the two (row model → cells → row model) is
C07's subject. -/

section ActionCodec
open Rpft.ActionCodec

/-- T1: the constants of the codec are the ones in the source (action type ↔ row type tables of
both directions, keys written per action class, attachment kinds and the cut, contact
properties, default scheme, limits, HTTP methods).  Dispatch / export tables are lookups on distinct
keys and the no-action / contact-property / HTTP-method lists are membership tests: compared up to
order; the media kinds in source order (the order in which attachments are appended). -/
theorem tables_agree_actcodec :
    Canon.sameMap Gen.acExportRowType exportRowType ∧ Canon.sameSet Gen.acPassThrough passThroughTypes ∧
    Canon.sortPL Gen.acExportKeys = Canon.sortPL exportKeys ∧
    Canon.sameMap Gen.acParseDispatch parseDispatch ∧ Gen.acParsePrefix = setContactPrefix ∧
    Gen.acParsePrefixCtor = setContactPrefix ++ "{}".toList ∧
    Gen.acParseReplaceNeedles = [setContactPrefix] ∧
    Canon.sameSet Gen.acNoActionRowTypes noActionRowTypes ∧ Canon.sameMap Gen.acNodeDispatch nodeDispatch ∧
    Gen.acMediaKindsExport = mediaKinds ∧ Gen.acMediaKindsParse = mediaKinds ∧
    Gen.acMediaCut = mediaCut ∧ (∀ t ∈ mediaKinds, (t ++ [':']).length = mediaCut) ∧
    Canon.sameSet Gen.acContactPropsLoad contactProps ∧ Canon.sameSet Gen.acContactPropsParse contactProps ∧
    Gen.acDefaultSchemeExport = defaultScheme ∧ Gen.acDefaultSchemeParse = defaultScheme ∧
    Gen.cliMaxFieldValueLen = maxFieldValue ∧ Gen.cliMaxRunResultLen = maxResultValue ∧
    Gen.cliMaxFieldKeyLen = Campaign.maxKeyLen ∧ Gen.cliEmptyTextChecked = true ∧
    Canon.sameSet Gen.cliHttpMethods httpMethods ∧ Gen.cliDefaultHttpMethod = defaultMethod := by
  decide

/-- the lookup tables compared up to order above have unique keys (first-match lookup does not
depend on their order) -/
theorem actcodec_keys_unique :
    Canon.uniqueKeys exportRowType = true ∧ Canon.uniqueKeys exportKeys = true ∧
    Canon.uniqueKeys parseDispatch = true ∧ Canon.uniqueKeys nodeDispatch = true := by decide

/-- the enumeration `ContactProp` is the source's property list -/
theorem contactProps_enum :
    contactProps = [ContactProp.channel, .language, .name, .status, .timezone].map ContactProp.str ∧
    ∀ p : ContactProp, ContactProp.ofStr p.str = some p := by
  refine ⟨by decide, fun p => by cases p <;> decide⟩

/-- the row type an exported action carries is the one `exportRowType` lists for its type -/
theorem toFields_type (a : Act) (r : RowFields) (h : toFields a = .ok r) :
    (a.typeStr, r.type) ∈ exportRowType := by
  cases a with
  | sendMsg => simp only [toFields, Except.ok.injEq] at h; subst h; dsimp only [Act.typeStr]; decide
  | setContactField name key ft value =>
    simp only [toFields] at h
    split at h
    · cases h
    · simp only [Except.ok.injEq] at h; subst h; dsimp only [Act.typeStr]; decide
  | setContactProp p v =>
    simp only [toFields, Except.ok.injEq] at h; subst h; cases p <;> (dsimp only [Act.typeStr]; decide)
  | setContactChannel => cases h
  | addGroups gs =>
    cases gs with
    | nil => cases h
    | cons g gs => simp only [toFields, groupFields, Except.ok.injEq] at h; subst h; dsimp only [Act.typeStr]; decide
  | removeGroups gs all =>
    cases gs with
    | nil => cases h
    | cons g gs => simp only [toFields, groupFields, Except.ok.injEq] at h; subst h; dsimp only [Act.typeStr]; decide
  | setRunResult => simp only [toFields, Except.ok.injEq] at h; subst h; dsimp only [Act.typeStr]; decide
  | enterFlow => simp only [toFields, Except.ok.injEq] at h; subst h; dsimp only [Act.typeStr]; decide
  | callWebhook => simp only [toFields, Except.ok.injEq] at h; subst h; dsimp only [Act.typeStr]; decide
  | transferAirtime => simp only [toFields, Except.ok.injEq] at h; subst h; dsimp only [Act.typeStr]; decide
  | addContactUrn => simp only [toFields, Except.ok.injEq] at h; subst h; dsimp only [Act.typeStr]; decide
  | unsupported => cases h

/-- **Action round trip.**  For EVERY action the sheet format can express (unbounded texts,
lists, header / amount dictionaries), exporting it to row fields and compiling those fields
again yields exactly one action, equal to the original in all content (everything `render()`
shows except the invented action / templating-instance uuid; group, sub-flow and template
uuids included).  Group actions: ANY number (≥ 1) of groups, see `Expressible` — `GroupsOk`:
the uuids of the groups after the first must be the ones the sheet can give back
(`action_roundtrip_mod_tail_uuids` is the statement without that clause). -/
theorem action_roundtrip (a : Act) (h : Expressible a) :
    ∃ r, toFields a = .ok r ∧ ofFields r = .ok [a] := by
  have hrt := roundTrip_of_expressible a h
  unfold roundTrip at hrt
  cases ht : toFields a with
  | error e => rw [ht] at hrt; cases hrt
  | ok r => rw [ht] at hrt; exact ⟨r, rfl, hrt⟩

/-- **`Expressible` is exactly the domain of the round trip**: an action comes back intact from
its own row if AND ONLY IF it is expressible — no clause of the predicate can be dropped or
weakened, for any action (the `needs_…` theorems below are instances, replayed on the real code). -/
theorem expressible_iff_roundtrip (a : Act) : Expressible a ↔ roundTrip a = .ok [a] :=
  ⟨roundTrip_of_expressible a, expressible_of_roundTrip a⟩

/-! #### group actions with any number of groups

`obj_id` is ONE cell: it carries the uuid of the first group.  Every group NAME travels
(`mainarg_groups`), the groups after the first come back referenced by name, their uuid resolved
through the container's dictionary (the first group's uuid under the first group's name, otherwise
none = known elsewhere or invented).  So the round trip is exact up to those uuids, for every list. -/

/-- what a group action comes back as — for EVERY non-empty group list, no hypothesis (induction
over the list inside `resolve_rowGroups` / `recordedUuid_nameOnly`) -/
theorem group_action_comes_back (g0 : GroupRef) (rest : List GroupRef) (all : Bool) :
    roundTrip (.addGroups (g0 :: rest)) = .ok [.addGroups (backGroups g0 rest)] ∧
    roundTrip (.removeGroups (g0 :: rest) all) = .ok [.removeGroups (backGroups g0 rest) false] :=
  ⟨roundTrip_addGroups_eq g0 rest, roundTrip_removeGroups_eq g0 rest all⟩

/-- **every group name comes back, in order**, whatever uuids / attributes the groups carry, as
long as the groups after the first are named (a blank entry of the list cell is skipped) -/
theorem group_names_roundtrip (g0 : GroupRef) (rest : List GroupRef) (all : Bool)
    (h : ∀ g ∈ rest, g.name ≠ []) :
    ∃ gs, roundTrip (.addGroups (g0 :: rest)) = .ok [.addGroups gs] ∧
      roundTrip (.removeGroups (g0 :: rest) all) = .ok [.removeGroups gs false] ∧
      gs.map (·.name) = (g0 :: rest).map (·.name) := by
  refine ⟨backGroups g0 rest, roundTrip_addGroups_eq g0 rest, roundTrip_removeGroups_eq g0 rest all, ?_⟩
  have hf : (rest.map (·.name)).filter (· ≠ []) = rest.map (·.name) := by
    apply List.filter_eq_self.mpr
    intro m hm
    obtain ⟨g, hg, rfl⟩ := List.mem_map.mp hm
    simpa using h g hg
  simp only [backGroups, hf, List.map_cons, List.map_map, groupOf]
  congr 1

example : ∀ g ∈ [({ name := "B".toList, uuid := some "g-b".toList, attrs := true } : GroupRef)], g.name ≠ [] := by decide
/-- the hypothesis is forced: a blank further name is skipped -/
theorem needs_tail_name :
    roundTrip (.addGroups [{ name := "A".toList }, { name := [] }, { name := "C".toList }]) =
      .ok [.addGroups [{ name := "A".toList }, { name := "C".toList }]] := by decide

theorem forget_eq_of_not_group (a b : Act) (ha : ∀ gs, a ≠ .addGroups gs) (ha' : ∀ gs all, a ≠ .removeGroups gs all)
    (h : b.forgetTailUuids = a) : b = a := by
  cases b with
  | addGroups gs => exact absurd h.symm (ha _)
  | removeGroups gs all => exact absurd h.symm (ha' _ _)
  | _ => exact h

/-- **Action round trip up to what `obj_id` cannot carry.**  `ExpressibleModTailUuids` = `Expressible`
without the clause on the uuids of the groups after the first: exactly the actions that come back as ONE
action equal to the original in everything except those uuids (all names, their order, the first group's
uuid, `all_groups`; every other action kind: equal). -/
theorem expressibleMod_iff_roundtrip (a : Act) :
    ExpressibleModTailUuids a ↔ ∃ b, roundTrip a = .ok [b] ∧ b.forgetTailUuids = a.forgetTailUuids := by
  have other : ∀ a : Act, (∀ gs, a ≠ .addGroups gs) → (∀ gs all, a ≠ .removeGroups gs all) → a.forgetTailUuids = a →
      (Expressible a ↔ ∃ b, roundTrip a = .ok [b] ∧ b.forgetTailUuids = a.forgetTailUuids) := by
    intro a h1 h2 hid
    constructor
    · intro h; exact ⟨a, roundTrip_of_expressible a h, rfl⟩
    · rintro ⟨b, hb, he⟩
      rw [hid] at he
      rw [forget_eq_of_not_group a b h1 h2 he] at hb
      exact expressible_of_roundTrip a hb
  cases a with
  | addGroups gs =>
    cases gs with
    | nil => simp [ExpressibleModTailUuids, GroupsOkModTailUuids, roundTrip, toFields, groupFields]
    | cons g0 rest =>
      rw [roundTrip_addGroups_eq]
      constructor
      · intro h
        exact ⟨_, rfl, congrArg Act.addGroups (backGroups_forget g0 rest h)⟩
      · rintro ⟨b, hb, he⟩
        simp only [Except.ok.injEq, List.cons.injEq, and_true] at hb
        subst hb
        simp only [Act.forgetTailUuids, Act.addGroups.injEq] at he
        exact groupsOkMod_of_forget g0 rest he
  | removeGroups gs all =>
    cases gs with
    | nil => simp [ExpressibleModTailUuids, GroupsOkModTailUuids, roundTrip, toFields, groupFields]
    | cons g0 rest =>
      rw [roundTrip_removeGroups_eq]
      constructor
      · rintro ⟨h, hall⟩
        subst hall
        exact ⟨_, rfl, congrArg (Act.removeGroups · false) (backGroups_forget g0 rest h)⟩
      · rintro ⟨b, hb, he⟩
        simp only [Except.ok.injEq, List.cons.injEq, and_true] at hb
        subst hb
        simp only [Act.forgetTailUuids, Act.removeGroups.injEq] at he
        exact ⟨groupsOkMod_of_forget g0 rest he.1, he.2.symm⟩
  | sendMsg x0 x1 x2 x3 x4 x5 => exact other (.sendMsg x0 x1 x2 x3 x4 x5) (by intros; simp) (by intros; simp) rfl
  | setContactField x0 x1 x2 x3 => exact other (.setContactField x0 x1 x2 x3) (by intros; simp) (by intros; simp) rfl
  | setContactProp x0 x1 => exact other (.setContactProp x0 x1) (by intros; simp) (by intros; simp) rfl
  | setContactChannel x0 x1 => exact other (.setContactChannel x0 x1) (by intros; simp) (by intros; simp) rfl
  | setRunResult x0 x1 x2 => exact other (.setRunResult x0 x1 x2) (by intros; simp) (by intros; simp) rfl
  | enterFlow x0 x1 => exact other (.enterFlow x0 x1) (by intros; simp) (by intros; simp) rfl
  | callWebhook x0 x1 x2 x3 x4 => exact other (.callWebhook x0 x1 x2 x3 x4) (by intros; simp) (by intros; simp) rfl
  | transferAirtime x0 x1 => exact other (.transferAirtime x0 x1) (by intros; simp) (by intros; simp) rfl
  | addContactUrn x0 x1 => exact other (.addContactUrn x0 x1) (by intros; simp) (by intros; simp) rfl
  | unsupported x0 => exact other (.unsupported x0) (by intros; simp) (by intros; simp) rfl

theorem action_roundtrip_mod_tail_uuids (a : Act) (h : ExpressibleModTailUuids a) :
    ∃ r b, toFields a = .ok r ∧ ofFields r = .ok [b] ∧ b.forgetTailUuids = a.forgetTailUuids := by
  obtain ⟨b, hb, he⟩ := (expressibleMod_iff_roundtrip a).mp h
  unfold roundTrip at hb
  cases ht : toFields a with
  | error e => rw [ht] at hb; cases hb
  | ok r => rw [ht] at hb; exact ⟨r, b, rfl, hb, he⟩

/-- **what remains lost, exactly**: an action comes back fully intact iff it comes back up to the
uuids of the further groups AND those uuids are the ones the sheet gives back (`tailUuid`: none, or
the first group's uuid for a further group with the first group's name) -/
theorem expressible_iff_mod_and_tail_uuids (a : Act) :
    Expressible a ↔ ExpressibleModTailUuids a ∧ a.TailUuidsKept := by
  cases a with
  | addGroups gs => exact Iff.rfl
  | removeGroups gs all =>
    show (GroupsOkModTailUuids gs ∧ ActionCodec.TailUuidsKept gs) ∧ all = false ↔
      (GroupsOkModTailUuids gs ∧ all = false) ∧ ActionCodec.TailUuidsKept gs
    constructor
    · rintro ⟨⟨a, b⟩, c⟩; exact ⟨⟨a, c⟩, b⟩
    · rintro ⟨⟨a, c⟩, b⟩; exact ⟨⟨a, b⟩, c⟩
  | _ => exact ⟨fun h => ⟨h, trivial⟩, fun h => h.1⟩

/-! non-vacuity: several groups, inside `Expressible` (further groups by name; a further group named
like the first shares its uuid) and inside `ExpressibleModTailUuids` only (as RapidPro writes them:
every group with its uuid) -/
example : Expressible (.addGroups [{ name := "A".toList, uuid := some "g-a".toList }, { name := "B|;\\".toList },
    { name := "A".toList, uuid := some "g-a".toList }, { name := "C".toList }]) := by decide
example : Expressible (.removeGroups [{ name := "A".toList }, { name := "B".toList }] false) := by decide
example : ExpressibleModTailUuids (.addGroups [{ name := "A".toList, uuid := some "g-a".toList },
    { name := "B".toList, uuid := some "g-b".toList }]) ∧
    ¬ Expressible (.addGroups [{ name := "A".toList, uuid := some "g-a".toList },
    { name := "B".toList, uuid := some "g-b".toList }]) := by decide

/-- the row of an exported action never makes a node-level action unless it is one -/
theorem export_not_node_level :
    ∀ p ∈ exportRowType, p.1 ∉ [tEnterFlow, tCallWebhook, tTransferAirtime] → classifyNode p.2 = .other := by
  decide

/-- **Second and later actions of a node.**  A row merged into an existing node (`_nodeId`) is
compiled by `_get_row_action` alone (`existing_node.add_action(row_action)`, no node is built):
every expressible action that is not node-level (enter_flow / call_webhook / transfer_airtime are
always alone on their router node) comes back from `_get_row_action` by itself. -/
theorem action_roundtrip_merged (a : Act) (h : Expressible a)
    (hn : a.typeStr ∉ [tEnterFlow, tCallWebhook, tTransferAirtime]) :
    ∃ r, toFields a = .ok r ∧ rowAction r = .ok (some a) := by
  obtain ⟨r, hr, hof⟩ := action_roundtrip a h
  refine ⟨r, hr, ?_⟩
  have hnode : rowNodeAction r = .ok none := by
    have := export_not_node_level _ (toFields_type a r hr) hn
    simp only at this
    simp only [rowNodeAction, this]
  unfold ofFields at hof
  rw [hnode] at hof
  cases hra : rowAction r with
  | error e => rw [hra] at hof; cases hof
  | ok x =>
    rw [hra] at hof
    cases x with
    | none => simp at hof
    | some b =>
      simp only [Option.toList, List.nil_append, Except.ok.injEq, List.cons.injEq, and_true] at hof
      rw [hof]

example : Act.typeStr (.setRunResult [] [] []) ∉ [tEnterFlow, tCallWebhook, tTransferAirtime] := by decide
example : ∃ r, toFields (.addContactUrn "+1".toList "tel".toList) = .ok r := ⟨_, rfl⟩

/-! non-vacuity: one expressible action per kind (each with content in every field) -/
example : Expressible (.sendMsg "hi".toList ["image:http://x/a.png".toList] ["yes".toList, "no".toList]
    false [] (some { name := "promo".toList, templateUuid := "t-1".toList, vars := ["v".toList] })) := by decide
example : Expressible (.sendMsg "hi".toList ["image:a".toList, "geo:1,2".toList] [] false [] none) := by decide
example : Expressible (.setContactField "Fav Food".toList "fav_food".toList [] "rice".toList) := by decide
example : Expressible (.setContactProp .language "fra".toList) := by decide
example : Expressible (.addGroups [{ name := "Grp A".toList, uuid := some "g-1".toList }]) := by decide
example : Expressible (.removeGroups [{ name := "Grp A".toList }] false) := by decide
example : Expressible (.setRunResult "score".toList "7".toList "Good".toList) := by decide
example : Expressible (.enterFlow "child".toList (some "f-1".toList)) := by decide
example : Expressible (.callWebhook "hook res".toList "http://x".toList "GET".toList "payload".toList
    [("Accept".toList, "text/plain".toList), ("X-K".toList, "1".toList)]) := by decide
example : Expressible (.transferAirtime "air".toList
    [("USD".toList, .int 5), ("KES".toList, .float "20.5".toList), ("RWF".toList, .int (-3))]) := by decide
example : Expressible (.addContactUrn "+1555".toList "whatsapp".toList) := by decide

/-! ### every clause of `Expressible` is forced: what the codec does outside it

Each witness is replayed on the REAL code by the C04 check (stream `witness`).  `lossy` = comes
back as a different action without any error; `loud` = the export or the compile step fails. -/

/-- send_msg, `text ≠ ""`: loud (send_msg action requires non-empty text) -/
theorem needs_text_nonempty :
    roundTrip (.sendMsg [] [] [] false [] none) = .error .emptyText := by decide
/-- send_msg, no empty attachment: lossy (normalisation: `_get_attachments` drops it) -/
theorem needs_no_empty_attachment :
    roundTrip (.sendMsg "hi".toList [[], "geo:1".toList] [] false [] none) =
      .ok [.sendMsg "hi".toList ["geo:1".toList] [] false [] none] := by decide
/-- send_msg, no empty quick reply: lossy (dropped by the compile side only) -/
theorem needs_no_empty_quick_reply :
    roundTrip (.sendMsg "hi".toList [] ["a".toList, [], "b".toList] false [] none) =
      .ok [.sendMsg "hi".toList [] ["a".toList, "b".toList] false [] none] := by decide
/-- send_msg, `MediaOk`: a lone media attachment comes back trimmed … -/
theorem needs_media_trimmed :
    roundTrip (.sendMsg "hi".toList ["image: http://x ".toList] [] false [] none) =
      .ok [.sendMsg "hi".toList ["image:http://x".toList] [] false [] none] := by decide
/-- … and vanishes when nothing follows the prefix (two attachments use the generic list and survive) -/
theorem needs_media_nonempty :
    roundTrip (.sendMsg "hi".toList ["audio:".toList] [] false [] none) =
      .ok [.sendMsg "hi".toList [] [] false [] none] ∧
    roundTrip (.sendMsg "hi".toList ["audio:".toList, "image: x".toList] [] false [] none) =
      .ok [.sendMsg "hi".toList ["audio:".toList, "image: x".toList] [] false [] none] := by decide
/-- send_msg, `all_urns`: lossy (no column) -/
theorem needs_no_all_urns :
    roundTrip (.sendMsg "hi".toList [] [] true [] none) = .ok [.sendMsg "hi".toList [] [] false [] none] := by
  decide
/-- send_msg, `topic`: lossy (no column) -/
theorem needs_no_topic :
    roundTrip (.sendMsg "hi".toList [] [] false "event".toList none) =
      .ok [.sendMsg "hi".toList [] [] false [] none] := by decide
/-- send_msg, templating needs a name: lossy (`if row.wa_template.name`) -/
theorem needs_template_name :
    roundTrip (.sendMsg "hi".toList [] [] false []
        (some { name := [], templateUuid := "t-1".toList, vars := ["v".toList] })) =
      .ok [.sendMsg "hi".toList [] [] false [] none] := by decide
/-- set_contact_field, key = generated key: LOSSY — the action comes back setting another field (F-C04-h) -/
theorem needs_generated_key :
    roundTrip (.setContactField "Fav-Food".toList "fav_food".toList [] "rice".toList) =
      .ok [.setContactField "Fav-Food".toList "fav-food".toList [] "rice".toList] := by decide
/-- set_contact_field, name must yield a key: loud -/
theorem needs_field_key :
    roundTrip (.setContactField "123".toList "123".toList [] "v".toList) = .error .keyNoLetter ∧
    roundTrip (.setContactField (List.replicate 37 'x') (List.replicate 37 'x') [] "v".toList) =
      .error .keyTooLong := by decide
/-- set_contact_field, field reference type: lossy (not exported) -/
theorem needs_no_field_type :
    roundTrip (.setContactField "Age".toList "age".toList "number".toList "3".toList) =
      .ok [.setContactField "Age".toList "age".toList [] "3".toList] := by decide
set_option maxRecDepth 8000 in
/-- set_contact_field / set_run_result, value length ≤ 640: loud; 640 itself passes -/
theorem needs_value_limit :
    roundTrip (.setContactField "Age".toList "age".toList [] (List.replicate 641 'v')) = .error .valueTooLong ∧
    roundTrip (.setRunResult "r".toList (List.replicate 641 'v') []) = .error .valueTooLong ∧
    roundTrip (.setRunResult "r".toList (List.replicate 640 'v') []) =
      .ok [.setRunResult "r".toList (List.replicate 640 'v') []] := by decide
/-- set_contact_*, value non-empty: loud -/
theorem needs_prop_value :
    roundTrip (.setContactProp .name []) = .error .emptyValue := by decide
/-- set_contact_channel with a channel reference: loud on export (`mainarg_value` must be text) -/
theorem needs_no_channel_ref :
    roundTrip (.setContactChannel "c-1".toList "Channel".toList) = .error .exportValidation := by decide
/-- group actions, at least one group: loud on export (IndexError), also for "remove from all groups" -/
theorem needs_a_group :
    roundTrip (.addGroups []) = .error .exportIndex ∧
    roundTrip (.removeGroups [] true) = .error .exportIndex := by decide
/-- group actions, uuids of the groups after the first: LOSSY — `obj_id` carries the first group's uuid
only; the others come back by name, without their uuid (what remains of F-C04-g) … -/
theorem needs_tail_uuids_kept :
    roundTrip (.addGroups [{ name := "A".toList, uuid := some "g-a".toList },
                           { name := "B".toList, uuid := some "g-b".toList }]) =
      .ok [.addGroups [{ name := "A".toList, uuid := some "g-a".toList }, { name := "B".toList }]] ∧
    (toFields (.addGroups [{ name := "A".toList, uuid := some "g-a".toList },
                           { name := "B".toList, uuid := some "g-b".toList }])).toOption.map
        (fun r => (r.mainargGroups, r.objId)) = some (["A".toList, "B".toList], "g-a".toList) := by decide
/-- … and a further group named like the first takes the first one's uuid (one dictionary entry per name) -/
theorem needs_tail_uuid_of_first_name :
    roundTrip (.removeGroups [{ name := "A".toList, uuid := some "g-a".toList }, { name := "A".toList }] false) =
      .ok [.removeGroups [{ name := "A".toList, uuid := some "g-a".toList },
                          { name := "A".toList, uuid := some "g-a".toList }] false] := by decide
/-- group actions, the groups after the first have no attributes either: lossy -/
theorem needs_no_tail_group_attrs :
    roundTrip (.addGroups [{ name := "A".toList }, { name := "B".toList, attrs := true }]) =
      .ok [.addGroups [{ name := "A".toList }, { name := "B".toList }]] := by decide
/-- group actions, uuid absent or non-empty: lossy (`""` reads as none) -/
theorem needs_group_uuid :
    roundTrip (.addGroups [{ name := "A".toList, uuid := some [] }]) =
      .ok [.addGroups [{ name := "A".toList, uuid := none }]] := by decide
/-- group actions, no query / status / system / count on the reference: lossy -/
theorem needs_no_group_attrs :
    roundTrip (.removeGroups [{ name := "A".toList, attrs := true }] false) =
      .ok [.removeGroups [{ name := "A".toList }] false] := by decide
/-- remove_contact_groups, `all_groups`: lossy (no column) -/
theorem needs_no_all_groups :
    roundTrip (.removeGroups [{ name := "A".toList }] true) =
      .ok [.removeGroups [{ name := "A".toList }] false] := by decide
/-- enter_flow, flow name: loud; uuid absent or non-empty: lossy -/
theorem needs_flow_name_and_uuid :
    roundTrip (.enterFlow [] (some "f-1".toList)) = .error .noFlowName ∧
    roundTrip (.enterFlow "child".toList (some [])) = .ok [.enterFlow "child".toList none] := by decide
/-- call_webhook: url and result name (loud), method of the list (loud; empty reads as POST),
result name must yield a key (loud) -/
theorem needs_webhook_fields :
    roundTrip (.callWebhook "wh".toList [] "GET".toList [] []) = .error .noUrlOrName ∧
    roundTrip (.callWebhook [] "http://x".toList "GET".toList [] []) = .error .noUrlOrName ∧
    roundTrip (.callWebhook "wh".toList "http://x".toList "PATCH".toList [] []) = .error .badMethod ∧
    roundTrip (.callWebhook "wh".toList "http://x".toList [] [] []) =
      .ok [.callWebhook "wh".toList "http://x".toList "POST".toList [] []] ∧
    roundTrip (.callWebhook "123".toList "http://x".toList "GET".toList [] []) = .error .keyNoLetter := by
  decide
/-- dictionaries have distinct keys (holds for every JSON object; the model's pair lists could repeat one) -/
theorem needs_distinct_keys :
    roundTrip (.callWebhook "wh".toList "http://x".toList "GET".toList []
        [("A".toList, "1".toList), ("B".toList, "2".toList), ("A".toList, "3".toList)]) =
      .ok [.callWebhook "wh".toList "http://x".toList "GET".toList []
        [("A".toList, "3".toList), ("B".toList, "2".toList)]] := by decide
/-- transfer_airtime: amounts and result name (loud), key (loud) -/
theorem needs_airtime_fields :
    roundTrip (.transferAirtime "air".toList []) = .error .noAmounts ∧
    roundTrip (.transferAirtime [] [("USD".toList, .int 5)]) = .error .noAmounts ∧
    roundTrip (.transferAirtime "1 2".toList [("USD".toList, .int 5)]) = .error .keyNoLetter := by decide
/-- a float amount is carried as its `repr` text: a float literal that is not an int literal
(true of every `repr(float)`; the model's texts are arbitrary) -/
theorem needs_float_text :
    roundTrip (.transferAirtime "air".toList [("USD".toList, .float "5".toList)]) =
      .ok [.transferAirtime "air".toList [("USD".toList, .int 5)]] ∧
    roundTrip (.transferAirtime "air".toList [("USD".toList, .float "five".toList)]) = .error .notNumeric := by
  decide
/-- add_contact_urn, scheme non-empty: lossy (`""` and `tel` share the empty cell) -/
theorem needs_scheme :
    roundTrip (.addContactUrn "+1".toList []) = .ok [.addContactUrn "+1".toList "tel".toList] ∧
    roundTrip (.addContactUrn "+1".toList "tel".toList) = .ok [.addContactUrn "+1".toList "tel".toList] := by
  decide
/-- the pass-through action types have no sheet form: loud on export -/
theorem needs_supported_type :
    ∀ t ∈ passThroughTypes, roundTrip (.unsupported t) = .error .exportNotImplemented := by decide

/-- compile-side quirk kept by the model: `row.type.replace("set_contact_", "")` removes every
occurrence, so these row types are accepted as set_contact_name rows -/
theorem replace_removes_every_occurrence :
    ofFields { type := "set_contact_set_contact_name".toList, mainargValue := "Bob".toList } =
      .ok [.setContactProp .name "Bob".toList] ∧
    ofFields { type := "set_contact_nameset_contact_".toList, mainargValue := "Bob".toList } =
      .ok [.setContactProp .name "Bob".toList] ∧
    ofFields { type := "set_contact_nick".toList, mainargValue := "Bob".toList } = .error .unknownProp := by
  decide

end ActionCodec

end Rpft.Props.C04
