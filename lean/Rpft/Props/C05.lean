/-
C05 — Loading and re-writing a RapidPro export is lossless.
-/
import Rpft.Lemmas.Reorder
import Rpft.DocumentWitness
import Rpft.DocumentUi
import Rpft.Gen.Tables
import Rpft.Canon
set_option linter.unusedSimpArgs false
set_option linter.unusedVariables false
namespace Rpft.Props.C05
open Rpft Rpft.Document Rpft.Document.Witness

/-- the action types the model treats as records / as pass-through -/
def specialTypes : List Str :=
  ["add_contact_groups", "enter_flow", "remove_contact_groups", "send_msg", "set_contact_channel",
   "set_contact_field", "set_contact_language", "set_contact_name", "set_contact_status",
   "set_contact_timezone", "set_run_result"].map String.toList
def passThroughTypes : List Str :=
  ["add_contact_urn", "add_input_labels", "call_classifier", "call_resthook", "call_webhook",
   "open_ticket", "play_audio", "say_msg", "send_broadcast", "send_email", "start_session",
   "transfer_airtime"].map String.toList

/-- T1: `action_map` of actions.py (regenerated each run): its pass-through classes
(`DefaultRenderedAction` and subclasses that do not override `render`) are exactly the types
the model passes through, all others are the model's records; the router test tables of
routers.py are the model's.  All four are sets (read off the behaviour of the code by
`harness/tables/t05_actions.py`): compared up to order. -/
theorem tables_agree :
    Canon.sameSet Gen.actionPassThrough passThroughTypes ∧
    Canon.sameSet (Gen.actionTypes.filter (fun t => !Gen.actionPassThrough.contains t)) specialTypes ∧
    Canon.sameSet Gen.routerTests routerTests ∧ Canon.sameSet Gen.routerNoArgTests noArgTests ∧
    Gen.contactFieldTypeBug = fieldTypeBug := by decide

/-! ### the round trip is lossless -/

/-- **C05, main statement.**  For every valid export document whose switch routers list
their default category last (`OrderedCats`), whose router nodes list their exits in
category order (`ExitsByCats`), without typed contact-field references (`UntypedFields`,
F-C05-a) and without attributes on top-level groups (`PlainGroups`, F-C05-b):
loading succeeds, rendering succeeds, and the rendered document is `≈` the input
(equal up to omitted empty optional keys, `_ui` on node positions, both keyword forms). -/
theorem render_load (d : DocD) (hv : Valid d) (ho : OrderedCats d) (hx : ExitsByCats d)
    (hu : UntypedFields d) (hp : PlainGroups d) :
    ∃ c o, load d = .ok c ∧ render c = .ok o ∧ o ≈ d := by
  have hn := nodeOk_of d hv ho hx hu
  exact ⟨docImg d, outDoc d, load_ok d hv hn, render_ok d hv hn, normDoc_outDoc d hv hn hp⟩

/-- the same, for the observable `from_dict(d).render()` -/
theorem roundtrip_lossless (d : DocD) (hv : Valid d) (ho : OrderedCats d) (hx : ExitsByCats d)
    (hu : UntypedFields d) (hp : PlainGroups d) : ∃ o, roundtrip d = .ok o ∧ o ≈ d := by
  obtain ⟨c, o, h1, h2, h3⟩ := render_load d hv ho hx hu hp
  exact ⟨o, by simp [roundtrip, h1, h2], h3⟩

/-- what is written is explicit: every field of the output is the input's field, except
the normalisations listed in `outDoc` (used by the idempotence theorem) -/
theorem roundtrip_eq (d : DocD) (hv : Valid d) (ho : OrderedCats d) (hx : ExitsByCats d)
    (hu : UntypedFields d) : roundtrip d = .ok (outDoc d) := by
  have hn := nodeOk_of d hv ho hx hu
  simp [roundtrip, load_ok d hv hn, render_ok d hv hn]

/-! ### repeated round trips are equal -/

/-- the output is explicit: `shapeDoc d` (the input with falsy optional values dropped,
`destination_uuid` always written, `_ui` reduced to positions in node order, group
attributes of the top-level list dropped, triggers in two-keyword form) -/
theorem roundtrip_shape (d : DocD) (hv : Valid d) (ho : OrderedCats d) (hx : ExitsByCats d)
    (hu : UntypedFields d) : roundtrip d = .ok (shapeDoc d) := by
  rw [roundtrip_eq d hv ho hx hu, outDoc_eq_shapeDoc d (nodeOk_of d hv ho hx hu)]

/-- **C05, repeated round trips** on the domain of `render_load` (lemma for
`render_load_idem`, which drops the ordering hypotheses).  The second round trip returns exactly the document the first one
returned — equality, not `≈`. -/
theorem render_load_idem_partial (d o : DocD) (hv : Valid d) (ho : OrderedCats d) (hx : ExitsByCats d)
    (hu : UntypedFields d) (h : roundtrip d = .ok o) : roundtrip o = .ok o := by
  rw [roundtrip_shape d hv ho hx hu] at h
  cases h
  rw [roundtrip_shape (shapeDoc d) (valid_shapeDoc d hv) (ordered_shapeDoc d ho) (exitsByCats_shapeDoc d hx)
    (untyped_shapeDoc d hu), shapeDoc_idem]

/-- **what F-C05-c and F-C05-d do, exactly.**  For a valid document whose categories are
wired to exits (`CatsWired`) but in ANY order, the round trip returns the shape of the
*reordered* document: categories of a switch router as others ++ [default] ++ [no-response],
exits of a router node in category order — nothing else changes. -/
theorem roundtrip_unordered (d : DocD) (hv : Valid d) (hw : CatsWired d) (hu : UntypedFields d) :
    roundtrip d = .ok (shapeDoc (reorderDoc d)) := by
  obtain ⟨ho, hx, hu'⟩ := hyps_reorderDoc d hv hw hu
  rw [← roundtrip_reorder d (nodeWired_of d hv hw)]
  exact roundtrip_shape (reorderDoc d) (valid_reorderDoc d hv hw) ho hx hu'

/-- **C05, repeated round trips, without the ordering hypotheses**: even when the first round
trip reorders categories and exits (F-C05-c, F-C05-d), the second one returns exactly what
the first one returned. -/
theorem render_load_idem (d o : DocD) (hv : Valid d) (hw : CatsWired d) (hu : UntypedFields d)
    (h : roundtrip d = .ok o) : roundtrip o = .ok o := by
  obtain ⟨ho, hx, hu'⟩ := hyps_reorderDoc d hv hw hu
  rw [← roundtrip_reorder d (nodeWired_of d hv hw)] at h
  exact render_load_idem_partial (reorderDoc d) o (valid_reorderDoc d hv hw) ho hx hu' h

/-- the unordered round trip is lossless up to the reordering: `o ≈ reorderDoc d` -/
theorem render_load_unordered (d : DocD) (hv : Valid d) (hw : CatsWired d) (hu : UntypedFields d)
    (hp : PlainGroups d) : ∃ o, roundtrip d = .ok o ∧ o ≈ reorderDoc d := by
  obtain ⟨ho, hx, hu'⟩ := hyps_reorderDoc d hv hw hu
  rw [← roundtrip_reorder d (nodeWired_of d hv hw)]
  exact roundtrip_lossless (reorderDoc d) (valid_reorderDoc d hv hw) ho hx hu' hp

/-- The unconditional statement (every document whose round trip succeeds).  NOT proved:
`render_load_idem` needs `Valid` (schema), `CatsWired` (every category names an exit of its
node, no two categories share an exit, default / timeout categories exist and differ) and
`UntypedFields` (F-C05-a).  Outside that domain (e.g. two categories sharing one exit, a
timeout of 0 seconds) idempotence is checked on every generated, quirk-stream and fixture
document by oracle C / the tie, not proved. -/
def C05_idem_full : Prop :=
  ∀ d o o' : DocD, roundtrip d = .ok o → roundtrip o = .ok o' → o' = o

/-- `render_load_idem` in the form of `C05_idem_full` -/
theorem render_load_idem_eq (d o o' : DocD) (hv : Valid d) (hw : CatsWired d) (hu : UntypedFields d)
    (h : roundtrip d = .ok o) (h' : roundtrip o = .ok o') : o' = o := by
  rw [render_load_idem d o hv hw hu h] at h'
  cases h'; rfl

/-- `Valid` is decidable: `validB` (served by the driver as `doc.hyps`, so that the harness
checks that every generated document lies inside the hypotheses of the theorems above) -/
theorem valid_decidable (d : DocD) : validB d = true ↔ Valid d := validB_iff d

/-! ### legacy triggers -/

/-- A legacy single-keyword trigger (`keyword`, no `keywords`) comes out carrying both
forms: the old `keyword` unchanged and the new `keywords = [keyword]` (`[]` for `null`). -/
theorem legacy_trigger (t : TriggerD) (k : Blob) (tc : TriggerC)
    (hk : t.keyword = some k) (hks : t.keywords = none) (h : loadTrigger t = .ok tc) :
    (renderTrigger tc).keyword = some k ∧
    (renderTrigger tc).keywords = some (if isNull k then [] else [k]) := by
  unfold loadTrigger at h
  simp only [hk, hks] at h
  by_cases hc : (t.type = strK ∧ firstFalsy (if isNull k = true then [] else [k]) = true)
  · rw [if_pos hc] at h; cases h
  · rw [if_neg hc] at h
    cases h
    by_cases hn : isNull k = true
    · have : k = jNull := by simpa [isNull] using hn
      subst this
      simp [renderTrigger, isNull]
    · simp [renderTrigger, hn]

/-- non-vacuity of `legacy_trigger`: a concrete legacy keyword trigger loads -/
example : (match loadTrigger wLegacy with | .ok _ => true | .error _ => false) = true := by decide

/-- the same at the API boundary: in `from_dict(d).render()` the i-th trigger of a document,
if legacy, comes out at position i with both keyword forms — for EVERY document whose round
trip succeeds (no validity hypothesis). -/
theorem legacy_trigger_doc (d o : DocD) (h : roundtrip d = .ok o) (i : Nat) (t : TriggerD) (k : Blob)
    (ht : d.triggers[i]? = some t) (hks : t.keywords = none) (hk : t.keyword = some k) :
    ∃ t', o.triggers[i]? = some t' ∧ t'.keyword = some k ∧
      t'.keywords = some (if isNull k then [] else [k]) := by
  unfold roundtrip at h
  cases hl : load d with
  | error e => simp [hl] at h
  | ok c =>
    simp only [hl] at h
    obtain ⟨gd, fd, ho⟩ := render_triggers c o h
    unfold load at hl
    split at hl
    · cases hl
    · split at hl
      · cases hl
      · split at hl
        · cases hl
        · rename_i ts hts
          cases hl
          obtain ⟨tc, htc, hi⟩ := mapE_getElem d.triggers ts i t hts ht
          obtain ⟨h1, h2⟩ := legacy_trigger t k tc hk hks htc
          refine ⟨renderTrigger { tc with flow := assignFlowRef fd tc.flow, groups := tc.groups.map (assignGroup gd), excludeGroups := tc.excludeGroups.map (assignGroup gd) }, ?_, ?_, ?_⟩
          · rw [ho]
            simp only [List.getElem?_map, hi, Option.map_some]
          · simpa [renderTrigger] using h1
          · simpa [renderTrigger] using h2

/-- `load` is a function of the document: the model cannot modify its input (the Python
counterpart — the caller's object is untouched — is checked on every case by the harness). -/
theorem load_pure (d d' : DocD) (h : d = d') : load d = load d' := by rw [h]

/-! ### concrete documents: non-vacuity and negative witnesses -/


/-- **non-vacuity** of `render_load`: `docRich` satisfies every hypothesis … -/
theorem docRich_hyps : Valid docRich ∧ OrderedCats docRich ∧ ExitsByCats docRich ∧ UntypedFields docRich ∧
    PlainGroups docRich := by
  refine ⟨⟨?_, ?_, ?_, ?_, ?_, ?_, ?_, ?_, ⟨?_, ?_⟩, ?_⟩, ?_, ?_, ?_, ?_⟩ <;> decide

/-- … and the kernel computes that its round trip is indeed lossless (an instance of the theorem,
evaluated independently of its proof) -/
theorem docRich_lossless : lossless docRich = true := by decide

/-- the round trip of the good document is lossless (computed by the kernel) -/
theorem docGood_lossless : lossless docGood = true := by decide

/-- executable form of "the second round trip equals the first" -/
def idempotentOn (d : DocD) : Bool :=
  match roundtrip d with
  | .ok o => (match roundtrip o with | .ok o' => o' == o | .error _ => false)
  | .error _ => false

/-- **non-vacuity** of `render_load_idem` / `roundtrip_unordered` on documents the first round
trip does change: the F-C05-c and F-C05-d witnesses satisfy the hypotheses, … -/
theorem idem_hyps_unordered :
    (Valid docDefaultFirst ∧ CatsWired docDefaultFirst ∧ UntypedFields docDefaultFirst) ∧
    (Valid docExitsPermuted ∧ CatsWired docExitsPermuted ∧ UntypedFields docExitsPermuted) ∧
    (Valid docRich ∧ CatsWired docRich ∧ UntypedFields docRich) := by
  refine ⟨⟨⟨?_, ?_, ?_, ?_, ?_, ?_, ?_, ?_, ⟨?_, ?_⟩, ?_⟩, ?_, ?_⟩, ⟨⟨?_, ?_, ?_, ?_, ?_, ?_, ?_, ?_, ⟨?_, ?_⟩, ?_⟩, ?_, ?_⟩,
    ⟨⟨?_, ?_, ?_, ?_, ?_, ?_, ?_, ?_, ⟨?_, ?_⟩, ?_⟩, ?_, ?_⟩⟩ <;> decide

/-- … and the kernel computes the instances: the first trip is not lossless there, the second
returns what the first returned, and the first returns `shapeDoc (reorderDoc d)`. -/
theorem idem_instances :
    idempotentOn docDefaultFirst = true ∧ idempotentOn docExitsPermuted = true ∧ idempotentOn docRich = true ∧
    (match roundtrip docDefaultFirst with | .ok o => o == shapeDoc (reorderDoc docDefaultFirst) | .error _ => false) = true ∧
    reorderDoc docDefaultFirst ≠ docDefaultFirst := by decide

/-- `lossless` is the executable form of the conclusion of `roundtrip_lossless` -/
theorem lossless_iff (d : DocD) : lossless d = true ↔ ∃ o, roundtrip d = .ok o ∧ o ≈ d := by
  unfold lossless Equiv
  cases roundtrip d with
  | error e => simp
  | ok o => simp

def AllButOrdered (d : DocD) : Prop := Valid d ∧ ExitsByCats d ∧ UntypedFields d ∧ PlainGroups d
def AllButExits (d : DocD) : Prop := Valid d ∧ OrderedCats d ∧ UntypedFields d ∧ PlainGroups d
def AllButUntyped (d : DocD) : Prop := Valid d ∧ OrderedCats d ∧ ExitsByCats d ∧ PlainGroups d
def AllButPlain (d : DocD) : Prop := Valid d ∧ OrderedCats d ∧ ExitsByCats d ∧ UntypedFields d

/-- **negative witness** for `OrderedCats` (F-C05-c): every other hypothesis holds, yet the
conclusion of `roundtrip_lossless` is false — the round trip reorders categories and exits. -/
theorem render_load_needs_OrderedCats :
    AllButOrdered docDefaultFirst ∧ ¬ ∃ o, roundtrip docDefaultFirst = .ok o ∧ o ≈ docDefaultFirst := by
  rw [← lossless_iff]
  refine ⟨⟨⟨?_, ?_, ?_, ?_, ?_, ?_, ?_, ?_, ⟨?_, ?_⟩, ?_⟩, ?_, ?_, ?_⟩, ?_⟩ <;> decide

/-- **negative witness** for `ExitsByCats` (F-C05-d). -/
theorem render_load_needs_ExitsByCats :
    AllButExits docExitsPermuted ∧ ¬ ∃ o, roundtrip docExitsPermuted = .ok o ∧ o ≈ docExitsPermuted := by
  rw [← lossless_iff]
  refine ⟨⟨⟨?_, ?_, ?_, ?_, ?_, ?_, ?_, ?_, ⟨?_, ?_⟩, ?_⟩, ?_, ?_, ?_⟩, ?_⟩ <;> decide

/-- former finding F-C05-a (fixed in /repo): a typed contact-field reference now survives the
round trip — the `UntypedFields` hypothesis is conservative. -/
theorem typed_field_roundtrips :
    ∃ o, roundtrip docTypedField = .ok o ∧ o ≈ docTypedField := by
  rw [← lossless_iff]; decide

/-- **negative witness** for `PlainGroups` (F-C05-b). -/
theorem render_load_needs_PlainGroups :
    AllButPlain docGroupQuery ∧ ¬ ∃ o, roundtrip docGroupQuery = .ok o ∧ o ≈ docGroupQuery := by
  rw [← lossless_iff]
  refine ⟨⟨⟨?_, ?_, ?_, ?_, ?_, ?_, ?_, ?_, ⟨?_, ?_⟩, ?_⟩, ?_, ?_, ?_⟩, ?_⟩ <;> decide

/-- **`Valid` is not gratuitous**: one document per clause of `Valid` that the code forces
(referenced groups listed; attachments non-empty; timeout > 0; no `HARD_EXIT` destination).
Each satisfies the four named hypotheses, violates only that clause, and its round trip is
NOT lossless (kernel-computed; replayed on the real code by the harness). -/
theorem valid_clauses_needed :
    (∀ d ∈ [docOutsideUnlistedGroup, docOutsideEmptyAttachment, docOutsideZeroTimeout, docOutsideHardExit],
      validB d = false ∧ OrderedCats d ∧ ExitsByCats d ∧ UntypedFields d ∧ PlainGroups d ∧ lossless d = false) := by
  decide

/-- **`_ui` entries of splits name the whole operand path.**  `render_ui` re-derives `type` and
`config` of a `_ui.nodes` entry from the node; for a split by contact field / flow result the
operand shown is everything behind the namespace, with one, two or three dotted segments alike
(`@results.quiz.category` is the category of the result `quiz`, not the result `quiz`), and a
router that waits is a `wait_for_response` whatever its operand.  Kernel-computed instances of
`switchUi`; the function itself is tied to the code by the differential run (every `_ui` entry
of the model's round trip against the real one). -/
theorem ui_operand_whole_path :
    (∀ p ∈ ["quiz", "quiz.category", "a.b.c"].map String.toList,
      switchUi false ("@results.".toList ++ p) = ⟨"split_by_run_result".toList, .cases (some (p, "result".toList, p))⟩ ∧
      switchUi false ("@fields.".toList ++ p) = ⟨"split_by_contact_field".toList, .cases (some (p, "field".toList, p))⟩ ∧
      switchUi false ("@contact.".toList ++ p) = ⟨"split_by_contact_field".toList, .cases (some (p, "field".toList, p))⟩ ∧
      switchUi true ("@results.".toList ++ p) = ⟨"wait_for_response".toList, .cases none⟩) ∧
    (∀ p ∈ ["name", "language", "channel"].map String.toList,
      switchUi false ("@contact.".toList ++ p) = ⟨"split_by_contact_field".toList, .cases (some (p, "property".toList, capitalize p))⟩ ∧
      switchUi false ("@contact.".toList ++ p ++ ".x".toList) =
        ⟨"split_by_contact_field".toList, .cases (some (p ++ ".x".toList, "field".toList, p ++ ".x".toList))⟩) ∧
    (∀ o ∈ ["@results", "@fields", "@contact", "@result.x.y", "@contacts.a.b", "@input.text"].map String.toList,
      switchUi false o = ⟨"split_by_expression".toList, .cases none⟩) := by
  decide

end Rpft.Props.C05
