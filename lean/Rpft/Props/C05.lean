/-
C05 — Loading and re-writing a RapidPro export is lossless.
-/
import Rpft.Lemmas.Document
import Rpft.Gen.Tables
set_option linter.unusedSimpArgs false
set_option linter.unusedVariables false
namespace Rpft.Props.C05
open Rpft Rpft.Document

/-- the action types the model treats as records / as pass-through -/
def specialTypes : List Str :=
  ["add_contact_groups", "enter_flow", "remove_contact_groups", "send_msg", "set_contact_channel",
   "set_contact_field", "set_contact_language", "set_contact_name", "set_contact_status",
   "set_contact_timezone", "set_run_result"].map String.toList
def passThroughTypes : List Str :=
  ["add_contact_urn", "add_input_labels", "call_classifier", "call_resthook", "call_webhook",
   "open_ticket", "play_audio", "say_msg", "send_broadcast", "send_email", "start_session",
   "transfer_airtime"].map String.toList

/-- T1: `action_map` of actions.py (regenerated each run): its pass-through classes
(`DefaultRenderedAction` and subclasses that do not override `render`) are exactly the types
the model passes through, all others are the model's records; the router test tables of
routers.py are the model's. -/
theorem tables_agree :
    Gen.actionPassThrough = passThroughTypes ∧
    Gen.actionTypes.filter (fun t => !Gen.actionPassThrough.contains t) = specialTypes ∧
    Gen.routerTests = routerTests ∧ Gen.routerNoArgTests = noArgTests := by decide

/-! ### the round trip is lossless -/

/-- **C05, main statement.**  For every valid export document whose switch routers list
their default category last (`OrderedCats`), whose router nodes list their exits in
category order (`ExitsByCats`), without typed contact-field references (`UntypedFields`,
F-C05-a) and without attributes on top-level groups (`PlainGroups`, F-C05-b):
loading succeeds, rendering succeeds, and the rendered document is `≈` the input
(equal up to omitted empty optional keys, `_ui` on node positions, both keyword forms). -/
theorem render_load (d : DocD) (hv : Valid d) (ho : OrderedCats d) (hx : ExitsByCats d)
    (hu : UntypedFields d) (hp : PlainGroups d) :
    ∃ c o, load d = .ok c ∧ render c = .ok o ∧ o ≈ d := by
  have hn := nodeOk_of d hv ho hx hu
  exact ⟨docImg d, outDoc d, load_ok d hv hn, render_ok d hv hn, normDoc_outDoc d hv hn hp⟩

/-- the same, for the observable `from_dict(d).render()` -/
theorem roundtrip_lossless (d : DocD) (hv : Valid d) (ho : OrderedCats d) (hx : ExitsByCats d)
    (hu : UntypedFields d) (hp : PlainGroups d) : ∃ o, roundtrip d = .ok o ∧ o ≈ d := by
  obtain ⟨c, o, h1, h2, h3⟩ := render_load d hv ho hx hu hp
  exact ⟨o, by simp [roundtrip, h1, h2], h3⟩

/-- what is written is explicit: every field of the output is the input's field, except
the normalisations listed in `outDoc` (used by the idempotence theorem) -/
theorem roundtrip_eq (d : DocD) (hv : Valid d) (ho : OrderedCats d) (hx : ExitsByCats d)
    (hu : UntypedFields d) : roundtrip d = .ok (outDoc d) := by
  have hn := nodeOk_of d hv ho hx hu
  simp [roundtrip, load_ok d hv hn, render_ok d hv hn]

/-! ### legacy triggers -/

/-- A legacy single-keyword trigger (`keyword`, no `keywords`) comes out carrying both
forms: the old `keyword` unchanged and the new `keywords = [keyword]` (`[]` for `null`). -/
theorem legacy_trigger (t : TriggerD) (k : Blob) (tc : TriggerC)
    (hk : t.keyword = some k) (hks : t.keywords = none) (h : loadTrigger t = .ok tc) :
    (renderTrigger tc).keyword = some k ∧
    (renderTrigger tc).keywords = some (if isNull k then [] else [k]) := by
  unfold loadTrigger at h
  simp only [hk, hks] at h
  by_cases hc : (t.type = strK ∧ firstFalsy (if isNull k = true then [] else [k]) = true)
  · rw [if_pos hc] at h; cases h
  · rw [if_neg hc] at h
    cases h
    by_cases hn : isNull k = true
    · have : k = jNull := by simpa [isNull] using hn
      subst this
      simp [renderTrigger, isNull]
    · simp [renderTrigger, hn]

/-- non-vacuity of `legacy_trigger`: a concrete legacy keyword trigger loads -/
def wLegacy : TriggerD :=
  { type := strK, keyword := some "\"hi\"".toList, keywords := none, channel := jNull, matchType := none,
    flow := { name := "f".toList, uuid := "u".toList }, groups := [], excludeGroups := none }
example : (match loadTrigger wLegacy with | .ok _ => true | .error _ => false) = true := by decide

/-! ### concrete documents: non-vacuity and negative witnesses -/

section witnesses

def wExit (u : String) : ExitD := { uuid := u.toList, dest := none }
def wFlow (nodes : List NodeD) : FlowD :=
  { uuid := "f1".toList, name := "flow".toList, language := "\"eng\"".toList, type := "\"messaging\"".toList,
    specVersion := "\"13.1.0\"".toList, revision := "1".toList, expire := "10080".toList,
    metadata := jEmptyObj, localization := jEmptyObj, nodes := nodes, ui := none }
def wDoc (nodes : List NodeD) (groups : List GroupD := []) : DocD :=
  { campaigns := [], fields := jEmptyArr, flows := [wFlow nodes], groups := groups,
    site := "\"https://example.org\"".toList, triggers := [], version := "\"13\"".toList }
def wCat (u name e : String) : CategoryD := { uuid := u.toList, name := name.toList, exitUuid := e.toList }
def wSwitch (cats : List CategoryD) (dflt : String) : RouterD :=
  .switch "\"@input.text\"".toList [] cats dflt.toList none none

/-- default category last, exits in category order: inside every hypothesis -/
def docGood : DocD :=
  wDoc [{ uuid := "n1".toList, actions := [], exits := [wExit "e1", wExit "e2"],
          router := some (wSwitch [wCat "c1" "Yes" "e1", wCat "c2" "Other" "e2"] "c2") }]

/-- the default category comes first (F-C05-c) -/
def docDefaultFirst : DocD :=
  wDoc [{ uuid := "n1".toList, actions := [], exits := [wExit "e2", wExit "e1"],
          router := some (wSwitch [wCat "c2" "Other" "e2", wCat "c1" "Yes" "e1"] "c2") }]

/-- exits not in category order (F-C05-d) -/
def docExitsPermuted : DocD :=
  wDoc [{ uuid := "n1".toList, actions := [], exits := [wExit "e2", wExit "e1"],
          router := some (wSwitch [wCat "c1" "Yes" "e1", wCat "c2" "Other" "e2"] "c2") }]

/-- a typed contact-field reference (F-C05-a) -/
def docTypedField : DocD :=
  wDoc [{ uuid := "n1".toList, router := none, exits := [wExit "e1"],
          actions := [.setContactField "\"a1\"".toList "\"Age\"".toList "\"age\"".toList (some "\"number\"".toList) "\"7\"".toList] }]

/-- a top-level group with a query (F-C05-b) -/
def docGroupQuery : DocD :=
  wDoc [] [{ name := "g".toList, uuid := "u".toList, query := some "\"age > 18\"".toList }]

end witnesses

/-- the round trip of the good document is lossless (computed by the kernel) -/
theorem docGood_lossless : lossless docGood = true := by decide

/-- **negative witness** for `OrderedCats`: without it the statement is false — the
document is valid, its exits follow its categories, yet the round trip reorders it. -/
theorem render_load_needs_OrderedCats :
    (∀ n ∈ allNodes docDefaultFirst, exitsByCats n = true) ∧ lossless docDefaultFirst = false := by decide

/-- **negative witness** for `ExitsByCats`. -/
theorem render_load_needs_ExitsByCats :
    (∀ n ∈ allNodes docExitsPermuted, (n.router.map orderedRouter).getD true = true) ∧
    lossless docExitsPermuted = false := by decide

/-- **negative witness** for `UntypedFields` (F-C05-a). -/
theorem render_load_needs_UntypedFields : lossless docTypedField = false := by decide

/-- **negative witness** for `PlainGroups` (F-C05-b). -/
theorem render_load_needs_PlainGroups : lossless docGroupQuery = false := by decide

end Rpft.Props.C05
