/-
C05 — Loading and re-writing a RapidPro export is lossless.
-/
import Rpft.Document
import Rpft.Gen.Tables
set_option linter.unusedSimpArgs false
set_option linter.unusedVariables false
namespace Rpft.Props.C05
open Rpft Rpft.Document

/-- the action types the model treats as records / as pass-through -/
def specialTypes : List Str :=
  ["add_contact_groups", "enter_flow", "remove_contact_groups", "send_msg", "set_contact_channel",
   "set_contact_field", "set_contact_language", "set_contact_name", "set_contact_status",
   "set_contact_timezone", "set_run_result"].map String.toList
def passThroughTypes : List Str :=
  ["add_contact_urn", "add_input_labels", "call_classifier", "call_resthook", "call_webhook",
   "open_ticket", "play_audio", "say_msg", "send_broadcast", "send_email", "start_session",
   "transfer_airtime"].map String.toList

/-- T1: `action_map` of actions.py (regenerated each run): its pass-through classes
(`DefaultRenderedAction` and subclasses that do not override `render`) are exactly the types
the model passes through, all others are the model's records; the router test tables of
routers.py are the model's. -/
theorem tables_agree :
    Gen.actionPassThrough = passThroughTypes ∧
    Gen.actionTypes.filter (fun t => !Gen.actionPassThrough.contains t) = specialTypes ∧
    Gen.routerTests = routerTests ∧ Gen.routerNoArgTests = noArgTests := by decide

end Rpft.Props.C05
